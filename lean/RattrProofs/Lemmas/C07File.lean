/-
  C07 for the single-file pipeline (RattrModel/CrashFile.lean): under `NoCrashShapeFile` the models of
  the root-context builder, the file / class analysers and the front of `Pipeline.run` never end in a
  crash outcome.

    part A  entry-wise invariants of a context (`GoodCtx`: sane + no starred import)
    part B  stage S2: `RootCtx.registerL` under `registerLOk`
    part C  stage S4: `FileA.visitTops` under `visitTopsOk` / `classesBoundL`, from a sane context
    part D  composition: `RootCtx.compile`, `FileA.analyseFile`, `Pipeline.run`
-/
import RattrModel.CrashFile
import RattrProofs.Lemmas.C07WideInduction
import RattrProofs.Lemmas.RootContext
import RattrProofs.Lemmas.Pipeline

namespace Rattr.C07
open Rattr Rattr.FnA Rattr.Crash Rattr.Strs Rattr.RootCtx Rattr.FileA

/-! ## part A: entry-wise invariants -/

/-- sane, and not a starred import (`<module>.*`). -/
def goodEntry (p : Str × Sym) : Bool :=
  saneEntry p && !(p.2.kind == .import_ && p.2.name.getLast? == some '*')

def GoodCtx (c : Context) : Bool := c.all fun sc => sc.all goodEntry

theorem goodEntry_sane {p : Str × Sym} (h : goodEntry p = true) : saneEntry p = true := by
  simp only [goodEntry, Bool.and_eq_true] at h; exact h.1

theorem GoodCtx.sane {c : Context} (h : GoodCtx c = true) : SaneCtx c = true := by
  unfold GoodCtx at h
  unfold SaneCtx
  rw [List.all_eq_true] at h ⊢
  intro sc hsc
  have := h sc hsc
  rw [List.all_eq_true] at this ⊢
  intro p hp
  exact goodEntry_sane (this p hp)

theorem GoodCtx.noStar {c : Context} (h : GoodCtx c = true) : Pipeline.hasStarred c = false := by
  unfold Pipeline.hasStarred scopeSyms
  cases c with
  | nil => simp
  | cons sc r =>
    simp only [GoodCtx, List.all_cons, Bool.and_eq_true] at h
    simp only [List.head?_cons, Option.getD_some, List.any_map]
    rw [Bool.eq_false_iff]
    intro hany
    rw [List.any_eq_true] at hany
    obtain ⟨p, hp, hq⟩ := hany
    have := List.all_eq_true.mp h.1 p hp
    simp only [goodEntry, Bool.and_eq_true, Bool.not_eq_true'] at this
    simp only [Function.comp] at hq
    rw [this.2] at hq
    cases hq

/-- a symbol that may be added under its own name. -/
def AddG (sy : Sym) : Prop := goodEntry (sy.name, sy) = true

theorem addG_of_kind {sy : Sym} (h : sy.kind ≠ .import_) : AddG sy := by
  unfold AddG goodEntry saneEntry
  simp [h]

theorem addG_nameSym (n : Str) : AddG (Context.nameSym n) := addG_of_kind (by simp [Context.nameSym])
theorem addG_funcSym (n : Str) (i : Iface Str) : AddG (funcSym n i) := addG_of_kind (by simp [funcSym])
theorem addG_clsSym (n : Str) (i : Iface Str) : AddG (clsSym n i) := addG_of_kind (by simp [clsSym])

theorem good_add {c : Context} {sy : Sym} (b : Bool) (hc : GoodCtx c = true) (hs : AddG sy) :
    GoodCtx (Context.add c sy b) = true := by
  unfold Context.add
  split
  · cases c with
    | nil =>
      have : goodEntry (sy.name, sy) = true := hs
      simp [GoodCtx, this]
    | cons sc r =>
      simp only [GoodCtx, List.all_cons, Bool.and_eq_true] at hc ⊢
      exact ⟨all_set sc _ _ hc.1 hs, hc.2⟩
  · exact hc

theorem good_remove {c : Context} (x : Str) (hc : GoodCtx c = true) : GoodCtx (Context.remove c x) = true := by
  cases c with
  | nil => simp [Context.remove, GoodCtx]
  | cons sc r =>
    simp only [GoodCtx, List.all_cons, Bool.and_eq_true, Context.remove] at hc ⊢
    exact ⟨all_eraseKey sc x hc.1, hc.2⟩

theorem good_foldl_add {c : Context} (names : List Str) (mk : Str → Sym) (hc : GoodCtx c = true)
    (hm : ∀ n, AddG (mk n)) : GoodCtx (names.foldl (fun c n => Context.add c (mk n)) c) = true := by
  induction names generalizing c with
  | nil => exact hc
  | cons n r ih => exact ih (good_add false hc (hm n))

theorem good_foldl_remove {c : Context} (names : List Str) (hc : GoodCtx c = true) :
    GoodCtx (names.foldl (fun c n => Context.remove c n) c) = true := by
  induction names generalizing c with
  | nil => exact hc
  | cons n r ih => exact ih (good_remove n hc)

/-- the part of `goodEntry` that only looks at the symbol. -/
def symGood (sy : Sym) : Bool :=
  sy.kind != .import_ || (!xattrBuiltins.contains sy.qual && sy.name.getLast? != some '*')

theorem goodEntry_symGood {p : Str × Sym} (h : goodEntry p = true) : symGood p.2 = true := by
  unfold goodEntry saneEntry at h
  unfold symGood
  cases hk : (p.2.kind != SymKind.import_) with
  | true => rfl
  | false =>
    have hk' : (p.2.kind == SymKind.import_) = true := by
      cases hb : (p.2.kind == SymKind.import_) with
      | true => rfl
      | false => simp [bne, hb] at hk
    rw [hk, hk'] at h
    simp only [Bool.false_or, Bool.true_and, Bool.and_eq_true, Bool.not_eq_true'] at h
    obtain ⟨⟨_, hq⟩, hl⟩ := h
    simp only [Bool.false_or, Bool.and_eq_true, Bool.not_eq_true']
    refine ⟨hq, ?_⟩
    cases hb : (p.2.name.getLast? == some '*') with
    | true => rw [hb] at hl; cases hl
    | false => simp [bne, hb]

theorem addG_of_symGood {sy : Sym} (h : symGood sy = true) : AddG sy := by
  unfold AddG goodEntry saneEntry
  unfold symGood at h
  cases hk : (sy.kind != SymKind.import_) with
  | true =>
    have hk' : (sy.kind == SymKind.import_) = false := by
      cases hb : (sy.kind == SymKind.import_) with
      | false => rfl
      | true => simp [bne, hb] at hk
    simp [hk']
  | false =>
    rw [hk] at h
    simp only [Bool.false_or, Bool.and_eq_true, Bool.not_eq_true'] at h
    have hl : (sy.name.getLast? == some '*') = false := by
      cases hb : (sy.name.getLast? == some '*') with
      | false => rfl
      | true => have := h.2; simp [bne, hb] at this
    have hq' : ¬ sy.qual ∈ xattrBuiltins := by
      intro hm
      have : xattrBuiltins.contains sy.qual = true := by simpa using hm
      rw [h.1] at this; cases this
    simp [hq', hl]

/-- every symbol of the current table of a good context is good. -/
theorem good_scopeSym {c : Context} {sy : Sym} (hc : GoodCtx c = true) (h : sy ∈ scopeSyms c) : symGood sy = true := by
  unfold scopeSyms at h
  rw [List.mem_map] at h
  obtain ⟨p, hp, hps⟩ := h
  cases c with
  | nil => simp at hp
  | cons sc r =>
    simp only [GoodCtx, List.all_cons, Bool.and_eq_true] at hc
    simp only [List.head?_cons, Option.getD_some] at hp
    rw [← hps]
    exact goodEntry_symGood (List.all_eq_true.mp hc.1 p hp)

/-- `attrs.evolve(inner, name=…)` stays good when the new name does not end in `*`. -/
theorem symGood_evolveName {inner : Sym} (name : Str) (h : symGood inner = true)
    (hn : (name.getLast? != some '*') = true) : symGood (evolveName inner name) = true := by
  unfold symGood at *
  cases hk : (inner.kind != SymKind.import_) with
  | true => simp [evolveName, hk]
  | false =>
    rw [hk] at h
    simp only [Bool.false_or, Bool.and_eq_true] at h
    have hk' : (inner.kind == SymKind.import_) = true := by
      cases hb : (inner.kind == SymKind.import_) with
      | true => rfl
      | false => simp [bne, hb] at hk
    have hki : inner.kind = SymKind.import_ := by simpa using hk'
    have hf : (inner.kind == SymKind.func || inner.kind == SymKind.cls) = false := by rw [hki]; rfl
    simp only [evolveName, hk, Bool.false_or, hf, Bool.false_eq_true, if_false, Bool.and_eq_true]
    exact ⟨h.1, hn⟩

theorem initial_good (bs : List Str) : GoodCtx (initial bs) = true := by
  unfold initial GoodCtx
  simp only [List.all_cons, List.all_nil, Bool.and_true, List.all_append, Bool.and_eq_true]
  constructor
  · rw [List.all_eq_true]
    intro p hp
    rw [List.mem_map] at hp
    obtain ⟨n, _, rfl⟩ := hp
    exact addG_nameSym n
  · rw [List.all_eq_true]
    intro p hp
    rw [List.mem_map] at hp
    obtain ⟨n, _, rfl⟩ := hp
    exact addG_of_kind (sy := builtinSym n) (by simp [builtinSym])

/-! ## part B: the root-context builder -/

/-- not an unhandled exception, and a normal outcome has a good context. -/
def GoodR (r : Res) : Prop := NC r ∧ ∀ s', r = .ok s' → GoodCtx s'.ctx = true

theorem gr_ok {s : St} (h : GoodCtx s.ctx = true) : GoodR (.ok s) :=
  ⟨nc_ok s, fun s' e => by injection e with e; subst e; exact h⟩

theorem gr_fatal (s : St) (d : Diag) : GoodR (.fatal s d) := ⟨nc_fatal s d, fun s' e => by cases e⟩

theorem gr_bind {r : Res} {f : St → Res} (hr : GoodR r) (hf : ∀ s, GoodCtx s.ctx = true → GoodR (f s)) :
    GoodR (r >>>= f) := by
  cases r with
  | ok s => exact hf s (hr.2 s rfl)
  | fatal s d => exact gr_fatal s d
  | crash s e => exact absurd rfl (hr.1 s e)

theorem gr_liftName {s : St} {r : NameRes} {f : Str → Str → Res} (hr : ∀ e, r ≠ .crash e)
    (hf : ∀ b fl, GoodR (f b fl)) : GoodR (liftName s r f) := by
  cases r with
  | ok b fl => exact hf b fl
  | fatal d => exact gr_fatal _ _
  | crash e => exact absurd rfl (hr e)

theorem gr_addIdentifiers {s : St} {t : Node} (hs : GoodCtx s.ctx = true) (h : unravelOk t = true) :
    GoodR (addIdentifiers s t) := by
  refine ⟨nc_addIdentifiers h, ?_⟩
  intro s' e
  unfold addIdentifiers at e
  split at e
  · injection e with e; subst e; exact good_foldl_add _ _ hs addG_nameSym
  · cases e
  · cases e

theorem gr_addIdentifiersL : ∀ (l : List Node) (s : St), GoodCtx s.ctx = true → l.all unravelOk = true →
    GoodR (addIdentifiersL s l)
  | [], s, hs, _ => by unfold addIdentifiersL; exact gr_ok hs
  | t :: r, s, hs, h => by
    simp only [List.all_cons, Bool.and_eq_true] at h
    unfold addIdentifiersL
    exact gr_bind (gr_addIdentifiers hs h.1) (fun s hs => gr_addIdentifiersL r s hs h.2)

theorem gr_removeIdentifiers {s : St} {t : Node} (hs : GoodCtx s.ctx = true) (h : unravelFullOk t = true) :
    GoodR (removeIdentifiers s t) := by
  refine ⟨nc_removeIdentifiers h, ?_⟩
  intro s' e
  unfold removeIdentifiers at e
  split at e
  · injection e with e; subst e; exact good_foldl_remove _ hs
  · cases e
  · cases e

theorem gr_removeIdentifiersL : ∀ (l : List Node) (s : St), GoodCtx s.ctx = true → l.all unravelFullOk = true →
    GoodR (removeIdentifiersL s l)
  | [], s, hs, _ => by unfold removeIdentifiersL; exact gr_ok hs
  | t :: r, s, hs, h => by
    simp only [List.all_cons, Bool.and_eq_true] at h
    unfold removeIdentifiersL
    exact gr_bind (gr_removeIdentifiers hs h.1) (fun s hs => gr_removeIdentifiersL r s hs h.2)

/-! ### imports -/

theorem importSym_addG (f : Facts) (name qual : Str) (hn : name ≠ ['*']) (hq : xattrBuiltins.contains qual = false)
    (hl : name.getLast? ≠ some '*') : AddG (importSym f name qual) := by
  have hq' : ¬ qual ∈ xattrBuiltins := by
    intro hm
    have : xattrBuiltins.contains qual = true := by simpa using hm
    rw [hq] at this; cases this
  unfold AddG goodEntry saneEntry importSym
  simp [hn, hq', hl]

theorem getLast_ne_star {name : Str} (h : (name.getLast? != some '*') = true) : name ≠ ['*'] ∧ name.getLast? ≠ some '*' := by
  have h2 : name.getLast? ≠ some '*' := by simpa using h
  refine ⟨?_, h2⟩
  intro e; subst e; simp at h2

theorem gr_addImport (f : Facts) (s : St) (name qual m : Str) (hs : GoodCtx s.ctx = true)
    (hn : (name.getLast? != some '*') = true) (hq : xattrBuiltins.contains qual = false) :
    GoodR (addImport f s name qual m) := by
  obtain ⟨hne, hl⟩ := getLast_ne_star hn
  unfold addImport
  split
  · exact gr_fatal _ _
  · simp only [hne, if_false]
    exact gr_ok (good_add false hs (importSym_addG f name qual hne hq hl))

theorem gr_addPlainImports (f : Facts) : ∀ (aliases : List Alias) (s : St), GoodCtx s.ctx = true →
    aliases.all aliasOk = true → GoodR (addPlainImports f aliases s)
  | [], s, hs, _ => by unfold addPlainImports; exact gr_ok hs
  | a :: r, s, hs, h => by
    simp only [List.all_cons, Bool.and_eq_true] at h
    unfold addPlainImports
    have ha := h.1
    simp only [aliasOk, Bool.and_eq_true, Bool.not_eq_true'] at ha
    exact gr_bind (gr_addImport f s _ _ _ hs ha.2 ha.1) (fun s hs => gr_addPlainImports f r s hs h.2)

theorem gr_addFromImports (f : Facts) (m : Str) : ∀ (aliases : List Alias) (s : St), GoodCtx s.ctx = true →
    aliases.all fromAliasOk = true → GoodR (addFromImports f m aliases s)
  | [], s, hs, _ => by unfold addFromImports; exact gr_ok hs
  | a :: r, s, hs, h => by
    simp only [List.all_cons, Bool.and_eq_true] at h
    unfold addFromImports
    exact gr_bind (gr_addImport f s _ _ _ hs h.1 (dot_not_xattr m a.name))
      (fun s hs => gr_addFromImports f m r s hs h.2)

theorem gr_visitImportFrom (f : Facts) (m : Option Str) (lvl : Nat) (aliases : List Alias)
    (abs : Str) (sf co : Bool) (s : St) (hs : GoodCtx s.ctx = true) (h : importFromOk aliases lvl co = true) :
    GoodR (visitImportFrom f m lvl aliases abs sf co s) := by
  simp only [importFromOk, Bool.and_eq_true, Bool.not_eq_true', Bool.or_eq_true, beq_iff_eq] at h
  obtain ⟨⟨hstar, hlvl⟩, hal⟩ := h
  unfold visitImportFrom
  simp only [hstar, Bool.false_and, Bool.false_eq_true, if_false]
  split
  · rename_i hl
    have hco : co = true := by
      rcases hlvl with h0 | h0
      · simp [h0] at hl
      · exact h0
    simp only [hco, Bool.not_true, Bool.false_eq_true, if_false]
    refine gr_addFromImports f abs aliases _ ?_ hal
    split <;> exact hs
  · split
    · exact gr_fatal _ _
    · exact gr_addFromImports f _ aliases _ hs hal

/-! ### assignments -/

theorem headStrict_spec {t : Node} {tl : List Node} (h : headStrict (t :: tl) = true) : nameOk false t = true := h

theorem gr_lambdaBranch (targets : List Node) (value : Node) (s : St) (hs : GoodCtx s.ctx = true)
    (hl : lambdaInRhs value = true) (h : branchOk targets value = true) :
    GoodR (lambdaBranch targets value s) := by
  unfold lambdaBranch
  split
  · exact gr_ok hs
  · rename_i h1
    have h1' : oneToOne targets value = true := by simpa using h1
    obtain ⟨ps, b, rfl⟩ := lam_is_lam hl h1'
    simp only [branchOk, h1', Bool.not_true, Bool.false_or] at h
    cases targets with
    | nil => simp [headStrict] at h
    | cons t tl =>
      simp only []
      exact gr_liftName (nameOk_spec (headStrict_spec h)) (fun _ name => gr_ok (good_add false hs (addG_funcSym _ _)))

theorem gr_namedtupleBranch (targets : List Node) (value : Node) (s : St) (hs : GoodCtx s.ctx = true)
    (hl : namedtupleInRhs value = true) (h : branchOk targets value = true) :
    GoodR (namedtupleBranch targets value s) := by
  unfold namedtupleBranch
  split
  · exact gr_ok hs
  · rename_i h1
    have h1' : oneToOne targets value = true := by simpa using h1
    obtain ⟨f, a, kn, kv, rfl⟩ := nt_is_call hl h1'
    simp only [branchOk, h1', Bool.not_true, Bool.false_or] at h
    cases targets with
    | nil => simp [headStrict] at h
    | cons t tl =>
      simp only []
      refine gr_liftName (nameOk_spec (headStrict_spec h)) (fun _ name => ?_)
      split
      · exact gr_ok hs
      · exact gr_ok (good_add false hs (addG_clsSym _ _))

theorem mem_addedSyms {before after : Context} {sy : Sym} (h : sy ∈ addedSyms before after) : sy ∈ scopeSyms after := by
  unfold addedSyms at h
  rw [List.mem_eraseDups] at h
  exact (List.mem_filter.mp h).1

local macro "gr_assignV_other" h:ident hs:ident : tactic => `(tactic|
  (rw [assignV.eq_def]; simp only []
   simp only [assignVOk] at $h:ident
   split
   · rename_i hl
     simp only [hl, Bool.true_or, if_true] at $h:ident
     exact gr_lambdaBranch _ _ _ $hs hl $h
   · rename_i hl
     split
     · rename_i hn
       simp only [hn, Bool.or_true, if_true] at $h:ident
       exact gr_namedtupleBranch _ _ _ $hs hn $h
     · rename_i hn
       have hl' := Bool.eq_false_iff.mpr hl
       have hn' := Bool.eq_false_iff.mpr hn
       simp only [hl', hn', Bool.or_self, Bool.false_eq_true, if_false] at $h:ident
       exact gr_addIdentifiersL _ _ $hs $h))

theorem headClean_spec {t : Node} {tl : List Node} (h : headClean (t :: tl) = true) :
    nameOk false t = true ∧ ∀ b f, namesOf false t = .ok b f → (f.getLast? != some '*') = true := by
  unfold headClean at h
  simp only [] at h
  cases hn : namesOf false t with
  | ok b f => rw [hn] at h; exact ⟨by simp [nameOk, hn], fun b' f' e => by injection e with e1 e2; subst e2; exact h⟩
  | fatal d => exact ⟨by simp [nameOk, hn], fun b' f' e => by cases e⟩
  | crash e => rw [hn] at h; cases h

theorem gr_liftName' {s : St} {r : NameRes} {f : Str → Str → Res} (hr : ∀ e, r ≠ .crash e)
    (hf : ∀ b fl, r = .ok b fl → GoodR (f b fl)) : GoodR (liftName s r f) := by
  cases r with
  | ok b fl => exact hf b fl rfl
  | fatal d => exact gr_fatal _ _
  | crash e => exact absurd rfl (hr e)

mutual
theorem gr_assignV (targets : List Node) : (v : Node) → (s : St) → GoodCtx s.ctx = true →
    assignVOk targets v = true → GoodR (assignV targets v s)
  | .walrus t v, s, hs, h => by
    rw [assignV.eq_def]; simp only []
    simp only [assignVOk, Bool.and_eq_true, Bool.or_eq_true, Bool.not_eq_true'] at h
    obtain ⟨⟨h1, h2⟩, h3⟩ := h
    refine gr_bind ?_ (fun s1 hs1 => gr_addIdentifiersL targets s1 hs1 h3)
    refine gr_bind (gr_assignV [t] v s hs h1) ?_
    intro s1 hs1
    split
    · rename_i hl
      have hstrict : headClean targets = true := by
        rcases h2 with h2 | h2
        · rw [hl] at h2; cases h2
        · exact h2
      split
      · rename_i inner hadd
        have hin : inner ∈ addedSyms s.ctx s1.ctx := by rw [hadd]; exact List.mem_singleton.mpr rfl
        have hg := good_scopeSym hs1 (mem_addedSyms hin)
        split
        · rename_i t0 tl
          obtain ⟨hnm, hcl⟩ := headClean_spec hstrict
          refine gr_liftName' (nameOk_spec hnm) (fun b name hb => ?_)
          exact gr_ok (good_add false hs1 (addG_of_symGood (symGood_evolveName name hg (hcl b name hb))))
        · simp [headClean] at hstrict
      · exact gr_ok hs1
      · exact gr_ok hs1
    · exact gr_ok hs1
  | .seq k elts c, s, hs, h => by
    rw [assignV.eq_def]; simp only []
    simp only [assignVOk] at h
    split
    · rename_i hl
      simp only [hl, Bool.true_or, if_true] at h
      exact gr_lambdaBranch _ _ _ hs hl h
    · rename_i hl
      split
      · rename_i hn
        simp only [hn, Bool.or_true, if_true] at h
        exact gr_namedtupleBranch _ _ _ hs hn h
      · rename_i hn
        have hl' : lambdaInRhs (.seq k elts c) = false := by simpa using hl
        have hn' : namedtupleInRhs (.seq k elts c) = false := by simpa using hn
        simp only [hl', hn', Bool.or_self, Bool.false_eq_true, if_false, Bool.and_eq_true, Bool.or_eq_true,
          Bool.not_eq_true'] at h
        split
        · rename_i htl
          have hw : walrusEltsOk elts = true := by
            rcases h.1 with h1 | h1
            · rw [htl] at h1; cases h1
            · exact h1
          exact gr_bind (gr_walrusElts elts s hs hw) (fun s1 hs1 => gr_addIdentifiersL targets s1 hs1 h.2)
        · exact gr_addIdentifiersL targets s hs h.2
  | .name id c, s, hs, h => by gr_assignV_other h hs
  | .attr v a c, s, hs, h => by gr_assignV_other h hs
  | .sub v sl c, s, hs, h => by gr_assignV_other h hs
  | .starred v c, s, hs, h => by gr_assignV_other h hs
  | .call f args kwn kwv, s, hs, h => by gr_assignV_other h hs
  | .lam ps body, s, hs, h => by gr_assignV_other h hs
  | .comp k elts gens, s, hs, h => by gr_assignV_other h hs
  | .gen t it ifs, s, hs, h => by gr_assignV_other h hs
  | .strConst x, s, hs, h => by gr_assignV_other h hs
  | .const, s, hs, h => by gr_assignV_other h hs
  | .dict ks vs, s, hs, h => by gr_assignV_other h hs
  | .assign ts v, s, hs, h => by gr_assignV_other h hs
  | .annAssign t ann v, s, hs, h => by gr_assignV_other h hs
  | .augAssign t v, s, hs, h => by gr_assignV_other h hs
  | .delete ts, s, hs, h => by gr_assignV_other h hs
  | .forLoop t it body orelse, s, hs, h => by gr_assignV_other h hs
  | .withStmt items body, s, hs, h => by gr_assignV_other h hs
  | .withitem ce vars, s, hs, h => by gr_assignV_other h hs
  | .funcDef nm ps body, s, hs, h => by gr_assignV_other h hs
  | .classDef nm, s, hs, h => by gr_assignV_other h hs
  | .ret v, s, hs, h => by gr_assignV_other h hs
  | .forbidden k, s, hs, h => by gr_assignV_other h hs
  | .other k kids, s, hs, h => by gr_assignV_other h hs

theorem gr_walrusElts : (elts : List Node) → (s : St) → GoodCtx s.ctx = true → walrusEltsOk elts = true →
    GoodR (walrusElts elts s)
  | [], s, hs, _ => by rw [walrusElts.eq_def]; exact gr_ok hs
  | .walrus t v :: r, s, hs, h => by
    rw [walrusElts.eq_def]; simp only []
    simp only [walrusEltsOk, Bool.and_eq_true] at h
    refine gr_bind (gr_assignV [t] v s hs h.1) ?_
    intro s1 hs1
    refine gr_walrusElts r _ ?_ h.2
    split <;> exact hs1
  | .name id c :: r, s, hs, h => by rw [walrusElts.eq_def]; simp only [walrusEltsOk] at h; exact gr_walrusElts r s hs h
  | .attr v a c :: r, s, hs, h => by rw [walrusElts.eq_def]; simp only [walrusEltsOk] at h; exact gr_walrusElts r s hs h
  | .sub v sl c :: r, s, hs, h => by rw [walrusElts.eq_def]; simp only [walrusEltsOk] at h; exact gr_walrusElts r s hs h
  | .starred v c :: r, s, hs, h => by rw [walrusElts.eq_def]; simp only [walrusEltsOk] at h; exact gr_walrusElts r s hs h
  | .call f args kwn kwv :: r, s, hs, h => by rw [walrusElts.eq_def]; simp only [walrusEltsOk] at h; exact gr_walrusElts r s hs h
  | .lam ps body :: r, s, hs, h => by rw [walrusElts.eq_def]; simp only [walrusEltsOk] at h; exact gr_walrusElts r s hs h
  | .comp k elts gens :: r, s, hs, h => by rw [walrusElts.eq_def]; simp only [walrusEltsOk] at h; exact gr_walrusElts r s hs h
  | .gen t it ifs :: r, s, hs, h => by rw [walrusElts.eq_def]; simp only [walrusEltsOk] at h; exact gr_walrusElts r s hs h
  | .strConst x :: r, s, hs, h => by rw [walrusElts.eq_def]; simp only [walrusEltsOk] at h; exact gr_walrusElts r s hs h
  | .const :: r, s, hs, h => by rw [walrusElts.eq_def]; simp only [walrusEltsOk] at h; exact gr_walrusElts r s hs h
  | .seq k elts c :: r, s, hs, h => by rw [walrusElts.eq_def]; simp only [walrusEltsOk] at h; exact gr_walrusElts r s hs h
  | .dict ks vs :: r, s, hs, h => by rw [walrusElts.eq_def]; simp only [walrusEltsOk] at h; exact gr_walrusElts r s hs h
  | .assign ts v :: r, s, hs, h => by rw [walrusElts.eq_def]; simp only [walrusEltsOk] at h; exact gr_walrusElts r s hs h
  | .annAssign t ann v :: r, s, hs, h => by rw [walrusElts.eq_def]; simp only [walrusEltsOk] at h; exact gr_walrusElts r s hs h
  | .augAssign t v :: r, s, hs, h => by rw [walrusElts.eq_def]; simp only [walrusEltsOk] at h; exact gr_walrusElts r s hs h
  | .delete ts :: r, s, hs, h => by rw [walrusElts.eq_def]; simp only [walrusEltsOk] at h; exact gr_walrusElts r s hs h
  | .forLoop t it body orelse :: r, s, hs, h => by rw [walrusElts.eq_def]; simp only [walrusEltsOk] at h; exact gr_walrusElts r s hs h
  | .withStmt items body :: r, s, hs, h => by rw [walrusElts.eq_def]; simp only [walrusEltsOk] at h; exact gr_walrusElts r s hs h
  | .withitem ce vars :: r, s, hs, h => by rw [walrusElts.eq_def]; simp only [walrusEltsOk] at h; exact gr_walrusElts r s hs h
  | .funcDef nm ps body :: r, s, hs, h => by rw [walrusElts.eq_def]; simp only [walrusEltsOk] at h; exact gr_walrusElts r s hs h
  | .classDef nm :: r, s, hs, h => by rw [walrusElts.eq_def]; simp only [walrusEltsOk] at h; exact gr_walrusElts r s hs h
  | .ret v :: r, s, hs, h => by rw [walrusElts.eq_def]; simp only [walrusEltsOk] at h; exact gr_walrusElts r s hs h
  | .forbidden k :: r, s, hs, h => by rw [walrusElts.eq_def]; simp only [walrusEltsOk] at h; exact gr_walrusElts r s hs h
  | .other k kids :: r, s, hs, h => by rw [walrusElts.eq_def]; simp only [walrusEltsOk] at h; exact gr_walrusElts r s hs h
end

theorem gr_visitExpr (v : Node) (s : St) (hs : GoodCtx s.ctx = true) : GoodR (visitExpr v s) := by
  unfold visitExpr
  split <;> exact gr_ok hs

mutual
theorem gr_register (f : Facts) : (t : Top) → (s : St) → GoodCtx s.ctx = true → registerOk t = true →
    GoodR (register f t s)
  | .importStmt aliases, s, hs, h => by
    rw [register.eq_def]; simp only []
    simp only [registerOk] at h
    refine gr_addPlainImports f aliases _ ?_ h
    split <;> exact hs
  | .importFrom m lvl aliases abs sf co, s, hs, h => by
    rw [register.eq_def]; simp only []
    simp only [registerOk] at h
    exact gr_visitImportFrom f m lvl aliases abs sf co s hs h
  | .funcDef name ps b d a, s, hs, _ => by
    rw [register.eq_def]; exact gr_ok (good_add false hs (addG_funcSym _ _))
  | .classDef name bases body d, s, hs, _ => by
    rw [register.eq_def]; exact gr_ok (good_add false hs (addG_of_kind (by simp [classSym])))
  | .assign targets extra value, s, hs, h => by
    rw [register.eq_def]; simp only []
    simp only [registerOk] at h
    unfold visitAssignment
    cases value with
    | none => simp only [] at h ⊢; exact gr_addIdentifiersL targets s hs h
    | some v => simp only [] at h ⊢; exact gr_assignV targets v s hs h
  | .delete targets, s, hs, h => by
    rw [register.eq_def]; simp only []
    simp only [registerOk] at h
    exact gr_bind (gr_removeIdentifiersL targets s hs h) (fun s hs => gr_ok hs)
  | .exprStmt v, s, hs, _ => by rw [register.eq_def]; exact gr_visitExpr v s hs
  | .expr n, s, hs, _ => by rw [register.eq_def]; exact gr_ok hs
  | .tryStmt b hd o fb, s, hs, h => by
    rw [register.eq_def]; simp only []
    simp only [registerOk, Bool.and_eq_true] at h
    exact gr_bind (gr_registerL f b s hs h.1.1.1) fun s1 h1 =>
      gr_bind (gr_registerL f o s1 h1 h.1.1.2) fun s2 h2 =>
        gr_bind (gr_registerL f fb s2 h2 h.1.2) fun s3 h3 => gr_registerHandlers f hd s3 h3 h.2
  | .compound kind kids, s, hs, h => by
    rw [register.eq_def]; simp only []
    simp only [registerOk, Bool.or_eq_true, Bool.not_eq_true'] at h
    split
    · rename_i hk
      rcases h with h | h
      · rw [hk] at h; cases h
      · exact gr_registerL f kids s hs h
    · exact gr_ok hs

theorem gr_registerL (f : Facts) : (ts : List Top) → (s : St) → GoodCtx s.ctx = true → registerLOk ts = true →
    GoodR (registerL f ts s)
  | [], s, hs, _ => by rw [registerL.eq_def]; exact gr_ok hs
  | t :: r, s, hs, h => by
    rw [registerL.eq_def]; simp only []
    simp only [registerLOk, Bool.and_eq_true] at h
    exact gr_bind (gr_register f t s hs h.1) fun s1 h1 => gr_registerL f r s1 h1 h.2

theorem gr_registerHandlers (f : Facts) : (ts : List Top) → (s : St) → GoodCtx s.ctx = true →
    handlersOk ts = true → GoodR (registerHandlers f ts s)
  | [], s, hs, _ => by rw [registerHandlers.eq_def]; exact gr_ok hs
  | .compound k kids :: r, s, hs, h => by
    rw [registerHandlers.eq_def]; simp only []
    simp only [handlersOk, Bool.and_eq_true] at h
    exact gr_bind (gr_registerL f kids s hs h.1) fun s1 h1 => gr_registerHandlers f r s1 h1 h.2
  | .importStmt _ :: r, s, hs, h => by
    rw [registerHandlers.eq_def]; simp only [handlersOk] at h; exact gr_registerHandlers f r s hs h
  | .importFrom .. :: r, s, hs, h => by
    rw [registerHandlers.eq_def]; simp only [handlersOk] at h; exact gr_registerHandlers f r s hs h
  | .funcDef .. :: r, s, hs, h => by
    rw [registerHandlers.eq_def]; simp only [handlersOk] at h; exact gr_registerHandlers f r s hs h
  | .classDef .. :: r, s, hs, h => by
    rw [registerHandlers.eq_def]; simp only [handlersOk] at h; exact gr_registerHandlers f r s hs h
  | .assign .. :: r, s, hs, h => by
    rw [registerHandlers.eq_def]; simp only [handlersOk] at h; exact gr_registerHandlers f r s hs h
  | .delete _ :: r, s, hs, h => by
    rw [registerHandlers.eq_def]; simp only [handlersOk] at h; exact gr_registerHandlers f r s hs h
  | .exprStmt _ :: r, s, hs, h => by
    rw [registerHandlers.eq_def]; simp only [handlersOk] at h; exact gr_registerHandlers f r s hs h
  | .expr _ :: r, s, hs, h => by
    rw [registerHandlers.eq_def]; simp only [handlersOk] at h; exact gr_registerHandlers f r s hs h
  | .tryStmt .. :: r, s, hs, h => by
    rw [registerHandlers.eq_def]; simp only [handlersOk] at h; exact gr_registerHandlers f r s hs h
end

/-- **stage S2**: `compile_root_context` on a module satisfying `registerLOk` does not raise, and the
context it produces is sane and free of starred imports. -/
theorem compile_good (f : Facts) (builtins : List Str) (body : List Top) (h : registerLOk body = true) :
    GoodR (RootCtx.compile f builtins body) := by
  unfold RootCtx.compile
  exact gr_registerL f body _ (initial_good builtins) h

/-! ## part C: the file / class analysers -/

def NCF (r : FOut) : Prop := ∀ s e, r ≠ .crash s e

/-- every name that resolves to a class in `c` still does in `c'`. -/
def BMono (c c' : Context) : Prop := ∀ N, (getClass c N).isSome = true → (getClass c' N).isSome = true

theorem BMono.refl (c : Context) : BMono c c := fun _ h => h
theorem BMono.trans {a b c : Context} (h1 : BMono a b) (h2 : BMono b c) : BMono a c := fun N h => h2 N (h1 N h)

structure FInv (c0 : Context) (s : FState) : Prop where
  sane : SaneCtx s.ctx = true
  mono : BMono c0 s.ctx

def GoodF (c0 : Context) (r : FOut) : Prop := NCF r ∧ ∀ s', r = .ok s' → FInv c0 s'

variable {c0 : Context}

theorem gf_ok {s : FState} (h : FInv c0 s) : GoodF c0 (.ok s) :=
  ⟨fun _ _ e => (by cases e), fun s' e => by injection e with e; subst e; exact h⟩
theorem gf_fatal (s : FState) (d : Diag) : GoodF c0 (.fatal s d) :=
  ⟨fun _ _ e => (by cases e), fun s' e => by cases e⟩

theorem gf_bind {r : FOut} {f : FState → FOut} (hr : GoodF c0 r) (hf : ∀ s, FInv c0 s → GoodF c0 (f s)) :
    GoodF c0 (r >>>- f) := by
  cases r with
  | ok s => exact hf s (hr.2 s rfl)
  | fatal s d => exact gf_fatal s d
  | crash s e => exact absurd rfl (hr.1 s e)

theorem gf_ite {c : Prop} [Decidable c] {a b : FOut} (ha : GoodF c0 a) (hb : GoodF c0 b) :
    GoodF c0 (if c then a else b) := by split <;> assumption

theorem FInv.diag {s : FState} (h : FInv c0 s) (d : Diag) : FInv c0 (FState.diag s d) := ⟨h.sane, h.mono⟩
theorem FInv.ir {s : FState} (h : FInv c0 s) (ir : Dict Sym IR) : FInv c0 { s with ir := ir } := ⟨h.sane, h.mono⟩
theorem FInv.diags {s : FState} (h : FInv c0 s) (ds : List Diag) : FInv c0 { s with diags := ds } := ⟨h.sane, h.mono⟩

/-- run something on the visitor state: not a crash, and the context it leaves is sane and keeps the classes. -/
theorem gf_liftRes {s : FState} {r : Res} {k : St → FState → FOut} (hs : FInv c0 s) (hr : NC r)
    (hpost : ∀ t, r = .ok t → SaneCtx t.ctx = true ∧ BMono s.ctx t.ctx)
    (hk : ∀ t s', FInv c0 s' → GoodF c0 (k t s')) : GoodF c0 (liftRes s r k) := by
  cases r with
  | ok t =>
    obtain ⟨h1, h2⟩ := hpost t rfl
    exact hk t _ ⟨h1, hs.mono.trans h2⟩
  | fatal t d => exact gf_fatal _ _
  | crash t e => exact absurd rfl (hr t e)

theorem gf_liftAnn {α : Type} {s : FState} {o : Ann.Outcome α} {k : α → FOut} (ho : annOk o = true)
    (hk : ∀ a, o = .ok a → GoodF c0 (k a)) : GoodF c0 (liftAnn s o k) := by
  cases o with
  | ok a => exact hk a rfl
  | fatal f => exact gf_fatal _ _
  | crash c => simp [annOk] at ho

theorem gf_fLiftName {s : FState} {r : NameRes} {k : Str → FOut} (hr : ∀ e, r ≠ .crash e)
    (hk : ∀ n, GoodF c0 (k n)) : GoodF c0 (fLiftName s r k) := by
  cases r with
  | ok b f => exact hk f
  | fatal d => exact gf_fatal _ _
  | crash e => exact absurd rfl (hr e)

/-! ### the analysed bodies -/

theorem analyseInto_good {env : Env} {mn : Str} {ps : Params} {body : List Node} {s : FState}
    {k : IR → FState → FOut} (hs : FInv c0 s) (hb : NoCrashShapeFn body = true)
    (hk : ∀ ir s', FInv c0 s' → GoodF c0 (k ir s')) : GoodF c0 (analyseInto env mn ps body s k) := by
  unfold analyseInto
  have hsp := analyse_spec env mn s.ctx ps body hb hs.sane
  refine gf_liftRes hs hsp.1 (fun t ht => ?_) (fun t s' hs' => hk _ s' hs')
  rw [hsp.2 t ht]
  exact ⟨hs.sane, BMono.refl _⟩

theorem declaredIr_good {env : Env} {decos : List Ann.Deco} {s : FState} {k : IR → FState → FOut}
    (hs : FInv c0 s) (ha : annOk (Ann.parseAnnotated decos) = true)
    (hk : ∀ ir s', FInv c0 s' → GoodF c0 (k ir s')) : GoodF c0 (declaredIr env decos s k) := by
  unfold declaredIr
  exact gf_liftAnn ha (fun d _ => hk _ _ (hs.diags _))

theorem noCustom_spec {env : Env} {mn : Str} (h : noCustomOnDef env.analysers mn = true) (fn : Sym)
    (hk : fn.kind = .func) : analyserFor env mn (some fn) = none := by
  unfold analyserFor
  simp only [hk]
  split
  · rename_i hc
    exfalso
    have hm : (mn ++ '.' :: fn.name) ∈ env.analysers := by simpa using hc
    have := List.all_eq_true.mp h _ hm
    have hp : (mn ++ ['.']).isPrefixOf (mn ++ '.' :: fn.name) = true := by
      rw [List.isPrefixOf_iff_prefix]; exact ⟨fn.name, by simp⟩
    simp only [startsWith, hp, Bool.not_true] at this
    cases this
  · rfl

theorem getFunc_kind {c : Context} {name : Str} {fn : Sym} (h : getFunc c name = some fn) : fn.kind = .func := by
  unfold getFunc at h
  split at h
  · split at h
    · rename_i hk; injection h with h; subst h; simpa using hk
    · cases h
  · cases h

theorem visitFuncDef_good {env : Env} {mn : Str} {f : Facts} {name : Str} {ps : Params} {body : List Node}
    {decos : List Ann.Deco} {s : FState} (hs : FInv c0 s) (hc : noCustomOnDef env.analysers mn = true)
    (h : funcDefOk f name body decos = true) : GoodF c0 (visitFuncDef env mn f name ps body decos s) := by
  unfold visitFuncDef
  unfold funcDefOk at h
  cases hi : Ann.hasAnnotation Ann.nIgnore decos with
  | crash c => rw [hi] at h; cases h
  | fatal fa => exact gf_fatal _ _
  | ok ign =>
    rw [hi] at h
    simp only [liftAnn]
    cases ign with
    | true => simp only [if_true]; exact gf_ok hs
    | false =>
      simp only [Bool.false_eq_true, if_false]
      simp only [Bool.or_eq_true] at h
      split
      · exact gf_ok hs
      · rename_i hex
        have h' := h.resolve_left hex
        split
        · exact gf_ok (hs.diag _)
        · rename_i fn hfn
          cases hr : Ann.hasAnnotation Ann.nResults decos with
          | crash c => rw [hr] at h'; cases h'
          | fatal fa => exact gf_fatal _ _
          | ok decl =>
            rw [hr] at h'
            simp only [liftAnn]
            cases decl with
            | true =>
              simp only [if_true]
              exact declaredIr_good hs h' (fun ir s' hs' => gf_ok (hs'.ir _))
            | false =>
              simp only [Bool.false_eq_true, if_false]
              rw [noCustom_spec hc fn (getFunc_kind hfn)]
              simp only [Option.isSome_none, Bool.false_eq_true, if_false]
              exact analyseInto_good hs h' (fun ir s' hs' => gf_ok (hs'.ir _))

/-! ### module-level assignments -/

theorem lambdaAssign_good {env : Env} {mn : Str} {targets : List Node} {value : Node} {s : FState}
    (hs : FInv c0 s) (hl : lambdaInRhs value = true) (h : lambdaAssignOk targets value = true) :
    GoodF c0 (lambdaAssign env mn targets value s) := by
  unfold lambdaAssign
  split
  · exact gf_fatal _ _
  · rename_i h1
    have h1' : oneToOne targets value = true := by simpa using h1
    obtain ⟨ps, b, rfl⟩ := lam_is_lam hl h1'
    simp only [lambdaAssignOk, hl, h1', Bool.not_true, Bool.false_or, Bool.and_eq_true] at h
    cases targets with
    | nil => simp [headStrict] at h
    | cons t tl =>
      simp only []
      refine gf_fLiftName (nameOk_spec (headStrict_spec h.1)) (fun name => ?_)
      split
      · exact gf_ok (hs.diag _)
      · exact analyseInto_good hs h.2 (fun ir s' hs' => gf_ok (hs'.ir _))

theorem namedtupleAssign_good {targets : List Node} {value : Node} {s : FState}
    (hs : FInv c0 s) (hl : namedtupleInRhs value = true) (h : ntAssignOk targets value = true) :
    GoodF c0 (namedtupleAssign targets value s) := by
  unfold namedtupleAssign
  split
  · exact gf_fatal _ _
  · rename_i h1
    have h1' : oneToOne targets value = true := by simpa using h1
    simp only [ntAssignOk, hl, h1', Bool.not_true, Bool.false_or] at h
    cases targets with
    | nil => simp [headStrict] at h
    | cons t tl =>
      simp only []
      refine gf_fLiftName (nameOk_spec (headStrict_spec h)) (fun name => ?_)
      split
      · exact gf_ok (hs.diag _)
      · exact gf_ok (hs.ir _)

theorem lamPart_good {env : Env} {mn : Str} {targets : List Node} {value : Node} {s : FState}
    (hs : FInv c0 s) (h1 : lambdaAssignOk targets value = true) :
    GoodF c0 (if lambdaInRhs value then lambdaAssign env mn targets value s else .ok s) := by
  split
  · rename_i hl; exact lambdaAssign_good hs hl h1
  · exact gf_ok hs

theorem ntPart_good {targets : List Node} {value : Node} {s : FState}
    (hs : FInv c0 s) (h2 : ntAssignOk targets value = true) :
    GoodF c0 (if namedtupleInRhs value then namedtupleAssign targets value s else .ok s) := by
  split
  · rename_i hl; exact namedtupleAssign_good hs hl h2
  · exact gf_ok hs

theorem lamNt_good {env : Env} {mn : Str} {targets : List Node} {value : Node} {s : FState}
    (hs : FInv c0 s) (h1 : lambdaAssignOk targets value = true) (h2 : ntAssignOk targets value = true) :
    GoodF c0 ((if lambdaInRhs value then lambdaAssign env mn targets value s else .ok s) >>>- fun s =>
      (if namedtupleInRhs value then namedtupleAssign targets value s else .ok s)) :=
  gf_bind (lamPart_good hs h1) (fun s hs => ntPart_good hs h2)

theorem gf_bind_eq {r : FOut} {f : FState → FOut} (hr : GoodF c0 r)
    (hf : ∀ s, FInv c0 s → r = .ok s → GoodF c0 (f s)) : GoodF c0 (r >>>- f) := by
  cases r with
  | ok s => exact hf s (hr.2 s rfl) rfl
  | fatal s d => exact gf_fatal s d
  | crash s e => exact absurd rfl (hr.1 s e)

/-! a lambda on the right of a walrus adds at most one key to the FileIr -/

theorem keys_set_mem {κ ν : Type} [DecidableEq κ] (d : Dict κ ν) (k : κ) (v : ν) (h : k ∈ Dict.keys d) :
    Dict.keys (Dict.set d k v) = Dict.keys d := by
  induction d with
  | nil => simp [Dict.keys] at h
  | cons p r ih =>
    obtain ⟨k', v'⟩ := p
    by_cases hk : k' = k
    · simp [Dict.set, hk, Dict.keys]
    · simp only [Dict.keys, List.map_cons, List.mem_cons] at h
      have hr : k ∈ Dict.keys r := by
        rcases h with h | h
        · exact absurd h.symm hk
        · exact h
      simp only [Dict.set, hk, if_false, Dict.keys, List.map_cons]
      have := ih hr
      simp only [Dict.keys] at this
      rw [this]

theorem filter_notin_self {α : Type} [DecidableEq α] (l : List α) : l.filter (fun k => !l.contains k) = [] := by
  rw [List.filter_eq_nil_iff]
  intro a ha
  simp [ha]

theorem addedKeys_self (d : Dict Sym IR) : addedKeys d d = [] := by
  unfold addedKeys
  rw [filter_notin_self]; rfl

theorem addedKeys_set (d : Dict Sym IR) (k : Sym) (v : IR) : (addedKeys d (Dict.set d k v)).length ≤ 1 := by
  unfold addedKeys
  by_cases hk : k ∈ Dict.keys d
  · rw [keys_set_mem d k v hk, filter_notin_self]; simp
  · have hg : Dict.get? d k = none := by
      induction d with
      | nil => rfl
      | cons p r ih =>
        obtain ⟨k', v'⟩ := p
        simp only [Dict.keys, List.map_cons, List.mem_cons, not_or] at hk
        simp only [Dict.get?]
        rw [if_neg (fun e => hk.1 e.symm)]
        exact ih hk.2
    rw [Dict.keys_set_fresh d k v hg, List.filter_append, filter_notin_self]
    simp only [List.nil_append]
    have hnc : (Dict.keys d).contains k = false := by
      cases hc : (Dict.keys d).contains k with
      | false => rfl
      | true => exact absurd (by simpa using hc) hk
    have : List.filter (fun k' => !(Dict.keys d).contains k') [k] = [k] := by
      simp only [List.filter, hnc, Bool.not_false]
    rw [this]
    simp [List.eraseDups, List.eraseDupsBy, List.eraseDupsBy.loop]

theorem liftRes_ir {s : FState} {r : Res} {k : St → FState → FOut}
    (hk : ∀ t s', s'.ir = s.ir → ∀ s1, k t s' = .ok s1 → s1.ir = s.ir ∨ ∃ fn ir, s1.ir = Dict.set s.ir fn ir)
    {s1 : FState} (h : liftRes s r k = .ok s1) : s1.ir = s.ir ∨ ∃ fn ir, s1.ir = Dict.set s.ir fn ir := by
  cases r with
  | ok t => exact hk t { s with ctx := t.ctx, diags := s.diags ++ t.diags } rfl s1 h
  | fatal t d => cases h
  | crash t e => cases h

theorem lambdaAssign_ir {env : Env} {mn : Str} {targets : List Node} {value : Node} {s s1 : FState}
    (h : lambdaAssign env mn targets value s = .ok s1) :
    s1.ir = s.ir ∨ ∃ fn ir, s1.ir = Dict.set s.ir fn ir := by
  unfold lambdaAssign at h
  split at h
  · cases h
  · split at h
    · rename_i t tl ps body
      unfold fLiftName at h
      split at h
      · simp only [] at h
        split at h
        · injection h with h; subst h; exact Or.inl rfl
        · rename_i fn _
          unfold analyseInto at h
          refine liftRes_ir (fun t s' hs' s2 h2 => ?_) h
          injection h2 with h2; subst h2
          exact Or.inr ⟨fn, irOf t, by simp [hs']⟩
      · cases h
      · cases h
    · cases h

theorem anyAssign_lambda_ir {env : Env} {mn : Str} {t : Node} {v : Node} {s s1 : FState}
    (hl : lambdaInRhs v = true) (h : anyAssign env mn [t] v s = .ok s1) :
    s1.ir = s.ir ∨ ∃ fn ir, s1.ir = Dict.set s.ir fn ir := by
  cases v with
  | lam ps body =>
    rw [anyAssign.eq_def] at h
    simp only [hl, if_true] at h
    cases h1 : lambdaAssign env mn [t] (.lam ps body) s with
    | ok s2 =>
      rw [h1] at h
      simp only [fbind, namedtupleInRhs, isTupleOrList, Bool.false_and, Bool.false_eq_true, if_false] at h
      injection h with h; subst h
      exact lambdaAssign_ir h1
    | fatal s2 d => rw [h1] at h; cases h
    | crash s2 e => rw [h1] at h; cases h
  | seq k elts c =>
    exfalso
    rw [anyAssign.eq_def] at h
    simp only [hl, if_true] at h
    have hnot : oneToOne [t] (.seq k elts c) = false := by
      have : isTupleOrList (.seq k elts c) = true := by
        simp only [lambdaInRhs, isLambda, Bool.false_or, Bool.and_eq_true] at hl; exact hl.1
      simp [oneToOne, this]
    unfold lambdaAssign at h
    simp only [hnot, Bool.not_false, if_true, fbind] at h
    cases h
  | _ => simp [lambdaInRhs, isLambda, isTupleOrList] at hl

theorem addedKeys_lambda_len {env : Env} {mn : Str} {t : Node} {v : Node} {s s1 : FState}
    (hl : lambdaInRhs v = true) (h : anyAssign env mn [t] v s = .ok s1) : (addedKeys s.ir s1.ir).length ≤ 1 := by
  rcases anyAssign_lambda_ir hl h with e | ⟨fn, ir, e⟩
  · rw [e, addedKeys_self]; simp
  · rw [e]; exact addedKeys_set _ _ _

local macro "gf_anyAssign_other" h:ident hs:ident : tactic => `(tactic|
  (rw [anyAssign.eq_def]; simp only []
   simp only [anyAssignOk, Bool.and_eq_true] at $h:ident
   exact lamNt_good $hs ($h).1 ($h).2))

mutual
theorem anyAssign_good (env : Env) (mn : Str) (targets : List Node) : (v : Node) → (s : FState) → FInv c0 s →
    anyAssignOk targets v = true → GoodF c0 (anyAssign env mn targets v s)
  | .walrus t v, s, hs, h => by
    rw [anyAssign.eq_def]; simp only []
    simp only [anyAssignOk, Bool.and_eq_true, Bool.or_eq_true, Bool.not_eq_true'] at h
    refine gf_bind_eq (anyAssign_good env mn [t] v s hs h.1) (fun s1 hs1 heq => ?_)
    split
    · rename_i hl
      have hlen := addedKeys_lambda_len hl heq
      have hstrict : headStrict targets = true := by
        rcases h.2 with h2 | h2
        · rw [hl] at h2; cases h2
        · exact h2
      split
      · split
        · rename_i t0 tl
          exact gf_fLiftName (nameOk_spec (headStrict_spec hstrict)) (fun name => gf_ok (hs1.ir _))
        · simp [headStrict] at hstrict
      · exact gf_ok hs1
      · rename_i hne1 hne0
        exfalso
        cases hk : addedKeys s.ir s1.ir with
        | nil => exact hne0 hk
        | cons a r =>
          cases r with
          | nil => exact hne1 a hk
          | cons b r' => rw [hk] at hlen; simp at hlen
    · exact gf_ok hs1
  | .seq k elts c, s, hs, h => by
    rw [anyAssign.eq_def]; simp only []
    simp only [anyAssignOk, Bool.and_eq_true, Bool.or_eq_true, Bool.not_eq_true'] at h
    refine gf_bind (lamPart_good hs h.1.1) (fun s1 hs1 => gf_bind (ntPart_good hs1 h.1.2) (fun s2 hs2 => ?_))
    split
    · rename_i htl
      rcases h.2 with h2 | h2
      · rw [htl] at h2; cases h2
      · exact walrusEltsF_good env mn elts s2 hs2 h2
    · exact gf_ok hs2
  | .name id c, s, hs, h => by gf_anyAssign_other h hs
  | .attr v a c, s, hs, h => by gf_anyAssign_other h hs
  | .sub v sl c, s, hs, h => by gf_anyAssign_other h hs
  | .starred v c, s, hs, h => by gf_anyAssign_other h hs
  | .call f args kwn kwv, s, hs, h => by gf_anyAssign_other h hs
  | .lam ps body, s, hs, h => by gf_anyAssign_other h hs
  | .comp k elts gens, s, hs, h => by gf_anyAssign_other h hs
  | .gen t it ifs, s, hs, h => by gf_anyAssign_other h hs
  | .strConst x, s, hs, h => by gf_anyAssign_other h hs
  | .const, s, hs, h => by gf_anyAssign_other h hs
  | .dict ks vs, s, hs, h => by gf_anyAssign_other h hs
  | .assign ts v, s, hs, h => by gf_anyAssign_other h hs
  | .annAssign t ann v, s, hs, h => by gf_anyAssign_other h hs
  | .augAssign t v, s, hs, h => by gf_anyAssign_other h hs
  | .delete ts, s, hs, h => by gf_anyAssign_other h hs
  | .forLoop t it body orelse, s, hs, h => by gf_anyAssign_other h hs
  | .withStmt items body, s, hs, h => by gf_anyAssign_other h hs
  | .withitem ce vars, s, hs, h => by gf_anyAssign_other h hs
  | .funcDef nm ps body, s, hs, h => by gf_anyAssign_other h hs
  | .classDef nm, s, hs, h => by gf_anyAssign_other h hs
  | .ret v, s, hs, h => by gf_anyAssign_other h hs
  | .forbidden k, s, hs, h => by gf_anyAssign_other h hs
  | .other k kids, s, hs, h => by gf_anyAssign_other h hs

theorem walrusEltsF_good (env : Env) (mn : Str) : (elts : List Node) → (s : FState) → FInv c0 s →
    walrusEltsFOk elts = true → GoodF c0 (walrusEltsF env mn elts s)
  | [], s, hs, _ => by rw [walrusEltsF.eq_def]; exact gf_ok hs
  | .walrus t v :: r, s, hs, h => by
    rw [walrusEltsF.eq_def]; simp only []
    simp only [walrusEltsFOk, Bool.and_eq_true] at h
    refine gf_bind_eq (anyAssign_good env mn [t] v s hs h.1) (fun s1 hs1 heq => ?_)
    split
    · rename_i hc
      exfalso
      simp only [Bool.and_eq_true, decide_eq_true_eq] at hc
      have := addedKeys_lambda_len hc.1 heq
      omega
    · exact walrusEltsF_good env mn r s1 hs1 h.2
  | .name id c :: r, s, hs, h => by rw [walrusEltsF.eq_def]; simp only [walrusEltsFOk] at h; exact walrusEltsF_good env mn r s hs h
  | .attr v a c :: r, s, hs, h => by rw [walrusEltsF.eq_def]; simp only [walrusEltsFOk] at h; exact walrusEltsF_good env mn r s hs h
  | .sub v sl c :: r, s, hs, h => by rw [walrusEltsF.eq_def]; simp only [walrusEltsFOk] at h; exact walrusEltsF_good env mn r s hs h
  | .starred v c :: r, s, hs, h => by rw [walrusEltsF.eq_def]; simp only [walrusEltsFOk] at h; exact walrusEltsF_good env mn r s hs h
  | .call f args kwn kwv :: r, s, hs, h => by rw [walrusEltsF.eq_def]; simp only [walrusEltsFOk] at h; exact walrusEltsF_good env mn r s hs h
  | .lam ps body :: r, s, hs, h => by rw [walrusEltsF.eq_def]; simp only [walrusEltsFOk] at h; exact walrusEltsF_good env mn r s hs h
  | .comp k elts gens :: r, s, hs, h => by rw [walrusEltsF.eq_def]; simp only [walrusEltsFOk] at h; exact walrusEltsF_good env mn r s hs h
  | .gen t it ifs :: r, s, hs, h => by rw [walrusEltsF.eq_def]; simp only [walrusEltsFOk] at h; exact walrusEltsF_good env mn r s hs h
  | .strConst x :: r, s, hs, h => by rw [walrusEltsF.eq_def]; simp only [walrusEltsFOk] at h; exact walrusEltsF_good env mn r s hs h
  | .const :: r, s, hs, h => by rw [walrusEltsF.eq_def]; simp only [walrusEltsFOk] at h; exact walrusEltsF_good env mn r s hs h
  | .seq k elts c :: r, s, hs, h => by rw [walrusEltsF.eq_def]; simp only [walrusEltsFOk] at h; exact walrusEltsF_good env mn r s hs h
  | .dict ks vs :: r, s, hs, h => by rw [walrusEltsF.eq_def]; simp only [walrusEltsFOk] at h; exact walrusEltsF_good env mn r s hs h
  | .assign ts v :: r, s, hs, h => by rw [walrusEltsF.eq_def]; simp only [walrusEltsFOk] at h; exact walrusEltsF_good env mn r s hs h
  | .annAssign t ann v :: r, s, hs, h => by rw [walrusEltsF.eq_def]; simp only [walrusEltsFOk] at h; exact walrusEltsF_good env mn r s hs h
  | .augAssign t v :: r, s, hs, h => by rw [walrusEltsF.eq_def]; simp only [walrusEltsFOk] at h; exact walrusEltsF_good env mn r s hs h
  | .delete ts :: r, s, hs, h => by rw [walrusEltsF.eq_def]; simp only [walrusEltsFOk] at h; exact walrusEltsF_good env mn r s hs h
  | .forLoop t it body orelse :: r, s, hs, h => by rw [walrusEltsF.eq_def]; simp only [walrusEltsFOk] at h; exact walrusEltsF_good env mn r s hs h
  | .withStmt items body :: r, s, hs, h => by rw [walrusEltsF.eq_def]; simp only [walrusEltsFOk] at h; exact walrusEltsF_good env mn r s hs h
  | .withitem ce vars :: r, s, hs, h => by rw [walrusEltsF.eq_def]; simp only [walrusEltsFOk] at h; exact walrusEltsF_good env mn r s hs h
  | .funcDef nm ps body :: r, s, hs, h => by rw [walrusEltsF.eq_def]; simp only [walrusEltsFOk] at h; exact walrusEltsF_good env mn r s hs h
  | .classDef nm :: r, s, hs, h => by rw [walrusEltsF.eq_def]; simp only [walrusEltsFOk] at h; exact walrusEltsF_good env mn r s hs h
  | .ret v :: r, s, hs, h => by rw [walrusEltsF.eq_def]; simp only [walrusEltsFOk] at h; exact walrusEltsF_good env mn r s hs h
  | .forbidden k :: r, s, hs, h => by rw [walrusEltsF.eq_def]; simp only [walrusEltsFOk] at h; exact walrusEltsF_good env mn r s hs h
  | .other k kids :: r, s, hs, h => by rw [walrusEltsF.eq_def]; simp only [walrusEltsFOk] at h; exact walrusEltsF_good env mn r s hs h
end

theorem fileEvent_good (env : Env) (mn : Str) (n : Node) (s : FState) (hs : FInv c0 s)
    (h : fileEventOk n = true) : GoodF c0 (fileEvent env mn n s) := by
  unfold fileEvent
  split
  · exact anyAssign_good env mn _ _ s hs (by simpa [fileEventOk] using h)
  · exact anyAssign_good env mn _ _ s hs (by simpa [fileEventOk] using h)
  · exact anyAssign_good env mn _ _ s hs (by simpa [fileEventOk] using h)
  · exact anyAssign_good env mn _ _ s hs (by simpa [fileEventOk] using h)
  · exact gf_fatal _ _
  · exact gf_ok hs

theorem fileEvents_good (env : Env) (mn : Str) : ∀ (l : List Node) (s : FState), FInv c0 s →
    l.all fileEventOk = true → GoodF c0 (fileEvents env mn l s)
  | [], s, hs, _ => by unfold fileEvents; exact gf_ok hs
  | n :: r, s, hs, h => by
    simp only [List.all_cons, Bool.and_eq_true] at h
    unfold fileEvents
    exact gf_bind (fileEvent_good env mn n s hs h.1) (fun s hs => fileEvents_good env mn r s hs h.2)


/-! ### class bodies: the non-method statements -/

theorem bmono_add (c : Context) (sy : Sym) : BMono c (Context.add c sy) := by
  intro N h
  by_cases hc : Context.contains c sy.name = true
  · rw [Context.add_of_contains c sy hc]; exact h
  · by_cases hn : sy.name = N
    · subst hn
      exfalso
      unfold getClass at h
      unfold Context.contains at hc
      cases hg : Context.get? c sy.name with
      | none => rw [hg] at h; cases h
      | some v => rw [hg] at hc; simp at hc
    · unfold getClass at h ⊢
      rw [Context.get?_add_other c sy false N hn]; exact h

theorem bmono_foldl_add (names : List Str) (mk : Str → Sym) : ∀ (c : Context),
    BMono c (names.foldl (fun c n => Context.add c (mk n)) c) := by
  induction names with
  | nil => intro c; exact BMono.refl c
  | cons n r ih => intro c; exact (bmono_add c (mk n)).trans (ih _)

theorem get?_setSym_self (c : Context) (s : Sym) : Context.get? (setSym c s) s.name = some s := by
  cases c with
  | nil => simp [setSym, Context.get?, Dict.get?]
  | cons sc r => simp [setSym, Context.get?, Dict.get?_set_self]

theorem get?_setSym_other (c : Context) (s : Sym) (x : Str) (h : s.name ≠ x) (hc : c ≠ []) :
    Context.get? (setSym c s) x = Context.get? c x := by
  cases c with
  | nil => exact absurd rfl hc
  | cons sc r => simp [setSym, Context.get?, Dict.get?_set_other sc s.name x s h]

theorem sane_setSym {c : Context} {sy : Sym} (hc : SaneCtx c = true) (hs : Addable sy) :
    SaneCtx (setSym c sy) = true := by
  cases c with
  | nil => simp [setSym, SaneCtx, saneEntry_self hs]
  | cons sc r =>
    simp only [SaneCtx, List.all_cons, Bool.and_eq_true, setSym] at hc ⊢
    exact ⟨all_set sc _ _ hc.1 (saneEntry_self hs), hc.2⟩

theorem remove_ne_nil {c : Context} (x : Str) (hc : c ≠ []) : Context.remove c x ≠ [] := by
  cases c with
  | nil => exact absurd rfl hc
  | cons sc r => simp [Context.remove]

theorem bmono_updateSymbol (c : Context) (new : Sym) (hk : new.kind = .cls) :
    BMono c (updateSymbol c new) := by
  intro N h
  by_cases hc : c = []
  · subst hc; simp [getClass, Context.get?] at h
  unfold updateSymbol
  by_cases hn : new.name = N
  · subst hn
    unfold getClass
    rw [get?_setSym_self]
    simp [hk]
  · unfold getClass at h ⊢
    rw [get?_setSym_other _ _ _ hn (remove_ne_nil _ hc), Context.get?_remove_other c new.name N hn]
    exact h

theorem sane_updateSymbol {c : Context} {new : Sym} (hc : SaneCtx c = true) (hk : new.kind = .cls) :
    SaneCtx (updateSymbol c new) = true := by
  unfold updateSymbol
  exact sane_setSym (sane_remove _ hc) (by intro h; rw [hk] at h; cases h)

theorem unravelNamesL_nc : ∀ (l : List Node), l.all unravelOk = true → ∀ e, unravelNamesL l ≠ .crash e
  | [], _, e => by rw [unravelNamesL]; intro h; cases h
  | n :: r, h, e => by
    simp only [List.all_cons, Bool.and_eq_true] at h
    rw [unravelNamesL]
    intro he
    have h1 := h.1
    unfold unravelOk at h1
    cases hn : unravelNames n with
    | ok a =>
      rw [hn] at he
      simp only [] at he
      cases hr : unravelNamesL r with
      | ok b => rw [hr] at he; cases he
      | fatal d => rw [hr] at he; cases he
      | crash e' => exact unravelNamesL_nc r h.2 e' hr
    | fatal d => rw [hn] at he; cases he
    | crash e' => rw [hn] at h1; cases h1

/-- state invariant of the class-body walk (on the visitor state). -/
structure CInv (c0 : Context) (s : St) : Prop where
  sane : SaneCtx s.ctx = true
  mono : BMono c0 s.ctx

def GoodC (c0 : Context) (r : Res) : Prop := NC r ∧ ∀ t, r = .ok t → CInv c0 t

theorem gc_ok {s : St} (h : CInv c0 s) : GoodC c0 (.ok s) :=
  ⟨nc_ok s, fun t e => by injection e with e; subst e; exact h⟩

theorem gc_bind {r : Res} {f : St → Res} (hr : GoodC c0 r) (hf : ∀ s, CInv c0 s → GoodC c0 (f s)) :
    GoodC c0 (r >>>= f) := by
  cases r with
  | ok s => exact hf s (hr.2 s rfl)
  | fatal s d => exact ⟨nc_fatal s d, fun t e => by cases e⟩
  | crash s e => exact absurd rfl (hr.1 s e)

theorem classRegister_good (cls : Str) (targets : List Node) (s : St) (hs : CInv c0 s)
    (h : targets.all unravelOk = true) : GoodC c0 (classRegister cls targets s) := by
  unfold classRegister
  cases hu : unravelNamesL targets with
  | ok names =>
    simp only []
    exact gc_ok ⟨sane_foldl_add _ _ false hs.sane (fun n => addable_nameSym _),
      hs.mono.trans (bmono_foldl_add names (fun n => classAttrSym cls n) s.ctx)⟩
  | fatal d => exact ⟨nc_fatal _ _, fun t e => by cases e⟩
  | crash e => exact absurd hu (unravelNamesL_nc targets h e)

theorem classEvent_good (cls : Str) (n : Node) (s : St) (hs : CInv c0 s) (h : classEventOk n = true) :
    GoodC c0 (classEvent cls n s) := by
  unfold classEvent
  split
  · exact classRegister_good cls _ s hs (by simpa [classEventOk] using h)
  · exact classRegister_good cls _ s hs (by simpa [classEventOk] using h)
  · exact classRegister_good cls _ s hs (by simpa [classEventOk] using h)
  · exact classRegister_good cls _ s hs (by simpa [classEventOk] using h)
  · exact gc_ok hs

theorem classEvents_good (cls : Str) : ∀ (l : List Node) (s : St), CInv c0 s → l.all classEventOk = true →
    GoodC c0 (classEvents cls l s)
  | [], s, hs, _ => by unfold classEvents; exact gc_ok hs
  | n :: r, s, hs, h => by
    simp only [List.all_cons, Bool.and_eq_true] at h
    unfold classEvents
    exact gc_bind (classEvent_good cls n s hs h.1) (fun s hs => classEvents_good cls r s hs h.2)

mutual
theorem classWalk_good (cls : Str) : (t : Top) → (s : St) → CInv c0 s → classWalkOk t = true →
    GoodC c0 (classWalk cls t s)
  | .assign targets extra value, s, hs, h => by
    rw [classWalk.eq_def]; simp only []
    simp only [classWalkOk, Bool.and_eq_true] at h
    exact gc_bind (classRegister_good cls targets s hs h.1) (fun s hs => classEvents_good cls _ s hs h.2)
  | .exprStmt v, s, hs, h => by
    rw [classWalk.eq_def]; simp only [classWalkOk] at h; exact classEvents_good cls _ s hs h
  | .expr n, s, hs, h => by
    rw [classWalk.eq_def]; simp only [classWalkOk] at h; exact classEvents_good cls _ s hs h
  | .delete targets, s, hs, h => by
    rw [classWalk.eq_def]; simp only [classWalkOk] at h; exact classEvents_good cls _ s hs h
  | .importStmt _, s, hs, _ => by rw [classWalk.eq_def]; exact gc_ok hs
  | .importFrom .., s, hs, _ => by rw [classWalk.eq_def]; exact gc_ok hs
  | .funcDef _ _ body _ _, s, hs, h => by
    rw [classWalk.eq_def]; simp only [classWalkOk] at h; exact classEvents_good cls _ s hs h
  | .classDef _ bases body _, s, hs, h => by
    rw [classWalk.eq_def]; simp only []
    simp only [classWalkOk, Bool.and_eq_true] at h
    exact gc_bind (classEvents_good cls _ s hs h.1) (fun s hs => classWalkL_good cls body s hs h.2)
  | .tryStmt b hd o fb, s, hs, h => by
    rw [classWalk.eq_def]; simp only []
    simp only [classWalkOk, Bool.and_eq_true] at h
    exact gc_bind (classWalkL_good cls b s hs h.1.1.1) fun s hs =>
      gc_bind (classWalkL_good cls hd s hs h.1.1.2) fun s hs =>
        gc_bind (classWalkL_good cls o s hs h.1.2) fun s hs => classWalkL_good cls fb s hs h.2
  | .compound _ kids, s, hs, h => by
    rw [classWalk.eq_def]; simp only [classWalkOk] at h; exact classWalkL_good cls kids s hs h
theorem classWalkL_good (cls : Str) : (ts : List Top) → (s : St) → CInv c0 s → classWalkLOk ts = true →
    GoodC c0 (classWalkL cls ts s)
  | [], s, hs, _ => by rw [classWalkL.eq_def]; exact gc_ok hs
  | t :: r, s, hs, h => by
    rw [classWalkL.eq_def]; simp only []
    simp only [classWalkLOk, Bool.and_eq_true] at h
    exact gc_bind (classWalk_good cls t s hs h.1) fun s hs => classWalkL_good cls r s hs h.2
end


/-! ### the class analyser -/

theorem getClass_kind {c : Context} {name : Str} {sy : Sym} (h : getClass c name = some sy) : sy.kind = .cls := by
  unfold getClass at h
  split at h
  · split at h
    · rename_i hk; injection h with h; subst h; simpa using hk
    · cases h
  · cases h

theorem classSymbol_good {s : FState} {cls : Str} {k : Sym → FOut} (hs : FInv c0 s)
    (hb : (getClass c0 cls).isSome = true) (hk : ∀ sy, sy.kind = .cls → GoodF c0 (k sy)) :
    GoodF c0 (classSymbol s cls k) := by
  unfold classSymbol
  have := hs.mono cls hb
  cases hg : getClass s.ctx cls with
  | some sy => exact hk sy (getClass_kind hg)
  | none => rw [hg] at this; cases this

theorem FInv.update {s : FState} (hs : FInv c0 s) {new : Sym} (hk : new.kind = .cls) :
    FInv c0 { s with ctx := updateSymbol s.ctx new } :=
  ⟨sane_updateSymbol hs.sane hk, hs.mono.trans (bmono_updateSymbol s.ctx new hk)⟩

theorem FInv.add {s : FState} (hs : FInv c0 s) {sy : Sym} (h : Addable sy) :
    FInv c0 { s with ctx := Context.add s.ctx sy } :=
  ⟨sane_add false hs.sane h, hs.mono.trans (bmono_add s.ctx sy)⟩

theorem initMethod_good {s : FState} {ms : List Method} {k : FState → Option Method → FOut} (hs : FInv c0 s)
    (hk : ∀ s init, FInv c0 s → (∀ i, init = some i → i.isAsync = false ∧
      ∃ rest, ms.filter (fun m => m.name = "__init__".toList) = i :: rest) →
      (init = none → ms.filter (fun m => m.name = "__init__".toList) = []) → GoodF c0 (k s init)) :
    GoodF c0 (initMethod s ms k) := by
  unfold initMethod
  split
  · rename_i hnil
    exact hk s none hs (fun i e => by cases e) (fun _ => hnil)
  · rename_i i rest hcons
    simp only []
    split
    · exact gf_fatal _ _
    · rename_i hasync
      refine hk _ (some i) ?_ (fun i' e => ?_) (fun e => by cases e)
      · split
        · exact hs
        · exact hs.diag _
      · injection e with e; subst e
        exact ⟨by simpa using hasync, rest, hcons⟩

theorem visitInitialiser_good {env : Env} {mn : Str} {cls : Str} {decos : List Ann.Deco} {init : Method}
    {s : FState} {cir : ClassIr} {k : FState → ClassIr → FOut} (hs : FInv c0 s)
    (hi : Ann.hasAnnotation Ann.nIgnore decos = .ok false) (hb : (getClass c0 cls).isSome = true)
    (hinit : initOk decos init = true) (hasync : init.isAsync = false)
    (hk : ∀ s cir, FInv c0 s → GoodF c0 (k s cir)) :
    GoodF c0 (visitInitialiser env mn cls decos init s cir k) := by
  unfold visitInitialiser
  rw [hi]
  simp only [liftAnn, Bool.false_eq_true, if_false]
  refine classSymbol_good hs hb (fun sy hk' => ?_)
  have hs' : FInv c0 { s with ctx := updateSymbol s.ctx { sy with iface := some init.ps.iface, callable := true } } :=
    hs.update (by simpa using hk')
  simp only [initOk, hasync, Bool.false_or] at hinit
  cases hr : Ann.hasAnnotation Ann.nResults decos with
  | crash c => rw [hr] at hinit; cases hinit
  | fatal fa => exact gf_fatal _ _
  | ok decl =>
    rw [hr] at hinit
    simp only []
    cases decl with
    | true => simp only [if_true]; exact declaredIr_good hs' hinit (fun ir s' hs'' => hk _ _ hs'')
    | false =>
      simp only [Bool.false_eq_true, if_false]
      exact analyseInto_good hs' hinit (fun ir s' hs'' => hk _ _ hs'')

theorem visitEnum_good {cls : Str} {s : FState} {cir : ClassIr} {k : FState → ClassIr → FOut} (hs : FInv c0 s)
    (hb : (getClass c0 cls).isSome = true) (hk : ∀ s cir, FInv c0 s → GoodF c0 (k s cir)) :
    GoodF c0 (visitEnum cls s cir k) := by
  unfold visitEnum
  refine classSymbol_good hs hb (fun sy hk' => ?_)
  simp only []
  exact hk _ _ (hs.update (by simpa using hk'))

theorem visitNamedTuple_good {cls : Str} {s : FState} {cir : ClassIr} {k : FState → ClassIr → FOut}
    (hs : FInv c0 s) (hb : (getClass c0 cls).isSome = true) (hk : ∀ s cir, FInv c0 s → GoodF c0 (k s cir)) :
    GoodF c0 (visitNamedTuple cls s cir k) := by
  unfold visitNamedTuple
  refine classSymbol_good hs hb (fun sy hk' => ?_)
  exact hk _ _ (hs.update (by simpa using hk'))

theorem visitStatic_good {env : Env} {mn : Str} {cls : Str} {m : Method} {s : FState} {cir : ClassIr}
    {k : FState → ClassIr → FOut} (hs : FInv c0 s) (hb : NoCrashShapeFn m.body = true)
    (hk : ∀ s cir, FInv c0 s → GoodF c0 (k s cir)) : GoodF c0 (visitStatic env mn cls m s cir k) := by
  unfold visitStatic
  simp only []
  exact analyseInto_good (hs.add (addable_funcSym _ _)) hb (fun ir s' hs' => hk _ _ hs')

theorem staticLoop_good {env : Env} {mn : Str} {cls : Str} : ∀ (ms : List Method) (s : FState) (cir : ClassIr)
    (k : FState → ClassIr → FOut), FInv c0 s → ms.all methodOk = true →
    (∀ s cir, FInv c0 s → GoodF c0 (k s cir)) → GoodF c0 (staticLoop env mn cls ms s cir k)
  | [], s, cir, k, hs, _, hk => by unfold staticLoop; exact hk s cir hs
  | m :: r, s, cir, k, hs, h, hk => by
    simp only [List.all_cons, Bool.and_eq_true] at h
    unfold staticLoop
    have hm := h.1
    unfold methodOk at hm
    cases ha : Ann.hasAnnotation Ann.nStatic m.decos with
    | crash c => rw [ha] at hm; cases hm
    | fatal fa => exact gf_fatal _ _
    | ok st =>
      rw [ha] at hm
      simp only [liftAnn]
      cases st with
      | true =>
        simp only [if_true]
        exact visitStatic_good hs hm (fun s cir hs => staticLoop_good r s cir k hs h.2 hk)
      | false =>
        simp only [Bool.false_eq_true, if_false]
        exact staticLoop_good r s cir k hs h.2 hk

/-- the spellings `baseNames` hands on (when none of them is fatal). -/
def baseSpellings (bases : List Node) : List Str :=
  bases.filterMap fun b => match namesOf true b with | .ok _ full => some full | _ => none

theorem baseNames_good {s : FState} : ∀ (bases : List Node) (k : List Str → FOut),
    bases.all (nameOk true) = true → GoodF c0 (k (baseSpellings bases)) → GoodF c0 (baseNames s bases k)
  | [], k, _, hk => by unfold baseNames; exact hk
  | b :: r, k, h, hk => by
    simp only [List.all_cons, Bool.and_eq_true] at h
    unfold baseNames
    cases hn : namesOf true b with
    | ok base full =>
      simp only [fLiftName]
      refine baseNames_good r _ h.2 ?_
      have : baseSpellings (b :: r) = full :: baseSpellings r := by simp [baseSpellings, hn]
      rw [this] at hk
      exact hk
    | fatal d => exact gf_fatal _ _
    | crash e => exact absurd hn (nameOk_spec h.1 e)

theorem classAnalyse_good {env : Env} {mn : Str} {cls : Str} {bases : List Node} {body : List Top}
    {decos : List Ann.Deco} {s : FState} {k : FState → ClassIr → FOut} (hs : FInv c0 s)
    (hi : Ann.hasAnnotation Ann.nIgnore decos = .ok false)
    (hbody : classBodyOk bases body decos = true)
    (hbound : needsSymbol bases body = true → (getClass c0 cls).isSome = true)
    (hk : ∀ s cir, FInv c0 s → GoodF c0 (k s cir)) :
    GoodF c0 (classAnalyse env mn cls bases body decos s k) := by
  unfold classAnalyse
  simp only [classBodyOk, Bool.and_eq_true] at hbody
  obtain ⟨⟨hwalk, hinit⟩, hmeth⟩ := hbody
  simp only []
  have hw := classWalkL_good (c0 := s.ctx) cls (body.filter fun t => !isMethod t) { ctx := s.ctx }
    ⟨hs.sane, BMono.refl _⟩ hwalk
  refine gf_liftRes hs hw.1 (fun t ht => ⟨(hw.2 t ht).sane, (hw.2 t ht).mono⟩) (fun _ s1 hs1 => ?_)
  refine initMethod_good hs1 (fun s2 init hs2 hsome hnone => ?_)
  cases init with
  | some i =>
    obtain ⟨hasync, rest, hfil⟩ := hsome i rfl
    simp only []
    rw [hfil] at hinit
    simp only [] at hinit
    have hneeds : needsSymbol bases body = true := by
      unfold needsSymbol
      rw [hfil]; simp
    exact visitInitialiser_good hs2 hi (hbound hneeds) hinit hasync
      (fun s cir hs => staticLoop_good _ s cir k hs hmeth hk)
  | none =>
    have hfil := hnone rfl
    rw [hfil] at hinit
    simp only [] at hinit ⊢
    refine baseNames_good bases _ hinit ?_
    have hneeds : (heuristic "Enum" (baseSpellings bases) || heuristic "NamedTuple" (baseSpellings bases)) = true →
        (getClass c0 cls).isSome = true := by
      intro hh
      apply hbound
      unfold needsSymbol
      rw [hfil]
      simp only [List.isEmpty_nil, Bool.not_true, Bool.false_or]
      exact hh
    have hrest : ∀ s cir, FInv c0 s → GoodF c0
        ((fun (k' : FState → ClassIr → FOut) =>
            if heuristic "NamedTuple" (baseSpellings bases) then visitNamedTuple cls s cir k' else k' s cir)
          fun s cir => staticLoop env mn cls (methodsOf body) s cir k) := by
      intro s cir hs
      simp only []
      split
      · rename_i hnt
        exact visitNamedTuple_good hs (hneeds (by simp [hnt])) (fun s cir hs => staticLoop_good _ s cir k hs hmeth hk)
      · exact staticLoop_good _ s cir k hs hmeth hk
    split
    · rename_i hen
      exact visitEnum_good hs2 (hneeds (by simp [hen])) hrest
    · exact hrest s2 [] hs2

theorem visitClassDef_good {env : Env} {mn : Str} {f : Facts} {name : Str} {bases : List Node} {body : List Top}
    {decos : List Ann.Deco} {s : FState} (hs : FInv c0 s) (h : classOk f name bases body decos = true)
    (hbound : classSkipped f name decos = false → needsSymbol bases body = true → (getClass c0 name).isSome = true) :
    GoodF c0 (visitClassDef env mn f name bases body decos s) := by
  unfold visitClassDef
  unfold classOk at h
  cases hi : Ann.hasAnnotation Ann.nIgnore decos with
  | crash c => rw [hi] at h; cases h
  | fatal fa => exact gf_fatal _ _
  | ok ign =>
    rw [hi] at h
    simp only [liftAnn]
    cases ign with
    | true => simp only [if_true]; exact gf_ok hs
    | false =>
      simp only [Bool.false_eq_true, if_false]
      simp only [Bool.or_eq_true] at h
      split
      · exact gf_ok hs
      · rename_i hex
        have hskip : classSkipped f name decos = false := by
          unfold classSkipped
          rw [hi]
          simpa using hex
        exact classAnalyse_good hs hi (h.resolve_left hex) (hbound hskip) (fun s cir hs => gf_ok (hs.ir _))

/-! ### the file walk -/

mutual
theorem visitTop_good (env : Env) (mn : Str) (f : Facts) (hc : noCustomOnDef env.analysers mn = true) :
    (t : Top) → (s : FState) → FInv c0 s → visitTopOk f t = true → classesBound f c0 t = true →
    GoodF c0 (visitTop env mn f t s)
  | .funcDef name ps body decos a, s, hs, h, _ => by
    rw [visitTop.eq_def]; simp only [visitTopOk] at h; exact visitFuncDef_good hs hc h
  | .classDef name bases body decos, s, hs, h, hb => by
    rw [visitTop.eq_def]; simp only [visitTopOk] at h
    simp only [classesBound, Bool.or_eq_true, Bool.not_eq_true'] at hb
    refine visitClassDef_good hs h (fun hsk hn => ?_)
    rcases hb with (hb | hb) | hb
    · rw [hsk] at hb; cases hb
    · rw [hn] at hb; cases hb
    · exact hb
  | .assign targets extra value, s, hs, h, _ => by
    rw [visitTop.eq_def]; simp only []
    simp only [visitTopOk] at h
    cases value with
    | none => exact gf_ok hs
    | some v => simp only [] at h ⊢; exact anyAssign_good env mn targets v s hs h
  | .exprStmt v, s, hs, h, _ => by
    rw [visitTop.eq_def]; simp only [visitTopOk] at h; exact fileEvents_good env mn _ s hs h
  | .expr n, s, hs, h, _ => by
    rw [visitTop.eq_def]; simp only [visitTopOk] at h; exact fileEvents_good env mn _ s hs h
  | .delete targets, s, hs, h, _ => by
    rw [visitTop.eq_def]; simp only [visitTopOk] at h; exact fileEvents_good env mn _ s hs h
  | .importStmt _, s, hs, _, _ => by rw [visitTop.eq_def]; exact gf_ok hs
  | .importFrom .., s, hs, _, _ => by rw [visitTop.eq_def]; exact gf_ok hs
  | .tryStmt b hd o fb, s, hs, h, hb => by
    rw [visitTop.eq_def]; simp only []
    simp only [visitTopOk, Bool.and_eq_true] at h
    simp only [classesBound, Bool.and_eq_true] at hb
    exact gf_bind (visitTops_good env mn f hc b s hs h.1.1.1 hb.1.1.1) fun s hs =>
      gf_bind (visitTops_good env mn f hc hd s hs h.1.1.2 hb.1.1.2) fun s hs =>
        gf_bind (visitTops_good env mn f hc o s hs h.1.2 hb.1.2) fun s hs =>
          visitTops_good env mn f hc fb s hs h.2 hb.2
  | .compound _ kids, s, hs, h, hb => by
    rw [visitTop.eq_def]; simp only [visitTopOk] at h; simp only [classesBound] at hb
    exact visitTops_good env mn f hc kids s hs h hb
theorem visitTops_good (env : Env) (mn : Str) (f : Facts) (hc : noCustomOnDef env.analysers mn = true) :
    (ts : List Top) → (s : FState) → FInv c0 s → visitTopsOk f ts = true → classesBoundL f c0 ts = true →
    GoodF c0 (visitTops env mn f ts s)
  | [], s, hs, _, _ => by rw [visitTops.eq_def]; exact gf_ok hs
  | t :: r, s, hs, h, hb => by
    rw [visitTops.eq_def]; simp only []
    simp only [visitTopsOk, Bool.and_eq_true] at h
    simp only [classesBoundL, Bool.and_eq_true] at hb
    exact gf_bind (visitTop_good env mn f hc t s hs h.1 hb.1) fun s hs => visitTops_good env mn f hc r s hs h.2 hb.2
end


/-! ## part D: composition -/

/-- **stage S4** from a sane context in which the classes to analyse resolve to classes. -/
theorem analyseWith_good (env : Env) (mn : Str) (f : Facts) (ctx : Context) (body : List Top)
    (hshape : fileShapeOk env.analysers mn f body = true) (hsane : SaneCtx ctx = true)
    (hb : classesBoundL f ctx body = true) : GoodF ctx (analyseWith env mn f ctx body) := by
  unfold analyseWith
  simp only [fileShapeOk, Bool.and_eq_true] at hshape
  exact visitTops_good env mn f hshape.1 body { ctx := ctx } ⟨hsane, BMono.refl _⟩ hshape.2 hb

/-- what `NoCrashShapeFile` says once the root context is known. -/
theorem shapeFile_parts {analysers : List Str} {mn : Str} {f : Facts} {builtins : List Str} {body : List Top}
    (h : NoCrashShapeFile analysers mn f builtins body = true) :
    registerLOk body = true ∧ fileShapeOk analysers mn f body = true ∧
    ∀ r, RootCtx.compile f builtins body = .ok r → classesBoundL f r.ctx body = true := by
  simp only [NoCrashShapeFile, Bool.and_eq_true] at h
  refine ⟨h.1.1, h.1.2, fun r hr => ?_⟩
  have := h.2
  rw [hr] at this
  exact this

/-- how result generation can end: a document, or one of the three named exceptions. -/
theorem results_crash (ord : List CallSym → List CallSym) (f : Facts) (imp : Pipeline.ImpFacts)
    (fir : Pipeline.FileIr) (e : Str) (h : Pipeline.results ord f imp fir = .crash e) : e ∈ resultsCrashes := by
  unfold Pipeline.results Pipeline.resultsStore at h
  simp only [] at h
  cases hg : Pipeline.genLoop (Pipeline.toProg ord f imp fir) (Pipeline.diagCtx f imp fir (Pipeline.toProg ord f imp fir))
      (List.range fir.length) (Pipeline.toStore fir) with
  | ok q => rw [hg] at h; obtain ⟨rs, σ, ds⟩ := q; simp at h
  | fatal a d => exact absurd hg (Pipeline.genLoop_not_fatal _ _ _ _ a d)
  | crash e' =>
    rw [hg] at h
    simp only [Outcome.crash.injEq] at h
    subst h
    rcases Pipeline.genLoop_crash _ _ _ _ e' hg with h1 | ⟨c, hc⟩
    · subst h1; simp [resultsCrashes]
    · simp only [Pipeline.diagCtx] at hc
      split at hc
      · rename_i cs _
        cases hr : Pipeline.resolveCall f imp fir cs with
        | target k => simp [hr] at hc
        | nothing => simp [hr] at hc
        | crash e'' =>
          simp only [hr, Option.some.injEq] at hc
          subst hc
          rcases Pipeline.resolveCall_crash hr with h2 | h2 <;> subst h2 <;> simp [resultsCrashes]
      · cases hc

end Rattr.C07

/-
  Helper lemmas for C07: "no crash" (`NC`) is preserved by every combinator of the function-analyser
  model, given the local shape conditions of `RattrModel.Crash`.
-/
import RattrModel.Crash

namespace Rattr.C07
open Rattr Rattr.FnA Rattr.Crash

/-- the result is not an unhandled Python exception. -/
def NC (r : Res) : Prop := ∀ s e, r ≠ .crash s e

theorem nc_ok (s : St) : NC (.ok s) := by intro _ _ h; cases h
theorem nc_fatal (s : St) (d : Diag) : NC (.fatal s d) := by intro _ _ h; cases h

theorem nc_bind {r : Res} {f : St → Res} (hr : NC r) (hf : ∀ s, NC (f s)) : NC (r >>>= f) := by
  cases r with
  | ok s => exact hf s
  | fatal s d => exact nc_fatal s d
  | crash s e => exact absurd rfl (hr s e)

theorem nc_ite {c : Prop} [Decidable c] {a b : Res} (ha : NC a) (hb : NC b) : NC (if c then a else b) := by
  split <;> assumption

theorem nc_liftName {s : St} {r : NameRes} {k : Str → Str → Res}
    (hr : ∀ e, r ≠ .crash e) (hk : ∀ b f, r = .ok b f → NC (k b f)) : NC (liftName s r k) := by
  cases r with
  | ok b f => exact hk b f rfl
  | fatal d => exact nc_fatal _ _
  | crash e => exact absurd rfl (hr e)

theorem nameOk_spec {safe : Bool} {n : Node} (h : nameOk safe n = true) : ∀ e, namesOf safe n ≠ .crash e := by
  intro e he; simp [nameOk, he] at h

theorem oldOk_spec {safe : Bool} {n : Node} (h : oldOk safe n = true) : ∀ e, oldNames safe n ≠ .crash e := by
  intro e he; simp [oldOk, he] at h

theorem nc_getAndVerify {s : St} {n : Node} {c : ECtx} {k : St → Str → Str → Res}
    (hn : nameOk true n = true) (hk : ∀ s b f, NC (k s b f)) : NC (getAndVerify s n c k) := by
  unfold getAndVerify
  exact nc_liftName (nameOk_spec hn) (fun b f _ => hk _ b f)

theorem nc_addIdentifiers {s : St} {t : Node} (h : unravelOk t = true) : NC (addIdentifiers s t) := by
  unfold addIdentifiers
  unfold unravelOk at h
  split
  · exact nc_ok _
  · exact nc_fatal _ _
  · rename_i e he; simp [he] at h

theorem nc_removeIdentifiers {s : St} {t : Node} (h : unravelFullOk t = true) : NC (removeIdentifiers s t) := by
  unfold removeIdentifiers
  unfold unravelFullOk at h
  split
  · exact nc_ok _
  · exact nc_fatal _ _
  · rename_i e he; simp [he] at h

theorem nc_addIdentifiersL : ∀ (l : List Node) (s : St), l.all unravelOk = true → NC (addIdentifiersL s l)
  | [], s, _ => by unfold addIdentifiersL; exact nc_ok s
  | t :: r, s, h => by
    simp only [List.all_cons, Bool.and_eq_true] at h
    unfold addIdentifiersL
    exact nc_bind (nc_addIdentifiers h.1) (fun s => nc_addIdentifiersL r s h.2)

theorem nc_removeIdentifiersL : ∀ (l : List Node) (s : St), l.all unravelFullOk = true → NC (removeIdentifiersL s l)
  | [], s, _ => by unfold removeIdentifiersL; exact nc_ok s
  | t :: r, s, h => by
    simp only [List.all_cons, Bool.and_eq_true] at h
    unfold removeIdentifiersL
    exact nc_bind (nc_removeIdentifiers h.1) (fun s => nc_removeIdentifiersL r s h.2)

theorem nc_argNames : ∀ (l : List Node) (s : St) (k : St → List Str → Res),
    l.all (oldOk true) = true → (∀ s l, NC (k s l)) → NC (argNames s l k)
  | [], s, k, _, hk => by unfold argNames; exact hk s []
  | a :: r, s, k, h, hk => by
    simp only [List.all_cons, Bool.and_eq_true] at h
    unfold argNames
    simp only []
    split
    · exact nc_argNames r _ _ h.2 (fun s rest => hk s _)
    · exact nc_fatal _ _
    · rename_i e he; exact absurd he (oldOk_spec h.1 e)

theorem nc_kwargNames : ∀ (kn : List (Option Str)) (kv : List Node) (s : St) (k : St → List (Str × Str) → Res),
    kv.all (oldOk true) = true → (∀ s l, NC (k s l)) → NC (kwargNames s kn kv k)
  | [], kv, s, k, _, hk => by unfold kwargNames; exact hk s []
  | some x :: rn, [], s, k, _, hk => by unfold kwargNames; exact hk s []
  | none :: rn, [], s, k, _, hk => by unfold kwargNames; exact hk s []
  | some x :: rn, v :: rv, s, k, h, hk => by
    simp only [List.all_cons, Bool.and_eq_true] at h
    unfold kwargNames
    split
    · exact nc_kwargNames rn rv _ _ h.2 (fun s rest => hk s _)
    · exact nc_fatal _ _
    · rename_i e he; exact absurd he (oldOk_spec h.1 e)
  | none :: rn, v :: rv, s, k, h, hk => by
    simp only [List.all_cons, Bool.and_eq_true] at h
    unfold kwargNames
    exact nc_kwargNames rn rv _ _ h.2 hk

theorem nc_mkCall {s : St} {name : Str} {args : List Node} {kwn : List (Option Str)} {kwv : List Node}
    {target : Option Sym} {self : Option Str} {k : St → CallSym → Res}
    (ha : args.all (oldOk true) = true) (hk : kwv.all (oldOk true) = true) (hc : ∀ s c, NC (k s c)) :
    NC (mkCall s name args kwn kwv target self k) := by
  unfold mkCall
  exact nc_argNames _ _ _ ha (fun s as => nc_kwargNames _ _ _ _ hk (fun s kws => hc s _))

theorem nc_protect {outer : St} {r : Res} (h : NC r) : NC (protect outer r) := by
  cases r with
  | ok t => exact nc_ok t
  | fatal t d => exact nc_fatal _ _
  | crash t e => exact absurd rfl (h t e)

theorem nc_dynamicName {s : St} {fn : Str} {args : List Node} {k : St → NameS → Res}
    (hx : xattrOldOk fn args = true) (hk : ∀ s n, NC (k s n)) : NC (dynamicName s fn args k) := by
  unfold dynamicName
  unfold xattrOldOk at hx
  split
  · simp only []
    split
    · exact hk _ _
    · exact nc_fatal _ _
    · rename_i e he; simp [he] at hx
  · exact nc_fatal _ _

theorem nc_defaultdictNamed {env : Env} {factory : Node} {s : St} (h : nameOk false factory = true) :
    NC (defaultdictNamed env factory s) := by
  unfold defaultdictNamed
  exact nc_liftName (nameOk_spec h) (fun b f _ => nc_ok _)

theorem nc_withRegister : ∀ (items : List Node) (s : St), withItemsOk items = true → NC (withRegister items s)
  | [], s, _ => by unfold withRegister; exact nc_ok s
  | n :: r, s, h => by
    cases n with
    | withitem ce vars =>
      simp only [withItemsOk, Bool.and_eq_true] at h
      unfold withRegister
      exact nc_bind (nc_addIdentifiersL vars s h.1) (fun s => nc_withRegister r s h.2)
    | _ =>
      simp only [withItemsOk] at h
      unfold withRegister
      exact nc_withRegister r s h

/-! ### class_in_rhs -/

theorem exprIsClass_nc {env : Env} {c : Context} {e : Node} (h : oldOk true e = true) :
    ∀ x, exprIsClass env c e ≠ .crash x := by
  intro x hx
  unfold exprIsClass at hx
  split at hx
  · cases hx
  · cases hx
  · rename_i y hy; exact absurd hy (oldOk_spec h y)

theorem anyIsClass_nc {env : Env} {c : Context} : ∀ (l : List Node), l.all (oldOk true) = true →
    ∀ x, anyIsClass env c l ≠ .crash x
  | [], _, x, hx => by unfold anyIsClass at hx; cases hx
  | e :: r, h, x, hx => by
    simp only [List.all_cons, Bool.and_eq_true] at h
    unfold anyIsClass at hx
    cases hy' : exprIsClass env c e with
    | ok b =>
      rw [hy'] at hx
      cases b
      · exact anyIsClass_nc r h.2 x hx
      · cases hx
    | fatal d => rw [hy'] at hx; cases hx
    | crash z => exact absurd hy' (exprIsClass_nc h.1 z)

theorem classInRhs_nc {env : Env} {c : Context} {v : Node} (h : classProbeOk v = true) :
    ∀ x, classInRhs env c v ≠ .crash x := by
  intro x hx
  unfold classInRhs at hx
  split at hx
  · rename_i f a kn kv
    exact exprIsClass_nc (by simpa [classProbeOk] using h) x hx
  · rename_i kind elts cx
    split at hx
    · exact anyIsClass_nc elts (by simpa [classProbeOk] using h) x hx
    · cases hx
  · cases hx

/-! ### `del`: naming by full name crashes exactly when naming by basename does -/

def urCrash : UR → Option Str
  | .crash e => some e
  | _ => none
def urFatal : UR → Option Diag
  | .fatal d => some d
  | _ => none

mutual
theorem unravel_same : ∀ (n : Node), urCrash (unravelFullNames n) = urCrash (unravelNames n) ∧ urFatal (unravelFullNames n) = urFatal (unravelNames n)
  | .seq kind elts c => by
    unfold unravelFullNames unravelNames
    split
    · exact unravelL_same elts
    · exact ⟨rfl, rfl⟩
  | .name .. | .attr .. | .sub .. | .starred .. | .call .. => by
    unfold unravelFullNames unravelNames
    simp only [Node.isNameable, if_true]
    cases namesOf false _ <;> exact ⟨rfl, rfl⟩
  | .lam .. | .comp .. | .gen .. | .walrus .. | .strConst .. | .const | .dict .. | .assign .. | .annAssign ..
  | .augAssign .. | .delete .. | .forLoop .. | .withStmt .. | .withitem .. | .funcDef .. | .classDef .. | .ret ..
  | .forbidden .. | .other .. => by
    unfold unravelFullNames unravelNames
    exact ⟨rfl, rfl⟩
theorem unravelL_same : ∀ (l : List Node), urCrash (unravelFullNamesL l) = urCrash (unravelNamesL l) ∧ urFatal (unravelFullNamesL l) = urFatal (unravelNamesL l)
  | [] => by unfold unravelFullNamesL unravelNamesL; exact ⟨rfl, rfl⟩
  | n :: r => by
    have h1 := unravel_same n
    have h2 := unravelL_same r
    unfold unravelFullNamesL unravelNamesL
    cases ha : unravelFullNames n <;> cases hb : unravelNames n <;> simp [ha, hb, urCrash, urFatal] at h1 ⊢
    · cases hc : unravelFullNamesL r <;> cases hd : unravelNamesL r <;> simp [hc, hd, urCrash, urFatal] at h2 ⊢ <;> exact h2
    · exact h1
    · exact h1
end

theorem unravelFullOk_eq (n : Node) : unravelFullOk n = unravelOk n := by
  have h := (unravel_same n).1
  unfold unravelFullOk unravelOk
  cases ha : unravelFullNames n <;> cases hb : unravelNames n <;> simp [ha, hb, urCrash] at h ⊢
end Rattr.C07

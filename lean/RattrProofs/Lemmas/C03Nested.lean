/-
  C03 round 3 — "reported calls are exactly the function's own direct calls": a call that sits
  anywhere BELOW statements / expressions without a dedicated visitor is one of them.

  `match … : case P if guard(x): …` is `other "Match" [subject, other "match_case" [pattern, guard,
  body…]]` in the model's AST (no `visit_Match` / `visit_match_case` exists: `generic_visit`), and
  likewise `if`, `while`, `assert`, `raise`, `await`, `yield`, `yield from`, f-strings (JoinedStr →
  FormattedValue), boolean / binary / unary / comparison operators, conditional expressions, `try`
  and its handlers.  The function analyser visits every kid of such a node, at every depth.
-/
import RattrProofs.Lemmas.VisitCover

namespace Rattr.AccessSpec
open Rattr Rattr.FnA Rattr.Strs

/-- `x` occurs in `m` below nodes without a dedicated visitor only (any depth, any position). -/
inductive Under : Node → Node → Prop
  | here (x : Node) : Under x x
  | other {x n : Node} {k : Str} {kids : List Node} : n ∈ kids → Under x n → Under x (.other k kids)

theorem mem_accessesL {n : Node} {a : Access} : ∀ {l : List Node}, n ∈ l → a ∈ accesses false n →
    a ∈ accessesL l
  | [], h, _ => by cases h
  | m :: r, h, ha => by
    rw [accessesL]
    rcases List.mem_cons.mp h with e | hm
    · subst e; exact List.mem_append.mpr (Or.inl ha)
    · exact List.mem_append.mpr (Or.inr (mem_accessesL hm ha))

theorem accesses_under {x m : Node} (h : Under x m) : ∀ a ∈ accesses false x, a ∈ accesses false m := by
  induction h with
  | here => intro a ha; exact ha
  | @other n k kids hn _ ih =>
    intro a ha
    rw [accesses]
    exact mem_accessesL hn (ih a ha)

/-- **A call under compound statements is an own call.**  If the analysis of a body in the fragment
succeeds, every call expression that occurs in a body statement below nodes without a dedicated
visitor — the guard of a `case`, the subject of a `match`, a condition, an `assert` / `raise` /
`await` / `yield` operand, an f-string field, an operand of any operator — has a record in `calls`
named after its callee. -/
theorem call_under_compound_recorded {env : Env} {mn : Str} {F : Feat} (hm : ModClean env mn)
    {root : Context} {ps : Params} {body : List Node}
    (hb : fragL (dirtyKeys env mn root) F body = true) {s' : St}
    (h : analyse env mn root ps body = .ok s') {m : Node} (hmem : m ∈ body)
    {f : Node} {args : List Node} {kwn : List (Option Str)} {kwv : List Node}
    (hu : Under (.call f args kwn kwv) m) :
    ∃ c ∈ s'.calls, c.name = withoutCallBrackets (spell f) := by
  have hcov := analyse_cover hm hb h
  have ha : (⟨.call, withoutCallBrackets (spell f), baseOf f⟩ : Access) ∈ accessesL body := by
    apply mem_accessesL hmem
    apply accesses_under hu
    rw [accesses]
    exact List.mem_cons_self
  have hp := hcov _ ha
  simp only [present, List.any_eq_true, beq_iff_eq] at hp
  obtain ⟨c, hc, hn⟩ := hp
  exact ⟨c, hc, hn⟩

/-- …and so are the accesses of its arguments (the callee's parameters are rewritten to them). -/
theorem args_under_compound_reported {env : Env} {mn : Str} {F : Feat} (hm : ModClean env mn)
    {root : Context} {ps : Params} {body : List Node}
    (hb : fragL (dirtyKeys env mn root) F body = true) {s' : St}
    (h : analyse env mn root ps body = .ok s') {m : Node} (hmem : m ∈ body)
    {f : Node} {args : List Node} {kwn : List (Option Str)} {kwv : List Node}
    (hu : Under (.call f args kwn kwv) m) :
    Covers (accessesL args ++ accessesL kwv) s' := by
  have hcov := analyse_cover hm hb h
  intro a ha
  apply hcov
  apply mem_accessesL hmem
  apply accesses_under hu
  rw [accesses]
  apply List.mem_cons_of_mem
  rcases List.mem_append.mp ha with h1 | h2
  · exact List.mem_append.mpr (Or.inl (List.mem_append.mpr (Or.inr h1)))
  · exact List.mem_append.mpr (Or.inr h2)

end Rattr.AccessSpec

/-
  C03 round 3 — "under recursion the analysis ... contains at least one full unrolling of every
  call cycle": lower bounds on the results that hold for EVERY call graph (cycles, diamonds, shared
  callees), because they only use that

    * every node the BFS put in the call tree is folded into its parent (reverse BFS order: a
      child has a larger index than its parent, so the child's own children were folded first),
    * the store only grows,
    * the children of the ROOT are all of its distinct resolvable call records (`seen` is empty
      when the root is expanded).

  `TreeContrib P nodes σ i k x`: name `x` is contributed to tree node `i` — an entry of the store
  before the fold, or the unbound image of a contribution to one of `i`'s children.
-/
import RattrProofs.Lemmas.ResultsDepthOne

namespace Rattr.Results

/-- a child is created after its parent -/
def ParentLt (nodes : List Node) : Prop :=
  ∀ (j : Nat) (n : Node) (i : Nat), nodes[j]? = some n → n.parent = some i → i < j

/-- the image of a basename under the swaps of an edge (`swaps.get(n.basename, n.basename)`) -/
def imageOf (P : Prog) (g : Key) (c : CallRec) (b : Str) : Str :=
  (Dict.get? (swapsOf P g c) b).getD b

inductive TreeContrib (P : Prog) (nodes : List Node) (σ : Store) : Nat → Kind → NameS → Prop
  | own {i : Nat} {n : Node} {k : Kind} {x : NameS} :
      nodes[i]? = some n → x ∈ (σ n.key).of k → TreeContrib P nodes σ i k x
  | child {i j : Nat} {ch : Node} {c : CallRec} {k : Kind} {x x' : NameS} :
      nodes[j]? = some ch → ch.parent = some i → ch.edgeIn = some c →
      TreeContrib P nodes σ j k x → unbindName x (imageOf P ch.key c x.base) = some x' →
      TreeContrib P nodes σ i k x'

theorem storeLe_of {σ σ' : Store} (h : StoreLe σ σ') (g : Key) (k : Kind) (x : NameS)
    (hx : x ∈ (σ g).of k) : x ∈ (σ' g).of k := by
  cases k
  · exact (h g x).1 hx
  · exact (h g x).2.1 hx
  · exact (h g x).2.2 hx

theorem unbindList_mem (sw : Dict Str Str) : ∀ (l l' : List NameS), unbindList sw l = some l' →
    ∀ x ∈ l, ∀ x', unbindName x ((Dict.get? sw x.base).getD x.base) = some x' → x' ∈ l'
  | [], _, _, x, hx, _, _ => by cases hx
  | n :: r, l', h, x, hx, x', hu => by
    simp only [unbindList] at h
    split at h
    · rename_i n' r' hn hr
      injection h with h
      subst h
      rcases List.mem_cons.mp hx with e | hm
      · subst e
        rw [hn] at hu
        injection hu with hu
        subst hu
        exact List.mem_cons_self
      · exact List.mem_cons_of_mem _ (unbindList_mem sw r r' hr x hm x' hu)
    · cases h

theorem unbindIr_mem (sw : Dict Str Str) (ir u : IrSets) (h : unbindIr sw ir = some u)
    (k : Kind) (x : NameS) (hx : x ∈ ir.of k) (x' : NameS)
    (hu : unbindName x ((Dict.get? sw x.base).getD x.base) = some x') : x' ∈ u.of k := by
  unfold unbindIr at h
  split at h
  · rename_i g s d hg hs hd
    injection h with h
    subst h
    cases k
    · exact unbindList_mem sw _ _ hg x hx x' hu
    · exact unbindList_mem sw _ _ hs x hx x' hu
    · exact unbindList_mem sw _ _ hd x hx x' hu
  · cases h

/-- one `|=` of the fold: the unbound image of every name of the child's entry is in the parent's
entry afterwards. -/
theorem foldChild_adds (P : Prog) (pk : Key) (σ σ' : Store) (ch : Node) (c : CallRec)
    (h : foldChild P pk σ ch = some σ') (hc : ch.edgeIn = some c) (k : Kind) (x x' : NameS)
    (hx : x ∈ (σ ch.key).of k) (hu : unbindName x (imageOf P ch.key c x.base) = some x') :
    x' ∈ (σ' pk).of k := by
  unfold foldChild at h
  simp only [hc] at h
  split at h
  · cases h
  · rename_i u hub
    injection h with h
    subst h
    have hm : x' ∈ u.of k := unbindIr_mem _ _ _ hub k x hx x' hu
    simp only [Store.update, if_true]
    cases k
    · exact mem_union_iff.mpr (Or.inr hm)
    · exact mem_union_iff.mpr (Or.inr hm)
    · exact mem_union_iff.mpr (Or.inr hm)

theorem foldChildren_adds (P : Prog) (pk : Key) : ∀ (chs : List Node) (σ σ' : Store),
    foldChildren P pk chs σ = some σ' → ∀ ch ∈ chs, ∀ c, ch.edgeIn = some c →
    ∀ (k : Kind) (x x' : NameS), x ∈ (σ ch.key).of k →
      unbindName x (imageOf P ch.key c x.base) = some x' → x' ∈ (σ' pk).of k
  | [], _, _, _, ch, hch, _, _, _, _, _, _, _ => by cases hch
  | c0 :: r, σ, σ', h, ch, hch, c, hc, k, x, x', hx, hu => by
    simp only [foldChildren] at h
    split at h
    · cases h
    · rename_i σ1 h1
      rcases List.mem_cons.mp hch with e | hm
      · subst e
        have := foldChild_adds P pk σ σ1 ch c h1 hc k x x' hx hu
        exact storeLe_of (foldChildren_le P pk r σ1 σ' h) pk k x' this
      · exact foldChildren_adds P pk r σ1 σ' h ch hm c hc k x x'
          (storeLe_of (foldChild_le P pk σ σ1 c0 h1) ch.key k x hx) hu

/-- the invariant of the reverse-BFS fold: every contribution to a node with index `≥ m` is in
the entry of that node's function. -/
def InvGe (P : Prog) (nodes : List Node) (σ0 : Store) (m : Nat) (σ : Store) : Prop :=
  ∀ j n k x, m ≤ j → nodes[j]? = some n → TreeContrib P nodes σ0 j k x → x ∈ (σ n.key).of k

theorem foldTree_treeContrib_aux (P : Prog) (nodes : List Node) (hp : ParentLt nodes) (σ0 : Store) :
    ∀ (m : Nat) (σ σ' : Store), m ≤ nodes.length → StoreLe σ0 σ → InvGe P nodes σ0 m σ →
      foldTree P nodes (List.range m).reverse σ = some σ' → InvGe P nodes σ0 0 σ'
  | 0, σ, σ', _, _, hI, h => by
    simp [foldTree] at h
    subst h
    exact hI
  | m + 1, σ, σ', hm, hle, hI, h => by
    rw [List.range_succ, List.reverse_append, List.reverse_singleton, List.singleton_append] at h
    simp only [foldTree] at h
    have hlt : m < nodes.length := by omega
    have hget : nodes[m]? = some nodes[m] := List.getElem?_eq_getElem hlt
    rw [hget] at h
    simp only at h
    split at h
    · cases h
    · rename_i σ1 h1
      have hle1 : StoreLe σ σ1 := foldChildren_le P _ _ σ σ1 h1
      apply foldTree_treeContrib_aux P nodes hp σ0 m σ1 σ' (by omega) (StoreLe.trans hle hle1) _ h
      intro j n k x hj hn hc
      by_cases hjm : j = m
      · subst hjm
        rw [hget] at hn
        injection hn with hn
        subst hn
        cases hc with
        | own hn' hx =>
          rw [hget] at hn'
          injection hn' with hn'
          subst hn'
          exact storeLe_of (StoreLe.trans hle hle1) _ k x hx
        | @child _ j' ch c _ x0 _ hch hpar hedge hsub hu =>
          have hlt' : j < j' := hp j' ch j hch hpar
          have hx0 : x0 ∈ (σ ch.key).of k := hI j' ch k x0 (by omega) hch hsub
          have hmem : ch ∈ childrenOf nodes j := by
            unfold childrenOf
            exact List.mem_filter.mpr ⟨List.mem_of_getElem? hch, by simp [hpar]⟩
          exact foldChildren_adds P _ _ σ σ1 h1 ch hmem c hedge k x0 x hx0 hu
      · exact storeLe_of hle1 _ k x (hI j n k x (by omega) hn hc)

/-- **Every node of the call tree contributes.** After the fold, the entry of the function of
tree node `i` holds every contribution to `i` — in particular (i = 0) the root's result holds the
names of every node of the tree, unbound along the path to the root. -/
theorem foldTree_treeContrib (P : Prog) (nodes : List Node) (hp : ParentLt nodes) (σ σ' : Store)
    (h : foldTree P nodes (List.range nodes.length).reverse σ = some σ')
    (i : Nat) (n : Node) (k : Kind) (x : NameS) (hn : nodes[i]? = some n)
    (hc : TreeContrib P nodes σ i k x) : x ∈ (σ' n.key).of k := by
  have hI : InvGe P nodes σ nodes.length σ := by
    intro j n' _ _ hj hn' _
    have := (List.getElem?_eq_some_iff.mp hn').1
    omega
  exact foldTree_treeContrib_aux P nodes hp σ nodes.length σ σ' (Nat.le_refl _) (StoreLe.refl _) hI h
    i n k x (Nat.zero_le _) hn hc

/-! ### the tree `make_target_ir_call_tree` builds is well-formed -/

structure TreeWf (root : Key) (st : BfsState) : Prop where
  root0 : st.nodes[0]? = some (rootNode root)
  parentLt : ParentLt st.nodes

theorem kids_parent {P : Prog} {i : Nat} {cs : List CallRec} {seen : List Nat} {n : Node}
    (h : n ∈ kids P i cs seen) : n.parent = some i := by
  obtain ⟨_, _, _, _, hp⟩ := kids_spec h
  exact hp

theorem expand_wf (P : Prog) (root : Key) (i : Nat) (cs : List CallRec) (st : BfsState)
    (hi : i < st.nodes.length) (h : TreeWf root st) : TreeWf root (expand P i cs st) := by
  rw [expand_eq]
  constructor
  · show (st.nodes ++ kids P i cs st.seen)[0]? = _
    rw [List.getElem?_append_left (by omega)]
    exact h.root0
  · show ParentLt (st.nodes ++ kids P i cs st.seen)
    intro j n p hn hpar
    by_cases hj : j < st.nodes.length
    · rw [List.getElem?_append_left hj] at hn
      exact h.parentLt j n p hn hpar
    · rw [List.getElem?_append_right (by omega)] at hn
      have := kids_parent (List.mem_of_getElem? hn)
      rw [this] at hpar
      injection hpar with hpar
      omega

theorem bfs_wf (P : Prog) (root : Key) : ∀ (fuel i : Nat) (st st' : BfsState), TreeWf root st →
    bfs P fuel i st = some st' →
      TreeWf root st' ∧ ∀ (j : Nat) (n : Node), st.nodes[j]? = some n → st'.nodes[j]? = some n
  | 0, i, st, st', h, hb => by
    simp only [bfs] at hb
    split at hb
    · cases hb
    · injection hb with hb; subst hb; exact ⟨h, fun _ _ h => h⟩
  | fuel + 1, i, st, st', h, hb => by
    simp only [bfs] at hb
    cases hn : st.nodes[i]? with
    | none => rw [hn] at hb; injection hb with hb; subst hb; exact ⟨h, fun _ _ h => h⟩
    | some nd =>
      rw [hn] at hb
      simp only at hb
      have hi : i < st.nodes.length := (List.getElem?_eq_some_iff.mp hn).1
      obtain ⟨a, b⟩ := bfs_wf P root fuel (i + 1) _ st' (expand_wf P root i _ st hi h) hb
      refine ⟨a, ?_⟩
      intro j n hj
      apply b
      rw [expand_eq]
      show (st.nodes ++ _)[j]? = some n
      rw [List.getElem?_append_left (List.getElem?_eq_some_iff.mp hj).1]
      exact hj

theorem wf0 (root : Key) : TreeWf root { nodes := [rootNode root], seen := [] } := by
  constructor
  · rfl
  · show ParentLt [rootNode root]
    intro j n p hn hpar
    cases j with
    | zero =>
      simp only [List.getElem?_cons_zero] at hn
      injection hn with hn
      subst hn
      cases hpar
    | succ j => simp at hn

/-- the call tree of ANY program: node 0 is the root, parents precede children, and every distinct
resolvable call record of the root has a child of the root (the first expansion is never cut by
`seen`). -/
theorem callTree_wf (P : Prog) (root : Key) (nodes : List Node) (h : callTree P root = some nodes) :
    nodes[0]? = some (rootNode root) ∧ ParentLt nodes ∧
    ∀ c g, c ∈ (fnAt P root).calls → P.resolve c.cid = some g →
      ∃ (j : Nat) (c' : CallRec), nodes[j]? = some ({ key := g, edgeIn := some c', parent := some 0 } : Node) ∧
        c' ∈ (fnAt P root).calls ∧ c'.cid = c.cid := by
  have h : (bfs P (totalCalls P + 1) 0 { nodes := [rootNode root], seen := [] }).map (·.nodes) = some nodes := h
  cases hb : bfs P (totalCalls P + 1) 0 { nodes := [rootNode root], seen := [] } with
  | none => rw [hb] at h; cases h
  | some st' =>
    rw [hb] at h
    simp only [Option.map_some] at h
    injection h with h
    subst h
    have hwf := (bfs_wf P root _ _ _ st' (wf0 root) hb).1
    refine ⟨hwf.root0, hwf.parentLt, ?_⟩
    intro c g hc hr
    -- the first step of the BFS
    have hb' := hb
    simp only [bfs, List.getElem?_cons_zero] at hb'
    have hroot : (rootNode root).key = root := rfl
    rw [hroot] at hb'
    have hwf1 : TreeWf root (expand P 0 (sortCalls (fnAt P root).calls)
        { nodes := [rootNode root], seen := [] }) :=
      expand_wf P root 0 _ _ (by simp) (wf0 root)
    obtain ⟨_, hkeep⟩ := bfs_wf P root _ _ _ st' hwf1 hb'
    obtain ⟨c', hc', hcid, hk⟩ := kids_complete P 0 (sortCalls (fnAt P root).calls)
      (mem_sortCalls.mpr hc) hr
    obtain ⟨idx, hidx⟩ := List.getElem?_of_mem hk
    refine ⟨1 + idx, c', ?_, mem_sortCalls.mp hc', hcid⟩
    apply hkeep
    rw [expand_eq]
    show ([rootNode root] ++ kids P 0 _ [])[1 + idx]? = _
    rw [List.getElem?_append_right (by simp)]
    simpa using hidx

/-- **Every node of the call tree reaches the root's result** (any program, any call graph). -/
theorem runRoot_treeContrib (P : Prog) (σ σ' : Store) (root : Key) (res : IrSets) (nodes : List Node)
    (ht : callTree P root = some nodes) (h : runRoot P σ root = .ok (res, σ'))
    (k : Kind) (x : NameS) (hc : TreeContrib P nodes σ 0 k x) : x ∈ res.of k := by
  obtain ⟨h0, hp, _⟩ := callTree_wf P root nodes ht
  unfold runRoot at h
  rw [ht] at h
  simp only at h
  split at h
  · cases h
  · rename_i σ1 h1
    injection h with h
    injection h with hres hσ
    subst hres
    have := foldTree_treeContrib P nodes hp σ σ1 h1 0 (rootNode root) k x h0 hc
    exact this

/-- **First call level, every graph**: for every resolvable call `c` of the root to `g` (`g` may be
the root itself: direct recursion), the unbound image of every name of `g`'s entry is in the
root's result — whatever else the graph contains. -/
theorem runRoot_first_level (P : Prog) (σ σ' : Store) (root : Key) (res : IrSets)
    (h : runRoot P σ root = .ok (res, σ')) (c : CallRec) (g : Key)
    (hc : c ∈ (fnAt P root).calls) (hr : P.resolve c.cid = some g) :
    ∃ c', c' ∈ (fnAt P root).calls ∧ c'.cid = c.cid ∧
      ∀ (k : Kind) (x x' : NameS), x ∈ (σ g).of k →
        unbindName x (imageOf P g c' x.base) = some x' → x' ∈ res.of k := by
  obtain ⟨nodes, ht⟩ := callTree_terminates P root
  obtain ⟨_, _, hkids⟩ := callTree_wf P root nodes ht
  obtain ⟨j, c', hj, hc', hcid⟩ := hkids c g hc hr
  refine ⟨c', hc', hcid, ?_⟩
  intro k x x' hx hu
  apply runRoot_treeContrib P σ σ' root res nodes ht h k x'
  exact TreeContrib.child (i := 0) hj rfl rfl (TreeContrib.own hj hx) hu

/-- **Second call level** (a caller of a recursive callable; the cycle entered from outside):
a grandchild node of the tree contributes through two substitutions. -/
theorem runRoot_second_level (P : Prog) (σ σ' : Store) (root : Key) (res : IrSets)
    (nodes : List Node) (ht : callTree P root = some nodes)
    (h : runRoot P σ root = .ok (res, σ')) (i j : Nat) (ch gch : Node) (c1 c2 : CallRec)
    (hi : nodes[i]? = some ch) (hpi : ch.parent = some 0) (hei : ch.edgeIn = some c1)
    (hj : nodes[j]? = some gch) (hpj : gch.parent = some i) (hej : gch.edgeIn = some c2)
    (k : Kind) (x x' x'' : NameS) (hx : x ∈ (σ gch.key).of k)
    (hu1 : unbindName x (imageOf P gch.key c2 x.base) = some x')
    (hu2 : unbindName x' (imageOf P ch.key c1 x'.base) = some x'') : x'' ∈ res.of k :=
  runRoot_treeContrib P σ σ' root res nodes ht h k x''
    (TreeContrib.child hi hpi hei (TreeContrib.child hj hpj hej (TreeContrib.own hj hx) hu1) hu2)

end Rattr.Results

/-
  The lower bound of C01 on a fragment that contains ordinary calls, assignments and control flow.

    * `Feat` / `frag D F`: the fragment, switched on feature by feature (calls / assignments / flow);
    * `Covers A s`: every access of `A` is present in the IR of `s`;
    * `CVM A s r`: `r` is monotone from `s` (`Mono`) and, when it is `.ok s'`, `Covers A s'`;
    * `visit_cvm …`: mutual structural induction over the fragment.
  Unlike `visit_simple` (which also proves success) these theorems have the shape of `C01_full`:
  IF the analysis succeeds THEN every access of the spec is present — argument spellings may still
  crash the old namer, that is property C07's subject.
-/
import RattrProofs.Lemmas.Visit
import RattrProofs.Lemmas.VisitSpec
import RattrProofs.Lemmas.VisitClean

set_option linter.unusedSectionVars false

namespace Rattr.AccessSpec
open Rattr Rattr.FnA Rattr.Strs

/-! ### `Covers` -/

def Covers (A : List Access) (s : St) : Prop := ∀ a ∈ A, present a s = true

theorem Covers.nil (s : St) : Covers [] s := fun _ h => by cases h

theorem Covers.append {A B : List Access} {s : St} (ha : Covers A s) (hb : Covers B s) :
    Covers (A ++ B) s := fun a h => (List.mem_append.mp h).elim (ha a) (hb a)

theorem present_mono {a : Access} {s s' : St} (h : IrLe s s') (hp : present a s = true) :
    present a s' = true := by
  unfold present at hp ⊢
  cases hk : a.kind <;> simp only [hk, List.any_eq_true] at hp ⊢
  · obtain ⟨x, hx, e⟩ := hp; exact ⟨x, h.gets x hx, e⟩
  · obtain ⟨x, hx, e⟩ := hp; exact ⟨x, h.sets x hx, e⟩
  · obtain ⟨x, hx, e⟩ := hp; exact ⟨x, h.dels x hx, e⟩
  · obtain ⟨x, hx, e⟩ := hp; exact ⟨x, h.calls x hx, e⟩

theorem Covers.mono {A : List Access} {s s' : St} (h : IrLe s s') (hc : Covers A s) : Covers A s' :=
  fun a ha => present_mono h (hc a ha)

theorem Covers.of_grows {A : List Access} {s s' : St} (g : Grows A s s') : Covers A s' := by
  intro a ha
  obtain ⟨k, nme, b⟩ := a
  cases k
  · have := (g.gets ⟨nme, b⟩).mpr (Or.inr ha)
    simp only [present, List.any_eq_true]
    exact ⟨⟨nme, b⟩, this, by simp⟩
  · have := (g.sets ⟨nme, b⟩).mpr (Or.inr ha)
    simp only [present, List.any_eq_true]
    exact ⟨⟨nme, b⟩, this, by simp⟩
  · have := (g.dels ⟨nme, b⟩).mpr (Or.inr ha)
    simp only [present, List.any_eq_true]
    exact ⟨⟨nme, b⟩, this, by simp⟩
  · exact absurd rfl (g.nocall _ ha)

theorem present_call {s : St} {c : CallSym} {n b : Str} (hc : c ∈ s.calls) (hn : c.name = n) :
    present ⟨.call, n, b⟩ s = true := by
  simp only [present, List.any_eq_true]
  exact ⟨c, hc, by simp [hn]⟩

theorem present_set {s : St} {x : NameS} {n b : Str} (hx : x ∈ s.sets) (hn : x.full = n) :
    present ⟨.set, n, b⟩ s = true := by
  simp only [present, List.any_eq_true]
  exact ⟨x, hx, by simp [hn]⟩

/-! ### `CVM` -/

/-- monotone from `s`; a successful outcome covers `A` and re-establishes the state invariant `I`. -/
structure CVM (I : St → Prop) (A : List Access) (s : St) (r : Res) : Prop where
  mono : Mono s r
  cov : ∀ s', r = .ok s' → Covers A s'
  inv : ∀ s', r = .ok s' → I s'

theorem CVM.of_mono {I : St → Prop} {s : St} {r : Res} (h : Mono s r)
    (hi : ∀ s', r = .ok s' → I s') : CVM I [] s r := ⟨h, fun s' _ => Covers.nil s', hi⟩

theorem CVM.ok {I : St → Prop} (s : St) (hI : I s) : CVM I [] s (.ok s) :=
  CVM.of_mono (Mono.ok (StLe.refl s)) (fun s' h => by cases h; exact hI)

theorem CVM.bind {I : St → Prop} {A B : List Access} {s : St} {r : Res} {f : St → Res}
    (h1 : CVM I A s r) (h2 : ∀ s₁, I s₁ → CVM I B s₁ (f s₁)) : CVM I (A ++ B) s (r >>>= f) := by
  refine ⟨Mono.bind_gen fun s₁ hr => Mono.weaken (h1.mono s₁ hr) (h2 s₁ (h1.inv s₁ hr)).mono,
    fun s' hs => ?_, fun s' hs => ?_⟩
  · obtain ⟨s₁, hr, hf⟩ := bind_ok hs
    have h2' := h2 s₁ (h1.inv s₁ hr)
    exact ((h1.cov s₁ hr).mono (h2'.mono s' hf).ir).append (h2'.cov s' hf)
  · obtain ⟨s₁, hr, hf⟩ := bind_ok hs
    exact (h2 s₁ (h1.inv s₁ hr)).inv s' hf

/-! ### which symbols a custom analyser can fire on; the context invariant -/

/-- a custom analyser could fire on this symbol: directly (`plugins.get_analyser` finds its
qualified name), or — for an imported module — through `_get_target_in_imported_module`, when some
analyser's name lies inside the module. -/
def Dirty (env : Env) (mn : Str) (sym : Sym) : Bool :=
  (analyserFor env mn (some sym)).isSome ||
  (sym.kind == .import_ && env.analysers.any (fun q => (sym.qual ++ ['.']).isPrefixOf q))

/-- no custom analyser is registered for a name of the analysed module itself (`mn.<id>`). The real
plugin table (`getattr`, …, `sorted`, `collections.defaultdict`) satisfies this for every module
not called `collections`. -/
def ModClean (env : Env) (mn : Str) : Prop :=
  ∀ q ∈ env.analysers, (mn ++ ['.']).isPrefixOf q = false

/-- the keys under which `root` holds a symbol a custom analyser could fire on (for the real
configuration: `getattr`, `hasattr`, `setattr`, `delattr`, `sorted`, and whatever name
`collections.defaultdict` / `collections` was imported as). -/
def dirtyKeys (env : Env) (mn : Str) (root : Context) : List Str :=
  (root.flatten.filter (fun kv => Dirty env mn kv.2)).map (·.1)

/-- the context invariant: a dirty symbol only ever sits under a key of `D`. -/
def QD (env : Env) (mn : Str) (D : List Str) (kv : Str × Sym) : Prop :=
  Dirty env mn kv.2 = true → kv.1 ∈ D

def Inv (env : Env) (mn : Str) (D : List Str) (s : St) : Prop := CtxAll (QD env mn D) s.ctx

theorem ctxAll_dirtyKeys (env : Env) (mn : Str) (root : Context) :
    CtxAll (QD env mn (dirtyKeys env mn root)) root := by
  intro sc hsc kv hkv hd
  unfold dirtyKeys
  exact List.mem_map.mpr ⟨kv, List.mem_filter.mpr ⟨List.mem_flatten.mpr ⟨sc, hsc, hkv⟩, hd⟩, rfl⟩

/-- `ModClean` as a class, so that the invariant's closure property is found by instance search. -/
class ModCleanC (env : Env) (mn : Str) : Prop where
  out : ModClean env mn

instance goodQD (env : Env) (mn : Str) (D : List Str) [hm : ModCleanC env mn] :
    GoodQ (QD env mn D) where
  good sym hk := by
    intro hd
    exfalso
    have hq : env.analysers.contains (mn ++ '.' :: sym.name) = false := by
      cases hc : env.analysers.contains (mn ++ '.' :: sym.name) with
      | false => rfl
      | true =>
        have hmem : (mn ++ '.' :: sym.name) ∈ env.analysers := by simpa using hc
        have := hm.out _ hmem
        have hp : (mn ++ ['.']).isPrefixOf (mn ++ '.' :: sym.name) = true := by
          have : mn ++ '.' :: sym.name = (mn ++ ['.']) ++ sym.name := by simp
          rw [this]; simp
        rw [hp] at this; cases this
    have hq' : (mn ++ '.' :: sym.name) ∉ env.analysers := by
      intro hmem
      have : env.analysers.contains (mn ++ '.' :: sym.name) = true := by simpa using hmem
      rw [hq] at this; cases this
    rcases hk with h | h | h <;> simp [Dirty, analyserFor, h] at hd <;> exact hq' hd

theorem dict_get?_mem {sc : Scope} {x : Str} {s : Sym} (h : Dict.get? sc x = some s) : (x, s) ∈ sc := by
  induction sc with
  | nil => simp [Dict.get?] at h
  | cons p r ih =>
    obtain ⟨k, v⟩ := p
    simp only [Dict.get?] at h
    split at h
    · rename_i hk; injection h with h; subst h; subst hk; exact List.mem_cons_self
    · exact List.mem_cons_of_mem _ (ih h)

theorem ctx_get?_mem {c : Context} {x : Str} {s : Sym} (h : Context.get? c x = some s) :
    ∃ sc ∈ c, (x, s) ∈ sc := by
  induction c with
  | nil => simp [Context.get?] at h
  | cons sc r ih =>
    simp only [Context.get?] at h
    split at h
    · rename_i s0 hs; injection h with h; subst h
      exact ⟨sc, List.mem_cons_self, dict_get?_mem hs⟩
    · obtain ⟨sc', h1, h2⟩ := ih h
      exact ⟨sc', List.mem_cons_of_mem _ h1, h2⟩

theorem firstSome_some {α β : Type} {f : α → Option β} {l : List α} {b : β}
    (h : Context.firstSome f l = some b) : ∃ a ∈ l, f a = some b := by
  induction l with
  | nil => simp [Context.firstSome] at h
  | cons a r ih =>
    simp only [Context.firstSome] at h
    split at h
    · rename_i b0 hb; injection h with h; subst h; exact ⟨a, List.mem_cons_self, hb⟩
    · obtain ⟨a', h1, h2⟩ := ih h
      exact ⟨a', List.mem_cons_of_mem _ h1, h2⟩

/-- the key `get_call_target` looks a callee spelling up under. -/
def lookupKey (callee : Str) : Str := removeChar (withoutCallBrackets callee) '*'

/-- neither the callee's key nor any dotted prefix of it is a key of `D`. -/
def keyOk (D : List Str) (nm : Str) : Bool :=
  !D.contains nm && (Context.namesRight nm).all (fun k => !D.contains k)

theorem clean_of_get? {env : Env} {mn : Str} {D : List Str} {c : Context} {k : Str} {t : Sym}
    (hc : CtxAll (QD env mn D) c) (hg : Context.get? c k = some t) (hk : D.contains k = false) :
    Dirty env mn t = false := by
  obtain ⟨sc, h1, h2⟩ := ctx_get?_mem hg
  cases hd : Dirty env mn t with
  | false => rfl
  | true =>
    have := hc sc h1 (k, t) h2 hd
    have : D.contains k = true := by simpa using this
    rw [hk] at this; cases this

theorem analyserFor_of_clean {env : Env} {mn : Str} {t : Sym} (h : Dirty env mn t = false) :
    analyserFor env mn (some t) = none := by
  simp only [Dirty, Bool.or_eq_false_iff] at h
  cases ha : analyserFor env mn (some t) with
  | none => rfl
  | some q => rw [ha] at h; simp at h

theorem getCallTarget_clean (env : Env) (mn : Str) (D : List Str) (c : Context) (callee : Str)
    (b w : Bool) (hc : CtxAll (QD env mn D) c) (hk : keyOk D (lookupKey callee) = true) :
    analyserFor env mn (Context.getCallTarget env.ctxEnv c callee b w).1 = none := by
  simp only [keyOk, Bool.and_eq_true, Bool.not_eq_true', List.all_eq_true] at hk
  obtain ⟨hk1, hk2⟩ := hk
  have key : ∀ t, (if (lookupKey callee).contains '.' && (Context.get? c (lookupKey callee)).isNone
      then Context.targetInImportedModule c (lookupKey callee)
      else Context.get? c (lookupKey callee)) = some t → analyserFor env mn (some t) = none := by
    intro t ht
    split at ht
    · unfold Context.targetInImportedModule at ht
      split at ht
      · cases ht
      · rename_i m hm
        split at ht
        · cases ht
        · split at ht
          · cases ht
          · rename_i hkind _
            injection ht with ht
            subst ht
            obtain ⟨k, hkin, hget⟩ := firstSome_some hm
            have hcl := clean_of_get? hc hget (hk2 k hkin)
            simp only [Dirty, Bool.or_eq_false_iff, Bool.and_eq_false_iff] at hcl
            have hkind' : m.kind = .import_ := by simpa using hkind
            simp only [analyserFor]
            split
            · rename_i hcont
              exfalso
              have hmem := List.contains_iff_mem.mp hcont
              rcases hcl.2 with h1 | h1
              · simp [hkind'] at h1
              · have := List.any_eq_false.mp h1 _ hmem
                have hp : ∀ X : Str, (m.qual ++ ['.']).isPrefixOf (m.qual ++ '.' :: X) = true := by
                  intro X
                  have e : m.qual ++ '.' :: X = (m.qual ++ ['.']) ++ X := by simp
                  rw [e]; simp
                rw [hp] at this
                exact this rfl
            · rfl
    · exact analyserFor_of_clean (clean_of_get? hc ht hk1)
  unfold Context.getCallTarget
  simp only
  repeat' split
  all_goals first | rfl | exact key _ (by assumption)


/-! ### the fragment -/

/-- which extensions of the `simple` fragment are switched on. -/
structure Feat where
  calls : Bool
  assign : Bool
  flow : Bool

/-- a name chain in Store context (what a valid assignment / loop / with target is). -/
def storeChain (t : Node) : Bool := pureChain t && (chainCtx t == .store)

/-- an assignment-like target: a Store chain, or a tuple / list display of pure chains. -/
def tgtOk (t : Node) : Bool :=
  storeChain t || (match t with
    | .seq _ elts _ => elts.all pureChain
    | _ => false)

def isCallNode : Node → Bool
  | .call .. => true
  | _ => false

mutual
/-- the fragment. Always: pure chains, constants, displays, every node kind without a dedicated
visitor. `F.calls`: calls whose callee is a pure chain not rooted at a getattr-family builtin and
whose name (and every dotted prefix of it) is not a key of `D` (the keys under which the root
context holds a symbol a custom analyser fires on).
`F.assign`: `=`, `op=`, annotated assignments whose value is neither a lambda nor a `namedtuple`
declaration (and, for annotated ones, not a call / tuple / list: the class-instance diversion drops
the annotation). `F.flow`: `del`, `for`, `with`, comprehensions, `return`. -/
def frag (D : List Str) (F : Feat) : Node → Bool
  | .strConst _ => true
  | .const => true
  | .seq _ elts _ => fragL D F elts
  | .dict ks vs => fragL D F ks && fragL D F vs
  | .other _ kids => fragL D F kids
  | .name .. => true
  | .attr v _ _ => pureChain v
  | .sub v sl _ => pureChain v && isConstNode sl
  | .starred v _ => pureChain v
  | .call f args _ kwv =>
    F.calls && pureChain f && !xattrBuiltins.contains (chainBase f) &&
      keyOk D (lookupKey (withoutCallBrackets (chainSpell f ++ lit "()"))) && fragL D F args && fragL D F kwv
  | .assign ts v =>
    F.assign && ts.all tgtOk && !lambdaInRhs v && !namedtupleInRhs v && frag D F v
  | .augAssign t v =>
    F.assign && storeChain t && !lambdaInRhs v && !namedtupleInRhs v && frag D F v
  | .annAssign t ann [] => F.assign && storeChain t && frag D F ann
  | .annAssign t ann [v] =>
    F.assign && storeChain t && frag D F ann && !lambdaInRhs v && !namedtupleInRhs v &&
      !isCallNode v && !isTupleOrList v && frag D F v
  | .annAssign _ _ (_ :: _ :: _) => false
  | .delete ts => F.flow && fragL D F ts
  | .forLoop t it body orelse =>
    F.flow && tgtOk t && frag D F it && fragL D F body && fragL D F orelse
  | .withStmt items body => F.flow && fragL D F items && fragL D F body
  | .withitem ce vars => F.flow && frag D F ce && vars.all tgtOk
  | .comp _ elts gens => F.flow && fragL D F gens && fragL D F elts
  | .gen t it ifs => F.flow && tgtOk t && frag D F it && fragL D F ifs
  | .ret [] => F.flow
  | .ret [v] => F.flow && frag D F v
  | .ret (_ :: _ :: _) => false
  | .lam .. => false
  | .walrus .. => false
  | .funcDef .. => false
  | .classDef _ => false
  | .forbidden _ => false
def fragL (D : List Str) (F : Feat) : List Node → Bool
  | [] => true
  | n :: r => frag D F n && fragL D F r
end

theorem frag_of_pureChain (D : List Str) (F : Feat) (n : Node) (h : pureChain n = true) : frag D F n = true := by
  cases n <;> simp [pureChain] at h <;> simp [frag, h]

theorem fragL_of_all_pureChain (D : List Str) (F : Feat) : ∀ l : List Node, l.all pureChain = true → fragL D F l = true
  | [], _ => rfl
  | n :: r, h => by
    simp only [List.all_cons, Bool.and_eq_true] at h
    simp [fragL, frag_of_pureChain D F n h.1, fragL_of_all_pureChain D F r h.2]

theorem frag_of_tgtOk (D : List Str) (F : Feat) (t : Node) (h : tgtOk t = true) : frag D F t = true := by
  unfold tgtOk at h
  rcases Bool.or_eq_true _ _ |>.mp h with h | h
  · simp only [storeChain, Bool.and_eq_true] at h
    exact frag_of_pureChain D F t h.1
  · cases t <;> simp at h
    simp [frag, fragL_of_all_pureChain D F _ (List.all_eq_true.mpr h)]

theorem fragL_of_all_tgtOk (D : List Str) (F : Feat) : ∀ l : List Node, l.all tgtOk = true → fragL D F l = true
  | [], _ => rfl
  | n :: r, h => by
    simp only [List.all_cons, Bool.and_eq_true] at h
    simp [fragL, frag_of_tgtOk D F n h.1, fragL_of_all_tgtOk D F r h.2]

/-! ### naming facts used by the call cases -/

theorem wcb_append_brackets (s : Str) :
    withoutCallBrackets (s ++ lit "()") = withoutCallBrackets s := by
  simp [withoutCallBrackets, lit, dropCallBracketsRev]

theorem namesOf_call_chain (safe : Bool) (f : Node) (args : List Node) (kwn : List (Option Str))
    (kwv : List Node) (hf : pureChain f = true)
    (hx : xattrBuiltins.contains (chainBase f) = false) :
    namesOf safe (.call f args kwn kwv) = .ok (chainBase f) (chainSpell f ++ lit "()") := by
  have := namesOf_chain safe f (pureChain_isChain f hf)
  have hx' : chainBase f ∉ xattrBuiltins := by simpa using hx
  simp [namesOf, this, hx']

theorem targetName_call_chain (f : Node) (args : List Node) (kwn : List (Option Str))
    (kwv : List Node) (hf : pureChain f = true) :
    targetNameNoUnravel (.call f args kwn kwv) =
      .ok (chainBase f) (withoutCallBrackets (chainSpell f ++ lit "()")) := by
  have := namesOf_chain true f (pureChain_isChain f hf)
  simp [targetNameNoUnravel, this]

theorem accesses_call (f : Node) (args : List Node) (kwn : List (Option Str)) (kwv : List Node)
    (hf : pureChain f = true) :
    accesses false (.call f args kwn kwv) =
      [⟨.call, withoutCallBrackets (chainSpell f), chainBase f⟩] ++ (accessesL args ++ accessesL kwv) := by
  have hs := spell_chain f (pureChain_isChain f hf)
  simp [accesses, accesses_spine_pureChain f hf, hs.1, hs.2]

/-! ### call-record builders keep the context -/

theorem argNames_ok' : ∀ (args : List Node) (s : St) (k : St → List Str → Res) (s' : St),
    argNames s args k = .ok s' → ∃ s₁ l, s₁.ctx = s.ctx ∧ k s₁ l = .ok s'
  | [], s, k, s', h => ⟨s, [], rfl, h⟩
  | a :: r, s, k, s', h => by
    simp only [argNames] at h
    split at h
    · obtain ⟨s₁, l, hc, hk⟩ := argNames_ok' r _ _ s' h
      refine ⟨s₁, _, ?_, hk⟩
      rw [hc]; split <;> rfl
    · cases h
    · cases h

theorem mkCall_ok' {s : St} {name : Str} {args : List Node} {kwn : List (Option Str)}
    {kwv : List Node} {target : Option Sym} {self : Option Str} {k : St → CallSym → Res} {s' : St}
    (h : mkCall s name args kwn kwv target self k = .ok s') :
    ∃ s₁ c, s₁.ctx = s.ctx ∧ c.name = withoutCallBrackets name ∧ k s₁ c = .ok s' := by
  unfold mkCall at h
  obtain ⟨s₁, l, hc, h1⟩ := argNames_ok' _ _ _ _ h
  obtain ⟨l2, h2⟩ := kwargNames_ok _ _ _ _ _ h1
  exact ⟨s₁, _, hc, rfl, h2⟩

section
variable (env : Env) (mn : Str) (D : List Str) [ModCleanC env mn]

theorem inv_of_cm {s : St} {r : Res} (h : CM (QD env mn D) s r) (hI : Inv env mn D s) :
    ∀ s', r = .ok s' → Inv env mn D s' := fun s' hs => h s' hs hI

theorem inv_of_ctx_eq {s s' : St} (h : s'.ctx = s.ctx) (hI : Inv env mn D s) : Inv env mn D s' := by
  unfold Inv; rw [h]; exact hI

theorem cvm_pureChain (n : Node) (h : pureChain n = true) (s : St) (hI : Inv env mn D s) :
    CVM (Inv env mn D) (accesses false n) s (visit env mn n s) := by
  refine ⟨visit_mono env mn n s, fun s' hs => ?_, inv_of_cm env mn D (visit_ck _ env mn n s) hI⟩
  obtain ⟨u, hu, g⟩ := visit_pureChain env mn n h s
  rw [hu] at hs
  cases hs
  exact Covers.of_grows g

/-! ### the three call paths (ordinary call, class-instance assignment, returned instance) -/

/-- the continuation `visit_Return` / `visit_ReturnValue` pass around. -/
def retK (env : Env) (mn : Str) (n : Node) : St → Bool → Res :=
  fun s handled => if handled then .ok s else visit env mn n s

theorem retK_mono (n : Node) (s₁ : St) (b : Bool) : Mono s₁ (retK env mn n s₁ b) := by
  cases b
  · exact visit_mono env mn n s₁
  · exact Mono.ok (StLe.refl _)

theorem retK_ck (n : Node) (s₁ : St) (b : Bool) : CM (QD env mn D) s₁ (retK env mn n s₁ b) := by
  cases b
  · exact visit_ck _ env mn n s₁
  · exact CM.ok (CK.refl _)

variable (f : Node) (args : List Node) (kwn : List (Option Str)) (kwv : List Node)
  (hf : pureChain f = true) (hx : xattrBuiltins.contains (chainBase f) = false)
  (hargs : ∀ s, Inv env mn D s → CVM (Inv env mn D) (accessesL args) s (visitList env mn args s))
  (hkwv : ∀ s, Inv env mn D s → CVM (Inv env mn D) (accessesL kwv) s (visitList env mn kwv s))
include hf hx hargs hkwv

/-- common tail: a record named like the callee was added, then the arguments were visited. -/
theorem call_tail_cov {s₁ s₂ s' : St} {c : CallSym} (hI : Inv env mn D s₁)
    (hc : c.name = withoutCallBrackets (chainSpell f ++ lit "()"))
    (h2 : visitList env mn args { s₁ with calls := addCall s₁.calls c } = .ok s₂)
    (h3 : visitList env mn kwv s₂ = .ok s') :
    Covers (accesses false (.call f args kwn kwv)) s' := by
  rw [accesses_call f args kwn kwv hf]
  have hc' : c ∈ s'.calls :=
    (visitList_irLe h3).calls _ ((visitList_irLe h2).calls _ (mem_addCall_self _ _))
  have ha := hargs { s₁ with calls := addCall s₁.calls c } hI
  refine Covers.append ?_ (Covers.append ?_ ?_)
  · intro a ha
    rcases List.mem_singleton.mp ha with rfl
    exact present_call hc' (by rw [hc, wcb_append_brackets])
  · exact (ha.cov s₂ h2).mono (visitList_irLe h3)
  · exact (hkwv s₂ (ha.inv s₂ h2)).cov s' h3

/-- an ordinary call: recorded, and all its arguments visited. -/
theorem visit_call_cvm
    (hkey : keyOk D (lookupKey (withoutCallBrackets (chainSpell f ++ lit "()"))) = true)
    (s : St) (hI : Inv env mn D s) :
    CVM (Inv env mn D) (accesses false (.call f args kwn kwv)) s
      (visit env mn (.call f args kwn kwv) s) := by
  refine ⟨visit_mono env mn _ s, fun s' h => ?_, inv_of_cm env mn D (visit_ck _ env mn _ s) hI⟩
  have hno := getCallTarget_clean env mn D s.ctx
    (withoutCallBrackets (chainSpell f ++ lit "()")) (isCallOnCall (.call f args kwn kwv)) false hI hkey
  unfold visit at h
  simp only [targetName_call_chain f args kwn kwv hf, liftName, hno] at h
  rw [getAndVerify_ok (namesOf_call_chain true f args kwn kwv hf hx)] at h
  obtain ⟨s₁, c, hctx, hc, hk⟩ := mkCall_ok' h
  obtain ⟨s₂, h2, h3⟩ := bind_ok hk
  have hI₁ : Inv env mn D s₁ := by
    refine inv_of_ctx_eq env mn D ?_ hI
    rw [hctx]
    simp only
    split
    · split <;> exact (warnUndef_ir _ _ _).1
    · exact (warnUndef_ir _ _ _).1
  exact call_tail_cov env mn D f args kwn kwv hf hx hargs hkwv hI₁ hc h2 h3

/-- `t = C(args)` with `C` a class: target, call and arguments are all reported. -/
theorem assignDiv_class_cov (t : Node) (tail : List Node) (s s' : St) (hI : Inv env mn D s)
    (ht : storeChain t = true)
    (hn : namedtupleInRhs (.call f args kwn kwv) = false)
    (hc : classInRhs env s.ctx (.call f args kwn kwv) = .ok true)
    (h : assignDiv env mn (t :: tail) (.call f args kwn kwv) s = .done (.ok s')) :
    tail = [] ∧ Covers (accesses false t ++ accesses false (.call f args kwn kwv)) s' := by
  simp only [storeChain, Bool.and_eq_true, beq_iff_eq] at ht
  unfold assignDiv at h
  have hl : lambdaInRhs (.call f args kwn kwv) = false := by simp [lambdaInRhs, isLambda, isTupleOrList]
  simp only [hl, hn, hc, Bool.false_eq_true, if_false] at h
  split at h
  · simp at h
  · rename_i h11
    have htail : tail = [] := by
      simp [oneToOne] at h11
      cases tail with
      | nil => rfl
      | cons a r => simp at h11
    refine ⟨htail, ?_⟩
    simp only [namesOf_chain false t (pureChain_isChain t ht.1),
      namesOf_call_chain false f args kwn kwv hf hx, liftName] at h
    injection h with h
    obtain ⟨s₁, c, hctx, hcn, hk⟩ := mkCall_ok' h
    obtain ⟨s₂, h2, hk⟩ := bind_ok hk
    obtain ⟨s₃, h3, h4⟩ := bind_ok hk
    have hI₁ : Inv env mn D s₁ := inv_of_ctx_eq env mn D hctx hI
    have hI₂ : Inv env mn D s₂ :=
      (CM.addIdentifiersL (Q := QD env mn D) _ _ s₂ h2) hI₁
    have ha := hargs s₂ hI₂
    have hle2 := (Mono.addIdentifiersL _ _ s₂ h2).ir
    have hle34 := (visitList_irLe h3).trans (visitList_irLe h4)
    refine Covers.append ?_ ?_
    · rw [accesses_pureChain t ht.1, ht.2]
      intro a ha
      rcases List.mem_singleton.mp ha with rfl
      exact present_set (x := ⟨chainSpell t, chainBase t⟩)
        (hle34.sets _ (hle2.sets _ (mem_addTo_self _ _))) rfl
    · rw [accesses_call f args kwn kwv hf]
      refine Covers.append ?_ (Covers.append ?_ ?_)
      · intro a ha
        rcases List.mem_singleton.mp ha with rfl
        exact present_call (hle34.calls _ (hle2.calls _ (mem_addCall_self _ _)))
          (by rw [hcn, wcb_append_brackets])
      · exact (ha.cov s₃ h3).mono (visitList_irLe h4)
      · exact (hkwv s₃ (ha.inv s₃ h3)).cov s' h4

/-- `return C(args)` / `return f(args)`: whichever path `visit_ReturnValue` takes. -/
theorem visitReturnValue_call_cvm
    (hv : ∀ s, Inv env mn D s → CVM (Inv env mn D) (accesses false (.call f args kwn kwv)) s
      (visit env mn (.call f args kwn kwv) s))
    (s : St) (hI : Inv env mn D s) :
    CVM (Inv env mn D) (accesses false (.call f args kwn kwv)) s
      (visitReturnValue env mn (.call f args kwn kwv) s (retK env mn (.call f args kwn kwv))) := by
  refine ⟨visitReturnValue_mono env mn _ s _ (retK_mono env mn _), fun s' h => ?_,
    inv_of_cm env mn D (visitReturnValue_ck _ env mn _ s _ (retK_ck env mn D _)) hI⟩
  unfold visitReturnValue at h
  simp only at h
  split at h
  · exact (hv s hI).cov s' (by simpa [retK] using h)
  · simp only [namesOf_call_chain true f args kwn kwv hf hx, liftName] at h
    split at h
    · exact (hv s hI).cov s' (by simpa [retK] using h)
    · simp only [namesOf_call_chain false f args kwn kwv hf hx] at h
      obtain ⟨s₁, c, hctx, hcn, hk⟩ := mkCall_ok' h
      obtain ⟨s₂, h2, hk⟩ := bind_ok hk
      obtain ⟨s₃, h3, h4⟩ := bind_ok hk
      have e : s₃ = s' := by simpa [retK] using h4
      subst e
      exact call_tail_cov env mn D f args kwn kwv hf hx hargs hkwv
        (inv_of_ctx_eq env mn D hctx hI) hcn h2 h3
end

/-- if the assignment diversions fully handled the statement (and succeeded), it was the
class-instance diversion: the value is a call and there is a target. -/
theorem assignDiv_done_ok_shape (env : Env) (mn : Str) (targets : List Node) (v : Node) (s s' : St)
    (hl : lambdaInRhs v = false) (hn : namedtupleInRhs v = false)
    (hd : assignDiv env mn targets v s = .done (.ok s')) :
    classInRhs env s.ctx v = .ok true ∧ isCallNode v = true ∧ targets ≠ [] := by
  unfold assignDiv at hd
  simp only [hl, hn, Bool.false_eq_true, if_false] at hd
  split at hd
  · simp at hd
  · simp at hd
  · split at hd
    · cases hd
    · rename_i hne
      injection hd with hd
      exact absurd hd (hne s')
  · rename_i hc
    split at hd
    · simp at hd
    · split at hd
      · exact ⟨hc, rfl, by simp⟩
      · simp at hd

/-! ### the induction over the fragment -/

mutual
theorem visit_cvm (env : Env) (mn : Str) (D : List Str) [ModCleanC env mn] (F : Feat) :
    ∀ (n : Node), frag D F n = true → ∀ s : St, Inv env mn D s →
      CVM (Inv env mn D) (accesses false n) s (visit env mn n s)
  | .strConst _, _, s, hI => by rw [visit]; simpa [accesses] using CVM.ok s hI
  | .const, _, s, hI => by rw [visit]; simpa [accesses] using CVM.ok s hI
  | .seq _ elts _, h, s, hI => by
    rw [visit]
    simpa [accesses] using visitList_cvm env mn D F elts (by simpa [frag] using h) s hI
  | .dict ks vs, h, s, hI => by
    simp only [frag, Bool.and_eq_true] at h
    rw [visit]
    simpa [accesses] using
      CVM.bind (visitList_cvm env mn D F ks h.1 s hI) fun s₁ hI₁ => visitList_cvm env mn D F vs h.2 s₁ hI₁
  | .other _ kids, h, s, hI => by
    rw [visit]
    simpa [accesses] using visitList_cvm env mn D F kids (by simpa [frag] using h) s hI
  | .name id c, _, s, hI => cvm_pureChain env mn D _ rfl s hI
  | .attr v a c, h, s, hI => cvm_pureChain env mn D _ (by simpa [frag, pureChain] using h) s hI
  | .sub v sl c, h, s, hI => cvm_pureChain env mn D _ (by simpa [frag, pureChain] using h) s hI
  | .starred v c, h, s, hI => cvm_pureChain env mn D _ (by simpa [frag, pureChain] using h) s hI
  | .call f args kwn kwv, h, s, hI => by
    simp only [frag, Bool.and_eq_true, Bool.not_eq_true'] at h
    exact visit_call_cvm env mn D f args kwn kwv h.1.1.1.1.2 h.1.1.1.2
      (visitList_cvm env mn D F args h.1.2) (visitList_cvm env mn D F kwv h.2) h.1.1.2 s hI
  | .assign ts v, h, s, hI => by
    simp only [frag, Bool.and_eq_true, Bool.not_eq_true'] at h
    obtain ⟨⟨⟨⟨_, hts⟩, hl⟩, hn⟩, hv⟩ := h
    have hfts : fragL D F ts = true := fragL_of_all_tgtOk D F ts hts
    have hgen : ∀ s₁, Inv env mn D s₁ → CVM (Inv env mn D) (accesses false (.assign ts v)) s₁
        (visitList env mn ts s₁ >>>= fun s₂ => visit env mn v s₂) := fun s₁ hI₁ => by
      simpa [accesses] using
        CVM.bind (visitList_cvm env mn D F ts hfts s₁ hI₁) fun s₂ hI₂ => visit_cvm env mn D F v hv s₂ hI₂
    refine ⟨visit_mono env mn _ s, fun s' hs => ?_, inv_of_cm env mn D (visit_ck _ env mn _ s) hI⟩
    rw [visit] at hs
    cases hd : assignDiv env mn ts v s with
    | generic s₁ =>
      simp only [hd] at hs
      have hI₁ : Inv env mn D s₁ := by
        have hck := assignDiv_ck (QD env mn D) env mn ts v s
        rw [hd] at hck
        exact hck hI
      exact (hgen s₁ hI₁).cov s' hs
    | done r =>
      simp only [hd] at hs
      subst hs
      obtain ⟨hc, hcall, hne⟩ := assignDiv_done_ok_shape env mn ts v s s' hl hn hd
      cases ts with
      | nil => exact absurd rfl hne
      | cons t tail =>
        cases v <;> simp [isCallNode] at hcall
        rename_i f args kwn kwv
        simp only [frag, Bool.and_eq_true, Bool.not_eq_true'] at hv
        simp only [List.all_cons, Bool.and_eq_true] at hts
        have ht : storeChain t = true := by
          rcases Bool.or_eq_true _ _ |>.mp hts.1 with h1 | h1
          · exact h1
          · -- a display target: the class diversion cannot name it, so it cannot have succeeded
            exfalso
            cases t <;> simp at h1
            unfold assignDiv at hd
            simp [hl, hn, hc, namesOf, liftName] at hd
            split at hd <;> simp at hd
        obtain ⟨htail, hcov⟩ := assignDiv_class_cov env mn D f args kwn kwv hv.1.1.1.1.2 hv.1.1.1.2
          (visitList_cvm env mn D F args hv.1.2) (visitList_cvm env mn D F kwv hv.2)
          t tail s s' hI ht hn hc hd
        subst htail
        simpa [accesses, accessesL] using hcov
  | .augAssign t v, h, s, hI => by
    simp only [frag, Bool.and_eq_true, Bool.not_eq_true'] at h
    obtain ⟨⟨⟨⟨_, ht⟩, hl⟩, hn⟩, hv⟩ := h
    have hft : frag D F t = true := frag_of_tgtOk D F t (by simp [tgtOk, ht])
    have hgen : ∀ s₁, Inv env mn D s₁ → CVM (Inv env mn D) (accesses false (.augAssign t v)) s₁
        (visit env mn t s₁ >>>= fun s₂ => visit env mn v s₂) := fun s₁ hI₁ => by
      simpa [accesses] using
        CVM.bind (visit_cvm env mn D F t hft s₁ hI₁) fun s₂ hI₂ => visit_cvm env mn D F v hv s₂ hI₂
    refine ⟨visit_mono env mn _ s, fun s' hs => ?_, inv_of_cm env mn D (visit_ck _ env mn _ s) hI⟩
    rw [visit] at hs
    cases hd : assignDiv env mn [t] v s with
    | generic s₁ =>
      simp only [hd] at hs
      have hI₁ : Inv env mn D s₁ := by
        have hck := assignDiv_ck (QD env mn D) env mn [t] v s
        rw [hd] at hck
        exact hck hI
      exact (hgen s₁ hI₁).cov s' hs
    | done r =>
      simp only [hd] at hs
      subst hs
      obtain ⟨hc, hcall, _⟩ := assignDiv_done_ok_shape env mn [t] v s s' hl hn hd
      cases v <;> simp [isCallNode] at hcall
      rename_i f args kwn kwv
      simp only [frag, Bool.and_eq_true, Bool.not_eq_true'] at hv
      obtain ⟨_, hcov⟩ := assignDiv_class_cov env mn D f args kwn kwv hv.1.1.1.1.2 hv.1.1.1.2
        (visitList_cvm env mn D F args hv.1.2) (visitList_cvm env mn D F kwv hv.2)
        t [] s s' hI ht hn hc hd
      simpa [accesses] using hcov
  | .annAssign t ann [], h, s, hI => by
    simp only [frag, Bool.and_eq_true] at h
    have hft : frag D F t = true := frag_of_tgtOk D F t (by simp [tgtOk, h.1.2])
    rw [visit]
    simpa [accesses, accessesL] using
      CVM.bind (CVM.of_mono (Mono.addIdentifiers s t) (inv_of_cm env mn D (CM.addIdentifiers s t) hI)) fun s₁ hI₁ =>
        CVM.bind (visit_cvm env mn D F t hft s₁ hI₁) fun s₂ hI₂ => visit_cvm env mn D F ann h.2 s₂ hI₂
  | .annAssign t ann [v], h, s, hI => by
    simp only [frag, Bool.and_eq_true, Bool.not_eq_true'] at h
    obtain ⟨⟨⟨⟨⟨⟨⟨_, ht⟩, hann⟩, hl⟩, hn⟩, hnc⟩, _⟩, hv⟩ := h
    have hft : frag D F t = true := frag_of_tgtOk D F t (by simp [tgtOk, ht])
    refine ⟨visit_mono env mn _ s, fun s' hs => ?_, inv_of_cm env mn D (visit_ck _ env mn _ s) hI⟩
    rw [visit] at hs
    cases hd : assignDiv env mn [t] v s with
    | generic s₁ =>
      simp only [hd] at hs
      have hI₁ : Inv env mn D s₁ := by
        have hck := assignDiv_ck (QD env mn D) env mn [t] v s
        rw [hd] at hck
        exact hck hI
      have := (CVM.bind (visit_cvm env mn D F t hft s₁ hI₁) fun s₂ hI₂ =>
        CVM.bind (visit_cvm env mn D F ann hann s₂ hI₂) fun s₃ hI₃ => visit_cvm env mn D F v hv s₃ hI₃).cov s' hs
      simpa [accesses, accessesL] using this
    | done r =>
      simp only [hd] at hs
      subst hs
      obtain ⟨_, hcall, _⟩ := assignDiv_done_ok_shape env mn [t] v s s' hl hn hd
      rw [hnc] at hcall
      cases hcall
  | .annAssign _ _ (_ :: _ :: _), h, _, _ => by simp [frag] at h
  | .delete ts, h, s, hI => by
    simp only [frag, Bool.and_eq_true] at h
    rw [visit]
    simpa [accesses] using
      CVM.bind (visitList_cvm env mn D F ts h.2 s hI) fun s₁ hI₁ =>
        CVM.of_mono (Mono.removeIdentifiersL s₁ ts) (inv_of_cm env mn D (CM.removeIdentifiersL s₁ ts) hI₁)
  | .forLoop t it lbody orelse, h, s, hI => by
    simp only [frag, Bool.and_eq_true] at h
    obtain ⟨⟨⟨⟨_, ht⟩, hit⟩, hb⟩, ho⟩ := h
    rw [visit]
    simpa [accesses] using
      CVM.bind (CVM.of_mono (Mono.addIdentifiers s t) (inv_of_cm env mn D (CM.addIdentifiers s t) hI)) fun s₁ hI₁ =>
        CVM.bind (visit_cvm env mn D F t (frag_of_tgtOk D F t ht) s₁ hI₁) fun s₂ hI₂ =>
          CVM.bind (visit_cvm env mn D F it hit s₂ hI₂) fun s₃ hI₃ =>
            CVM.bind (visitList_cvm env mn D F lbody hb s₃ hI₃) fun s₄ hI₄ =>
              visitList_cvm env mn D F orelse ho s₄ hI₄
  | .withStmt items wbody, h, s, hI => by
    simp only [frag, Bool.and_eq_true] at h
    rw [visit]
    simpa [accesses] using
      CVM.bind (CVM.of_mono (Mono.withRegister items s) (inv_of_cm env mn D (CM.withRegister items s) hI)) fun s₁ hI₁ =>
        CVM.bind (visitList_cvm env mn D F items h.1.2 s₁ hI₁) fun s₂ hI₂ =>
          visitList_cvm env mn D F wbody h.2 s₂ hI₂
  | .withitem ce vars, h, s, hI => by
    simp only [frag, Bool.and_eq_true] at h
    rw [visit]
    simpa [accesses] using
      CVM.bind (visit_cvm env mn D F ce h.1.2 s hI) fun s₁ hI₁ =>
        visitList_cvm env mn D F vars (fragL_of_all_tgtOk D F vars h.2) s₁ hI₁
  | .comp kind elts gens, h, s, hI => by
    simp only [frag, Bool.and_eq_true] at h
    rw [visit]
    refine ⟨by rw [← visit]; exact visit_mono env mn (.comp kind elts gens) s, fun s' hs => ?_,
      by rw [← visit]; exact inv_of_cm env mn D (visit_ck _ env mn (.comp kind elts gens) s) hI⟩
    obtain ⟨s₁, h1, hk⟩ := bind_ok hs
    obtain ⟨s₂, h2, h3⟩ := bind_ok hk
    cases h3
    have hI0 : Inv env mn D { s with ctx := Context.push s.ctx } := CK.pushOnly s s hI
    have hc : Covers (accessesL gens ++ accessesL elts) s₂ :=
      (((visitList_cvm env mn D F gens h.1.2 _ hI0).cov s₁ h1).mono (visitList_irLe h2)).append
        ((visitList_cvm env mn D F elts h.2 s₁ ((visitList_cvm env mn D F gens h.1.2 _ hI0).inv s₁ h1)).cov s₂ h2)
    have e : accesses false (.comp kind elts gens) = accessesL gens ++ accessesL elts := by
      simp [accesses]
    rw [e]
    exact Covers.mono (s' := { s₂ with ctx := Context.pop s₂.ctx }) (IrLe.of_eq rfl rfl rfl rfl) hc
  | .gen t it ifs, h, s, hI => by
    simp only [frag, Bool.and_eq_true] at h
    obtain ⟨⟨⟨_, ht⟩, hit⟩, hi⟩ := h
    rw [visit]
    simpa [accesses] using
      CVM.bind (CVM.of_mono (Mono.addIdentifiers s t) (inv_of_cm env mn D (CM.addIdentifiers s t) hI)) fun s₁ hI₁ =>
        CVM.bind (visit_cvm env mn D F t (frag_of_tgtOk D F t ht) s₁ hI₁) fun s₂ hI₂ =>
          CVM.bind (visit_cvm env mn D F it hit s₂ hI₂) fun s₃ hI₃ => visitList_cvm env mn D F ifs hi s₃ hI₃
  | .ret [], _, s, hI => by rw [visit]; simpa [accesses, accessesL] using CVM.ok s hI
  | .ret [v], h, s, hI => by
    simp only [frag, Bool.and_eq_true] at h
    have e : accesses false (.ret [v]) = accesses false v := by simp [accesses, accessesL]
    rw [visit, e]
    exact visitReturnValue_cvm env mn D F v h.2 (visit_cvm env mn D F v h.2) s hI
  | .ret (_ :: _ :: _), h, _, _ => by simp [frag] at h
  | .lam .., h, _, _ | .walrus .., h, _, _ | .funcDef .., h, _, _ | .classDef _, h, _, _
  | .forbidden _, h, _, _ => by simp [frag] at h

theorem visitList_cvm (env : Env) (mn : Str) (D : List Str) [ModCleanC env mn] (F : Feat) :
    ∀ (l : List Node), fragL D F l = true → ∀ s : St, Inv env mn D s →
      CVM (Inv env mn D) (accessesL l) s (visitList env mn l s)
  | [], _, s, hI => by rw [visitList]; simpa [accessesL] using CVM.ok s hI
  | n :: r, h, s, hI => by
    simp only [fragL, Bool.and_eq_true] at h
    rw [visitList]
    simpa [accessesL] using
      CVM.bind (visit_cvm env mn D F n h.1 s hI) fun s₁ hI₁ => visitList_cvm env mn D F r h.2 s₁ hI₁

/-- `visit_ReturnValue` on a fragment node, given the node's own `visit` theorem. -/
theorem visitReturnValue_cvm (env : Env) (mn : Str) (D : List Str) [ModCleanC env mn] (F : Feat) :
    ∀ (n : Node), frag D F n = true →
      (∀ s, Inv env mn D s → CVM (Inv env mn D) (accesses false n) s (visit env mn n s)) →
      ∀ s : St, Inv env mn D s →
        CVM (Inv env mn D) (accesses false n) s (visitReturnValue env mn n s (retK env mn n))
  | .seq _ elts _, h, _, s, hI => by
    rw [visitReturnValue]
    simpa [accesses, retK] using
      CVM.bind (visitReturnElts_cvm env mn D F elts (by simpa [frag] using h) s hI) fun s₁ hI₁ => CVM.ok s₁ hI₁
  | .dict ks vs, h, _, s, hI => by
    simp only [frag, Bool.and_eq_true] at h
    rw [visitReturnValue]
    simpa [accesses, retK] using
      CVM.bind (visitReturnElts_cvm env mn D F ks h.1 s hI) fun s₁ hI₁ =>
        CVM.bind (visitReturnElts_cvm env mn D F vs h.2 s₁ hI₁) fun s₂ hI₂ => CVM.ok s₂ hI₂
  | .call f args kwn kwv, h, hv, s, hI => by
    simp only [frag, Bool.and_eq_true, Bool.not_eq_true'] at h
    exact visitReturnValue_call_cvm env mn D f args kwn kwv h.1.1.1.1.2 h.1.1.1.2
      (visitList_cvm env mn D F args h.1.2) (visitList_cvm env mn D F kwv h.2) hv s hI
  | .name .., _, hv, s, hI | .attr .., _, hv, s, hI | .sub .., _, hv, s, hI
  | .starred .., _, hv, s, hI | .lam .., _, hv, s, hI | .comp .., _, hv, s, hI
  | .gen .., _, hv, s, hI | .walrus .., _, hv, s, hI | .strConst _, _, hv, s, hI
  | .const, _, hv, s, hI | .assign .., _, hv, s, hI | .annAssign .., _, hv, s, hI
  | .augAssign .., _, hv, s, hI | .delete .., _, hv, s, hI | .forLoop .., _, hv, s, hI
  | .withStmt .., _, hv, s, hI | .withitem .., _, hv, s, hI | .funcDef .., _, hv, s, hI
  | .classDef _, _, hv, s, hI | .ret _, _, hv, s, hI | .forbidden _, _, hv, s, hI
  | .other .., _, hv, s, hI => by
    unfold visitReturnValue
    simpa [retK] using hv s hI

theorem visitReturnElts_cvm (env : Env) (mn : Str) (D : List Str) [ModCleanC env mn] (F : Feat) :
    ∀ (l : List Node), fragL D F l = true → ∀ s : St, Inv env mn D s →
      CVM (Inv env mn D) (accessesL l) s (visitReturnElts env mn l s)
  | [], _, s, hI => by rw [visitReturnElts]; simpa [accessesL] using CVM.ok s hI
  | e :: r, h, s, hI => by
    simp only [fragL, Bool.and_eq_true] at h
    rw [visitReturnElts]
    have he := visitReturnValue_cvm env mn D F e h.1 (visit_cvm env mn D F e h.1) s hI
    rw [accessesL]
    exact CVM.bind he fun s₁ hI₁ => visitReturnElts_cvm env mn D F r h.2 s₁ hI₁
end

mutual
/-- the fragment of `C01_partial` (where success is PROVED) lies inside every `frag D F`. -/
theorem frag_of_simple (D : List Str) (F : Feat) : ∀ n : Node, simple n = true → frag D F n = true
  | .strConst _, _ => rfl
  | .const, _ => rfl
  | .seq _ elts _, h => by
    simpa [frag] using fragL_of_simpleL D F elts (by simpa [simple] using h)
  | .dict ks vs, h => by
    simp only [simple, Bool.and_eq_true] at h
    simp [frag, fragL_of_simpleL D F ks h.1, fragL_of_simpleL D F vs h.2]
  | .other _ kids, h => by
    simpa [frag] using fragL_of_simpleL D F kids (by simpa [simple] using h)
  | .name .., _ => rfl
  | .attr v _ _, h => by simpa [frag, simple] using h
  | .sub v sl _, h => by simpa [frag, simple] using h
  | .starred v _, h => by simpa [frag, simple] using h
  | .call .., h | .lam .., h | .comp .., h | .gen .., h | .walrus .., h
  | .assign .., h | .annAssign .., h | .augAssign .., h
  | .delete .., h | .forLoop .., h | .withStmt .., h | .withitem .., h
  | .funcDef .., h | .classDef _, h | .ret _, h | .forbidden _, h => by simp [simple] at h
theorem fragL_of_simpleL (D : List Str) (F : Feat) :
    ∀ l : List Node, simpleL l = true → fragL D F l = true
  | [], _ => rfl
  | n :: r, h => by
    simp only [simpleL, Bool.and_eq_true] at h
    simp [fragL, frag_of_simple D F n h.1, fragL_of_simpleL D F r h.2]
end

/-- the final form: `analyse` of a body in the fragment (relative to the dirty keys of `root`),
when it succeeds, reports every access of the spec. -/
theorem analyse_cover {env : Env} {mn : Str} {F : Feat} (hm : ModClean env mn) {root : Context}
    {ps : Params} {body : List Node} (hb : fragL (dirtyKeys env mn root) F body = true) {s' : St}
    (h : analyse env mn root ps body = .ok s') : Covers (accessesL body) s' := by
  haveI : ModCleanC env mn := ⟨hm⟩
  obtain ⟨u, hu, hle, _, _⟩ := analyse_inv h
  have hI : Inv env mn (dirtyKeys env mn root) (analyseInit root ps) :=
    analyseInit_ctxAll (ctxAll_dirtyKeys env mn root) ps
  exact ((visitList_cvm env mn _ F body hb _ hI).cov u hu).mono hle

end Rattr.AccessSpec

/-
  The lower bound of C01 on a fragment that contains ordinary calls, assignments and control flow.

    * `Feat` / `frag F`: the fragment, switched on feature by feature (calls / assignments / flow);
    * `Covers A s`: every access of `A` is present in the IR of `s`;
    * `CVM A s r`: `r` is monotone from `s` (`Mono`) and, when it is `.ok s'`, `Covers A s'`;
    * `visit_cvm …`: mutual structural induction over the fragment.
  Unlike `visit_simple` (which also proves success) these theorems have the shape of `C01_full`:
  IF the analysis succeeds THEN every access of the spec is present — argument spellings may still
  crash the old namer, that is property C07's subject.
-/
import RattrProofs.Lemmas.Visit
import RattrProofs.Lemmas.VisitSpec

set_option linter.unusedSectionVars false

namespace Rattr.AccessSpec
open Rattr Rattr.FnA Rattr.Strs

/-! ### `Covers` -/

def Covers (A : List Access) (s : St) : Prop := ∀ a ∈ A, present a s = true

theorem Covers.nil (s : St) : Covers [] s := fun _ h => by cases h

theorem Covers.append {A B : List Access} {s : St} (ha : Covers A s) (hb : Covers B s) :
    Covers (A ++ B) s := fun a h => (List.mem_append.mp h).elim (ha a) (hb a)

theorem present_mono {a : Access} {s s' : St} (h : IrLe s s') (hp : present a s = true) :
    present a s' = true := by
  unfold present at hp ⊢
  cases hk : a.kind <;> simp only [hk, List.any_eq_true] at hp ⊢
  · obtain ⟨x, hx, e⟩ := hp; exact ⟨x, h.gets x hx, e⟩
  · obtain ⟨x, hx, e⟩ := hp; exact ⟨x, h.sets x hx, e⟩
  · obtain ⟨x, hx, e⟩ := hp; exact ⟨x, h.dels x hx, e⟩
  · obtain ⟨x, hx, e⟩ := hp; exact ⟨x, h.calls x hx, e⟩

theorem Covers.mono {A : List Access} {s s' : St} (h : IrLe s s') (hc : Covers A s) : Covers A s' :=
  fun a ha => present_mono h (hc a ha)

theorem Covers.of_grows {A : List Access} {s s' : St} (g : Grows A s s') : Covers A s' := by
  intro a ha
  obtain ⟨k, nme, b⟩ := a
  cases k
  · have := (g.gets ⟨nme, b⟩).mpr (Or.inr ha)
    simp only [present, List.any_eq_true]
    exact ⟨⟨nme, b⟩, this, by simp⟩
  · have := (g.sets ⟨nme, b⟩).mpr (Or.inr ha)
    simp only [present, List.any_eq_true]
    exact ⟨⟨nme, b⟩, this, by simp⟩
  · have := (g.dels ⟨nme, b⟩).mpr (Or.inr ha)
    simp only [present, List.any_eq_true]
    exact ⟨⟨nme, b⟩, this, by simp⟩
  · exact absurd rfl (g.nocall _ ha)

theorem present_call {s : St} {c : CallSym} {n b : Str} (hc : c ∈ s.calls) (hn : c.name = n) :
    present ⟨.call, n, b⟩ s = true := by
  simp only [present, List.any_eq_true]
  exact ⟨c, hc, by simp [hn]⟩

theorem present_set {s : St} {x : NameS} {n b : Str} (hx : x ∈ s.sets) (hn : x.full = n) :
    present ⟨.set, n, b⟩ s = true := by
  simp only [present, List.any_eq_true]
  exact ⟨x, hx, by simp [hn]⟩

/-! ### `CVM` -/

/-- monotone from `s`, and a successful outcome covers `A`. -/
structure CVM (A : List Access) (s : St) (r : Res) : Prop where
  mono : Mono s r
  cov : ∀ s', r = .ok s' → Covers A s'

theorem CVM.of_mono {s : St} {r : Res} (h : Mono s r) : CVM [] s r := ⟨h, fun s' _ => Covers.nil s'⟩

theorem CVM.ok (s : St) : CVM [] s (.ok s) := CVM.of_mono (Mono.ok (StLe.refl s))

theorem CVM.bind {A B : List Access} {s : St} {r : Res} {f : St → Res}
    (h1 : CVM A s r) (h2 : ∀ s₁, CVM B s₁ (f s₁)) : CVM (A ++ B) s (r >>>= f) := by
  refine ⟨Mono.bind h1.mono fun s₁ => (h2 s₁).mono, fun s' hs => ?_⟩
  obtain ⟨s₁, hr, hf⟩ := bind_ok hs
  exact ((h1.cov s₁ hr).mono ((h2 s₁).mono s' hf).ir).append ((h2 s₁).cov s' hf)

theorem CVM.weaken {A : List Access} {s₀ s : St} {r : Res} (h0 : StLe s₀ s) (h : CVM A s r) :
    CVM A s₀ r := ⟨Mono.weaken h0 h.mono, h.cov⟩

theorem CVM.congr {A B : List Access} {s : St} {r : Res} (e : A = B) (h : CVM B s r) : CVM A s r :=
  e ▸ h

/-! ### the fragment -/

/-- which extensions of the `simple` fragment are switched on. -/
structure Feat where
  calls : Bool
  assign : Bool
  flow : Bool

/-- a name chain in Store context (what a valid assignment / loop / with target is). -/
def storeChain (t : Node) : Bool := pureChain t && (chainCtx t == .store)

/-- an assignment-like target: a Store chain, or a tuple / list display of pure chains. -/
def tgtOk (t : Node) : Bool :=
  storeChain t || (match t with
    | .seq _ elts _ => elts.all pureChain
    | _ => false)

def isCallNode : Node → Bool
  | .call .. => true
  | _ => false

mutual
/-- the fragment. Always: pure chains, constants, displays, every node kind without a dedicated
visitor. `F.calls`: calls whose callee is a pure chain not rooted at a getattr-family builtin.
`F.assign`: `=`, `op=`, annotated assignments whose value is neither a lambda nor a `namedtuple`
declaration (and, for annotated ones, not a call / tuple / list: the class-instance diversion drops
the annotation). `F.flow`: `del`, `for`, `with`, comprehensions, `return`. -/
def frag (F : Feat) : Node → Bool
  | .strConst _ => true
  | .const => true
  | .seq _ elts _ => fragL F elts
  | .dict ks vs => fragL F ks && fragL F vs
  | .other _ kids => fragL F kids
  | .name .. => true
  | .attr v _ _ => pureChain v
  | .sub v sl _ => pureChain v && isConstNode sl
  | .starred v _ => pureChain v
  | .call f args _ kwv =>
    F.calls && pureChain f && !xattrBuiltins.contains (chainBase f) && fragL F args && fragL F kwv
  | .assign ts v =>
    F.assign && ts.all tgtOk && !lambdaInRhs v && !namedtupleInRhs v && frag F v
  | .augAssign t v =>
    F.assign && storeChain t && !lambdaInRhs v && !namedtupleInRhs v && frag F v
  | .annAssign t ann [] => F.assign && storeChain t && frag F ann
  | .annAssign t ann [v] =>
    F.assign && storeChain t && frag F ann && !lambdaInRhs v && !namedtupleInRhs v &&
      !isCallNode v && !isTupleOrList v && frag F v
  | .annAssign _ _ (_ :: _ :: _) => false
  | .delete ts => F.flow && fragL F ts
  | .forLoop t it body orelse =>
    F.flow && tgtOk t && frag F it && fragL F body && fragL F orelse
  | .withStmt items body => F.flow && fragL F items && fragL F body
  | .withitem ce vars => F.flow && frag F ce && vars.all tgtOk
  | .comp _ elts gens => F.flow && fragL F gens && fragL F elts
  | .gen t it ifs => F.flow && tgtOk t && frag F it && fragL F ifs
  | .ret [] => F.flow
  | .ret [v] => F.flow && frag F v
  | .ret (_ :: _ :: _) => false
  | .lam .. => false
  | .walrus .. => false
  | .funcDef .. => false
  | .classDef _ => false
  | .forbidden _ => false
def fragL (F : Feat) : List Node → Bool
  | [] => true
  | n :: r => frag F n && fragL F r
end

theorem frag_of_pureChain (F : Feat) (n : Node) (h : pureChain n = true) : frag F n = true := by
  cases n <;> simp [pureChain] at h <;> simp [frag, h]

theorem fragL_of_all_pureChain (F : Feat) : ∀ l : List Node, l.all pureChain = true → fragL F l = true
  | [], _ => rfl
  | n :: r, h => by
    simp only [List.all_cons, Bool.and_eq_true] at h
    simp [fragL, frag_of_pureChain F n h.1, fragL_of_all_pureChain F r h.2]

theorem frag_of_tgtOk (F : Feat) (t : Node) (h : tgtOk t = true) : frag F t = true := by
  unfold tgtOk at h
  rcases Bool.or_eq_true _ _ |>.mp h with h | h
  · simp only [storeChain, Bool.and_eq_true] at h
    exact frag_of_pureChain F t h.1
  · cases t <;> simp at h
    simp [frag, fragL_of_all_pureChain F _ (List.all_eq_true.mpr h)]

theorem fragL_of_all_tgtOk (F : Feat) : ∀ l : List Node, l.all tgtOk = true → fragL F l = true
  | [], _ => rfl
  | n :: r, h => by
    simp only [List.all_cons, Bool.and_eq_true] at h
    simp [fragL, frag_of_tgtOk F n h.1, fragL_of_all_tgtOk F r h.2]

/-! ### no custom analyser triggers -/

/-- the plugin table has no entry any symbol resolves to (e.g. `env.analysers = []`). With the real
table, the calls that DO hit a custom analyser are exactly the getattr-family / sorted /
defaultdict known findings of C01. -/
def NoPlugins (env : Env) (mn : Str) : Prop := ∀ t, analyserFor env mn t = none

theorem noPlugins_of_empty (env : Env) (mn : Str) (h : env.analysers = []) : NoPlugins env mn := by
  intro t
  cases t with
  | none => rfl
  | some t => simp [analyserFor, h]

/-! ### naming facts used by the call cases -/

theorem wcb_append_brackets (s : Str) :
    withoutCallBrackets (s ++ lit "()") = withoutCallBrackets s := by
  simp [withoutCallBrackets, lit, dropCallBracketsRev]

theorem namesOf_call_chain (safe : Bool) (f : Node) (args : List Node) (kwn : List (Option Str))
    (kwv : List Node) (hf : pureChain f = true)
    (hx : xattrBuiltins.contains (chainBase f) = false) :
    namesOf safe (.call f args kwn kwv) = .ok (chainBase f) (chainSpell f ++ lit "()") := by
  have := namesOf_chain safe f (pureChain_isChain f hf)
  have hx' : chainBase f ∉ xattrBuiltins := by simpa using hx
  simp [namesOf, this, hx']

theorem targetName_call_chain (f : Node) (args : List Node) (kwn : List (Option Str))
    (kwv : List Node) (hf : pureChain f = true) :
    targetNameNoUnravel (.call f args kwn kwv) =
      .ok (chainBase f) (withoutCallBrackets (chainSpell f ++ lit "()")) := by
  have := namesOf_chain true f (pureChain_isChain f hf)
  simp [targetNameNoUnravel, this]

theorem accesses_call (f : Node) (args : List Node) (kwn : List (Option Str)) (kwv : List Node)
    (hf : pureChain f = true) :
    accesses false (.call f args kwn kwv) =
      [⟨.call, withoutCallBrackets (chainSpell f), chainBase f⟩] ++ (accessesL args ++ accessesL kwv) := by
  have hs := spell_chain f (pureChain_isChain f hf)
  simp [accesses, accesses_spine_pureChain f hf, hs.1, hs.2]

theorem cvm_pureChain (env : Env) (mn : Str) (n : Node) (h : pureChain n = true) (s : St) :
    CVM (accesses false n) s (visit env mn n s) := by
  refine ⟨visit_mono env mn n s, fun s' hs => ?_⟩
  obtain ⟨u, hu, g⟩ := visit_pureChain env mn n h s
  rw [hu] at hs
  cases hs
  exact Covers.of_grows g

/-! ### the three call paths (ordinary call, class-instance assignment, returned instance) -/

/-- the continuation `visit_Return` / `visit_ReturnValue` pass around. -/
def retK (env : Env) (mn : Str) (n : Node) : St → Bool → Res :=
  fun s handled => if handled then .ok s else visit env mn n s

theorem retK_mono (env : Env) (mn : Str) (n : Node) (s₁ : St) (b : Bool) :
    Mono s₁ (retK env mn n s₁ b) := by
  cases b
  · exact visit_mono env mn n s₁
  · exact Mono.ok (StLe.refl _)

section
variable (env : Env) (mn : Str) (f : Node) (args : List Node) (kwn : List (Option Str))
  (kwv : List Node)
  (hf : pureChain f = true) (hx : xattrBuiltins.contains (chainBase f) = false)
  (hargs : ∀ s, CVM (accessesL args) s (visitList env mn args s))
  (hkwv : ∀ s, CVM (accessesL kwv) s (visitList env mn kwv s))
include hf hx hargs hkwv

/-- common tail: a record named like the callee was added, then the arguments were visited. -/
theorem call_tail_cov {s₁ s₂ s' : St} {c : CallSym}
    (hc : c.name = withoutCallBrackets (chainSpell f ++ lit "()"))
    (h2 : visitList env mn args { s₁ with calls := addCall s₁.calls c } = .ok s₂)
    (h3 : visitList env mn kwv s₂ = .ok s') :
    Covers (accesses false (.call f args kwn kwv)) s' := by
  rw [accesses_call f args kwn kwv hf]
  have hc' : c ∈ s'.calls :=
    (visitList_irLe h3).calls _ ((visitList_irLe h2).calls _ (mem_addCall_self _ _))
  refine Covers.append ?_ (Covers.append ?_ ?_)
  · intro a ha
    rcases List.mem_singleton.mp ha with rfl
    exact present_call hc' (by rw [hc, wcb_append_brackets])
  · exact ((hargs _).cov s₂ h2).mono (visitList_irLe h3)
  · exact (hkwv s₂).cov s' h3

/-- an ordinary call: recorded, and all its arguments visited. -/
theorem visit_call_cvm (hno : NoPlugins env mn) (s : St) :
    CVM (accesses false (.call f args kwn kwv)) s (visit env mn (.call f args kwn kwv) s) := by
  refine ⟨visit_mono env mn _ s, fun s' h => ?_⟩
  have hno' : ∀ t, analyserFor env mn t = none := hno
  unfold visit at h
  simp only [targetName_call_chain f args kwn kwv hf, liftName, hno'] at h
  rw [getAndVerify_ok (namesOf_call_chain true f args kwn kwv hf hx)] at h
  obtain ⟨s₁, c, hc, _, hk⟩ := mkCall_ok h
  obtain ⟨s₂, h2, h3⟩ := bind_ok hk
  exact call_tail_cov env mn f args kwn kwv hf hx hargs hkwv hc h2 h3

/-- `t = C(args)` with `C` a class: target, call and arguments are all reported. -/
theorem assignDiv_class_cov (t : Node) (tail : List Node) (s s' : St) (ht : storeChain t = true)
    (hn : namedtupleInRhs (.call f args kwn kwv) = false)
    (hc : classInRhs env s.ctx (.call f args kwn kwv) = .ok true)
    (h : assignDiv env mn (t :: tail) (.call f args kwn kwv) s = .done (.ok s')) :
    tail = [] ∧ Covers (accesses false t ++ accesses false (.call f args kwn kwv)) s' := by
  simp only [storeChain, Bool.and_eq_true, beq_iff_eq] at ht
  unfold assignDiv at h
  have hl : lambdaInRhs (.call f args kwn kwv) = false := by simp [lambdaInRhs, isLambda, isTupleOrList]
  simp only [hl, hn, hc, Bool.false_eq_true, if_false] at h
  split at h
  · simp at h
  · rename_i h11
    have htail : tail = [] := by
      simp [oneToOne] at h11
      cases tail with
      | nil => rfl
      | cons a r => simp at h11
    refine ⟨htail, ?_⟩
    simp only [namesOf_chain false t (pureChain_isChain t ht.1),
      namesOf_call_chain false f args kwn kwv hf hx, liftName] at h
    injection h with h
    obtain ⟨s₁, c, hcn, _, hk⟩ := mkCall_ok h
    obtain ⟨s₂, h2, hk⟩ := bind_ok hk
    obtain ⟨s₃, h3, h4⟩ := bind_ok hk
    have hle2 := (Mono.addIdentifiersL _ _ s₂ h2).ir
    have hle34 := (visitList_irLe h3).trans (visitList_irLe h4)
    refine Covers.append ?_ ?_
    · rw [accesses_pureChain t ht.1, ht.2]
      intro a ha
      rcases List.mem_singleton.mp ha with rfl
      exact present_set (x := ⟨chainSpell t, chainBase t⟩)
        (hle34.sets _ (hle2.sets _ (mem_addTo_self _ _))) rfl
    · rw [accesses_call f args kwn kwv hf]
      refine Covers.append ?_ (Covers.append ?_ ?_)
      · intro a ha
        rcases List.mem_singleton.mp ha with rfl
        exact present_call (hle34.calls _ (hle2.calls _ (mem_addCall_self _ _)))
          (by rw [hcn, wcb_append_brackets])
      · exact ((hargs _).cov s₃ h3).mono (visitList_irLe h4)
      · exact (hkwv s₃).cov s' h4

/-- `return C(args)` / `return f(args)`: whichever path `visit_ReturnValue` takes. -/
theorem visitReturnValue_call_cvm
    (hv : ∀ s, CVM (accesses false (.call f args kwn kwv)) s (visit env mn (.call f args kwn kwv) s))
    (s : St) :
    CVM (accesses false (.call f args kwn kwv)) s
      (visitReturnValue env mn (.call f args kwn kwv) s (retK env mn (.call f args kwn kwv))) := by
  refine ⟨visitReturnValue_mono env mn _ s _ (retK_mono env mn _), fun s' h => ?_⟩
  unfold visitReturnValue at h
  simp only at h
  split at h
  · exact (hv s).cov s' (by simpa [retK] using h)
  · simp only [namesOf_call_chain true f args kwn kwv hf hx, liftName] at h
    split at h
    · exact (hv s).cov s' (by simpa [retK] using h)
    · simp only [namesOf_call_chain false f args kwn kwv hf hx] at h
      obtain ⟨s₁, c, hcn, _, hk⟩ := mkCall_ok h
      obtain ⟨s₂, h2, hk⟩ := bind_ok hk
      obtain ⟨s₃, h3, h4⟩ := bind_ok hk
      have e : s₃ = s' := by simpa [retK] using h4
      subst e
      exact call_tail_cov env mn f args kwn kwv hf hx hargs hkwv hcn h2 h3
end

/-- if the assignment diversions fully handled the statement (and succeeded), it was the
class-instance diversion: the value is a call and there is a target. -/
theorem assignDiv_done_ok_shape (env : Env) (mn : Str) (targets : List Node) (v : Node) (s s' : St)
    (hl : lambdaInRhs v = false) (hn : namedtupleInRhs v = false)
    (hd : assignDiv env mn targets v s = .done (.ok s')) :
    classInRhs env s.ctx v = .ok true ∧ isCallNode v = true ∧ targets ≠ [] := by
  unfold assignDiv at hd
  simp only [hl, hn, Bool.false_eq_true, if_false] at hd
  split at hd
  · simp at hd
  · simp at hd
  · split at hd
    · cases hd
    · rename_i hne
      injection hd with hd
      exact absurd hd (hne s')
  · rename_i hc
    split at hd
    · simp at hd
    · split at hd
      · exact ⟨hc, rfl, by simp⟩
      · simp at hd

/-! ### the induction over the fragment -/

mutual
theorem visit_cvm (env : Env) (mn : Str) (F : Feat) (hno : NoPlugins env mn) :
    ∀ (n : Node), frag F n = true → ∀ s : St, CVM (accesses false n) s (visit env mn n s)
  | .strConst _, _, s => by rw [visit]; simpa [accesses] using CVM.ok s
  | .const, _, s => by rw [visit]; simpa [accesses] using CVM.ok s
  | .seq _ elts _, h, s => by
    rw [visit]
    simpa [accesses] using visitList_cvm env mn F hno elts (by simpa [frag] using h) s
  | .dict ks vs, h, s => by
    simp only [frag, Bool.and_eq_true] at h
    rw [visit]
    simpa [accesses] using
      CVM.bind (visitList_cvm env mn F hno ks h.1 s) fun s₁ => visitList_cvm env mn F hno vs h.2 s₁
  | .other _ kids, h, s => by
    rw [visit]
    simpa [accesses] using visitList_cvm env mn F hno kids (by simpa [frag] using h) s
  | .name id c, _, s => cvm_pureChain env mn _ rfl s
  | .attr v a c, h, s => cvm_pureChain env mn _ (by simpa [frag, pureChain] using h) s
  | .sub v sl c, h, s => cvm_pureChain env mn _ (by simpa [frag, pureChain] using h) s
  | .starred v c, h, s => cvm_pureChain env mn _ (by simpa [frag, pureChain] using h) s
  | .call f args kwn kwv, h, s => by
    simp only [frag, Bool.and_eq_true, Bool.not_eq_true'] at h
    exact visit_call_cvm env mn f args kwn kwv h.1.1.1.2 h.1.1.2
      (visitList_cvm env mn F hno args h.1.2) (visitList_cvm env mn F hno kwv h.2) hno s
  | .assign ts v, h, s => by
    simp only [frag, Bool.and_eq_true, Bool.not_eq_true'] at h
    obtain ⟨⟨⟨⟨_, hts⟩, hl⟩, hn⟩, hv⟩ := h
    have hfts : fragL F ts = true := fragL_of_all_tgtOk F ts hts
    have hgen : ∀ s₁, CVM (accesses false (.assign ts v)) s₁
        (visitList env mn ts s₁ >>>= fun s₂ => visit env mn v s₂) := fun s₁ => by
      simpa [accesses] using
        CVM.bind (visitList_cvm env mn F hno ts hfts s₁) fun s₂ => visit_cvm env mn F hno v hv s₂
    refine ⟨visit_mono env mn _ s, fun s' hs => ?_⟩
    rw [visit] at hs
    cases hd : assignDiv env mn ts v s with
    | generic s₁ =>
      simp only [hd] at hs
      exact (hgen s₁).cov s' hs
    | done r =>
      simp only [hd] at hs
      subst hs
      obtain ⟨hc, hcall, hne⟩ := assignDiv_done_ok_shape env mn ts v s s' hl hn hd
      cases ts with
      | nil => exact absurd rfl hne
      | cons t tail =>
        cases v <;> simp [isCallNode] at hcall
        rename_i f args kwn kwv
        simp only [frag, Bool.and_eq_true, Bool.not_eq_true'] at hv
        simp only [List.all_cons, Bool.and_eq_true] at hts
        have ht : storeChain t = true := by
          rcases Bool.or_eq_true _ _ |>.mp hts.1 with h1 | h1
          · exact h1
          · -- a display target: the class diversion cannot name it, so it cannot have succeeded
            exfalso
            cases t <;> simp at h1
            unfold assignDiv at hd
            simp [hl, hn, hc, namesOf, liftName] at hd
            split at hd <;> simp at hd
        obtain ⟨htail, hcov⟩ := assignDiv_class_cov env mn f args kwn kwv hv.1.1.1.2 hv.1.1.2
          (visitList_cvm env mn F hno args hv.1.2) (visitList_cvm env mn F hno kwv hv.2)
          t tail s s' ht hn hc hd
        subst htail
        simpa [accesses, accessesL] using hcov
  | .augAssign t v, h, s => by
    simp only [frag, Bool.and_eq_true, Bool.not_eq_true'] at h
    obtain ⟨⟨⟨⟨_, ht⟩, hl⟩, hn⟩, hv⟩ := h
    have hft : frag F t = true := frag_of_tgtOk F t (by simp [tgtOk, ht])
    have hgen : ∀ s₁, CVM (accesses false (.augAssign t v)) s₁
        (visit env mn t s₁ >>>= fun s₂ => visit env mn v s₂) := fun s₁ => by
      simpa [accesses] using
        CVM.bind (visit_cvm env mn F hno t hft s₁) fun s₂ => visit_cvm env mn F hno v hv s₂
    refine ⟨visit_mono env mn _ s, fun s' hs => ?_⟩
    rw [visit] at hs
    cases hd : assignDiv env mn [t] v s with
    | generic s₁ =>
      simp only [hd] at hs
      exact (hgen s₁).cov s' hs
    | done r =>
      simp only [hd] at hs
      subst hs
      obtain ⟨hc, hcall, _⟩ := assignDiv_done_ok_shape env mn [t] v s s' hl hn hd
      cases v <;> simp [isCallNode] at hcall
      rename_i f args kwn kwv
      simp only [frag, Bool.and_eq_true, Bool.not_eq_true'] at hv
      obtain ⟨_, hcov⟩ := assignDiv_class_cov env mn f args kwn kwv hv.1.1.1.2 hv.1.1.2
        (visitList_cvm env mn F hno args hv.1.2) (visitList_cvm env mn F hno kwv hv.2)
        t [] s s' ht hn hc hd
      simpa [accesses] using hcov
  | .annAssign t ann [], h, s => by
    simp only [frag, Bool.and_eq_true] at h
    have hft : frag F t = true := frag_of_tgtOk F t (by simp [tgtOk, h.1.2])
    rw [visit]
    simpa [accesses, accessesL] using
      CVM.bind (CVM.of_mono (Mono.addIdentifiers s t)) fun s₁ =>
        CVM.bind (visit_cvm env mn F hno t hft s₁) fun s₂ => visit_cvm env mn F hno ann h.2 s₂
  | .annAssign t ann [v], h, s => by
    simp only [frag, Bool.and_eq_true, Bool.not_eq_true'] at h
    obtain ⟨⟨⟨⟨⟨⟨⟨_, ht⟩, hann⟩, hl⟩, hn⟩, hnc⟩, _⟩, hv⟩ := h
    have hft : frag F t = true := frag_of_tgtOk F t (by simp [tgtOk, ht])
    refine ⟨visit_mono env mn _ s, fun s' hs => ?_⟩
    rw [visit] at hs
    cases hd : assignDiv env mn [t] v s with
    | generic s₁ =>
      simp only [hd] at hs
      have := (CVM.bind (visit_cvm env mn F hno t hft s₁) fun s₂ =>
        CVM.bind (visit_cvm env mn F hno ann hann s₂) fun s₃ => visit_cvm env mn F hno v hv s₃).cov s' hs
      simpa [accesses, accessesL] using this
    | done r =>
      simp only [hd] at hs
      subst hs
      obtain ⟨_, hcall, _⟩ := assignDiv_done_ok_shape env mn [t] v s s' hl hn hd
      rw [hnc] at hcall
      cases hcall
  | .annAssign _ _ (_ :: _ :: _), h, _ => by simp [frag] at h
  | .delete ts, h, s => by
    simp only [frag, Bool.and_eq_true] at h
    rw [visit]
    simpa [accesses] using
      CVM.bind (visitList_cvm env mn F hno ts h.2 s) fun s₁ =>
        CVM.of_mono (Mono.removeIdentifiersL s₁ ts)
  | .forLoop t it lbody orelse, h, s => by
    simp only [frag, Bool.and_eq_true] at h
    obtain ⟨⟨⟨⟨_, ht⟩, hit⟩, hb⟩, ho⟩ := h
    rw [visit]
    simpa [accesses] using
      CVM.bind (CVM.of_mono (Mono.addIdentifiers s t)) fun s₁ =>
        CVM.bind (visit_cvm env mn F hno t (frag_of_tgtOk F t ht) s₁) fun s₂ =>
          CVM.bind (visit_cvm env mn F hno it hit s₂) fun s₃ =>
            CVM.bind (visitList_cvm env mn F hno lbody hb s₃) fun s₄ =>
              visitList_cvm env mn F hno orelse ho s₄
  | .withStmt items wbody, h, s => by
    simp only [frag, Bool.and_eq_true] at h
    rw [visit]
    simpa [accesses] using
      CVM.bind (CVM.of_mono (Mono.withRegister items s)) fun s₁ =>
        CVM.bind (visitList_cvm env mn F hno items h.1.2 s₁) fun s₂ =>
          visitList_cvm env mn F hno wbody h.2 s₂
  | .withitem ce vars, h, s => by
    simp only [frag, Bool.and_eq_true] at h
    rw [visit]
    simpa [accesses] using
      CVM.bind (visit_cvm env mn F hno ce h.1.2 s) fun s₁ =>
        visitList_cvm env mn F hno vars (fragL_of_all_tgtOk F vars h.2) s₁
  | .comp kind elts gens, h, s => by
    simp only [frag, Bool.and_eq_true] at h
    rw [visit]
    refine ⟨by rw [← visit]; exact visit_mono env mn (.comp kind elts gens) s, fun s' hs => ?_⟩
    obtain ⟨s₁, h1, hk⟩ := bind_ok hs
    obtain ⟨s₂, h2, h3⟩ := bind_ok hk
    cases h3
    have hc : Covers (accessesL gens ++ accessesL elts) s₂ :=
      (((visitList_cvm env mn F hno gens h.1.2 _).cov s₁ h1).mono (visitList_irLe h2)).append
        ((visitList_cvm env mn F hno elts h.2 s₁).cov s₂ h2)
    have e : accesses false (.comp kind elts gens) = accessesL gens ++ accessesL elts := by
      simp [accesses]
    rw [e]
    exact Covers.mono (s' := { s₂ with ctx := Context.pop s₂.ctx }) (IrLe.of_eq rfl rfl rfl rfl) hc
  | .gen t it ifs, h, s => by
    simp only [frag, Bool.and_eq_true] at h
    obtain ⟨⟨⟨_, ht⟩, hit⟩, hi⟩ := h
    rw [visit]
    simpa [accesses] using
      CVM.bind (CVM.of_mono (Mono.addIdentifiers s t)) fun s₁ =>
        CVM.bind (visit_cvm env mn F hno t (frag_of_tgtOk F t ht) s₁) fun s₂ =>
          CVM.bind (visit_cvm env mn F hno it hit s₂) fun s₃ => visitList_cvm env mn F hno ifs hi s₃
  | .ret [], _, s => by rw [visit]; simpa [accesses, accessesL] using CVM.ok s
  | .ret [v], h, s => by
    simp only [frag, Bool.and_eq_true] at h
    have e : accesses false (.ret [v]) = accesses false v := by simp [accesses, accessesL]
    rw [visit, e]
    exact visitReturnValue_cvm env mn F hno v h.2 (visit_cvm env mn F hno v h.2) s
  | .ret (_ :: _ :: _), h, _ => by simp [frag] at h
  | .lam .., h, _ | .walrus .., h, _ | .funcDef .., h, _ | .classDef _, h, _
  | .forbidden _, h, _ => by simp [frag] at h

theorem visitList_cvm (env : Env) (mn : Str) (F : Feat) (hno : NoPlugins env mn) :
    ∀ (l : List Node), fragL F l = true → ∀ s : St, CVM (accessesL l) s (visitList env mn l s)
  | [], _, s => by rw [visitList]; simpa [accessesL] using CVM.ok s
  | n :: r, h, s => by
    simp only [fragL, Bool.and_eq_true] at h
    rw [visitList]
    simpa [accessesL] using
      CVM.bind (visit_cvm env mn F hno n h.1 s) fun s₁ => visitList_cvm env mn F hno r h.2 s₁

/-- `visit_ReturnValue` on a fragment node, given the node's own `visit` theorem. -/
theorem visitReturnValue_cvm (env : Env) (mn : Str) (F : Feat) (hno : NoPlugins env mn) :
    ∀ (n : Node), frag F n = true → (∀ s, CVM (accesses false n) s (visit env mn n s)) →
      ∀ s : St, CVM (accesses false n) s (visitReturnValue env mn n s (retK env mn n))
  | .seq _ elts _, h, _, s => by
    rw [visitReturnValue]
    simpa [accesses, retK] using
      CVM.bind (visitReturnElts_cvm env mn F hno elts (by simpa [frag] using h) s) fun s₁ => CVM.ok s₁
  | .dict ks vs, h, _, s => by
    simp only [frag, Bool.and_eq_true] at h
    rw [visitReturnValue]
    simpa [accesses, retK] using
      CVM.bind (visitReturnElts_cvm env mn F hno ks h.1 s) fun s₁ =>
        CVM.bind (visitReturnElts_cvm env mn F hno vs h.2 s₁) fun s₂ => CVM.ok s₂
  | .call f args kwn kwv, h, hv, s => by
    simp only [frag, Bool.and_eq_true, Bool.not_eq_true'] at h
    exact visitReturnValue_call_cvm env mn f args kwn kwv h.1.1.1.2 h.1.1.2
      (visitList_cvm env mn F hno args h.1.2) (visitList_cvm env mn F hno kwv h.2) hv s
  | .name .., _, hv, s | .attr .., _, hv, s | .sub .., _, hv, s | .starred .., _, hv, s
  | .lam .., _, hv, s | .comp .., _, hv, s | .gen .., _, hv, s | .walrus .., _, hv, s
  | .strConst _, _, hv, s | .const, _, hv, s | .assign .., _, hv, s | .annAssign .., _, hv, s
  | .augAssign .., _, hv, s | .delete .., _, hv, s | .forLoop .., _, hv, s
  | .withStmt .., _, hv, s | .withitem .., _, hv, s | .funcDef .., _, hv, s
  | .classDef _, _, hv, s | .ret _, _, hv, s | .forbidden _, _, hv, s | .other .., _, hv, s => by
    unfold visitReturnValue
    simpa [retK] using hv s

theorem visitReturnElts_cvm (env : Env) (mn : Str) (F : Feat) (hno : NoPlugins env mn) :
    ∀ (l : List Node), fragL F l = true → ∀ s : St,
      CVM (accessesL l) s (visitReturnElts env mn l s)
  | [], _, s => by rw [visitReturnElts]; simpa [accessesL] using CVM.ok s
  | e :: r, h, s => by
    simp only [fragL, Bool.and_eq_true] at h
    rw [visitReturnElts]
    have he := visitReturnValue_cvm env mn F hno e h.1 (visit_cvm env mn F hno e h.1) s
    rw [accessesL]
    exact CVM.bind he fun s₁ => visitReturnElts_cvm env mn F hno r h.2 s₁
end

/-- the final form: `analyse` of a body in the fragment, when it succeeds, reports every access
of the spec. -/
theorem analyse_cover {env : Env} {mn : Str} {F : Feat} (hno : NoPlugins env mn) {root : Context}
    {ps : Params} {body : List Node} (hb : fragL F body = true) {s' : St}
    (h : analyse env mn root ps body = .ok s') : Covers (accessesL body) s' := by
  obtain ⟨u, hu, hle, _, _⟩ := analyse_inv h
  exact ((visitList_cvm env mn F hno body hb _).cov u hu).mono hle

end Rattr.AccessSpec

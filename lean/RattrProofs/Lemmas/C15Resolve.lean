/-
  Lemmas for the round-4 theorems of C15: traces without `enter_file` steps, traces in sequence.
-/
import RattrModel.DiagScope
import RattrModel.SimplResolve
import RattrModel.Spec.ExitCode

namespace Rattr.C15Resolve
open Rattr Rattr.Diag Rattr.DiagScope Rattr.SimplResolve

/-- The diagnostics of the first part of a trace, then those of the second part placed by the
`current_file` the first part leaves behind. -/
theorem locate_append (cur : Option FileId) (stack : List (Option FileId)) (a b : List Step) :
    locate cur stack (a ++ b)
      = locate cur stack a ++ locate (endState cur stack a).1 (endState cur stack a).2 b := by
  induction a generalizing cur stack with
  | nil => rfl
  | cons s rest ih =>
    cases s with
    | enterFile f => simp only [List.cons_append, locate, endState]; exact ih _ _
    | leaveFile =>
      cases stack with
      | nil => simp only [List.cons_append, locate, endState]; exact ih _ _
      | cons old st => simp only [List.cons_append, locate, endState]; exact ih _ _
    | abandonFile =>
      cases stack with
      | nil => simp only [List.cons_append, locate, endState]; exact ih _ _
      | cons old st =>
        simp only [List.cons_append, locate, endState]
        split
        · exact ih _ _
        · exact ih _ _
    | diag lv b src filtered scopes =>
      simp only [List.cons_append, locate, endState, ih]

theorem inOwnFile_append (cur : Option FileId) (stack : List (Option FileId)) (a b : List Step) :
    inOwnFile cur stack (a ++ b)
      = (inOwnFile cur stack a && inOwnFile (endState cur stack a).1 (endState cur stack a).2 b) := by
  induction a generalizing cur stack with
  | nil => simp [inOwnFile, endState]
  | cons s rest ih =>
    cases s with
    | enterFile f => simp only [List.cons_append, inOwnFile, endState]; exact ih _ _
    | leaveFile =>
      cases stack with
      | nil => simp only [List.cons_append, inOwnFile, endState]; exact ih _ _
      | cons old st => simp only [List.cons_append, inOwnFile, endState]; exact ih _ _
    | abandonFile =>
      cases stack with
      | nil => simp only [List.cons_append, inOwnFile, endState]; exact ih _ _
      | cons old st =>
        simp only [List.cons_append, inOwnFile, endState]
        split
        · exact ih _ _
        · exact ih _ _
    | diag lv b src filtered scopes =>
      simp only [List.cons_append, inOwnFile, endState, ih, Bool.and_assoc]

/-- A stretch of the run that enters no file books every diagnostic to the place `current_file`
stands for when the stretch begins. -/
theorem locate_onlyDiags (cur : Option FileId) (stack : List (Option FileId)) (steps : List Step)
    (h : onlyDiags steps = true) : ∀ e ∈ locate cur stack steps, e.loc = placeOf cur := by
  induction steps with
  | nil => intro e he; simp [locate] at he
  | cons s rest ih =>
    cases s with
    | diag lv b src filtered scopes =>
      intro e he
      simp only [locate, List.mem_cons] at he
      rcases he with rfl | he
      · rfl
      · exact ih (by simpa [onlyDiags] using h) e he
    | enterFile f => simp [onlyDiags] at h
    | leaveFile => simp [onlyDiags] at h
    | abandonFile => simp [onlyDiags] at h

theorem locate_reports (cur : Option FileId) (stack : List (Option FileId)) (rs : List Report)
    (src : Option FileId) :
    locate cur stack (rs.map fun r => Step.diag r.1 r.2 src false [])
      = rs.map fun r => (⟨r.1, r.2, placeOf cur⟩ : Event) := by
  induction rs with
  | nil => rfl
  | cons r rest ih => simp only [List.map_cons, locate, ih]

theorem inOwnFile_reports (stack : List (Option FileId)) (rs : List Report) :
    inOwnFile none stack (rs.map fun r => Step.diag r.1 r.2 none false []) = true := by
  induction rs with
  | nil => rfl
  | cons r rest ih => simp only [List.map_cons, inOwnFile, ih, decide_true, Bool.and_self]

theorem bySrc_reports (rs : List Report) :
    bySrc (rs.map fun r => Step.diag r.1 r.2 none false [])
      = rs.map fun r => (⟨r.1, r.2, .none⟩ : Event) := by
  induction rs with
  | nil => rfl
  | cons r rest ih => simp only [List.map_cons, bySrc, ih, placeOf]

theorem allPass_reports (rs : List Report) (src : Option FileId) :
    allPass (rs.map fun r => Step.diag r.1 r.2 src false []) = true := by
  induction rs with
  | nil => rfl
  | cons r rest ih =>
    simp only [allPass, List.map_cons, List.all_cons, Step.scopesAll, List.all_nil, Bool.true_and]
    exact ih

theorem onlyDiags_reports (rs : List Report) (src : Option FileId) :
    onlyDiags (rs.map fun r => Step.diag r.1 r.2 src false []) = true := by
  induction rs with
  | nil => rfl
  | cons r rest ih => simp only [List.map_cons, onlyDiags, ih]

theorem mem_processed {strict : Bool} {e : Event} :
    ∀ {evs : List Event}, e ∈ Spec.processed strict evs → e ∈ evs := by
  intro evs
  induction evs with
  | nil => intro h; simp [Spec.processed] at h
  | cons x xs ih =>
    intro h
    simp only [Spec.processed] at h
    split at h
    · simp only [List.mem_singleton] at h; simp [h]
    · simp only [List.mem_cons] at h
      rcases h with rfl | h
      · simp
      · exact List.mem_cons_of_mem _ (ih h)

theorem bucket_eq_zero (l : Where) (evs : List Event) (h : ∀ e ∈ evs, e.loc ≠ l) :
    Spec.bucket l evs = 0 := by
  have : evs.filter (fun e => decide (e.loc = l)) = [] := by
    rw [List.filter_eq_nil_iff]
    intro e he
    simpa using h e he
  simp [Spec.bucket, this]

end Rattr.C15Resolve

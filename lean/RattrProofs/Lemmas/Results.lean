/-
  Lemmas about the result-generation model shared by C03 / C05 / C14.
-/
import RattrModel.Results

namespace Rattr.Results

/-! ### union -/

theorem mem_union_left {a b : List NameS} {x : NameS} (h : x ∈ a) : x ∈ union a b := by
  unfold union; exact List.mem_append_left _ h

theorem mem_union_iff {a b : List NameS} {x : NameS} : x ∈ union a b ↔ x ∈ a ∨ x ∈ b := by
  unfold union
  constructor
  · intro h
    rcases List.mem_append.mp h with h | h
    · exact Or.inl h
    · exact Or.inr (List.mem_filter.mp h).1
  · intro h
    rcases h with h | h
    · exact List.mem_append_left _ h
    · by_cases ha : x ∈ a
      · exact List.mem_append_left _ ha
      · apply List.mem_append_right
        apply List.mem_filter.mpr
        refine ⟨h, ?_⟩
        simp [ha]

/-! ### the store only grows -/

/-- `σ ≤ σ'`: every set of every function only gains elements. -/
def StoreLe (σ σ' : Store) : Prop :=
  ∀ k x, (x ∈ (σ k).gets → x ∈ (σ' k).gets) ∧ (x ∈ (σ k).sets → x ∈ (σ' k).sets) ∧
         (x ∈ (σ k).dels → x ∈ (σ' k).dels)

theorem StoreLe.refl (σ : Store) : StoreLe σ σ := fun _ _ => ⟨id, id, id⟩

theorem StoreLe.trans {a b c : Store} (h1 : StoreLe a b) (h2 : StoreLe b c) : StoreLe a c :=
  fun k x => ⟨fun h => (h2 k x).1 ((h1 k x).1 h), fun h => (h2 k x).2.1 ((h1 k x).2.1 h),
              fun h => (h2 k x).2.2 ((h1 k x).2.2 h)⟩

theorem foldChild_le (P : Prog) (pk : Key) (σ σ' : Store) (ch : Node)
    (h : foldChild P pk σ ch = some σ') : StoreLe σ σ' := by
  unfold foldChild at h
  cases hc : ch.edgeIn with
  | none => simp [hc] at h; subst h; exact StoreLe.refl _
  | some c =>
    simp only [hc] at h
    split at h
    · cases h
    · rename_i u hu
      injection h with h
      subst h
      intro k x
      unfold Store.update
      by_cases hk : k = pk
      · subst hk
        simp only [if_true]
        exact ⟨mem_union_left, mem_union_left, mem_union_left⟩
      · simp only [hk, if_false]
        exact ⟨id, id, id⟩

theorem foldChildren_le (P : Prog) (pk : Key) (chs : List Node) (σ σ' : Store)
    (h : foldChildren P pk chs σ = some σ') : StoreLe σ σ' := by
  induction chs generalizing σ with
  | nil => simp [foldChildren] at h; subst h; exact StoreLe.refl _
  | cons ch r ih =>
    simp only [foldChildren] at h
    split at h
    · cases h
    · rename_i σ1 h1
      exact StoreLe.trans (foldChild_le P pk σ σ1 ch h1) (ih σ1 h)

theorem foldTree_le (P : Prog) (nodes : List Node) (is : List Nat) (σ σ' : Store)
    (h : foldTree P nodes is σ = some σ') : StoreLe σ σ' := by
  induction is generalizing σ with
  | nil => simp [foldTree] at h; subst h; exact StoreLe.refl _
  | cons i r ih =>
    simp only [foldTree] at h
    split at h
    · exact ih σ h
    · rename_i n hn
      split at h
      · cases h
      · rename_i σ1 h1
        exact StoreLe.trans (foldChildren_le P n.key _ σ σ1 h1) (ih σ1 h)

theorem runRoot_le (P : Prog) (σ σ' : Store) (root : Key) (res : IrSets)
    (h : runRoot P σ root = .ok (res, σ')) : StoreLe σ σ' := by
  unfold runRoot at h
  split at h
  · cases h
  · rename_i nodes _
    split at h
    · cases h
    · rename_i σ1 h1
      injection h with h
      injection h with _ h2
      subst h2
      exact foldTree_le P nodes _ σ σ1 h1

theorem generate_le (P : Prog) (order : List Key) (σ σ' : Store) (rs : List (Key × IrSets))
    (h : generate P order σ = .ok (rs, σ')) : StoreLe σ σ' := by
  induction order generalizing σ rs with
  | nil => simp [generate] at h; obtain ⟨_, h⟩ := h; subst h; exact StoreLe.refl _
  | cons f r ih =>
    simp only [generate] at h
    split at h
    · cases h
    · cases h
    · rename_i res σ1 h1
      split at h
      · rename_i rs2 σ2 h2
        injection h with h
        injection h with _ hs
        subst hs
        exact StoreLe.trans (runRoot_le P σ σ1 f res h1) (ih σ1 rs2 h2)
      · cases h
      · cases h

end Rattr.Results

namespace Rattr.Results

/-! ### no resolvable call ⇒ nothing happens -/

theorem expand_no_resolve (P : Prog) (hP : ∀ c, P.resolve c = none) (i : Nat)
    (cs : List CallRec) (st : BfsState) : expand P i cs st = st := by
  induction cs generalizing st with
  | nil => rfl
  | cons c r ih =>
    simp only [expand]
    split
    · exact ih st
    · simp only [hP]; exact ih st

theorem callTree_no_resolve (P : Prog) (hP : ∀ c, P.resolve c = none) (root : Key) :
    callTree P root = some [{ key := root, edgeIn := none, parent := none }] := by
  unfold callTree
  simp only [bfs, List.getElem?_cons_zero, expand_no_resolve P hP]
  cases totalCalls P with
  | zero => simp [bfs]
  | succ n => simp [bfs]

theorem runRoot_no_resolve (P : Prog) (hP : ∀ c, P.resolve c = none) (σ : Store) (root : Key) :
    runRoot P σ root = .ok (σ root, σ) := by
  unfold runRoot
  rw [callTree_no_resolve P hP]
  simp [foldTree, childrenOf, foldChildren, List.range, List.range.loop]

theorem generate_no_resolve (P : Prog) (hP : ∀ c, P.resolve c = none) (order : List Key)
    (σ : Store) : generate P order σ = .ok (order.map (fun f => (f, σ f)), σ) := by
  induction order with
  | nil => rfl
  | cons f r ih => simp [generate, runRoot_no_resolve P hP, ih]

/-! ### the BFS terminates within `totalCalls P + 1` steps -/

def allCids (P : Prog) : List Nat := P.fns.flatMap (fun f => f.calls.map (·.cid))

theorem length_allCids (P : Prog) : (allCids P).length = totalCalls P := by
  unfold allCids totalCalls
  induction P.fns with
  | nil => rfl
  | cons f r ih => simp [List.flatMap_cons, ih]

theorem mem_insertCall {c x : CallRec} {l : List CallRec} :
    x ∈ insertCall c l ↔ x = c ∨ x ∈ l := by
  induction l with
  | nil => simp [insertCall]
  | cons d r ih =>
    simp only [insertCall]
    split
    · simp only [List.mem_cons, ih]
      constructor
      · rintro (h | h | h)
        · exact Or.inr (Or.inl h)
        · exact Or.inl h
        · exact Or.inr (Or.inr h)
      · rintro (h | h | h)
        · exact Or.inr (Or.inl h)
        · exact Or.inl h
        · exact Or.inr (Or.inr h)
    · simp [List.mem_cons]

theorem mem_sortCalls {x : CallRec} {l : List CallRec} : x ∈ sortCalls l ↔ x ∈ l := by
  unfold sortCalls
  induction l with
  | nil => simp
  | cons d r ih => simp only [List.foldr_cons, mem_insertCall, ih, List.mem_cons]

theorem cid_mem_allCids (P : Prog) (k : Key) {c : CallRec} (h : c ∈ (fnAt P k).calls) :
    c.cid ∈ allCids P := by
  unfold fnAt at h
  cases hk : P.fns[k]? with
  | none => simp [hk] at h
  | some f =>
    simp only [hk, Option.getD_some] at h
    unfold allCids
    apply List.mem_flatMap.mpr
    exact ⟨f, List.mem_of_getElem? hk, List.mem_map.mpr ⟨c, h, rfl⟩⟩

/-- Invariant of the BFS state. -/
structure BfsInv (P : Prog) (st : BfsState) : Prop where
  len : st.nodes.length = st.seen.length + 1
  nodup : st.seen.Nodup
  sub : ∀ c ∈ st.seen, c ∈ allCids P

theorem expand_inv (P : Prog) (i : Nat) (cs : List CallRec) (st : BfsState)
    (hcs : ∀ c ∈ cs, c.cid ∈ allCids P) (h : BfsInv P st) : BfsInv P (expand P i cs st) := by
  induction cs generalizing st with
  | nil => exact h
  | cons c r ih =>
    have hr : ∀ c ∈ r, c.cid ∈ allCids P := fun c hc => hcs c (List.mem_cons_of_mem _ hc)
    simp only [expand]
    split
    · exact ih st hr h
    · rename_i hseen
      split
      · exact ih st hr h
      · apply ih _ hr
        have hnot : c.cid ∉ st.seen := by
          intro hm
          apply hseen
          simpa using hm
        exact { len := by simp [h.len]
                nodup := List.nodup_cons.mpr ⟨hnot, h.nodup⟩
                sub := by
                  intro x hx
                  rcases List.mem_cons.mp hx with hx | hx
                  · subst hx; exact hcs c (List.mem_cons_self)
                  · exact h.sub x hx }

theorem BfsInv.bound {P : Prog} {st : BfsState} (h : BfsInv P st) :
    st.nodes.length ≤ totalCalls P + 1 := by
  have := List.Nodup.length_le_of_subset h.nodup (fun x hx => h.sub x hx)
  rw [length_allCids] at this
  rw [h.len]
  omega

theorem bfs_terminates (P : Prog) (fuel i : Nat) (st : BfsState) (h : BfsInv P st)
    (hf : totalCalls P + 1 ≤ fuel + i) : ∃ st', bfs P fuel i st = some st' ∧ BfsInv P st' := by
  induction fuel generalizing i st with
  | zero =>
    simp only [bfs]
    have := h.bound
    have hi : ¬ i < st.nodes.length := by omega
    simp only [hi, if_false]
    exact ⟨st, rfl, h⟩
  | succ n ih =>
    simp only [bfs]
    cases hn : st.nodes[i]? with
    | none => exact ⟨st, rfl, h⟩
    | some nd =>
      simp only
      apply ih
      · apply expand_inv P i _ st _ h
        intro c hc
        exact cid_mem_allCids P nd.key (mem_sortCalls.mp hc)
      · omega

theorem callTree_terminates (P : Prog) (root : Key) : ∃ nodes, callTree P root = some nodes := by
  unfold callTree
  obtain ⟨st', h, _⟩ := bfs_terminates P (totalCalls P + 1) 0
    { nodes := [{ key := root, edgeIn := none, parent := none }], seen := [] }
    { len := rfl, nodup := List.nodup_nil, sub := by intro c hc; cases hc } (by omega)
  exact ⟨st'.nodes, by rw [h]; rfl⟩

end Rattr.Results

/-
  Lemmas for C07 (import following × result generation): which origins end up behind a key of `import_irs`.

  `loop_covers`: when the BFS of `parse_and_analyse_imports` ends normally, every import symbol it popped that
  passes the rungs of the ladder other than `seen` (module found, file origin, not blacklisted, allowed by the
  follow flags) has its ORIGIN analysed under SOME name — the popped one, or an earlier name of the same origin.
  No injectivity hypothesis: this is the localised form of `C12_bfs_complete`, and the reason the only way for a
  statement import to lack an IR is "the same origin under another name".
-/
import RattrModel.Imports
import RattrProofs.Lemmas.C12
import RattrProofs.Props.C12

set_option linter.unusedSectionVars false

namespace Rattr.C07I
open Rattr Rattr.Imports Rattr.C12

variable {ν ω : Type} [DecidableEq ν] [DecidableEq ω]

/-- the rungs of the BFS ladder other than `seen`, as a proposition about one import symbol. -/
structure Passes (g : Graph ν ω) (fl : Flags) (i : Imp ν) (n : ν) (o : ω) : Prop where
  target : i.target = some n
  origin : originOf g n = some o
  notBlack : ∀ m, lookup g n = some m → m.blacklisted = false
  pipOk : ∀ m, lookup g n = some m → m.inPip = true → fl.pip = true
  stdlibOk : ∀ m, lookup g n = some m → m.inStdlib = true → fl.stdlib = true

/-- some analysed name denotes the file `o`. -/
def Covered (g : Graph ν ω) (s : St ν ω) (o : ω) : Prop := ∃ n' ∈ s.analysed, originOf g n' = some o

/-- every seen origin is the origin of an analysed name. -/
def Inv (g : Graph ν ω) (st : St ν ω) : Prop := ∀ o ∈ st.seen, Covered g st o

theorem originOf_some {g : Graph ν ω} {n : ν} {o : ω} (h : originOf g n = some o) :
    ∃ m, lookup g n = some m ∧ m.origin = some o := by
  unfold originOf at h
  cases hl : lookup g n with
  | none => rw [hl] at h; cases h
  | some m => rw [hl] at h; exact ⟨m, rfl, by simpa using h⟩

/-- a passing import is skipped only because its origin was seen. -/
theorem skip_of_passes {g : Graph ν ω} {fl : Flags} {seen : List ω} {i : Imp ν} {n : ν} {o : ω} {r : Reason}
    (hp : Passes g fl i n o) (h : classify g fl seen i = .skip r) : o ∈ seen := by
  obtain ⟨m, hl, ho⟩ := originOf_some hp.origin
  have hb := hp.notBlack m hl
  have hpip := hp.pipOk m hl
  have hstd := hp.stdlibOk m hl
  unfold classify at h
  rw [hp.target] at h
  simp only [hl, ho] at h
  by_cases hs : o ∈ seen
  · exact hs
  · exfalso
    simp only [hs, if_false, hb, Bool.false_eq_true] at h
    cases h1 : m.inPip <;> cases h2 : m.inStdlib <;> cases h3 : fl.pip <;> cases h4 : fl.stdlib <;>
      simp_all <;> (repeat' split at h) <;> cases h

theorem loop_covers {g : Graph ν ω} {fl : Flags} :
    ∀ (k : Nat) (st : St ν ω) (q : List (Imp ν)) (s : St ν ω),
      loop g fl k st q = .done s → Inv g st →
      Inv g s ∧ (∀ n ∈ st.analysed, n ∈ s.analysed) ∧
      (∀ i ∈ q, ∀ n o, Passes g fl i n o → Covered g s o) ∧
      (∀ p ∈ s.analysed, p ∉ st.analysed → ∀ pm, lookup g p = some pm →
        ∀ i ∈ pm.imports, ∀ n o, Passes g fl i n o → Covered g s o) := by
  intro k
  induction k with
  | zero =>
    intro st q s h hinv
    cases q with
    | nil =>
      simp only [loop, Out.done.injEq] at h
      subst h
      exact ⟨hinv, fun _ h => h, fun _ hi => (by cases hi), fun p hp hnp => absurd hp hnp⟩
    | cons i q => simp [loop] at h
  | succ k ih =>
    intro st q s h hinv
    cases q with
    | nil =>
      simp only [loop, Out.done.injEq] at h
      subst h
      exact ⟨hinv, fun _ h => h, fun _ hi => (by cases hi), fun p hp hnp => absurd hp hnp⟩
    | cons i q =>
      unfold loop at h
      cases hc : classify g fl st.seen i with
      | skip r =>
        rw [hc] at h
        simp only at h
        have hinv' : Inv g { st with pops := st.pops + 1, skipped := st.skipped ++ [(i.target, r)] } := hinv
        obtain ⟨h1, h2, h3, h4⟩ := ih _ _ s h hinv'
        refine ⟨h1, h2, ?_, h4⟩
        intro j hj n o hp
        rcases List.mem_cons.mp hj with rfl | hj
        · obtain ⟨n', hn', ho'⟩ := hinv o (skip_of_passes hp hc)
          exact ⟨n', h2 n' hn', ho'⟩
        · exact h3 j hj n o hp
      | crashRead => rw [hc] at h; cases h
      | fatalCompile => rw [hc] at h; cases h
      | analyse n0 o0 m0 =>
        rw [hc] at h
        simp only at h
        have hp0 := classify_analyse hc
        have ho0 : originOf g n0 = some o0 := by simp [originOf, hp0.look, hp0.origin]
        have hinv' : Inv g { st with pops := st.pops + 1, analysed := st.analysed ++ [n0], seen := st.seen ++ [o0] } := by
          intro o ho
          simp only [List.mem_append, List.mem_singleton] at ho
          rcases ho with ho | rfl
          · obtain ⟨n', hn', ho'⟩ := hinv o ho
            exact ⟨n', by simp [hn'], ho'⟩
          · exact ⟨n0, by simp, ho0⟩
        obtain ⟨h1, h2, h3, h4⟩ := ih _ _ s h hinv'
        simp only at h2
        refine ⟨h1, fun n hn => h2 n (by simp [hn]), ?_, ?_⟩
        · intro j hj n o hp
          rcases List.mem_cons.mp hj with rfl | hj
          · have hn : n = n0 := by
              have := hp.target; rw [hp0.target] at this; exact (Option.some.inj this).symm
            subst hn
            have : o = o0 := by
              have := hp.origin; rw [ho0] at this; exact (Option.some.inj this).symm
            subst this
            exact ⟨n, h2 n (by simp), ho0⟩
          · exact h3 j (by simp [hj]) n o hp
        · intro p hp hnp pm hl j hj n o hpass
          by_cases hpn : p ∈ st.analysed ++ [n0]
          · simp only [List.mem_append, List.mem_singleton] at hpn
            rcases hpn with hpn | rfl
            · exact absurd hpn hnp
            · have : pm = m0 := by
                have := hp0.look; rw [hl] at this; exact Option.some.inj this
              subst this
              exact h3 j (by simp [hj]) n o hpass
          · exact h4 p hp hpn pm hl j hj n o hpass

/-- for the whole stage (`loc` followed, else `resolve_import` ignores every local import anyway). -/
theorem bfs_covers (g : Graph ν ω) (fl : Flags) (fuel : Nat) (target : List (Imp ν)) (st : St ν ω)
    (hloc : fl.loc = true) (hdone : bfs g fl fuel target = .done st) (i : Imp ν)
    (hsrc : i ∈ target ∨ ∃ p ∈ st.analysed, ∃ pm, lookup g p = some pm ∧ i ∈ pm.imports)
    (n : ν) (o : ω) (hp : Passes g fl i n o) : Covered g st o := by
  unfold bfs at hdone
  split at hdone
  · cases hdone
  · have hany : fl.any = true := by simp [Flags.any, hloc]
    simp only [hany, if_true] at hdone
    have hinv : Inv g (St.empty : St ν ω) := by intro o ho; simp [St.empty] at ho
    obtain ⟨_, _, h3, h4⟩ := loop_covers _ _ _ st hdone hinv
    rcases hsrc with h | ⟨p, hp', pm, hl, hi⟩
    · exact h3 i h n o hp
    · exact h4 p hp' (by simp [St.empty]) pm hl i hi n o hp

end Rattr.C07I

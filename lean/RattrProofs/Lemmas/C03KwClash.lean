/-
  C03 round 3 — keywords spelled like a positional-only / `*args` / `**kwargs` parameter.

  `def record(event, /, **fields)` may be called `record(ev, event=x)`: Python binds `event := ev`
  and puts the keyword into `**fields`.  The pinned `construct_call_swaps` DIAGNOSES such a call
  ("by position and name": the C04 class `E1`, a known finding of C04), but the swaps it builds are
  still Python's binding: the keyword loop consults the CONSUMABLE interface lists
  (`interface.args`, `interface.kwonlyargs`), which never hold a positional-only parameter nor a
  parameter already bound by position, so the keyword falls through to the `**kwargs` branch.
  Hence C03's substitution is right on these calls; only the diagnostic deviates.
-/
import RattrProofs.Props.C04

namespace Rattr.C03
open Rattr Rattr.Swaps Rattr.SwapsLemmas Rattr.Spec

section
variable {α : Type} [DecidableEq α]

/-- **Swaps are Python's binding also INSIDE `E1`.**  For every signature with pairwise distinct
parameter names and every call that supplies the positional-only parameters (`¬ E2`) and that Python
accepts: the swaps of `construct_call_swaps` are the binding plus stand-ins (`**kwargs ↦ @Dict` iff it
received something) — whatever the keywords are spelled like, and whether or not they are distinct. -/
theorem swaps_binding_any_keywords (si : StandIns α) (s : Spec.Sig α) (c : CallArgs α)
    (hn : s.iface.all.Nodup) (hE2 : ¬ C04.E2 s c) (b : Spec.Binding α)
    (hb : Spec.pyBind s c = .ok b) :
    C04.SameMap (construct si s.iface c).1 (Spec.expectedSwapsLenient si s b) := by
  have hlen : s.posonly.length ≤ c.args.length := by unfold C04.E2 at hE2; omega
  obtain ⟨filled, h1, h2, h3, -, -⟩ := zipPos_append_summary s.posonly s.args c.args hlen
  have hfill : ∀ x ∈ filled, x ∈ s.iface.args := by
    intro x hx
    show x ∈ s.args.map (·.name)
    rw [h2]; exact List.mem_append.mpr (Or.inl hx)
  have I0 : Inv si s.iface filled (m0 si s c) (st0 s c) c.kwargs :=
    Inv_init si s.iface hn _ _ s.kwonly filled h1 h2 rfl c.kwargs
  have hloop := kw_loopW si s.iface filled hn hfill c.kwargs _ _ I0.toInvW
  rw [pyBind_eq s c hlen] at hb
  rw [construct_eq si s c hn hlen]
  have hf0 : filled0 s c = filled := h3
  rw [hf0] at hb
  by_cases htm : (Spec.zipPos (s.posonly ++ s.args) c.args).2.2 ≠ [] ∧ s.vararg.isNone = true
  · rw [if_pos htm] at hb; cases hb
  · rw [if_neg htm] at hb
    have hK : s.iface.kwarg = s.kwarg := rfl
    rw [hK] at hloop
    generalize Spec.bindKws filled s.kwarg.isSome (st0 s c) c.kwargs = r at hloop hb
    cases r with
    | error e => cases hb
    | ok st' =>
      simp only [] at hb hloop
      by_cases hm : st'.open_.any (fun p => !p.hasDefault) = true
      · rw [if_pos hm] at hb; cases hb
      · rw [if_neg hm] at hb
        cases hb
        intro k
        exact hloop.same k

end
end Rattr.C03

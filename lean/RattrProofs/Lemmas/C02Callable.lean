/-
  Lemmas for the "callable with signature" part of C02 (model: RattrModel/Callable.lean).

  What `Justified body k n` needs from the BODY, constructor by constructor: every derivation
  starts at an occurrence of the body, every call derivation at a call node of the body, and over
  a body without call nodes the only derivation left is the spelled occurrence. These are the
  facts that turn "the analyser reports only justified names" into "a name that only the
  signature mentions is never reported".
-/
import RattrProofs.Lemmas.VisitJust
import RattrModel.Callable

namespace Rattr.Justify
open Rattr Rattr.FnA Rattr.Strs
open Rattr.AccessSpec (Kind kindOf)

/-- every derivation starts at an occurrence of the body. -/
theorem Justified.has_occ {body : List Node} {k : Kind} {n : Str} (h : Justified body k n) :
    ∃ o, o ∈ occL body := by
  cases h with
  | occ r node hm _ => exact ⟨_, hm⟩
  | «prefix» node _ _ _ hm _ _ => exact ⟨_, hm⟩
  | xattr f args kwn kwv _ _ _ _ hm _ _ _ => exact ⟨_, hm⟩
  | xattrPrefix f args kwn kwv _ _ _ _ hm _ _ _ => exact ⟨_, hm⟩
  | sortedSubst f a0 rest kwn kwv _ _ _ _ _ hm _ _ _ _ _ => exact ⟨_, hm⟩
  | defaultdictFactory f factory rest kwn kwv _ _ hm _ => exact ⟨_, hm⟩

/-- a body without occurrences (`pass`, constants, docstrings) justifies nothing. -/
theorem not_justified_of_no_occ {body : List Node} (h0 : occL body = []) (k : Kind) (n : Str) :
    ¬ Justified body k n := by
  intro h
  obtain ⟨o, ho⟩ := h.has_occ
  rw [h0] at ho
  cases ho

/-- a spelled occurrence of kind `call` is an occurrence in the call role. -/
theorem Spelled.call_role {r : Role} {node : Node} {n : Str} (h : Spelled r node .call n) : r = .call := by
  cases r <;> first | rfl | (exact absurd h.1 (by decide))

/-- every call derivation starts at a call node of the body. -/
theorem Justified.call_needs_call_node {body : List Node} {n : Str} (h : Justified body .call n) :
    ∃ node, (Role.call, node) ∈ occL body := by
  cases h with
  | occ r node hm hs =>
    have hr := hs.call_role
    subst hr
    exact ⟨_, hm⟩
  | xattr f args kwn kwv _ _ _ _ hm _ _ hk => exact absurd rfl hk
  | sortedSubst f a0 rest kwn kwv _ _ _ _ _ hm _ _ _ hk _ => exact absurd rfl hk
  | defaultdictFactory f factory rest kwn kwv _ _ hm _ => exact ⟨_, hm⟩

/-- the body contains no call node. -/
def CallFree (body : List Node) : Prop := ∀ o ∈ occL body, o.1 ≠ Role.call

def callFreeB (body : List Node) : Bool := (occL body).all fun o => decide (o.1 ≠ Role.call)

theorem callFree_of_B {body : List Node} (h : callFreeB body = true) : CallFree body := by
  intro o ho
  have := List.all_eq_true.mp h o ho
  simpa using this

/-- over a call-free body the only derivation is the spelled occurrence. -/
theorem Justified.of_callFree {body : List Node} {k : Kind} {n : Str} (hf : CallFree body)
    (h : Justified body k n) : ∃ r node, (r, node) ∈ occL body ∧ Spelled r node k n := by
  cases h with
  | occ r node hm hs => exact ⟨r, node, hm, hs⟩
  | «prefix» node _ _ _ hm _ _ => exact absurd rfl (hf _ hm)
  | xattr f args kwn kwv _ _ _ _ hm _ _ _ => exact absurd rfl (hf _ hm)
  | xattrPrefix f args kwn kwv _ _ _ _ hm _ _ _ => exact absurd rfl (hf _ hm)
  | sortedSubst f a0 rest kwn kwv _ _ _ _ _ hm _ _ _ _ _ => exact absurd rfl (hf _ hm)
  | defaultdictFactory f factory rest kwn kwv _ _ hm _ => exact absurd rfl (hf _ hm)

theorem not_justified_call_of_callFree {body : List Node} (hf : CallFree body) (n : Str) :
    ¬ Justified body .call n := by
  intro h
  obtain ⟨node, hm⟩ := h.call_needs_call_node
  exact hf _ hm rfl

/-- `n` is what the namer gives for `node` under one of its two flags (full name; for the walrus
role: base name). A decidable over-approximation of `Spelled r node k n` for name kinds. -/
def spellsB (r : Role) (node : Node) (n : Str) : Bool :=
  [true, false].any fun safe =>
    match namesOf safe node with
    | .ok b f => if r = .walrus then b == n else f == n
    | _ => false

theorem Spelled.spellsB {r : Role} {node : Node} {k : Kind} {n : Str} (hk : k ≠ .call)
    (h : Spelled r node k n) : spellsB r node n = true := by
  have key : ∀ (safe : Bool) (b : Str), namesOf safe node = .ok b n → r ≠ .walrus → Justify.spellsB r node n = true := by
    intro safe b hn hr
    unfold Justify.spellsB
    cases safe <;> simp [hn, hr]
  cases r with
  | load => obtain ⟨_, safe, b, hn⟩ := h; exact key safe b hn (by decide)
  | store => obtain ⟨_, safe, b, hn⟩ := h; exact key safe b hn (by decide)
  | target => obtain ⟨_, safe, b, hn⟩ := h; exact key safe b hn (by decide)
  | del => obtain ⟨_, safe, b, hn⟩ := h; exact key safe b hn (by decide)
  | call => exact absurd h.1 hk
  | walrus =>
    obtain ⟨_, f, hn⟩ := h
    unfold Justify.spellsB
    simp [hn]

/-- no occurrence of the body is spelled `n` (either namer flag, whatever its role). -/
def noneSpells (body : List Node) (n : Str) : Bool := (occL body).all fun o => !spellsB o.1 o.2 n

/-- the decidable test the counterexample theorems use: a call-free body none of whose occurrences
is spelled `n` does not justify `n` under any kind. -/
theorem not_justified_of_noneSpells {body : List Node} (hf : callFreeB body = true) {n : Str}
    (hn : noneSpells body n = true) (k : Kind) : ¬ Justified body k n := by
  intro h
  by_cases hk : k = .call
  · subst hk; exact not_justified_call_of_callFree (callFree_of_B hf) n h
  · obtain ⟨r, node, hm, hs⟩ := h.of_callFree (callFree_of_B hf)
    have h1 := List.all_eq_true.mp hn (r, node) hm
    have h2 := hs.spellsB hk
    simp [h2] at h1

/-! ### the analysed callable -/

/-- `Callable.analyse` is `analyse` on the parameter names and the body. -/
theorem Callable.analyse_eq (env : Env) (mn : Str) (root : Context) (c : Callable) :
    Callable.analyse env mn root c = analyse env mn root c.ps c.body := rfl

theorem Callable.analyse_just {env : Env} {mn : Str} {root : Context} {c : Callable} {s' : St}
    (h : Callable.analyse env mn root c = .ok s') : Just c.body s' :=
  Justify.analyse_just h

end Rattr.Justify

/-
  Lemmas for C20 about argparse's tokeniser (RattrModel/Argv.lean).
-/
import RattrModel.Argv

namespace Rattr.C20
open Rattr Rattr.Cli

/-! ### `runE` unfolding lemmas (the equation compiler's overlapping patterns, made explicit) -/

theorem runE_none_aux (p hp : Parser) : ∀ (n : Nat) (r : List ETok), r.length ≤ n → ∀ (st : St),
    nextPositional p st.seen = none →
    (∀ t, runE p hp (.arg t :: r) st = runE p hp r { st with extras := true }) ∧
    runE p hp (.dd :: r) st = runE p hp r { st with extras := true } := by
  intro n
  induction n with
  | zero =>
    intro r hl st hn
    have : r = [] := List.eq_nil_of_length_eq_zero (Nat.le_zero.mp hl)
    subst this
    exact ⟨fun t => by simp [runE, hn], by simp [runE]⟩
  | succ n ih =>
    intro r hl st hn
    cases r with
    | nil => exact ⟨fun t => by simp [runE, hn], by simp [runE]⟩
    | cons k r' =>
      have hl' : r'.length ≤ n := by simpa using hl
      have hn' : nextPositional p ({ st with extras := true } : St).seen = none := hn
      obtain ⟨iha, ihd⟩ := ih r' hl' { st with extras := true } hn'
      cases k with
      | dd =>
        refine ⟨fun t => ?_, by simp [runE]⟩
        simp only [runE, hn]
        exact ihd.symm
      | arg t' =>
        refine ⟨fun t => by simp [runE, hn], ?_⟩
        simp only [runE, hn]
        exact (iha t').symm
      | opt o f e => exact ⟨fun t => by simp [runE, hn], by simp [runE]⟩
      | unknown => exact ⟨fun t => by simp [runE, hn], by simp [runE]⟩

theorem runE_dd_none (p hp : Parser) (rest : List ETok) (st : St)
    (hn : nextPositional p st.seen = none) :
    runE p hp (.dd :: rest) st = runE p hp rest { st with extras := true } :=
  (runE_none_aux p hp rest.length rest (Nat.le_refl _) st hn).2

theorem runE_arg_none (p hp : Parser) (t : Text) (rest : List ETok) (st : St)
    (hn : nextPositional p st.seen = none) :
    runE p hp (.arg t :: rest) st = runE p hp rest { st with extras := true } :=
  (runE_none_aux p hp rest.length rest (Nat.le_refl _) st hn).1 t

theorem runE_arg_some (p hp : Parser) (t : Text) (rest : List ETok) (st : St) (o : Opt)
    (h : ∀ r, rest ≠ .dd :: r) (hs : nextPositional p st.seen = some o) :
    runE p hp (.arg t :: rest) st = (takeAction p o (some t) st).bind (runE p hp rest) := by
  cases hta : takeAction p o (some t) st <;>
  · cases rest with
    | nil => simp [runE, hs, hta, Except.bind]
    | cons k r =>
      cases k with
      | dd => exact absurd rfl (h r)
      | opt o' f e => simp [runE, hs, hta, Except.bind]
      | arg t' => simp [runE, hs, hta, Except.bind]
      | unknown => simp [runE, hs, hta, Except.bind]

/-- The canonical token of `Cli.lex`'s fragment as a classified string. -/
def canonTok (p : Parser) : Tok → ETok
  | .flag f =>
    match findFlag p f with
    | some o => .opt o f none
    | none => .unknown
  | .val t => .arg t

theorem canon_ne_dd (p : Parser) (toks : List Tok) (r : List ETok) : toks.map (canonTok p) ≠ .dd :: r := by
  cases toks with
  | nil => simp
  | cons k ks =>
    cases k with
    | val t => simp [canonTok]
    | flag f =>
      simp only [List.map, canonTok]
      cases findFlag p f <;> simp

/-- On canonical tokens the tokeniser-aware loop IS `Cli.run`. -/
theorem runE_canon (p hp : Parser) (toks : List Tok) (st : St) :
    runE p hp (toks.map (canonTok p)) st = run p toks st := by
  fun_induction run p toks st with
  | case1 st => simp [runE]
  | case2 t rest st hnone ih =>
    rw [List.map_cons, canonTok, runE_arg_none _ _ _ _ _ hnone]
    exact ih
  | case3 t rest st o hsome e herr =>
    rw [List.map_cons, canonTok, runE_arg_some _ _ _ _ _ _ (canon_ne_dd p rest) hsome, herr]
    rfl
  | case4 t rest st o hsome st' hok ih =>
    rw [List.map_cons, canonTok, runE_arg_some _ _ _ _ _ _ (canon_ne_dd p rest) hsome, hok]
    exact ih
  | case5 f rest st hnone ih =>
    simp only [List.map_cons, canonTok, hnone, runE]; exact ih
  | case6 f rest st o hsome hact e herr =>
    simp [List.map_cons, canonTok, hsome, runE, expand, hact, zeroArgs, herr]
  | case7 f rest st o hsome hact st' hok ih =>
    simp only [List.map_cons, canonTok, hsome, runE, expand, hact, zeroArgs, hok]; exact ih
  | case8 f rest st o hsome hact =>
    simp [List.map_cons, canonTok, hsome, runE, expand, hact, zeroArgs]
  | case9 f rest st o hsome hact =>
    simp [List.map_cons, canonTok, hsome, runE, expand, hact]
  | case10 f st o hsome t rest' e herr h1 h2 h3 =>
    cases hact : o.action <;> simp_all [canonTok, runE, expand, zeroArgs]
  | case11 f st o hsome t rest' st' hok h1 h2 h3 ih =>
    cases hact : o.action <;> simp_all [canonTok, runE, expand, zeroArgs]
  | case12 f rest st o hsome h1 h2 h3 hrest =>
    have hne : ∀ t r, rest.map (canonTok p) ≠ .arg t :: r := by
      intro t r
      cases rest with
      | nil => simp
      | cons k ks =>
        cases k with
        | val t' => exact absurd rfl (hrest t' ks)
        | flag f' => simp only [List.map, canonTok]; cases findFlag p f' <;> simp
    cases hact : o.action <;> simp_all [canonTok, runE, expand, zeroArgs]
    all_goals (split <;> simp_all)

/-! ### The canonical fragment of `Cli.lean` inside the tokeniser -/

/-- On this token `Cli.lex` and argparse's `_parse_optional` (for the parser with its help action)
say the same: a value is an argument; a dash-word is the exact option string of `p` that `lex`
takes it for, or an unknown optional. -/
def canonText (p hp : Parser) : Text → Bool
  | .num _ => !hasNegLikeFlags hp
  | .word s =>
    s != ['-', '-'] &&
    match lex (.word s) with
    | .val _ => parseOptional hp s == .arg
    | .flag f =>
      match findFlag p f with
      | some o => parseOptional hp s == .opt o f none
      | none => parseOptional hp s == .unknown

theorem lex_num (i : Int) : lex (.num i) = .val (.num i) := rfl

theorem classify_canon (p hp : Parser) (t : Text) (h : canonText p hp t = true) :
    classify hp t = .ok (canonTok p (lex t)) := by
  cases t with
  | num i =>
    simp only [canonText, Bool.not_eq_true'] at h
    simp [classify, h, lex_num, canonTok]
  | word s =>
    simp only [canonText, Bool.and_eq_true] at h
    obtain ⟨_, h⟩ := h
    cases hl : lex (.word s) with
    | val v =>
      have hv : v = .word s := by
        unfold lex at hl
        split at hl <;> simp_all
      simp only [hl] at h
      have h' : parseOptional hp s = .arg := by simpa using h
      simp [classify, h', canonTok, hv]
    | flag f =>
      have hf : f = s := by
        unfold lex at hl
        split at hl <;> simp_all
      subst hf
      simp only [hl] at h
      cases hff : findFlag p f with
      | none =>
        simp only [hff] at h
        have h' : parseOptional hp f = .unknown := by simpa using h
        simp [classify, h', canonTok, hff]
      | some o =>
        simp only [hff] at h
        have h' : parseOptional hp f = .opt o f none := by simpa using h
        simp [classify, h', canonTok, hff]

theorem tokenise_canon (p hp : Parser) (argv : List Text) (h : argv.all (canonText p hp) = true) :
    tokenise hp argv = .ok ((argv.map lex).map (canonTok p)) := by
  induction argv with
  | nil => simp [tokenise]
  | cons t rest ih =>
    simp only [List.all_cons, Bool.and_eq_true] at h
    obtain ⟨ht, hr⟩ := h
    have hdd : t ≠ .word ['-', '-'] := by
      intro e; subst e
      simp [canonText] at ht
    simp [tokenise, hdd, classify_canon p hp t ht, ih hr]

/-- `parse_args` with argparse's tokeniser IS `Cli.parse` on the canonical fragment. -/
theorem parseX_canon (p hp : Parser) (argv : List Text) (ns : Namespace)
    (h : argv.all (canonText p hp) = true) :
    parseX p hp argv ns = parse p (argv.map lex) ns := by
  simp only [parseX, parse, tokenise_canon p hp argv h, runE_canon]
  cases run p (List.map lex argv) { ns := applyDefaults p ns, seen := [], seenND := [], extras := false } <;> rfl

/-! ### `parse_arguments`: the whole composition on the canonical fragment -/

def fileConfs : Option TomlFile → List Toml
  | some (.table c) => [c]
  | _ => []

/-- Every `[tool.rattr]` table `parse_arguments` could read in this world. -/
def candidateConfs (w : World) (inputConf : Option Toml) : List Toml :=
  inputConf.toList ++ (fileConfs w.overrideFile ++ (fileConfs w.cwd.pyproject ++
    w.parents.flatMap (fun d => fileConfs d.pyproject)))

/-- The argv-style translation of this table is inside the canonical fragment. -/
def tomlCanon (conf : Toml) : Bool :=
  (translate tomlNameMap (prune tomlTypeMap conf)).all (canonText tomlParser tomlParserH)

theorem validateToml_ok {tm : Dict Str TomlType} {conf c' : Toml} (h : validateToml tm conf = .ok c') :
    c' = prune tm conf := by
  unfold validateToml at h
  cases hc : checkTypes tm (prune tm conf) with
  | error e => simp [hc] at h
  | ok u => simp only [hc] at h; injection h with h; exact h.symm

theorem findPyproject_mem (w : World) (c : Toml) (h : findPyproject w = some (.table c)) :
    c ∈ fileConfs w.cwd.pyproject ++ w.parents.flatMap (fun d => fileConfs d.pyproject) := by
  unfold findPyproject at h
  split at h
  · simp [h, fileConfs]
  · split at h
    · rename_i d hd
      have hm := List.mem_of_find?_eq_some hd
      apply List.mem_append_right
      exact List.mem_flatMap.mpr ⟨d, hm, by simp [h, fileConfs]⟩
    · simp [h, fileConfs]

theorem selected_mem (w : World) (ns0 : Namespace) (c : Toml)
    (h : selectFile (getOverride w ns0) (findPyproject w) = some (.table c)) :
    c ∈ fileConfs w.overrideFile ++ (fileConfs w.cwd.pyproject ++
      w.parents.flatMap (fun d => fileConfs d.pyproject)) := by
  unfold selectFile at h
  split at h
  · rename_i f hov
    have hf : w.overrideFile = some f := by
      unfold getOverride at hov
      split at hov
      · exact hov
      · cases hov
    apply List.mem_append_left
    injection h with h
    simp [hf, h, fileConfs]
  · exact List.mem_append_right _ (findPyproject_mem w c h)

/-- Both sides are the same cascade of matches (compiled to different matchers): split and compare. -/
macro "same_match" : tactic => `(tactic| (repeat' (first | rfl | split)))

/-- `parse_arguments` with argparse's own tokeniser IS `Cli.parseArguments` whenever the command
line and the `[tool.rattr]` tables in reach are inside the canonical fragment. -/
theorem parseArgumentsX_canon (w : World) (inputConf : Option Toml) (argv : List Text) (eoe : Bool)
    (hargv : argv.all (canonText cliParser cliParserH) = true)
    (htoml : ∀ c ∈ candidateConfs w inputConf, tomlCanon c = true) :
    parseArgumentsX w inputConf argv eoe = parseArguments w inputConf argv eoe := by
  have toml_pass : ∀ conf conf', conf ∈ candidateConfs w inputConf →
      validateToml tomlTypeMap conf = .ok conf' →
      parseX tomlParser tomlParserH (translate tomlNameMap conf') [] =
        parse tomlParser ((translate tomlNameMap conf').map lex) [] := by
    intro conf conf' hm hv
    have := htoml conf hm
    rw [validateToml_ok hv]
    exact parseX_canon _ _ _ _ this
  have hnil : parseX tomlParser tomlParserH (translate tomlNameMap []) [] =
      parse tomlParser ((translate tomlNameMap []).map lex) [] :=
    parseX_canon _ _ _ _ (by simp [translate])
  unfold parseArgumentsX parseArguments
  simp only [parseX_canon _ _ _ _ hargv]
  cases hp0 : parse cliParser (argv.map lex) [] with
  | error e => rfl
  | ok ns0 =>
    simp only
    -- which table
    cases inputConf with
    | some ic =>
      cases ic with
      | cons kv c =>
        simp only
        cases hv : validateToml tomlTypeMap (kv :: c) with
        | error e => rfl
        | ok conf' =>
          simp only
          rw [toml_pass (kv :: c) conf' (by simp [candidateConfs]) hv]
          same_match
      | nil =>
        simp only
        cases hs : selectFile (getOverride w ns0) (findPyproject w) with
        | none =>
          simp only
          cases hv : validateToml tomlTypeMap [] with
          | error e => rfl
          | ok conf' =>
            have : conf' = [] := by rw [validateToml_ok hv]; simp [prune]
            subst this
            simp only [hnil]
            same_match
        | some f =>
          cases f with
          | decodeError => rfl
          | table c =>
            simp only
            cases hv : validateToml tomlTypeMap c with
            | error e => rfl
            | ok conf' =>
              simp only
              rw [toml_pass c conf' (List.mem_append_right _ (selected_mem w ns0 c hs)) hv]
              same_match
    | none =>
      simp only
      cases hs : selectFile (getOverride w ns0) (findPyproject w) with
      | none =>
        simp only
        cases hv : validateToml tomlTypeMap [] with
        | error e => rfl
        | ok conf' =>
          have : conf' = [] := by rw [validateToml_ok hv]; simp [prune]
          subst this
          simp only [hnil]
          same_match
      | some f =>
        cases f with
        | decodeError => rfl
        | table c =>
          simp only
          cases hv : validateToml tomlTypeMap c with
          | error e => rfl
          | ok conf' =>
            simp only
            rw [toml_pass c conf' (List.mem_append_right _ (selected_mem w ns0 c hs)) hv]
            same_match

/-! ### Spelling invariance inside the main loop -/

theorem takesArg_action {o : Opt} (h : takesArg o = true) : o.action = .store ∨ o.action = .append := by
  simpa [takesArg] using h

/-- `--opt=VALUE` / `-oVALUE` is `--opt VALUE` / `-o VALUE` — for EVERY value text, also one that
detached would be read as an option (`--exclude=-x`). -/
theorem runE_attached (p hp : Parser) (o : Opt) (f x : Str) (rest : List ETok) (st : St)
    (h : takesArg o = true) :
    runE p hp (.opt o f (some x) :: rest) st =
      runE p hp (.opt o f none :: .arg (Text.ofStr x) :: rest) st := by
  have hgo : expandGo hp [] o f x = .ok ([], o, some x) := by
    unfold expandGo
    rcases takesArg_action h with ha | ha <;> simp [h, ha]
  rcases takesArg_action h with ha | ha <;>
    simp [runE, expand, hgo, ha, zeroArgs]

theorem takeAction_flag_ok (p : Parser) (a : Opt) (st : St) (ha : a.action = .storeTrue) (hm : a.mutex = none) :
    ∃ st', takeAction p a none st = .ok st' := by
  have hc : ∀ l, conflictSeen p a l = false := by
    intro l
    simp only [conflictSeen, hm, List.any_eq_false]
    intro o' _
    cases o'.mutex <;> simp
  simp [takeAction, getValues, hc, applyAction, ha]

/-- The explicit-argument loop only ever appends to the cluster collected so far. -/
theorem expandGo_pre (hp : Parser) (x : Str) : ∀ (pre : List Opt) (o : Opt) (f : Str),
    expandGo hp pre o f x = (expandGo hp [] o f x).map (fun r => (pre ++ r.1, r.2.1, r.2.2)) := by
  induction x with
  | nil =>
    intro pre o f
    unfold expandGo
    by_cases hu : (o.action == .unsupported) = true
    · simp [hu, Except.map]
    · by_cases ht : takesArg o = true
      · simp [hu, ht, Except.map]
      · simp [hu, ht, Except.map]
  | cons c x' ih =>
    intro pre o f
    unfold expandGo
    by_cases hu : (o.action == .unsupported) = true
    · simp [hu, Except.map]
    · by_cases ht : takesArg o = true
      · simp [hu, ht, Except.map]
      · simp only [hu, ht, Bool.false_eq_true, if_false]
        by_cases hd : (f.getD 1 '-' != '-') = true
        · simp only [hd, if_true]
          cases hf : findFlag hp ['-', c] with
          | none => simp [Except.map]
          | some o' =>
            simp only
            by_cases hx : x'.isEmpty = true
            · simp [hx, Except.map]
            · simp only [hx, Bool.false_eq_true, if_false]
              rw [ih (pre ++ [o]) o' ['-', c], ih ([] ++ [o]) o' ['-', c]]
              cases expandGo hp [] o' ['-', c] x' <;> simp [Except.map]
        · have hd' : f[1]?.getD '-' = '-' := by simpa using hd
          simp [hd', Except.map]

/-- What the main loop does with a recognised optional once its cluster is expanded. -/
def afterExpand (p hp : Parser) (r : Except ArgErr (List Opt × Opt × Option Str)) (rest : List ETok) (st : St) :
    Except ArgErr St :=
  match r with
  | .error e => .error e
  | .ok (pre, o', ex') =>
    match o'.action with
    | .storeTrue => (zeroArgs p pre st).bind fun st₁ => (takeAction p o' none st₁).bind (runE p hp rest)
    | .version => (zeroArgs p pre st).bind fun _ => .error .versionExit
    | .unsupported => .error .unsupported
    | _ =>
      match ex' with
      | some x => (zeroArgs p pre st).bind fun st₁ => (takeAction p o' (some (Text.ofStr x)) st₁).bind (runE p hp rest)
      | none =>
        match rest with
        | .arg t :: rest' => (zeroArgs p pre st).bind fun st₁ => (takeAction p o' (some t) st₁).bind (runE p hp rest')
        | _ => .error (.expectedOneArgument o'.dest)

theorem runE_opt (p hp : Parser) (o : Opt) (f : Str) (ex : Option Str) (rest : List ETok) (st : St) :
    runE p hp (.opt o f ex :: rest) st = afterExpand p hp (expand hp o f ex) rest st := by
  rw [runE]
  unfold afterExpand
  cases expand hp o f ex with
  | error e => rfl
  | ok r =>
    obtain ⟨pre, o', ex'⟩ := r
    simp only
    cases hact : o'.action <;> simp only [Except.bind] <;>
      (try cases ex' <;> simp only) <;>
      (try cases rest with
        | nil => simp only
        | cons k r => cases k <;> simp only) <;>
      (try cases zeroArgs p pre st <;> simp only) <;>
      (try rfl) <;>
      (try (rename_i s1; first
        | (cases takeAction p o' none s1 <;> rfl)
        | (rename_i x; cases takeAction p o' (some (Text.ofStr x)) s1 <;> rfl)
        | (rename_i t; cases takeAction p o' (some t) s1 <;> rfl)))
    all_goals
      cases rest with
      | nil => rfl
      | cons k r =>
        cases k with
        | arg t => rename_i s1; simp only; cases takeAction p o' (some t) s1 <;> rfl
        | _ => rfl

theorem afterExpand_cons (p hp : Parser) (a : Opt) (q : List Opt) (o' : Opt) (e' : Option Str)
    (rest : List ETok) (st st₁ : St) (h : zeroArg p a st = .ok st₁) :
    afterExpand p hp (.ok (a :: q, o', e')) rest st = afterExpand p hp (.ok (q, o', e')) rest st₁ := by
  unfold afterExpand
  simp only
  cases o'.action <;> simp only [zeroArgs, h, Except.bind]
  all_goals
    cases e' <;> simp only
    cases rest with
    | nil => rfl
    | cons k r => cases k <;> simp only [zeroArgs, h, Except.bind]

/-- One step of cluster splitting: `-a<b…>` is `-a -<b…>` — the zero-argument flag `a` first, then
whatever the rest of the cluster spells (more flags, an option with attached or detached value). -/
theorem runE_cluster_step (p hp : Parser) (a b : Opt) (fa : Str) (cb : Char) (x : Str)
    (rest : List ETok) (st : St)
    (ha : a.action = .storeTrue) (hm : a.mutex = none)
    (hfa : (fa.getD 1 '-' != '-') = true) (hb : findFlag hp ['-', cb] = some b) :
    runE p hp (.opt a fa (some (cb :: x)) :: rest) st =
      runE p hp (.opt a fa none :: .opt b ['-', cb] (if x.isEmpty then none else some x) :: rest) st := by
  obtain ⟨st₁, h1⟩ := takeAction_flag_ok p a st ha hm
  have hz : zeroArg p a st = .ok st₁ := by simp [zeroArg, ha, h1]
  have hta : takesArg a = false := by simp [takesArg, ha]
  -- right-hand side: `a` is taken, then the rest of the cluster is looked at
  have hr : runE p hp (.opt a fa none :: .opt b ['-', cb] (if x.isEmpty then none else some x) :: rest) st =
      afterExpand p hp (expand hp b ['-', cb] (if x.isEmpty then none else some x)) rest st₁ := by
    have hnil : afterExpand p hp (.ok ([], a, none))
        (.opt b ['-', cb] (if x.isEmpty then none else some x) :: rest) st =
        runE p hp (.opt b ['-', cb] (if x.isEmpty then none else some x) :: rest) st₁ := by
      unfold afterExpand
      simp [ha, zeroArgs, Except.bind, h1]
    rw [runE_opt, expand, hnil, runE_opt]
  rw [hr, runE_opt]
  -- left-hand side: the loop of `consume_optional`
  have hl : expand hp a fa (some (cb :: x)) =
      (expand hp b ['-', cb] (if x.isEmpty then none else some x)).map (fun r => ([a] ++ r.1, r.2.1, r.2.2)) := by
    simp only [expand]
    rw [expandGo]
    simp only [ha, hta, hfa, hb]
    by_cases hx : x.isEmpty = true
    · simp [hx, Except.map]
    · simp only [hx, Bool.false_eq_true, if_false]
      simp [expandGo_pre hp x [a] b ['-', cb]]
  rw [hl]
  cases expand hp b ['-', cb] (if x.isEmpty then none else some x) with
  | error e => simp [Except.map, afterExpand]
  | ok r =>
    obtain ⟨q, o', e'⟩ := r
    simp only [Except.map, List.singleton_append]
    exact afterExpand_cons p hp a q o' e' rest st st₁ hz

/-! ### Congruence: a spelling may be replaced anywhere before the `--` -/

theorem runE_arg_dd_some (p hp : Parser) (t : Text) (rest : List ETok) (st : St) (o : Opt)
    (hs : nextPositional p st.seen = some o) :
    runE p hp (.arg t :: .dd :: rest) st = (takeAction p o (some t) st).bind (runE p hp rest) := by
  cases hta : takeAction p o (some t) st <;> simp [runE, hs, hta, Except.bind]

theorem runE_dd_other (p hp : Parser) (rest : List ETok) (st : St) (h : ∀ t r, rest ≠ .arg t :: r) :
    runE p hp (.dd :: rest) st = runE p hp rest { st with extras := true } := by
  cases rest with
  | nil => simp [runE]
  | cons k r =>
    cases k with
    | arg t => exact absurd rfl (h t r)
    | _ => simp [runE]

theorem runE_dd_arg_none (p hp : Parser) (t : Text) (rest : List ETok) (st : St)
    (hn : nextPositional p st.seen = none) :
    runE p hp (.dd :: .arg t :: rest) st = runE p hp (.arg t :: rest) { st with extras := true } :=
  runE_dd_none p hp _ st hn

theorem runE_dd_arg_some (p hp : Parser) (t : Text) (rest : List ETok) (st : St) (o : Opt)
    (hs : nextPositional p st.seen = some o) :
    runE p hp (.dd :: .arg t :: rest) st = (takeAction p o (some t) st).bind (runE p hp rest) := by
  cases hta : takeAction p o (some t) st <;> simp [runE, hs, hta, Except.bind]

def headIsOpt : List ETok → Bool
  | .opt _ _ _ :: _ => true
  | _ => false

theorem headIsOpt_ne_dd {X : List ETok} (h : headIsOpt X = true) (r : List ETok) : X ≠ .dd :: r := by
  intro e; subst e; simp [headIsOpt] at h

theorem headIsOpt_ne_arg {X : List ETok} (h : headIsOpt X = true) (t : Text) (r : List ETok) : X ≠ .arg t :: r := by
  intro e; subst e; simp [headIsOpt] at h

theorem bind_congr {α : Type} (r : Except ArgErr St) (f g : St → Except ArgErr α) (h : ∀ s, f s = g s) :
    r.bind f = r.bind g := by
  cases r <;> simp [Except.bind, h]

theorem afterExpand_congr (p hp : Parser) (X Y : List ETok) (hX : headIsOpt X = true) (hY : headIsOpt Y = true)
    (l : List ETok)
    (H : ∀ l' : List ETok, l'.length ≤ l.length → ∀ st, runE p hp (l' ++ X) st = runE p hp (l' ++ Y) st)
    (r : Except ArgErr (List Opt × Opt × Option Str)) (st : St) :
    afterExpand p hp r (l ++ X) st = afterExpand p hp r (l ++ Y) st := by
  have Hl := H l (Nat.le_refl _)
  unfold afterExpand
  cases r with
  | error e => rfl
  | ok r =>
    obtain ⟨pre, o', ex'⟩ := r
    simp only
    cases o'.action <;> simp only
    case storeTrue =>
      exact bind_congr _ _ _ fun s => bind_congr _ _ _ Hl
    all_goals
      cases ex' with
      | some x => exact bind_congr _ _ _ fun s => bind_congr _ _ _ Hl
      | none =>
        cases l with
        | nil =>
          simp only [List.nil_append]
          cases X with
          | nil => simp [headIsOpt] at hX
          | cons kx rx =>
            cases Y with
            | nil => simp [headIsOpt] at hY
            | cons ky ry =>
              cases kx <;> simp [headIsOpt] at hX
              cases ky <;> simp [headIsOpt] at hY
              rfl
        | cons k l' =>
          cases k with
          | arg t =>
            simp only [List.cons_append]
            exact bind_congr _ _ _ fun s => bind_congr _ _ _ (H l' (by simp))
          | _ => rfl

theorem runE_congr (p hp : Parser) (X Y : List ETok) (hX : headIsOpt X = true) (hY : headIsOpt Y = true)
    (h : ∀ st, runE p hp X st = runE p hp Y st) :
    ∀ (n : Nat) (pre : List ETok), pre.length ≤ n → ∀ st, runE p hp (pre ++ X) st = runE p hp (pre ++ Y) st := by
  intro n
  induction n with
  | zero =>
    intro pre hl st
    have : pre = [] := List.eq_nil_of_length_eq_zero (Nat.le_zero.mp hl)
    subst this
    exact h st
  | succ n ih =>
    intro pre hl st
    cases pre with
    | nil => exact h st
    | cons k l =>
      have hl' : l.length ≤ n := by simpa using hl
      have Hl : ∀ st, runE p hp (l ++ X) st = runE p hp (l ++ Y) st := ih l hl'
      cases k with
      | unknown => simp only [List.cons_append, runE]; exact Hl _
      | opt o f e =>
        simp only [List.cons_append, runE_opt]
        exact afterExpand_congr p hp X Y hX hY l (fun l'' h'' => ih l'' (Nat.le_trans h'' hl')) _ st
      | arg t =>
        simp only [List.cons_append]
        cases hnp : nextPositional p st.seen with
        | none => rw [runE_arg_none _ _ _ _ _ hnp, runE_arg_none _ _ _ _ _ hnp]; exact Hl _
        | some o =>
          cases l with
          | nil =>
            simp only [List.nil_append]
            rw [runE_arg_some _ _ _ _ _ _ (headIsOpt_ne_dd hX) hnp, runE_arg_some _ _ _ _ _ _ (headIsOpt_ne_dd hY) hnp]
            exact bind_congr _ _ _ h
          | cons k' l' =>
            cases k' with
            | dd =>
              simp only [List.cons_append]
              rw [runE_arg_dd_some _ _ _ _ _ _ hnp, runE_arg_dd_some _ _ _ _ _ _ hnp]
              exact bind_congr _ _ _ (ih l' (by simp at hl'; omega))
            | _ =>
              rw [runE_arg_some _ _ _ _ _ _ (by intro r e; cases e) hnp,
                  runE_arg_some _ _ _ _ _ _ (by intro r e; cases e) hnp]
              exact bind_congr _ _ _ Hl
      | dd =>
        simp only [List.cons_append]
        cases l with
        | nil =>
          simp only [List.nil_append]
          rw [runE_dd_other _ _ _ _ (headIsOpt_ne_arg hX), runE_dd_other _ _ _ _ (headIsOpt_ne_arg hY)]
          exact h _
        | cons k' l' =>
          cases k' with
          | arg t =>
            simp only [List.cons_append]
            cases hnp : nextPositional p st.seen with
            | none =>
              rw [runE_dd_arg_none _ _ _ _ _ hnp, runE_dd_arg_none _ _ _ _ _ hnp]
              exact Hl _
            | some o =>
              rw [runE_dd_arg_some _ _ _ _ _ _ hnp, runE_dd_arg_some _ _ _ _ _ _ hnp]
              exact bind_congr _ _ _ (ih l' (by simp at hl'; omega))
          | _ =>
            rw [runE_dd_other _ _ _ _ (by intro t r e; cases e), runE_dd_other _ _ _ _ (by intro t r e; cases e)]
            exact Hl _

/-! ### The pre-scan is compositional before the `--` -/

def noDD (l : List Text) : Bool := l.all fun t => t != .word ['-', '-']

theorem tokenise_append (hp : Parser) (pre rest : List Text) (h : noDD pre = true) :
    tokenise hp (pre ++ rest) =
      (tokenise hp pre).bind fun tp => (tokenise hp rest).map (tp ++ ·) := by
  induction pre with
  | nil =>
    simp only [List.nil_append, tokenise, Except.bind]
    cases tokenise hp rest <;> simp [Except.map]
  | cons t l ih =>
    simp only [noDD, List.all_cons, Bool.and_eq_true, bne_iff_ne, ne_eq] at h
    obtain ⟨ht, hl⟩ := h
    have hl' : noDD l = true := by simpa [noDD] using hl
    simp only [List.cons_append, tokenise, ht, if_false, ih hl']
    cases classify hp t with
    | error e => simp [Except.bind]
    | ok k =>
      simp only
      cases tokenise hp l with
      | error e => simp [Except.bind]
      | ok ks =>
        simp only [Except.bind]
        cases tokenise hp rest <;> simp [Except.map]

theorem headIsOpt_append {X : List ETok} (h : headIsOpt X = true) (r : List ETok) : headIsOpt (X ++ r) = true := by
  cases X with
  | nil => simp [headIsOpt] at h
  | cons k l => cases k <;> simp_all [headIsOpt]

/-- Replacing one spelling by another ANYWHERE in the command line (before a `--`): if the two
spellings tokenise to option-headed token lists that the main loop cannot tell apart, then no
`parse_args` can — whatever precedes, whatever follows, whatever the namespace held. -/
theorem parseX_respell (p hp : Parser) (w₁ w₂ : List Text) (X Y : List ETok)
    (h₁ : noDD w₁ = true) (h₂ : noDD w₂ = true)
    (t₁ : tokenise hp w₁ = .ok X) (t₂ : tokenise hp w₂ = .ok Y)
    (hX : headIsOpt X = true) (hY : headIsOpt Y = true)
    (hXY : ∀ post st, runE p hp (X ++ post) st = runE p hp (Y ++ post) st)
    (pre post : List Text) (hpre : noDD pre = true) (ns : Namespace) :
    parseX p hp (pre ++ (w₁ ++ post)) ns = parseX p hp (pre ++ (w₂ ++ post)) ns := by
  unfold parseX
  rw [tokenise_append hp pre _ hpre, tokenise_append hp pre _ hpre,
      tokenise_append hp w₁ _ h₁, tokenise_append hp w₂ _ h₂, t₁, t₂]
  cases tokenise hp pre with
  | error e => rfl
  | ok tp =>
    cases tokenise hp post with
    | error e => rfl
    | ok tq =>
      simp only [Except.bind, Except.map]
      rw [runE_congr p hp (X ++ tq) (Y ++ tq) (headIsOpt_append hX _) (headIsOpt_append hY _) (hXY tq)
            tp.length tp (Nat.le_refl _)]

/-- …and then neither can `parse_arguments`: the outcome depends on the command line only through
its three `parse_args`. -/
theorem parseArgumentsX_respell (argv₁ argv₂ : List Text)
    (h : ∀ ns, parseX cliParser cliParserH argv₁ ns = parseX cliParser cliParserH argv₂ ns)
    (w : World) (inputConf : Option Toml) (eoe : Bool) :
    parseArgumentsX w inputConf argv₁ eoe = parseArgumentsX w inputConf argv₂ eoe := by
  unfold parseArgumentsX
  simp only [h]

/-! ### Clusters, anywhere in the command line -/

/-- The three classification facts a cluster split needs (decidable for concrete letters / text):
`-a<b><x>` is `a` with explicit argument `<b><x>`, `-a` is `a`, `-<b><x>` is `b` with `<x>`. -/
def clusterFacts (hp : Parser) (a b : Opt) (ca cb : Char) (x : Str) : Bool :=
  a.action == .storeTrue && a.mutex == none && findFlag hp ['-', cb] == some b &&
  classify hp (.word ('-' :: ca :: cb :: x)) == .ok (.opt a ['-', ca] (some (cb :: x))) &&
  classify hp (.word ['-', ca]) == .ok (.opt a ['-', ca] none) &&
  classify hp (.word ('-' :: cb :: x)) == .ok (.opt b ['-', cb] (if x.isEmpty then none else some x)) &&
  ('-' :: ca :: cb :: x) != ['-', '-'] && ('-' :: cb :: x) != ['-', '-'] && ca != '-'

theorem tokenise_one (hp : Parser) (t : Text) (k : ETok) (hdd : t ≠ .word ['-', '-'])
    (h : classify hp t = .ok k) : tokenise hp [t] = .ok [k] := by
  simp [tokenise, hdd, h]

theorem tokenise_two (hp : Parser) (t u : Text) (k l : ETok) (hdt : t ≠ .word ['-', '-'])
    (hdu : u ≠ .word ['-', '-']) (ht : classify hp t = .ok k) (hu : classify hp u = .ok l) :
    tokenise hp [t, u] = .ok [k, l] := by
  simp [tokenise, hdt, hdu, ht, hu]

/-- `-a<b><x>` (a cluster: zero-argument short flag `a`, then more) is `-a -<b><x>`, anywhere before
a `--`, for every `parse_args` of the parser. -/
theorem parseX_cluster_split (p hp : Parser) (a b : Opt) (ca cb : Char) (x : Str)
    (hf : clusterFacts hp a b ca cb x = true)
    (pre post : List Text) (hpre : noDD pre = true) (ns : Namespace) :
    parseX p hp (pre ++ ([.word ('-' :: ca :: cb :: x)] ++ post)) ns =
      parseX p hp (pre ++ ([.word ['-', ca], .word ('-' :: cb :: x)] ++ post)) ns := by
  simp only [clusterFacts, Bool.and_eq_true, beq_iff_eq, bne_iff_ne, ne_eq] at hf
  obtain ⟨⟨⟨⟨⟨⟨⟨⟨ha, hm⟩, hb⟩, c1⟩, c2⟩, c3⟩, d1⟩, d2⟩, hca⟩ := hf
  have e1 : (Text.word ('-' :: ca :: cb :: x)) ≠ .word ['-', '-'] := by
    intro e; injection e with e; exact d1 e
  have e2 : (Text.word ['-', ca]) ≠ .word ['-', '-'] := by
    intro e; injection e with e; simp at e; exact hca e
  have e3 : (Text.word ('-' :: cb :: x)) ≠ .word ['-', '-'] := by
    intro e; injection e with e; exact d2 e
  refine parseX_respell p hp _ _ _ _ ?_ ?_ (tokenise_one hp _ _ e1 c1) (tokenise_two hp _ _ _ _ e2 e3 c2 c3)
    rfl rfl ?_ pre post hpre ns
  · simp [noDD, e1]
  · simp [noDD, e2, e3]
  · intro post st
    simp only [List.cons_append, List.nil_append]
    exact runE_cluster_step p hp a b ['-', ca] cb x post st ha hm (by simp [hca]) hb

/-- The three facts for `--opt=VALUE` / `-oVALUE` / `--pre=VALUE` against `--opt VALUE`. -/
def attachedFacts (hp : Parser) (o : Opt) (f : Str) (attached : Str) (flagWord : Str) (x : Str) : Bool :=
  takesArg o &&
  classify hp (.word attached) == .ok (.opt o f (some x)) &&
  classify hp (.word flagWord) == .ok (.opt o f none) &&
  classify hp (Text.ofStr x) == .ok (.arg (Text.ofStr x)) &&
  attached != ['-', '-'] && flagWord != ['-', '-'] && Text.ofStr x != .word ['-', '-']

/-- An attached value is the detached value, anywhere before a `--` — provided the detached text
is read as an argument at all (`attachedFacts`; `--exclude=-x` has no detached twin). -/
theorem parseX_attached_split (p hp : Parser) (o : Opt) (f attached flagWord x : Str)
    (hf : attachedFacts hp o f attached flagWord x = true)
    (pre post : List Text) (hpre : noDD pre = true) (ns : Namespace) :
    parseX p hp (pre ++ ([.word attached] ++ post)) ns =
      parseX p hp (pre ++ ([.word flagWord, Text.ofStr x] ++ post)) ns := by
  simp only [attachedFacts, Bool.and_eq_true, beq_iff_eq, bne_iff_ne, ne_eq] at hf
  obtain ⟨⟨⟨⟨⟨⟨ht, c1⟩, c2⟩, c3⟩, d1⟩, d2⟩, d3⟩ := hf
  have e1 : (Text.word attached) ≠ .word ['-', '-'] := by
    intro e; injection e with e; exact d1 e
  have e2 : (Text.word flagWord) ≠ .word ['-', '-'] := by
    intro e; injection e with e; exact d2 e
  refine parseX_respell p hp _ _ _ _ ?_ ?_ (tokenise_one hp _ _ e1 c1) (tokenise_two hp _ _ _ _ e2 d3 c2 c3)
    rfl rfl ?_ pre post hpre ns
  · simp [noDD, e1]
  · simp [noDD, e2, d3]
  · intro post st
    simp only [List.cons_append, List.nil_append]
    exact runE_attached p hp o f x post st ht

/-! ### Single-dash words with an arbitrary attached rest -/

/-- Shape of the option strings: `-c` (c ≠ '-') or `--…` (at least one more character). -/
def flagShape : Str → Bool
  | ['-', c] => c != '-'
  | '-' :: '-' :: _ :: _ => true
  | _ => false

def shortWf (hp : Parser) : Bool := (allFlags hp).all flagShape

theorem findFlag_none_of_not_mem (hp : Parser) (s : Str) (h : s ∉ allFlags hp) : findFlag hp s = none := by
  unfold findFlag
  rw [List.find?_eq_none]
  intro o ho hc
  apply h
  simp only [allFlags, List.mem_flatMap]
  exact ⟨o, ho, by simpa using hc⟩

theorem not_flag_of_shape (hp : Parser) (wf : shortWf hp = true) (s : Str) (hs : flagShape s = false) :
    s ∉ allFlags hp := by
  intro hm
  have := (List.all_eq_true.mp wf) s hm
  rw [hs] at this
  cases this

theorem flagShape_long_single (c : Char) (y0 : Char) (y : Str) (hc : c ≠ '-') :
    flagShape ('-' :: c :: y0 :: y) = false := by
  unfold flagShape
  split
  · rename_i heq; simp at heq
  · rename_i heq; simp at heq; exact absurd heq.1 hc
  · rfl


theorem flagShape_nil : flagShape [] = false := rfl
theorem flagShape_dash : flagShape ['-'] = false := rfl

/-- `splitEq` of a single-dash word whose third character is not `=`: the part before the `=` is
no option string. -/
theorem splitEq_prefix_shape (c y0 : Char) (y : Str) (hc : c ≠ '-') (hy0 : y0 ≠ '=')
    (a b : Str) (h : splitEq ('-' :: c :: y0 :: y) = some (a, b)) : flagShape a = false := by
  have hd : ('-' : Char) ≠ '=' := by decide
  rw [splitEq] at h
  simp only [hd, if_false] at h
  by_cases hce : c = '='
  · subst hce
    rw [splitEq] at h
    simp at h
    rw [← h.1]; rfl
  · rw [splitEq] at h
    simp only [hce, if_false] at h
    rw [splitEq] at h
    simp only [hy0, if_false] at h
    cases hs : splitEq y with
    | none => simp [hs] at h
    | some ab =>
      obtain ⟨a', b'⟩ := ab
      simp [hs] at h
      rw [← h.1]
      exact flagShape_long_single c y0 a' hc


theorem filterMap_single {α β : Type} [DecidableEq α] (g : α → β) (x : α) :
    ∀ (l : List α), l.Nodup → x ∈ l → l.filterMap (fun f => if f = x then some (g f) else none) = [g x] := by
  intro l
  induction l with
  | nil => intro _ h; cases h
  | cons a l ih =>
    intro hnd hm
    rw [List.nodup_cons] at hnd
    by_cases ha : a = x
    · subst ha
      have : l.filterMap (fun f => if f = a then some (g f) else none) = [] := by
        rw [List.filterMap_eq_nil_iff]
        intro b hb
        have : b ≠ a := fun e => hnd.1 (e ▸ hb)
        simp [this]
      simp [List.filterMap_cons, this]
    · have hm' : x ∈ l := by
        cases hm with
        | head => exact absurd rfl ha
        | tail _ h => exact h
      simp [List.filterMap_cons, ha, ih hnd.2 hm']

theorem filterMap_congr_mem {α β : Type} (f g : α → Option β) :
    ∀ (l : List α), (∀ a ∈ l, f a = g a) → l.filterMap f = l.filterMap g := by
  intro l
  induction l with
  | nil => intro _; rfl
  | cons a l ih =>
    intro h
    simp only [List.filterMap_cons, h a (List.mem_cons_self ..)]
    rw [ih (fun b hb => h b (List.mem_cons_of_mem _ hb))]

theorem isPrefixOf_false_of_shape (c y0 : Char) (y f : Str) (hc : c ≠ '-') (hf : flagShape f = true) :
    ('-' :: c :: y0 :: y).isPrefixOf f = false := by
  unfold flagShape at hf
  split at hf
  · simp [List.isPrefixOf]
  · simp [List.isPrefixOf, hc]
  · cases hf

theorem optionTuples_short (hp : Parser) (wf : shortWf hp = true) (nd : (allFlags hp).Nodup)
    (c y0 : Char) (y : Str) (hc : c ≠ '-') (hm : ['-', c] ∈ allFlags hp) :
    optionTuples hp ('-' :: c :: y0 :: y) = [(['-', c], some (y0 :: y))] := by
  unfold optionTuples
  split
  · rename_i heq; simp at heq; exact absurd heq.1 hc
  · rename_i c' rest heq
    simp at heq
    obtain ⟨rfl, rfl⟩ := heq
    have hfun : ∀ f ∈ allFlags hp,
        (if f = ['-', c] then some (f, some (y0 :: y))
         else if ('-' :: c :: y0 :: y).isPrefixOf f = true then some (f, none) else none) =
        (if f = ['-', c] then some ((fun f => (f, some (y0 :: y))) f) else none) := by
      intro f hf
      have := isPrefixOf_false_of_shape c y0 y f hc ((List.all_eq_true.mp wf) f hf)
      simp [this]
    rw [filterMap_congr_mem _ _ _ hfun]
    exact filterMap_single (fun f => (f, some (y0 :: y))) ['-', c] _ nd hm
  · rename_i h1 h2
    exact absurd rfl (h2 c (y0 :: y))

theorem mem_allFlags_of_findFlag {hp : Parser} {f : Str} {o : Opt} (h : findFlag hp f = some o) :
    f ∈ allFlags hp := by
  unfold findFlag at h
  have hm := List.mem_of_find?_eq_some h
  have hc := List.find?_some h
  simp only [allFlags, List.mem_flatMap]
  exact ⟨o, hm, by simpa using hc⟩

/-- A single-dash word `-c<y>` (≥ 3 characters, third one not `=`) whose first letter is a short
option is that option with the rest attached — for EVERY rest (file names, patterns, …). -/
theorem parseOptional_short (hp : Parser) (wf : shortWf hp = true) (nd : (allFlags hp).Nodup)
    (c y0 : Char) (y : Str) (o : Opt) (hc : c ≠ '-') (hy0 : y0 ≠ '=')
    (hf : findFlag hp ['-', c] = some o) :
    parseOptional hp ('-' :: c :: y0 :: y) = .opt o ['-', c] (some (y0 :: y)) := by
  have hnf : findFlag hp ('-' :: c :: y0 :: y) = none :=
    findFlag_none_of_not_mem hp _ (not_flag_of_shape hp wf _ (flagShape_long_single c y0 y hc))
  unfold parseOptional
  simp only [hnf, optionTuples_short hp wf nd c y0 y hc (mem_allFlags_of_findFlag hf), hf]
  cases hs : splitEq ('-' :: c :: y0 :: y) with
  | none => simp
  | some ab =>
    obtain ⟨a, b⟩ := ab
    have := findFlag_none_of_not_mem hp a
      (not_flag_of_shape hp wf a (splitEq_prefix_shape c y0 y hc hy0 a b hs))
    simp [this]

/-- The cluster facts for an ARBITRARY attached rest `x0 :: x` (x0 ≠ '='), from the shape of the
option strings. -/
theorem clusterFacts_attached (hp : Parser) (wf : shortWf hp = true) (nd : (allFlags hp).Nodup)
    (a b : Opt) (ca cb x0 : Char) (x : Str)
    (ha : a.action = .storeTrue) (hm : a.mutex = none)
    (hfa : findFlag hp ['-', ca] = some a) (hfb : findFlag hp ['-', cb] = some b)
    (hca : ca ≠ '-') (hcb : cb ≠ '-') (hcbe : cb ≠ '=') (hx0 : x0 ≠ '=') :
    clusterFacts hp a b ca cb (x0 :: x) = true := by
  have c1 := parseOptional_short hp wf nd ca cb (x0 :: x) a hca hcbe hfa
  have c3 := parseOptional_short hp wf nd cb x0 x b hcb hx0 hfb
  have k1 : classify hp (.word ('-' :: ca :: cb :: x0 :: x)) = .ok (.opt a ['-', ca] (some (cb :: x0 :: x))) := by
    simp [classify, c1]
  have k3 : classify hp (.word ('-' :: cb :: x0 :: x)) = .ok (.opt b ['-', cb] (some (x0 :: x))) := by
    simp [classify, c3]
  have k2 : classify hp (.word ['-', ca]) = .ok (.opt a ['-', ca] none) := by
    simp [classify, parseOptional, hfa]
  simp [clusterFacts, ha, hm, hfb, k1, k2, k3, hca]

end Rattr.C20

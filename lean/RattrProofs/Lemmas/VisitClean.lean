/-
  A context invariant carried through the WHOLE visitor: "every (key, symbol) entry of every scope
  satisfies `Q`", for any `Q` that holds of the entries the analyser itself creates (Name / Func /
  Class symbols stored under their own name). Same mutual structure as `visit_mono`.

  Used by C01 with `Q` = "a symbol a custom analyser could fire on sits under a key of the fixed
  list `D`" — so a call whose callee name avoids `D` never hits a custom analyser.
-/
import RattrProofs.Lemmas.Visit

namespace Rattr.FnA
open Rattr Rattr.Strs

/-- `Q` holds of every entry the visitor adds. -/
class GoodQ (Q : Str × Sym → Prop) : Prop where
  good : ∀ sym : Sym, (sym.kind = .name ∨ sym.kind = .func ∨ sym.kind = .cls) → Q (sym.name, sym)

def CtxAll (Q : Str × Sym → Prop) (c : Context) : Prop := ∀ sc ∈ c, ∀ kv ∈ sc, Q kv

section
variable {Q : Str × Sym → Prop}

theorem mem_dict_set {sc : Scope} {x : Str} {y : Sym} {kv : Str × Sym}
    (h : kv ∈ Dict.set sc x y) : kv ∈ sc ∨ kv = (x, y) := by
  induction sc with
  | nil => simp [Dict.set] at h; exact Or.inr h
  | cons p r ih =>
    obtain ⟨k, v⟩ := p
    simp only [Dict.set] at h
    split at h
    · rename_i hk
      rcases List.mem_cons.mp h with e | e
      · exact Or.inr (by rw [e, hk])
      · exact Or.inl (List.mem_cons_of_mem _ e)
    · rcases List.mem_cons.mp h with e | e
      · exact Or.inl (by rw [e]; exact List.mem_cons_self)
      · exact (ih e).imp (List.mem_cons_of_mem _) id

theorem mem_eraseKey {sc : Scope} {x : Str} {kv : Str × Sym} (h : kv ∈ Context.eraseKey sc x) :
    kv ∈ sc := by
  induction sc with
  | nil => simp [Context.eraseKey] at h
  | cons p r ih =>
    obtain ⟨k, v⟩ := p
    simp only [Context.eraseKey] at h
    split at h
    · exact List.mem_cons_of_mem _ h
    · rcases List.mem_cons.mp h with e | e
      · rw [e]; exact List.mem_cons_self
      · exact List.mem_cons_of_mem _ (ih e)

theorem CtxAll.add {c : Context} (h : CtxAll Q c) (sym : Sym) (b : Bool) (hq : Q (sym.name, sym)) :
    CtxAll Q (Context.add c sym b) := by
  unfold Context.add
  split
  · cases c with
    | nil =>
      intro sc hsc kv hkv
      simp at hsc; subst hsc; simp at hkv; subst hkv; exact hq
    | cons sc0 r =>
      intro sc hsc kv hkv
      rcases List.mem_cons.mp hsc with e | e
      · subst e
        rcases mem_dict_set hkv with h1 | h1
        · exact h sc0 List.mem_cons_self kv h1
        · rw [h1]; exact hq
      · exact h sc (List.mem_cons_of_mem _ e) kv hkv
  · exact h

theorem CtxAll.remove {c : Context} (h : CtxAll Q c) (x : Str) : CtxAll Q (Context.remove c x) := by
  cases c with
  | nil => exact h
  | cons sc0 r =>
    intro sc hsc kv hkv
    rcases List.mem_cons.mp hsc with e | e
    · subst e; exact h sc0 List.mem_cons_self kv (mem_eraseKey hkv)
    · exact h sc (List.mem_cons_of_mem _ e) kv hkv

theorem CtxAll.push {c : Context} (h : CtxAll Q c) : CtxAll Q (Context.push c) := by
  intro sc hsc kv hkv
  rcases List.mem_cons.mp hsc with e | e
  · subst e; cases hkv
  · exact h sc e kv hkv

theorem CtxAll.pop {c : Context} (h : CtxAll Q c) : CtxAll Q (Context.pop c) :=
  fun sc hsc kv hkv => h sc (List.mem_of_mem_drop hsc) kv hkv

theorem CtxAll.foldlNames [GoodQ Q] (b : Bool) (names : List Str) {c : Context} (h : CtxAll Q c) :
    CtxAll Q (names.foldl (fun c n => Context.add c (Context.nameSym n) b) c) := by
  induction names generalizing c with
  | nil => exact h
  | cons n r ih =>
    exact ih (h.add _ b (GoodQ.good (Context.nameSym n) (Or.inl rfl)))

theorem CtxAll.foldlRemove (names : List Str) {c : Context} (h : CtxAll Q c) :
    CtxAll Q (names.foldl (fun c n => Context.remove c n) c) := by
  induction names generalizing c with
  | nil => exact h
  | cons n r ih => exact ih (h.remove n)

end

/-- the invariant is kept from `s` to `s'`. -/
def CK (Q : Str × Sym → Prop) (s s' : St) : Prop := CtxAll Q s.ctx → CtxAll Q s'.ctx

/-- when `r` is `.ok s'`, the invariant is kept from `s` to `s'`. -/
def CM (Q : Str × Sym → Prop) (s : St) (r : Res) : Prop := ∀ s', r = .ok s' → CK Q s s'

section
variable {Q : Str × Sym → Prop}

theorem CK.refl (s : St) : CK Q s s := id
theorem CK.trans {a b c : St} (h1 : CK Q a b) (h2 : CK Q b c) : CK Q a c := fun h => h2 (h1 h)
theorem CK.of_ctx_eq {s s' : St} (h : s'.ctx = s.ctx) : CK Q s s' := fun hc => by rw [h]; exact hc

theorem CK.diag (s : St) (d : Diag) : CK Q s (St.diag s d) := CK.of_ctx_eq rfl
theorem CK.diagL (s : St) (ds : List Diag) : CK Q s (St.diagL s ds) := CK.of_ctx_eq rfl
theorem CK.updateResults (s : St) (n : NameS) (c : ECtx) : CK Q s (updateResults s n c) := by
  cases c <;> exact CK.of_ctx_eq rfl
theorem CK.gets_foldl (s : St) (l : List NameS) :
    CK Q s { s with gets := l.foldl addTo s.gets } := CK.of_ctx_eq rfl
theorem CK.addCall (s : St) (c : CallSym) : CK Q s { s with calls := addCall s.calls c } :=
  CK.of_ctx_eq rfl
theorem CK.addSet (s : St) (n : NameS) : CK Q s { s with sets := addTo s.sets n } :=
  CK.of_ctx_eq rfl

theorem CK.ctxAddFunc [GoodQ Q] (s : St) (name : Str) (i : Iface Str) (b : Bool) :
    CK Q s { s with ctx := Context.add s.ctx (funcSym name i) b } :=
  fun h => h.add _ b (GoodQ.good (funcSym name i) (Or.inr (Or.inl rfl)))
theorem CK.ctxAddCls [GoodQ Q] (s : St) (name : Str) (i : Iface Str) (b : Bool) :
    CK Q s { s with ctx := Context.add s.ctx (clsSym name i) b } :=
  fun h => h.add _ b (GoodQ.good (clsSym name i) (Or.inr (Or.inr rfl)))

theorem CK.addArguments [GoodQ Q] (s : St) (ps : Params) : CK Q s (FnA.addArguments s ps) :=
  fun h => CtxAll.foldlNames true _ h

theorem CK.pushOnly (s x : St) : CK Q s { x with ctx := Context.push s.ctx } := fun h => h.push

theorem CK.pushArgs [GoodQ Q] (s x : St) (ps : Params) :
    CK Q s (FnA.addArguments { x with ctx := Context.push s.ctx } ps) :=
  (CK.pushOnly s x).trans (CK.addArguments _ ps)

theorem CK.scoped {s t u : St} (h : CK Q t u) (hst : CK Q s t) :
    CK Q s { u with ctx := Context.pop u.ctx } := fun hc => (h (hst hc)).pop

theorem CK.mergeIr (s t : St) (h : CK Q s t) : CK Q s (mergeIr s t) := h

theorem CK.sub_scoped {s t u : St} (hst : CK Q s t) (h : CK Q t u) :
    CK Q s (FnA.mergeIr s { u with ctx := Context.pop u.ctx }) := fun hc => (h (hst hc)).pop

theorem CM.ok {s s' : St} (h : CK Q s s') : CM Q s (.ok s') := by
  intro t ht; cases ht; exact h
theorem CM.fatal (s t : St) (d : Diag) : CM Q s (.fatal t d) := by intro _ h; cases h
theorem CM.crash (s t : St) (e : Str) : CM Q s (.crash t e) := by intro _ h; cases h

theorem CM.weaken {s0 s : St} {r : Res} (h0 : CK Q s0 s) (h : CM Q s r) : CM Q s0 r :=
  fun s' hs => h0.trans (h s' hs)

theorem CM.bind_gen {s : St} {r : Res} {f : St → Res}
    (h : ∀ s₁, r = .ok s₁ → CM Q s (f s₁)) : CM Q s (r >>>= f) := by
  intro s' hs
  obtain ⟨s₁, h1, h2⟩ := bind_ok hs
  exact h s₁ h1 s' h2

theorem CM.bind {s : St} {r : Res} {f : St → Res}
    (h1 : CM Q s r) (h2 : ∀ s₁, CM Q s₁ (f s₁)) : CM Q s (r >>>= f) :=
  CM.bind_gen fun s₁ hr => CM.weaken (h1 s₁ hr) (h2 s₁)

theorem CM.protect {o s : St} {r : Res} (h : CM Q s r) : CM Q s (protect o r) := by
  intro s' hs; exact h s' (protect_ok_iff.mp hs)

theorem CM.liftName {s0 s : St} {r : NameRes} {k : Str → Str → Res}
    (h : ∀ b f, CM Q s0 (k b f)) : CM Q s0 (liftName s r k) := by
  cases r with
  | ok b f => exact h b f
  | fatal d => exact CM.fatal _ _ _
  | crash e => exact CM.crash _ _ _

theorem CM.getAndVerify {s : St} {n : Node} {c : ECtx} {k : St → Str → Str → Res}
    (h : ∀ s₁ b f, CK Q s s₁ → CM Q s₁ (k s₁ b f)) : CM Q s (getAndVerify s n c k) := by
  unfold FnA.getAndVerify
  apply CM.liftName
  intro b f
  simp only
  split
  · exact CM.weaken (CK.diag _ _) (h _ b f (CK.diag _ _))
  · exact h _ b f (CK.refl _)

theorem CM.addIdentifiers [GoodQ Q] (s : St) (t : Node) : CM Q s (addIdentifiers s t) := by
  unfold FnA.addIdentifiers
  split
  · exact CM.ok fun h => CtxAll.foldlNames false _ h
  · exact CM.fatal _ _ _
  · exact CM.crash _ _ _

theorem CM.removeIdentifiers (s : St) (t : Node) : CM Q s (removeIdentifiers s t) := by
  unfold FnA.removeIdentifiers
  split
  · exact CM.ok fun h => CtxAll.foldlRemove _ h
  · exact CM.fatal _ _ _
  · exact CM.crash _ _ _

theorem CM.addIdentifiersL [GoodQ Q] (s : St) (l : List Node) : CM Q s (addIdentifiersL s l) := by
  induction l generalizing s with
  | nil => exact CM.ok (CK.refl s)
  | cons t r ih => exact CM.bind (CM.addIdentifiers s t) fun s₁ => ih s₁

theorem CM.removeIdentifiersL (s : St) (l : List Node) : CM Q s (removeIdentifiersL s l) := by
  induction l generalizing s with
  | nil => exact CM.ok (CK.refl s)
  | cons t r ih => exact CM.bind (CM.removeIdentifiers s t) fun s₁ => ih s₁

theorem CM.argNames {s : St} {args : List Node} {k : St → List Str → Res}
    (h : ∀ s₁ l, CM Q s₁ (k s₁ l)) : CM Q s (argNames s args k) := by
  induction args generalizing s k with
  | nil => exact h s []
  | cons a r ih =>
    simp only [FnA.argNames]
    split
    · refine CM.weaken (s := if isStarred a then St.diag s (mkDiag .error "starred-arg") else s) ?_ ?_
      · split
        · exact CK.diag _ _
        · exact CK.refl _
      · exact ih fun s₁ l => h s₁ _
    · exact CM.fatal _ _ _
    · exact CM.crash _ _ _

theorem CM.kwargNames {s : St} {kwn : List (Option Str)} {kwv : List Node}
    {k : St → List (Str × Str) → Res}
    (h : ∀ s₁ l, CM Q s₁ (k s₁ l)) : CM Q s (kwargNames s kwn kwv k) := by
  induction kwn generalizing kwv k with
  | nil => simp only [FnA.kwargNames]; exact h s []
  | cons o rn ih =>
    cases kwv with
    | nil => cases o <;> (simp only [FnA.kwargNames]; exact h s [])
    | cons v rv =>
      cases o with
      | none => simp only [FnA.kwargNames]; exact ih h
      | some key =>
        simp only [FnA.kwargNames]
        split
        · exact ih fun s₁ l => h s₁ _
        · exact CM.fatal _ _ _
        · exact CM.crash _ _ _

theorem CM.mkCall {s : St} {name : Str} {args : List Node} {kwn : List (Option Str)}
    {kwv : List Node} {target : Option Sym} {self : Option Str} {k : St → CallSym → Res}
    (h : ∀ s₁ c, CM Q s₁ (k s₁ c)) : CM Q s (mkCall s name args kwn kwv target self k) := by
  unfold FnA.mkCall
  exact CM.argNames fun s₁ _ => CM.kwargNames fun s₂ _ => h s₂ _

theorem CM.dynamicName {s : St} {fn : Str} {args : List Node} {k : St → NameS → Res}
    (h : ∀ s₁ n, CM Q s₁ (k s₁ n)) : CM Q s (dynamicName s fn args k) := by
  match args with
  | [] => exact CM.fatal _ _ _
  | [_] => exact CM.fatal _ _ _
  | a0 :: attrArg :: rest =>
    cases attrArg <;>
      (simp only [FnA.dynamicName]
       split <;> first
         | exact CM.fatal _ _ _
         | exact CM.crash _ _ _
         | exact h _ _
         | exact CM.weaken (CK.diag _ _) (h _ _))

theorem CM.defaultdictNamed (env : Env) (factory : Node) (s : St) :
    CM Q s (defaultdictNamed env factory s) := by
  unfold FnA.defaultdictNamed
  apply CM.liftName
  intro _ name
  exact CM.ok ((CK.diagL s _).trans (CK.addCall _ _))

theorem CM.withRegister [GoodQ Q] (items : List Node) (s : St) : CM Q s (withRegister items s) := by
  induction items generalizing s with
  | nil => exact CM.ok (CK.refl s)
  | cons it r ih =>
    unfold FnA.withRegister
    split
    · exact CM.ok (CK.refl _)
    · rename_i heq; cases heq
      exact CM.bind (CM.addIdentifiersL _ _) fun s₁ => ih s₁
    · rename_i heq; cases heq; exact ih _

end

def ACM (Q : Str × Sym → Prop) (s : St) : AssignOut → Prop
  | .done r => CM Q s r
  | .generic s' => CK Q s s'

theorem ACM.done {Q : Str × Sym → Prop} {s : St} {r : Res} (h : CM Q s r) : ACM Q s (.done r) := h
theorem ACM.generic {Q : Str × Sym → Prop} {s s' : St} (h : CK Q s s') : ACM Q s (.generic s') := h

mutual
theorem visit_ck (Q : Str × Sym → Prop) [GoodQ Q] (env : Env) (mn : Str) : ∀ (n : Node) (s : St), CM Q s (visit env mn n s)
  | .name id c, s => by
    rw [visit]
    exact CM.getAndVerify fun s₁ b f _ => CM.ok (CK.updateResults _ _ _)
  | .attr v a c, s => by
    rw [visit]
    refine CM.getAndVerify fun s₁ b f _ => CM.bind ?_ fun s₂ => CM.ok (CK.updateResults _ _ _)
    split
    · exact visit_ck Q env mn v s₁
    · exact CM.ok (CK.refl _)
  | .sub v sl c, s => by
    rw [visit]
    refine CM.getAndVerify fun s₁ b f _ => CM.bind ?_ fun s₂ => CM.ok (CK.updateResults _ _ _)
    split
    · exact visit_ck Q env mn v s₁
    · exact CM.ok (CK.refl _)
  | .starred v c, s => by
    rw [visit]
    refine CM.getAndVerify fun s₁ b f _ => CM.bind ?_ fun s₂ => CM.ok (CK.updateResults _ _ _)
    split
    · exact visit_ck Q env mn v s₁
    · exact CM.ok (CK.refl _)
  | .call f args kwn kwv, s => by
    unfold visit
    simp only
    apply CM.liftName; intro _ targetName
    split
    · rename_i q hq
      clear hq
      split
      · exact CM.dynamicName fun s₁ n => CM.ok (CK.gets_foldl _ _)
      split
      · exact CM.dynamicName fun s₁ n => CM.ok
          (CK.of_ctx_eq rfl)
      split
      · exact CM.dynamicName fun s₁ n => CM.ok
          (CK.of_ctx_eq rfl)
      split
      · split
        · exact CM.ok (CK.refl _)
        · rename_i a0 rest
          refine CM.bind_gen fun t ht => CM.ok (CK.mergeIr s t ?_)
          have := (CM.protect (o := s) (CM.bind (visit_ck Q env mn a0 (freshIr s))
            fun t => visitSortedKey_ck Q env mn _ kwn kwv t)) t ht
          exact this
      split
      · split
        · exact CM.ok (CK.refl _)
        · rename_i factory rest
          split
          · rename_i ps body
            refine CM.bind_gen fun u hu => CM.ok ?_
            have := visit_ck Q env mn body _ u (protect_ok_iff.mp hu)
            exact CK.sub_scoped (CK.pushArgs s _ ps) this
          · exact CM.defaultdictNamed _ _ _
          · exact CM.defaultdictNamed _ _ _
          · refine CM.bind_gen fun u hu => CM.ok ?_
            have := visit_ck Q env mn factory _ u (protect_ok_iff.mp hu)
            exact CK.sub_scoped (CK.pushOnly s (freshIr s)) this
      · exact CM.ok (CK.refl _)
    · refine CM.getAndVerify fun s₁ _ fullname _ => ?_
      refine CM.weaken (CK.trans ?_ (CK.gets_foldl _ _)) (CM.mkCall fun s₂ c =>
        CM.weaken (CK.addCall _ _) (CM.bind (visitList_ck Q env mn args _) fun s₃ =>
          visitList_ck Q env mn kwv s₃))
      split
      · split
        · exact (CK.diagL _ _).trans (CK.diag _ _)
        · exact CK.diagL _ _
      · exact CK.diagL _ _
  | .lam ps body, s => by
    rw [visit]
    refine CM.bind_gen fun u hu => CM.ok ?_
    have := visit_ck Q env mn body _ u hu
    exact CK.scoped (s := s) this (CK.pushArgs s _ ps)
  | .comp kind elts gens, s => by
    rw [visit]
    refine CM.bind_gen fun u hu => CM.bind_gen fun w hw => CM.ok ?_
    exact CK.scoped (s := s) (t := { s with ctx := Context.push s.ctx })
      ((visitList_ck Q env mn gens _ u hu).trans (visitList_ck Q env mn elts u w hw))
      (CK.pushOnly s s)
  | .gen target iter ifs, s => by
    rw [visit]
    exact CM.bind (CM.addIdentifiers _ _) fun s₁ => CM.bind (visit_ck Q env mn target s₁)
      fun s₂ => CM.bind (visit_ck Q env mn iter s₂) fun s₃ => visitList_ck Q env mn ifs s₃
  | .walrus t v, s => by
    rw [visit]
    apply CM.liftName; intro base full
    refine CM.weaken (CK.addSet s ⟨base, full⟩) (CM.bind ?_ fun s₂ => ?_)
    · split
      · exact visit_ck Q env mn v _
      · exact CM.ok (CK.refl _)
    · have h := assignDiv_ck Q env mn [t] v s₂
      split
      · rename_i r hr; rw [hr] at h; exact h
      · rename_i s₃ hr; rw [hr] at h
        exact CM.weaken h (CM.bind (visit_ck Q env mn t s₃) fun s₄ => visit_ck Q env mn v s₄)
  | .strConst _, s => by rw [visit]; exact CM.ok (CK.refl _)
  | .const, s => by rw [visit]; exact CM.ok (CK.refl _)
  | .seq _ elts _, s => by rw [visit]; exact visitList_ck Q env mn elts s
  | .dict keys vals, s => by
    rw [visit]
    exact CM.bind (visitList_ck Q env mn keys s) fun s₁ => visitList_ck Q env mn vals s₁
  | .assign targets v, s => by
    rw [visit]
    have h := assignDiv_ck Q env mn targets v s
    split
    · rename_i r hr; rw [hr] at h; exact h
    · rename_i s₁ hr; rw [hr] at h
      exact CM.weaken h (CM.bind (visitList_ck Q env mn targets s₁) fun s₂ => visit_ck Q env mn v s₂)
  | .annAssign t ann [], s => by
    rw [visit]
    exact CM.bind (CM.addIdentifiers _ _) fun s₁ => CM.bind (visit_ck Q env mn t s₁)
      fun s₂ => visit_ck Q env mn ann s₂
  | .annAssign t ann (v0 :: r), s => by
    rw [visit]
    have h := assignDiv_ck Q env mn [t] v0 s
    split
    · rename_i r hr; rw [hr] at h; exact h
    · rename_i s₁ hr; rw [hr] at h
      exact CM.weaken h (CM.bind (visit_ck Q env mn t s₁) fun s₂ =>
        CM.bind (visit_ck Q env mn ann s₂) fun s₃ => visit_ck Q env mn v0 s₃)
  | .augAssign t v, s => by
    rw [visit]
    have h := assignDiv_ck Q env mn [t] v s
    split
    · rename_i r hr; rw [hr] at h; exact h
    · rename_i s₁ hr; rw [hr] at h
      exact CM.weaken h (CM.bind (visit_ck Q env mn t s₁) fun s₂ => visit_ck Q env mn v s₂)
  | .delete targets, s => by
    rw [visit]
    exact CM.bind (visitList_ck Q env mn targets s) fun s₁ => CM.removeIdentifiersL _ _
  | .forLoop t iter body orelse, s => by
    rw [visit]
    exact CM.bind (CM.addIdentifiers _ _) fun s₁ => CM.bind (visit_ck Q env mn t s₁)
      fun s₂ => CM.bind (visit_ck Q env mn iter s₂) fun s₃ =>
        CM.bind (visitList_ck Q env mn body s₃) fun s₄ => visitList_ck Q env mn orelse s₄
  | .withStmt items body, s => by
    rw [visit]
    exact CM.bind (CM.withRegister _ _) fun s₁ => CM.bind (visitList_ck Q env mn items s₁)
      fun s₂ => visitList_ck Q env mn body s₂
  | .withitem ce vars, s => by
    rw [visit]
    exact CM.bind (visit_ck Q env mn ce s) fun s₁ => visitList_ck Q env mn vars s₁
  | .funcDef name ps body, s => by
    rw [visit]
    refine CM.bind_gen fun u hu => CM.ok ?_
    have h1 : CK Q s { (St.diag s (mkDiag .error "nested-function")) with
        ctx := Context.add (St.diag s (mkDiag .error "nested-function")).ctx (funcSym name ps.iface) } :=
      (CK.diag _ _).trans (CK.ctxAddFunc _ _ _ _)
    exact h1.trans (CK.scoped (visitList_ck Q env mn body _ u hu) (CK.pushArgs _ _ ps))
  | .classDef _, s => by rw [visit]; exact CM.ok (CK.diag _ _)
  | .ret [], s => by
    rw [visit]; exact CM.ok (CK.refl _)
  | .ret (v0 :: r), s => by
    rw [visit]
    refine visitReturnValue_ck Q env mn v0 s _ fun s₁ b => ?_
    cases b
    · exact visit_ck Q env mn v0 s₁
    · exact CM.ok (CK.refl _)
  | .forbidden kind, s => by rw [visit]; exact CM.fatal _ _ _
  | .other k kids, s => by
    rw [visit]; exact visitList_ck Q env mn kids s

theorem visitList_ck (Q : Str × Sym → Prop) [GoodQ Q] (env : Env) (mn : Str) :
    ∀ (l : List Node) (s : St), CM Q s (visitList env mn l s)
  | [], s => by rw [visitList]; exact CM.ok (CK.refl _)
  | n :: r, s => by
    rw [visitList]
    exact CM.bind (visit_ck Q env mn n s) fun s₁ => visitList_ck Q env mn r s₁

theorem visitSortedKey_ck (Q : Str × Sym → Prop) [GoodQ Q] (env : Env) (mn : Str) (ir : NameRes) :
    ∀ (kwn : List (Option Str)) (kwv : List Node) (t : St),
      CM Q t (visitSortedKey env mn ir kwn kwv t)
  | kwn, kwv, t => by
    unfold visitSortedKey
    split
    · rename_i k rn v rv
      split
      · split
        · split
          · exact CM.crash _ _ _
          · apply CM.liftName; intro _ iterable
            refine CM.bind_gen fun l hl => ?_
            split
            · exact CM.crash _ _ _
            · exact CM.ok (CK.mergeIr t _ (CK.of_ctx_eq rfl))
        · exact visit_ck Q env mn _ t
      · exact visitSortedKey_ck Q env mn ir rn rv t
    · rename_i rn _ rv
      exact visitSortedKey_ck Q env mn ir rn rv t
    · exact CM.ok (CK.refl _)

theorem assignDiv_ck (Q : Str × Sym → Prop) [GoodQ Q] (env : Env) (mn : Str) (targets : List Node) :
    ∀ (v : Node) (s : St), ACM Q s (assignDiv env mn targets v s)
  | v, s => by
    unfold assignDiv
    split
    · split
      · exact ACM.done (CM.fatal _ _ _)
      · split
        · exact ACM.done (CM.liftName fun _ name => CM.ok ((CK.diag _ _).trans (CK.ctxAddFunc _ _ _ _)))
        · exact ACM.done (CM.fatal _ _ _)
    split
    · split
      · exact ACM.done (CM.fatal _ _ _)
      · split
        · refine ACM.done (CM.liftName fun _ name => ?_)
          split
          · exact CM.ok (CK.diag _ _)
          · exact CM.ok (CK.ctxAddCls _ _ _ _)
        · exact ACM.done (CM.crash _ _ _)
    split
    · exact ACM.done (CM.fatal _ _ _)
    · exact ACM.done (CM.crash _ _ _)
    · have h := CM.addIdentifiersL (Q := Q) s targets
      split
      · rename_i s₁ hs; exact ACM.generic (h s₁ hs)
      · rename_i r hr
        refine ACM.done ?_
        intro s' hs'
        exact h s' hs'
    · split
      · exact ACM.done (CM.fatal _ _ _)
      · split
        · refine ACM.done (CM.liftName fun lhsBase lhsName => CM.liftName fun _ className => ?_)
          refine CM.weaken (CK.diagL _ _) (CM.mkCall fun s₁ call => ?_)
          refine CM.weaken ((CK.addCall s₁ call).trans (CK.addSet _ ⟨lhsName, lhsBase⟩)) ?_
          exact CM.bind (CM.addIdentifiersL _ _) fun s₂ =>
            CM.bind (visitList_ck Q env mn _ s₂) fun s₃ => visitList_ck Q env mn _ s₃
        · exact ACM.done (CM.crash _ _ _)

theorem visitReturnValue_ck (Q : Str × Sym → Prop) [GoodQ Q] (env : Env) (mn : Str) :
    ∀ (n : Node) (s : St) (k : St → Bool → Res), (∀ s₁ b, CM Q s₁ (k s₁ b)) →
      CM Q s (visitReturnValue env mn n s k)
  | .seq _ elts _, s, k, hk => by
    rw [visitReturnValue]
    exact CM.bind (visitReturnElts_ck Q env mn elts s) fun s₁ => hk s₁ true
  | .dict keys vals, s, k, hk => by
    rw [visitReturnValue]
    exact CM.bind (visitReturnElts_ck Q env mn keys s) fun s₁ =>
      CM.bind (visitReturnElts_ck Q env mn vals s₁) fun s₂ => hk s₂ true
  | .call f args kwn kwv, s, k, hk => by
    rw [visitReturnValue]
    simp only
    split
    · exact hk s false
    · apply CM.liftName; intro _ full
      split
      · exact hk s false
      · apply CM.liftName; intro _ className
        refine CM.weaken (CK.diagL _ _) (CM.mkCall fun s₁ call => ?_)
        exact CM.weaken (CK.addCall _ _) (CM.bind (visitList_ck Q env mn args _) fun s₂ =>
          CM.bind (visitList_ck Q env mn kwv s₂) fun s₃ => hk s₃ true)
  | .name .., s, k, hk | .attr .., s, k, hk | .sub .., s, k, hk | .starred .., s, k, hk
  | .lam .., s, k, hk | .comp .., s, k, hk | .gen .., s, k, hk | .walrus .., s, k, hk
  | .strConst _, s, k, hk | .const, s, k, hk | .assign .., s, k, hk | .annAssign .., s, k, hk
  | .augAssign .., s, k, hk | .delete .., s, k, hk | .forLoop .., s, k, hk
  | .withStmt .., s, k, hk | .withitem .., s, k, hk | .funcDef .., s, k, hk
  | .classDef _, s, k, hk | .ret _, s, k, hk | .forbidden _, s, k, hk | .other .., s, k, hk => by
    unfold visitReturnValue; exact hk s false

theorem visitReturnElts_ck (Q : Str × Sym → Prop) [GoodQ Q] (env : Env) (mn : Str) :
    ∀ (l : List Node) (s : St), CM Q s (visitReturnElts env mn l s)
  | [], s => by rw [visitReturnElts]; exact CM.ok (CK.refl _)
  | e :: r, s => by
    rw [visitReturnElts]
    refine CM.bind (visitReturnValue_ck Q env mn e s _ fun s₁ b => ?_) fun s₁ =>
      visitReturnElts_ck Q env mn r s₁
    cases b
    · exact visit_ck Q env mn e s₁
    · exact CM.ok (CK.refl _)
end

/-- `analyse` starts from a context satisfying the invariant when `root` does. -/
theorem analyseInit_ctxAll {Q : Str × Sym → Prop} [GoodQ Q] {root : Context} (h : CtxAll Q root)
    (ps : Params) : CtxAll Q (analyseInit root ps).ctx :=
  CtxAll.foldlNames true _ h.push

end Rattr.FnA

/-
  Helper lemmas for the star-chain part of C06 (round 3): `joinDot ∘ splitDot`, the absolute name of a
  relative star import written in an `__init__.py`, `expandStar` on names it does not add.
-/
import RattrModel.StarChain
import RattrProofs.Lemmas.C06

namespace Rattr.C06S
open Rattr Rattr.Strs Rattr.Resolve Rattr.StarChain

theorem splitDotAux_ne_nil : ∀ (s cur : Str), splitDotAux s cur ≠ [] := by
  intro s
  induction s with
  | nil => intro cur; simp [splitDotAux]
  | cons c r ih =>
    intro cur
    unfold splitDotAux
    split
    · simp
    · exact ih _

theorem splitDot_ne_nil (s : Str) : splitDot s ≠ [] := splitDotAux_ne_nil s []

theorem joinDot_cons (a : Str) (r : List Str) (hr : r ≠ []) : joinDot (a :: r) = a ++ '.' :: joinDot r := by
  cases r with
  | nil => exact absurd rfl hr
  | cons b t => rfl

theorem joinDot_splitDotAux : ∀ (s cur : Str), joinDot (splitDotAux s cur) = cur.reverse ++ s := by
  intro s
  induction s with
  | nil => intro cur; simp [splitDotAux, joinDot]
  | cons c r ih =>
    intro cur
    unfold splitDotAux
    by_cases hc : c = '.'
    · subst hc
      simp only [if_true]
      rw [joinDot_cons _ _ (splitDotAux_ne_nil r []), ih []]
      simp
    · simp only [hc, if_false]
      rw [ih (c :: cur)]
      simp

/-- `".".join(s.split("."))` is `s` -/
theorem joinDot_splitDot (s : Str) : joinDot (splitDot s) = s := by
  unfold splitDot
  rw [joinDot_splitDotAux]
  simp

theorem joinDot_append_single (l : List Str) (x : Str) (hl : l ≠ []) :
    joinDot (l ++ [x]) = joinDot l ++ '.' :: x := by
  induction l with
  | nil => exact absurd rfl hl
  | cons a r ih =>
    cases r with
    | nil => simp [joinDot]
    | cons b t =>
      have h1 : (a :: b :: t) ++ [x] = a :: ((b :: t) ++ [x]) := rfl
      rw [h1, joinDot_cons _ _ (by simp), joinDot_cons _ _ (by simp), ih (by simp)]
      simp

/-- a relative star import of level 1 written in the `__init__.py` of package `base` names the
module `base.x` — for EVERY (dotted) package name `base` -/
theorem absName_init_level1 (base x : Str) (hx : '.' ∉ x) :
    absName ⟨base, true⟩ 1 (some x) = base ++ '.' :: x := by
  unfold absName Locator.deriveAbs
  simp only [Nat.sub_self, Nat.lt_irrefl, if_false, Option.map_some, if_true,
    C06.splitDot_noDot x hx, gt_iff_lt]
  rw [joinDot_append_single _ _ (splitDot_ne_nil base), joinDot_splitDot]

theorem lookupSym_append_miss' (ctx : MCtx) (x : MSym) (k : Str) (h : lookupSym ctx k = none) :
    lookupSym (ctx ++ [x]) k = if x.key = k then some x else none := by
  induction ctx with
  | nil => simp [lookupSym]
  | cons a r ih =>
    unfold lookupSym at h
    by_cases hk : a.key = k
    · simp [hk] at h
    · simp only [hk, if_false] at h
      simp [lookupSym, hk, ih h]

theorem expandStar_miss (q : Str) (f : Str) (hf : '*' ∉ f) (names : List Str) : ∀ (ctx : MCtx),
    f ∉ names → lookupSym ctx f = none → lookupSym (expandStar ctx q names) f = none := by
  have hkey : ∀ n, n ≠ f → (MSym.imp n (q ++ '.' :: n)).key ≠ f := by
    intro n hn
    simp only [MSym.key, ISym.id]
    split
    · intro e
      exact hf (by rw [← e]; simp)
    · exact hn
  induction names with
  | nil => intro ctx _ h; exact h
  | cons n r ih =>
    intro ctx hmem hnone
    have hn : n ≠ f := fun e => hmem (by rw [e]; simp)
    have hr : f ∉ r := fun h => hmem (List.mem_cons_of_mem _ h)
    unfold expandStar
    split
    · exact ih ctx hr hnone
    · apply ih _ hr
      rw [lookupSym_append_miss' ctx _ f hnone]
      simp [hkey n hn]

end Rattr.C06S

/-
  Helper lemmas for C18 (no property statements here): Python's string order is a total order;
  the stable insertion sort is a permutation, sorts, commutes with `map`, respects element-wise
  related inputs, and is insensitive to the input order when the key is injective on the input.
-/
import RattrModel.Serialise

namespace Rattr.C18L
open Rattr Rattr.Ser

/-- Element-wise relation of two lists (core has no `Forall₂`). -/
inductive Forall2 {α γ : Type} (R : α → γ → Prop) : List α → List γ → Prop
  | nil : Forall2 R [] []
  | cons {a : α} {b : γ} {l : List α} {m : List γ} : R a b → Forall2 R l m → Forall2 R (a :: l) (b :: m)

structure TotalOrder {κ : Type} (le : κ → κ → Bool) : Prop where
  total : ∀ a b, le a b = true ∨ le b a = true
  trans : ∀ a b c, le a b = true → le b c = true → le a c = true
  antisymm : ∀ a b, le a b = true → le b a = true → a = b

theorem char_eq_of_toNat {a b : Char} (h : a.toNat = b.toNat) : a = b := by
  apply Char.ext
  apply UInt32.toNat_inj.mp
  exact h

theorem strLe_total : ∀ a b : Str, strLe a b = true ∨ strLe b a = true
  | [], _ => by simp [strLe]
  | _ :: _, [] => by simp [strLe]
  | a :: as, b :: bs => by
    simp only [strLe]
    by_cases h1 : a.toNat < b.toNat
    · simp [h1]
    · by_cases h2 : b.toNat < a.toNat
      · simp [h2]
      · simp only [h1, h2, if_false]
        exact strLe_total as bs

theorem strLe_antisymm : ∀ a b : Str, strLe a b = true → strLe b a = true → a = b
  | [], [], _, _ => rfl
  | [], _ :: _, _, h => by simp [strLe] at h
  | _ :: _, [], h, _ => by simp [strLe] at h
  | a :: as, b :: bs, h1, h2 => by
    simp only [strLe] at h1 h2
    by_cases c1 : a.toNat < b.toNat
    · have : ¬ b.toNat < a.toNat := by omega
      simp [c1, this] at h2
    · by_cases c2 : b.toNat < a.toNat
      · simp [c1, c2] at h1
      · simp only [c1, c2, if_false] at h1 h2
        have hab : a = b := char_eq_of_toNat (by omega)
        rw [hab, strLe_antisymm as bs h1 h2]

theorem strLe_trans : ∀ a b c : Str, strLe a b = true → strLe b c = true → strLe a c = true
  | [], _, _, _, _ => by simp [strLe]
  | _ :: _, [], _, h, _ => by simp [strLe] at h
  | _ :: _, _ :: _, [], _, h => by simp [strLe] at h
  | a :: as, b :: bs, c :: cs, h1, h2 => by
    simp only [strLe] at h1 h2 ⊢
    by_cases ab : a.toNat < b.toNat
    · by_cases bc : b.toNat < c.toNat
      · have : a.toNat < c.toNat := by omega
        simp [this]
      · by_cases cb : c.toNat < b.toNat
        · simp [bc, cb] at h2
        · have : a.toNat < c.toNat := by omega
          simp [this]
    · by_cases ba : b.toNat < a.toNat
      · simp [ab, ba] at h1
      · simp only [ab, ba, if_false] at h1
        by_cases bc : b.toNat < c.toNat
        · have : a.toNat < c.toNat := by omega
          simp [this]
        · by_cases cb : c.toNat < b.toNat
          · simp [bc, cb] at h2
          · simp only [bc, cb, if_false] at h2
            have e1 : ¬ a.toNat < c.toNat := by omega
            have e2 : ¬ c.toNat < a.toNat := by omega
            simp only [e1, e2, if_false]
            exact strLe_trans as bs cs h1 h2

theorem strLe_order : TotalOrder strLe := ⟨strLe_total, strLe_trans, strLe_antisymm⟩

theorem pairLe_total (a b : Str × Str) : pairLe a b = true ∨ pairLe b a = true := by
  unfold pairLe
  by_cases h : a.1 = b.1
  · have h' : b.1 = a.1 := h.symm
    rw [if_pos h, if_pos h']
    exact strLe_total _ _
  · have h' : ¬ b.1 = a.1 := fun e => h e.symm
    rw [if_neg h, if_neg h']
    exact strLe_total _ _

theorem pairLe_antisymm (a b : Str × Str) (hab : pairLe a b = true) (hba : pairLe b a = true) : a = b := by
  unfold pairLe at hab hba
  by_cases h : a.1 = b.1
  · have h' : b.1 = a.1 := h.symm
    rw [if_pos h] at hab
    rw [if_pos h'] at hba
    exact Prod.ext h (strLe_antisymm _ _ hab hba)
  · have h' : ¬ b.1 = a.1 := fun e => h e.symm
    rw [if_neg h] at hab
    rw [if_neg h'] at hba
    exact absurd (strLe_antisymm _ _ hab hba) h

theorem pairLe_trans (a b c : Str × Str) (hab : pairLe a b = true) (hbc : pairLe b c = true) :
    pairLe a c = true := by
  unfold pairLe at hab hbc ⊢
  by_cases h1 : a.1 = b.1
  · by_cases h2 : b.1 = c.1
    · have h3 : a.1 = c.1 := h1.trans h2
      rw [if_pos h1] at hab
      rw [if_pos h2] at hbc
      rw [if_pos h3]
      exact strLe_trans _ _ _ hab hbc
    · have h3 : ¬ a.1 = c.1 := fun e => h2 (h1.symm.trans e)
      rw [if_neg h2] at hbc
      rw [if_neg h3, h1]; exact hbc
  · by_cases h2 : b.1 = c.1
    · have h3 : ¬ a.1 = c.1 := fun e => h1 (e.trans h2.symm)
      rw [if_neg h1] at hab
      rw [if_neg h3, ← h2]; exact hab
    · rw [if_neg h1] at hab
      rw [if_neg h2] at hbc
      have hac := strLe_trans _ _ _ hab hbc
      by_cases h3 : a.1 = c.1
      · exfalso
        rw [← h3] at hbc
        exact h1 (strLe_antisymm _ _ hab hbc)
      · rw [if_neg h3]
        exact hac

theorem pairLe_order : TotalOrder pairLe := ⟨pairLe_total, pairLe_trans, pairLe_antisymm⟩

section Sorting
variable {α β κ : Type} (le : κ → κ → Bool) (key : α → κ)

def Sorted (l : List α) : Prop := l.Pairwise (fun a b => le (key a) (key b) = true)

theorem perm_insertBy (a : α) : ∀ l : List α, (insertBy le key a l).Perm (a :: l)
  | [] => List.Perm.refl _
  | b :: r => by
    simp only [insertBy]
    split
    · exact List.Perm.refl _
    · exact ((perm_insertBy a r).cons b).trans (List.Perm.swap a b r)

theorem perm_sortBy : ∀ l : List α, (sortBy le key l).Perm l
  | [] => List.Perm.refl _
  | a :: r => (perm_insertBy le key a _).trans ((perm_sortBy r).cons a)

theorem mem_sortBy {l : List α} {x : α} : x ∈ sortBy le key l ↔ x ∈ l :=
  (perm_sortBy le key l).mem_iff

theorem sorted_insertBy (ho : TotalOrder le) (a : α) :
    ∀ l : List α, Sorted le key l → Sorted le key (insertBy le key a l)
  | [], _ => by simp [insertBy, Sorted]
  | b :: r, h => by
    simp only [insertBy]
    have hb := List.pairwise_cons.mp h
    split
    · rename_i hab
      refine List.pairwise_cons.mpr ⟨?_, h⟩
      intro x hx
      rcases List.mem_cons.mp hx with rfl | hx
      · exact hab
      · exact ho.trans _ _ _ hab (hb.1 x hx)
    · rename_i hab
      have hba : le (key b) (key a) = true := by
        rcases ho.total (key a) (key b) with h' | h'
        · exact absurd h' hab
        · exact h'
      refine List.pairwise_cons.mpr ⟨?_, sorted_insertBy ho a r hb.2⟩
      intro x hx
      have := (perm_insertBy le key a r).mem_iff.mp hx
      rcases List.mem_cons.mp this with rfl | hx
      · exact hba
      · exact hb.1 x hx

theorem sorted_sortBy (ho : TotalOrder le) : ∀ l : List α, Sorted le key (sortBy le key l)
  | [] => List.Pairwise.nil
  | a :: r => sorted_insertBy le key ho a _ (sorted_sortBy ho r)

/-- The sort of a permutation is the same list, provided the key is injective on the elements. -/
theorem sortBy_perm_eq (ho : TotalOrder le) {l₁ l₂ : List α} (hp : l₁.Perm l₂)
    (hinj : ∀ a b, a ∈ l₁ → b ∈ l₁ → key a = key b → a = b) :
    sortBy le key l₁ = sortBy le key l₂ := by
  apply List.Perm.eq_of_pairwise (le := fun a b => le (key a) (key b) = true)
  · intro a b ha hb hab hba
    have ha' : a ∈ l₁ := (mem_sortBy le key).mp ha
    have hb' : b ∈ l₁ := hp.symm.mem_iff.mp ((mem_sortBy le key).mp hb)
    exact hinj a b ha' hb' (ho.antisymm _ _ hab hba)
  · exact sorted_sortBy le key ho l₁
  · exact sorted_sortBy le key ho l₂
  · exact (perm_sortBy le key l₁).trans (hp.trans (perm_sortBy le key l₂).symm)

theorem insertBy_map (f : β → α) (b : β) :
    ∀ l : List β, insertBy le key (f b) (l.map f) = (insertBy le (fun x => key (f x)) b l).map f
  | [] => rfl
  | c :: r => by
    simp only [List.map_cons, insertBy]
    split
    · rfl
    · simp [insertBy_map f b r]

theorem sortBy_map (f : β → α) :
    ∀ l : List β, sortBy le key (l.map f) = (sortBy le (fun x => key (f x)) l).map f
  | [] => rfl
  | b :: r => by
    simp only [List.map_cons, sortBy]
    rw [sortBy_map f r, insertBy_map]

theorem sortBy_congr {k₁ k₂ : α → κ} (h : ∀ x, k₁ x = k₂ x) (l : List α) :
    sortBy le k₁ l = sortBy le k₂ l := by
  have : k₁ = k₂ := funext h
  rw [this]

/-- Element-wise related inputs with equal keys sort to element-wise related outputs. -/
theorem insertBy_forall₂ {γ : Type} (key' : γ → κ) (R : α → γ → Prop)
    (hk : ∀ a c, R a c → key a = key' c) {a : α} {c : γ} (hac : R a c) :
    ∀ {l : List α} {m : List γ}, Forall2 R l m →
      Forall2 R (insertBy le key a l) (insertBy le key' c m)
  | _, _, .nil => by simpa [insertBy] using Forall2.cons hac Forall2.nil
  | _, _, .cons (a := b) (b := d) hbd hr => by
    simp only [insertBy]
    rw [hk a c hac, hk b d hbd]
    split
    · exact .cons hac (.cons hbd hr)
    · exact .cons hbd (insertBy_forall₂ key' R hk hac hr)

theorem sortBy_forall₂ {γ : Type} (key' : γ → κ) (R : α → γ → Prop)
    (hk : ∀ a c, R a c → key a = key' c) :
    ∀ {l : List α} {m : List γ}, Forall2 R l m →
      Forall2 R (sortBy le key l) (sortBy le key' m)
  | _, _, .nil => .nil
  | _, _, .cons hac hr => insertBy_forall₂ le key key' R hk hac (sortBy_forall₂ key' R hk hr)

end Sorting

theorem map_eq_of_forall₂ {α γ δ : Type} {R : α → γ → Prop} {f : α → δ} {g : γ → δ}
    (h : ∀ a c, R a c → f a = g c) :
    ∀ {l : List α} {m : List γ}, Forall2 R l m → l.map f = m.map g
  | _, _, .nil => rfl
  | _, _, .cons hac hr => by
    simp only [List.map_cons]
    rw [h _ _ hac, map_eq_of_forall₂ h hr]

theorem forall₂_and_left {α γ : Type} {R : α → γ → Prop} {P : α → Prop} :
    ∀ {l : List α} {m : List γ}, Forall2 R l m → (∀ a ∈ l, P a) →
      Forall2 (fun a c => R a c ∧ P a) l m
  | _, _, .nil, _ => .nil
  | _, _, .cons hac hr, hp =>
    .cons ⟨hac, hp _ List.mem_cons_self⟩
      (forall₂_and_left hr (fun a ha => hp a (List.mem_cons_of_mem _ ha)))

theorem forall₂_map_right {α γ : Type} {R : α → γ → Prop} (g : α → γ) (h : ∀ a, R a (g a)) :
    ∀ l : List α, Forall2 R l (l.map g)
  | [] => .nil
  | a :: r => .cons (h a) (forall₂_map_right g h r)

theorem inj_of_nodup_map {α β : Type} (f : α → β) :
    ∀ {l : List α}, (l.map f).Nodup → ∀ a b, a ∈ l → b ∈ l → f a = f b → a = b
  | [], _, a, _, ha, _, _ => by cases ha
  | x :: r, h, a, b, ha, hb, e => by
    simp only [List.map_cons, List.nodup_cons, List.mem_map, not_exists, not_and] at h
    rcases List.mem_cons.mp ha with rfl | ha' <;> rcases List.mem_cons.mp hb with rfl | hb'
    · rfl
    · exact absurd e.symm (h.1 b hb')
    · exact absurd e (h.1 a ha')
    · exact inj_of_nodup_map f h.2 a b ha' hb' e

theorem dedupBy_of_pairwise {α : Type} (eq : α → α → Bool) :
    ∀ l : List α, l.Pairwise (fun a b => eq a b = false) → dedupBy eq l = l
  | [], _ => rfl
  | a :: r, h => by
    have hc := List.pairwise_cons.mp h
    simp only [dedupBy]
    rw [dedupBy_of_pairwise eq r hc.2]
    congr 1
    apply List.filter_eq_self.mpr
    intro b hb
    simp [hc.1 b hb]

theorem mapM'_map {α : Type} (un : α → JVal) (st : JVal → SR α) (h : ∀ a, st (un a) = .ok a) :
    ∀ l : List α, mapM' st (l.map un) = .ok l
  | [] => rfl
  | a :: r => by
    have ih := mapM'_map un st h r
    simp only [List.map_cons, mapM', h a, ih]

theorem setBy_append {α ν : Type} (eq : α → α → Bool) :
    ∀ (acc : List (α × ν)) (k : α) (v : ν), (∀ a, a ∈ acc → eq a.1 k = false) →
      setBy eq acc k v = acc ++ [(k, v)]
  | [], _, _, _ => rfl
  | (k', v') :: r, k, v, h => by
    have h1 : eq k' k = false := h (k', v') List.mem_cons_self
    simp only [setBy, h1, Bool.false_eq_true, if_false, List.cons_append]
    rw [setBy_append eq r k v (fun a ha => h a (List.mem_cons_of_mem _ ha))]

theorem foldl_setBy {α ν : Type} (eq : α → α → Bool) :
    ∀ (l acc : List (α × ν)), (acc ++ l).Pairwise (fun a b => eq a.1 b.1 = false) →
      l.foldl (fun d p => setBy eq d p.1 p.2) acc = acc ++ l
  | [], acc, _ => by simp
  | p :: r, acc, h => by
    have hp := List.pairwise_append.mp h
    have hacc : ∀ a, a ∈ acc → eq a.1 p.1 = false := fun a ha => hp.2.2 a ha p List.mem_cons_self
    simp only [List.foldl_cons]
    rw [setBy_append eq acc p.1 p.2 hacc]
    have : (acc ++ [(p.1, p.2)] ++ r).Pairwise (fun a b => eq a.1 b.1 = false) := by
      simpa using h
    rw [foldl_setBy eq r _ this]
    simp

theorem dictOfBy_id {α ν : Type} (eq : α → α → Bool) (l : List (α × ν))
    (h : l.Pairwise (fun a b => eq a.1 b.1 = false)) : dictOfBy eq l = l := by
  unfold dictOfBy
  rw [foldl_setBy eq l [] (by simpa using h)]
  rfl

theorem filterMap_eq_map_of {α β : Type} (f : α → Option β) (g : α → β) :
    ∀ l : List α, (∀ x, x ∈ l → f x = some (g x)) → l.filterMap f = l.map g
  | [], _ => rfl
  | a :: r, h => by
    have ih := filterMap_eq_map_of f g r (fun x hx => h x (List.mem_cons_of_mem _ hx))
    simp only [List.filterMap_cons, h a List.mem_cons_self, List.map_cons, ih]

end Rattr.C18L

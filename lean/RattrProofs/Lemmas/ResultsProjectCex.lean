/- Concrete PROJECTS (target + followed imports) used by the C14 project theorems. The literals are the
model requests the harness builds from the real analysis of the curated projects of the same name
(py/props/c14multi.py: CURATED), with the temporary directory shortened to "/p". -/
import RattrModel.ResultsProject
import RattrProofs.Lemmas.ResultsCex

namespace Rattr.Cex
open Rattr Rattr.Results Rattr.Resolve Rattr.ResProject

def pfn (name file : String) (ps : List String) (calls : List PCall) (gets : List NameS) : PFn :=
  { isClass := false, name := s name, file := s file, iface := iface ps, calls := calls,
    ir := ⟨gets, [], []⟩ }

/-- "import-chain-mutates-import-ir":
helpers.py `def plain(thing): return thing.x` · `def chain(thing): thing.c; return plain(thing.sub)`
target.py  `from helpers import chain` · `def f(b): return chain(b)`
keys: 0 target.f · 1 helpers.plain · 2 helpers.chain -/
def projChain : Proj := {
  target := { name := s "target", ctx := [.imp (s "chain") (s "helpers.chain"), .func (s "f") true],
              fns := [pfn "f" "target.py" ["b"]
                        [⟨call 0 "chain" ["b"], .imp (s "chain") (s "helpers.chain")⟩] [nm "b" "b"]] },
  imports := [{ name := s "helpers", ctx := [.func (s "plain") true, .func (s "chain") true],
                fns := [pfn "plain" "/p/helpers.py" ["thing"] [] [nm "thing.x" "thing"],
                        pfn "chain" "/p/helpers.py" ["thing"]
                          [⟨call 1 "plain" ["thing.sub"], .func (s "plain") (s "/p/helpers.py")⟩]
                          [nm "thing.c" "thing", nm "thing.sub" "thing"]] }],
  existing := [s "helpers"], ignored := [], excluded := [],
  moduleOfFile := [(s "/p/helpers.py", s "helpers"), (s "target.py", s "target")] }

/-- "ignored-imported-function" (the shape of seeded change C14-m5):
helpers.py `@rattr_ignore def opaque(thing): …` · `def plain(thing): return thing.x`
target.py  `from helpers import opaque, plain` · `def f(b): b.x; opaque(b); return plain(b)`
`opaque` is a `Func` of helpers' root context but NOT a key of its FileIr.
keys: 0 target.f · 1 helpers.rattr_ignore · 2 helpers.plain -/
def projIgnored : Proj := {
  target := { name := s "target",
              ctx := [.imp (s "opaque") (s "helpers.opaque"), .imp (s "plain") (s "helpers.plain"),
                      .func (s "f") true],
              fns := [pfn "f" "target.py" ["b"]
                        [⟨call 0 "opaque" ["b"], .imp (s "opaque") (s "helpers.opaque")⟩,
                         ⟨call 1 "plain" ["b"], .imp (s "plain") (s "helpers.plain")⟩]
                        [nm "b" "b", nm "b.x" "b"]] },
  imports := [{ name := s "helpers",
                ctx := [.func (s "rattr_ignore") true, .func (s "opaque") false, .func (s "plain") true],
                fns := [pfn "rattr_ignore" "/p/helpers.py" ["fn"] [] [nm "fn" "fn"],
                        pfn "plain" "/p/helpers.py" ["thing"] [] [nm "thing.x" "thing"]] }],
  existing := [s "helpers"], ignored := [], excluded := [],
  moduleOfFile := [(s "/p/helpers.py", s "helpers"), (s "target.py", s "target")] }

/-- the three sets of every function of every module after one generation (`none` unless it ends `ok`). -/
def irsAfter (p : Proj) : Option (List (List IrSets)) :=
  match generateProject p with
  | .ok _ p' => some ((modules p').map (fun m => m.fns.map (·.ir)))
  | _ => none

def keysOf (p : Proj) : List (Str × List Str) := (modules p).map (fun m => (m.name, m.fns.map (·.name)))

def keysAfter (p : Proj) : Option (List (Str × List Str)) :=
  match generateProject p with
  | .ok _ p' => some (keysOf p')
  | _ => none

end Rattr.Cex

/-
  C12 — only modules allowed by follow level and exclusions are analysed, each once.

  Model: `Imports.bfs` (RattrModel/Imports.lean) = the level-0 gate + `parse_and_analyse_imports`
         (+ the `fatal` of `make_import_symbol`, + a crash when an admitted origin cannot be read);
         `Resolve.importAllowed` = the ladder at the head of `resolve_import`.
  Spec:  `Spec.permitted`, `Spec.Reach` (RattrModel/Spec/Allowed.lean).

  Module names `ν` and origins `ω` are arbitrary types: every theorem below holds for ALL module
  graphs (any size, cycles, diamonds, several names per file), all flag sets / levels and all
  exclusion verdicts. The classification verdicts themselves (isort, the site-packages regex,
  `re.fullmatch`) are per-module parameters.

  The full statement `C12_full` is NOT a theorem of the pinned code. Two defect classes refute it
  (`C12_cex_two_names_one_origin`, `C12_cex_excluded_stdlib`; both replayed on the implementation and
  listed in known_findings.json); each is excluded by an explicit decidable hypothesis:
    * `OriginInjective g`    — no file is reachable under two module names,
    * `ExclusionHonoured g fl` — every excluded module is blacklisted by `is_in_import_blacklist`
                               (which exempts stdlib names) or is a stdlib module while stdlib modules
                               are not followed anyway.

  Edges (last section): `Edges.*` (RattrModel/ImportEdges.lean) derives `Imp.target` from the import
  STATEMENT (level 0..n, module part, imported name) and the importing FILE (module name,
  `__init__.py` or not) the way rattr does (`derive_absolute_module_name`, `find_module_name_and_spec`);
  `C12_edge_like_python` / `C12_graph_like_python` / `C12_project_partial`: these are Python's edges
  (`importlib.util.resolve_name` on the file's package, longest existing prefix), so the analysed set
  is `Spec.Reach` over Python's import graph of the project; `C12_init_as_module_inside`: the
  `__init__.py` rule at every level.

  Block positions (`Blocks.*`, RattrModel/ImportBlocks.lean): which import statements of a file reach the
  root context at all — `C12_every_block_position_is_an_edge` (if / elif / else, for / while / else, with,
  try / except / else / finally, nested to any depth: registered = written, as multisets),
  `C12_registered_are_written`, `C12_block_order_is_source_order`, `C12_block_edges_like_python`;
  `C12_match_cases_and_except_star_are_edges` (since /repo 6e8e4cc; `C12_cex_import_inside_match_before_6e8e4cc`);
  `C12_cex_import_inside_class_body`: a class body is not descended into and loses its imports (known finding). Configuration discovery (`Cli.findPyproject`): `C12_nearest_root_wins`,
  `C12_cwd_root_wins`, `C12_outer_roots_irrelevant`, `C12_stage_ignores_outer_roots`.
-/
import RattrModel.Imports
import RattrModel.Spec.Allowed
import RattrModel.Generated.C12
import RattrProofs.Lemmas.C12
import RattrProofs.Lemmas.C12Config
import RattrModel.ImportEdges
import RattrModel.ImportBlocks
import RattrProofs.Lemmas.C12Edges

set_option linter.unusedSectionVars false

namespace Rattr.C12
open Rattr Rattr.Imports Rattr.Spec Rattr.Resolve Rattr.FollowConfig

variable {ν ω : Type} [DecidableEq ν] [DecidableEq ω]

/-! ### Tie A: what the model hard-codes is what the source says now -/

/-- Flags of level `lvl` as the code computes them (`Arguments.follow_*_imports`). -/
def genFlags (lvl : Nat) : Flags :=
  match Generated.C12.followLevels[lvl]? with
  | some (_, l, p, s) => { loc := l, pip := p, stdlib := s }
  | none => { loc := true, pip := true, stdlib := true }

/-- The four levels mean what the documentation says, and the gate `if follow_imports:` (IntFlag
truthiness) is "any bit set". -/
theorem tieA_levels :
    Generated.C12.followLevels.length = 4 ∧
    (∀ lvl, lvl < 4 → genFlags lvl = levelFlags lvl) ∧
    (∀ lvl, lvl < 4 → (Generated.C12.followLevels[lvl]?).map (·.1) = some (levelFlags lvl).any) := by
  decide

/-- The BFS ladder, rung by rung, in the order the model applies it; every rung `continue`s; the
blacklist rung precedes `read`/`analyse`; `seen` is keyed by origin, `import_irs` by name; the queue
is FIFO; the imports of an analysed module are enqueued. -/
theorem tieA_bfs_ladder :
    Generated.C12.bfsLadder =
      ["pop:left", "noName->continue", "noSpec->continue", "noOrigin->continue", "seen->continue",
       "blacklist->continue", "is_in_pip:not:follow_pip_imports->continue",
       "is_in_stdlib:not:follow_stdlib_imports->continue", "read", "analyse", "store:name",
       "enqueue:append", "markSeen:origin"] := by decide

theorem tieA_level0_gate :
    Generated.C12.level0Gate =
      ["config.arguments.follow_imports", "import_irs, import_stats = ({}, RattrImportStats(0, 0, 0))"] := by
  decide

theorem tieA_resolve_ladder :
    Generated.C12.resolveLadder =
      ["noName->raise", "blacklist->return:None", "not:follow_local_imports->return:None",
       "is_in_pip:not:follow_pip_imports->return:None",
       "is_in_stdlib:not:follow_stdlib_imports->return:None", "lookup", "notFound->raise"] := by decide

/-- rattr itself is on the perennial blacklist. -/
theorem tieA_blacklist_has_rattr :
    "rattr" ∈ Generated.C12.blacklistPatterns ∧ "rattr\\..*" ∈ Generated.C12.blacklistPatterns := by
  decide

/-! ### Hypotheses: `FlagsOK`, `OriginInjective`, `ExclusionHonoured`, `NoOverBlacklist`,
`RealBlacklist` are defined (decidably) in RattrModel/Spec/Allowed.lean so that the driver can evaluate
them on every generated case. -/

theorem flagsOK_levels (lvl : Nat) : FlagsOK (levelFlags lvl) := by
  unfold FlagsOK levelFlags Flags.any
  split <;> simp

/-! ### Soundness: everything analysed is in `Spec.Reach` -/

theorem passed_permitted {g : Graph ν ω} {fl : Flags} {seen : List ω} {i : Imp ν} {n : ν} {o : ω}
    {m : Module ν ω} (hloc : fl.loc = true) (hex : ExclusionHonoured g fl)
    (h : Passed g fl seen i n o m) : permitted fl m = true := by
  have hmem := (lookup_mem h.look).1
  have hexcl : m.excluded = false := by
    cases he : m.excluded
    · rfl
    · rcases hex m hmem he with hb | ⟨hs, hf⟩
      · rw [h.notBlack] at hb; cases hb
      · have := h.stdlibOk hs; rw [hf] at this; cases this
  unfold permitted
  have hp := h.pipOk
  have hs := h.stdlibOk
  simp only [hloc, h.origin, hexcl, Option.isSome_some, Bool.not_false, Bool.true_and]
  cases h1 : m.inPip <;> cases h2 : m.inStdlib <;> simp_all

/-- Where a queued import symbol comes from: the target, or a module already shown to be reachable. -/
def Src (g : Graph ν ω) (fl : Flags) (target : List (Imp ν)) (i : Imp ν) : Prop :=
  i ∈ target ∨ ∃ p pm, Reach g fl target p ∧ lookup g p = some pm ∧ i ∈ pm.imports

theorem loop_sound {g : Graph ν ω} {fl : Flags} {target : List (Imp ν)}
    (hloc : fl.loc = true) (hex : ExclusionHonoured g fl) :
    ∀ (k : Nat) (st : St ν ω) (q : List (Imp ν)),
      (∀ n ∈ st.analysed, Reach g fl target n) → (∀ i ∈ q, Src g fl target i) →
      ∀ n ∈ (loop g fl k st q).state.analysed, Reach g fl target n := by
  intro k
  induction k with
  | zero =>
    intro st q ha _
    cases q <;> simpa [loop, Out.state] using ha
  | succ k ih =>
    intro st q ha hq
    cases q with
    | nil => simpa [loop, Out.state] using ha
    | cons i q =>
      unfold loop
      cases hc : classify g fl st.seen i with
      | skip r =>
        simp only
        apply ih
        · exact ha
        · intro j hj; exact hq j (List.mem_cons_of_mem _ hj)
      | crashRead => simpa [Out.state] using ha
      | fatalCompile => simpa [Out.state] using ha
      | analyse n o m =>
        simp only
        have hp := classify_analyse hc
        have hperm := passed_permitted hloc hex hp
        have hreach : Reach g fl target n := by
          rcases hq i (List.mem_cons_self) with hi | ⟨p, pm, hrp, hlp, hip⟩
          · exact Reach.root hi hp.target hp.look hperm
          · exact Reach.step hrp hlp hip hp.target hp.look hperm
        apply ih
        · intro x hx
          rcases List.mem_append.mp hx with hx | hx
          · exact ha x hx
          · simp at hx; subst hx; exact hreach
        · intro j hj
          rcases List.mem_append.mp hj with hj | hj
          · exact hq j (List.mem_cons_of_mem _ hj)
          · exact Or.inr ⟨n, m, hreach, hp.look, hj⟩

/-- **C12, soundness.** Whatever the outcome (done, fatal, crash, even out of fuel), every module the
loop analysed is permitted and reachable from the target through permitted modules. -/
theorem C12_bfs_sound (g : Graph ν ω) (fl : Flags) (fuel : Nat) (target : List (Imp ν))
    (hfl : FlagsOK fl) (hex : ExclusionHonoured g fl) :
    ∀ n ∈ (bfs g fl fuel target).state.analysed, Reach g fl target n := by
  unfold bfs
  split
  · simp [Out.state, St.empty]
  · split
    · rename_i hany
      exact loop_sound (hfl hany) hex fuel St.empty target (by simp [St.empty])
        (fun i hi => Or.inl hi)
    · simp [Out.state, St.empty]

/-! ### Every analysed module passed every rung (no hypothesis at all) -/

/-- The facts the ladder establishes about an analysed module. -/
def Admitted (g : Graph ν ω) (fl : Flags) (n : ν) : Prop :=
  ∃ m o, lookup g n = some m ∧ m.origin = some o ∧ m.blacklisted = false ∧
    (m.inPip = true → fl.pip = true) ∧ (m.inStdlib = true → fl.stdlib = true) ∧ m.readable = true

theorem loop_admitted {g : Graph ν ω} {fl : Flags} :
    ∀ (k : Nat) (st : St ν ω) (q : List (Imp ν)),
      (∀ n ∈ st.analysed, Admitted g fl n) →
      ∀ n ∈ (loop g fl k st q).state.analysed, Admitted g fl n := by
  intro k
  induction k with
  | zero => intro st q ha; cases q <;> simpa [loop, Out.state] using ha
  | succ k ih =>
    intro st q ha
    cases q with
    | nil => simpa [loop, Out.state] using ha
    | cons i q =>
      unfold loop
      cases hc : classify g fl st.seen i with
      | skip r => simp only; exact ih _ _ ha
      | crashRead => simpa [Out.state] using ha
      | fatalCompile => simpa [Out.state] using ha
      | analyse n o m =>
        simp only
        have hp := classify_analyse hc
        apply ih
        intro x hx
        rcases List.mem_append.mp hx with hx | hx
        · exact ha x hx
        · simp at hx; subst hx
          exact ⟨m, o, hp.look, hp.origin, hp.notBlack, hp.pipOk, hp.stdlibOk, hp.readable⟩

theorem bfs_admitted (g : Graph ν ω) (fl : Flags) (fuel : Nat) (target : List (Imp ν)) :
    ∀ n ∈ (bfs g fl fuel target).state.analysed, Admitted g fl n := by
  unfold bfs
  split
  · simp [Out.state, St.empty]
  · split
    · exact loop_admitted fuel St.empty target (by simp [St.empty])
    · simp [Out.state, St.empty]

/-- **C12, blacklist / rattr itself.** For every graph, flag set and fuel: no module that
`is_in_import_blacklist` blacklists is ever analysed — the rung sits before `read` (Tie A:
`tieA_bfs_ladder`), and the perennial patterns contain rattr (Tie A: `tieA_blacklist_has_rattr`). -/
theorem C12_rattr_never (g : Graph ν ω) (fl : Flags) (fuel : Nat) (target : List (Imp ν))
    (n : ν) (m : Module ν ω) (hl : lookup g n = some m) (hb : m.blacklisted = true) :
    n ∉ (bfs g fl fuel target).state.analysed := by
  intro hn
  obtain ⟨m', o, hl', _, hb', _⟩ := bfs_admitted g fl fuel target n hn
  rw [hl] at hl'; cases hl'
  rw [hb] at hb'; cases hb'

/-- **C12, class × level.** A site-packages module is analysed only when the pip bit is set, a stdlib
module only when the stdlib bit is set. -/
theorem C12_class_respects_flags (g : Graph ν ω) (fl : Flags) (fuel : Nat) (target : List (Imp ν))
    (n : ν) (m : Module ν ω) (hl : lookup g n = some m)
    (hn : n ∈ (bfs g fl fuel target).state.analysed) :
    (m.inPip = true → fl.pip = true) ∧ (m.inStdlib = true → fl.stdlib = true) ∧ m.origin ≠ none := by
  obtain ⟨m', o, hl', ho, _, hp, hs, _⟩ := bfs_admitted g fl fuel target n hn
  rw [hl] at hl'; cases hl'
  exact ⟨hp, hs, by rw [ho]; simp⟩

/-- **C12, level 0.** Nothing is analysed, whatever the graph. -/
theorem C12_level0_empty (g : Graph ν ω) (fuel : Nat) (target : List (Imp ν)) :
    (bfs g (levelFlags 0) fuel target).state.analysed = [] ∧
    ∀ n, ¬ Reach g (levelFlags 0) target n := by
  refine ⟨?_, ?_⟩
  · unfold bfs
    split
    · rfl
    · simp [levelFlags, Flags.any, Out.state, St.empty]
  · intro n h
    cases h with
    | root _ _ _ hp => simp [permitted, levelFlags] at hp
    | step _ _ _ _ _ hp => simp [permitted, levelFlags] at hp

/-! ### Termination: the queue drains within `fuelBound` pops -/

theorem loop_fuel {g : Graph ν ω} {fl : Flags} :
    ∀ (k : Nat) (st : St ν ω) (q : List (Imp ν)),
      q.length + weight g st.seen ≤ k → ∀ s, loop g fl k st q ≠ .outOfFuel s := by
  intro k
  induction k with
  | zero =>
    intro st q h s
    cases q with
    | nil => simp [loop]
    | cons i q => simp at h
  | succ k ih =>
    intro st q h s
    cases q with
    | nil => simp [loop]
    | cons i q =>
      unfold loop
      cases hc : classify g fl st.seen i with
      | skip r =>
        simp only
        apply ih
        simp only [List.length_cons] at h
        simp only; omega
      | crashRead => simp
      | fatalCompile => simp
      | analyse n o m =>
        simp only
        have hp := classify_analyse hc
        have hw := weight_mark (lookup_mem hp.look).1 hp.origin hp.unseen
        apply ih
        simp only [List.length_cons] at h
        simp only [List.length_append]
        omega

/-- **C12 / "no hang".** With `fuelBound g target` units of fuel (one per import symbol of the target
and of the graph, plus one) the work-list loop never runs out: it ends `done`, or with rattr's own
`fatal`, or with the read crash. In particular each origin is enqueued-and-analysed finitely often
on cyclic graphs. -/
theorem C12_terminates (g : Graph ν ω) (fl : Flags) (target : List (Imp ν)) (fuel : Nat)
    (hf : fuelBound g target ≤ fuel) :
    ∀ s, bfs g fl fuel target ≠ .outOfFuel s := by
  intro s
  unfold bfs
  split
  · simp
  · split
    · apply loop_fuel
      have := weight_nil_le g (St.empty (ν := ν) (ω := ω)).seen
      unfold fuelBound at hf
      omega
    · simp

/-! ### Each once -/

/-- Origin of the file a name denotes. -/
def originOf (g : Graph ν ω) (n : ν) : Option ω := (lookup g n).bind (·.origin)

theorem loop_once {g : Graph ν ω} {fl : Flags} :
    ∀ (k : Nat) (st : St ν ω) (q : List (Imp ν)),
      st.seen.Nodup → st.analysed.map (originOf g) = st.seen.map some →
      (loop g fl k st q).state.seen.Nodup ∧
      (loop g fl k st q).state.analysed.map (originOf g) = (loop g fl k st q).state.seen.map some := by
  intro k
  induction k with
  | zero => intro st q h1 h2; cases q <;> simpa [loop, Out.state] using ⟨h1, h2⟩
  | succ k ih =>
    intro st q h1 h2
    cases q with
    | nil => simpa [loop, Out.state] using ⟨h1, h2⟩
    | cons i q =>
      unfold loop
      cases hc : classify g fl st.seen i with
      | skip r => simp only; exact ih _ _ h1 h2
      | crashRead => simpa [Out.state] using ⟨h1, h2⟩
      | fatalCompile => simpa [Out.state] using ⟨h1, h2⟩
      | analyse n o m =>
        simp only
        have hp := classify_analyse hc
        apply ih
        · simp only
          rw [List.nodup_append]
          refine ⟨h1, by simp, ?_⟩
          intro a ha b hb
          simp at hb; subst hb
          intro hab; subst hab; exact hp.unseen ha
        · simp only [List.map_append, h2, List.map_cons, List.map_nil]
          congr 1
          simp [originOf, hp.look, hp.origin]

theorem irsKeys_of_nodup (l : List ν) (h : l.Nodup) : irsKeys l = l := by
  unfold irsKeys
  have key : ∀ (l d : List ν), (d ++ l).Nodup →
      l.foldl (fun d n => if n ∈ d then d else d ++ [n]) d = d ++ l := by
    intro l
    induction l with
    | nil => intro d _; simp
    | cons a r ih =>
      intro d hd
      have hnot : a ∉ d := by
        rw [List.nodup_append] at hd
        intro ha
        exact hd.2.2 a ha a (List.mem_cons_self) rfl
      simp only [List.foldl_cons, hnot, if_false]
      rw [ih (d ++ [a]) (by simpa using hd)]
      simp
  simpa using key l [] (by simpa using h)

/-- **C12, "each once".** For every graph (including several names per file), flags and fuel: no
origin is analysed twice, hence no name is analysed twice, hence the assignments
`import_irs[name] = …` never overwrite: the keys of `import_irs` are exactly the analysed names, in
analysis order, duplicate-free. -/
theorem C12_once (g : Graph ν ω) (fl : Flags) (fuel : Nat) (target : List (Imp ν)) :
    let st := (bfs g fl fuel target).state
    (st.analysed.map (originOf g)).Nodup ∧ st.analysed.Nodup ∧ irsKeys st.analysed = st.analysed ∧
    st.analysed.map (originOf g) = st.seen.map some := by
  have base : (bfs g fl fuel target).state.seen.Nodup ∧
      (bfs g fl fuel target).state.analysed.map (originOf g)
        = (bfs g fl fuel target).state.seen.map some := by
    unfold bfs
    split
    · simp [Out.state, St.empty]
    · split
      · exact loop_once fuel St.empty target (by simp [St.empty]) (by simp [St.empty])
      · simp [Out.state, St.empty]
  obtain ⟨hs, hm⟩ := base
  have h1 : ((bfs g fl fuel target).state.analysed.map (originOf g)).Nodup := by
    rw [hm]
    unfold List.Nodup at hs ⊢
    rw [List.pairwise_map]
    exact hs.imp (fun hne heq => hne (by injection heq))
  have h2 : (bfs g fl fuel target).state.analysed.Nodup := by
    unfold List.Nodup at h1 ⊢
    rw [List.pairwise_map] at h1
    exact h1.imp (fun hne heq => hne (by rw [heq]))
  exact ⟨h1, h2, irsKeys_of_nodup _ h2, hm⟩

/-! ### Completeness: everything in `Spec.Reach` is analysed -/

/-- An import symbol needs no further work: if it names a permitted module, that module is analysed. -/
def Handled (g : Graph ν ω) (fl : Flags) (analysed : List ν) (i : Imp ν) : Prop :=
  ∀ n m, i.target = some n → lookup g n = some m → permitted fl m = true → n ∈ analysed

structure Inv (g : Graph ν ω) (fl : Flags) (target : List (Imp ν)) (st : St ν ω)
    (q : List (Imp ν)) : Prop where
  roots : ∀ i ∈ target, i ∈ q ∨ Handled g fl st.analysed i
  edges : ∀ p ∈ st.analysed, ∀ pm, lookup g p = some pm →
            ∀ i ∈ pm.imports, i ∈ q ∨ Handled g fl st.analysed i
  seenOf : ∀ o ∈ st.seen, ∃ n ∈ st.analysed, ∃ m, lookup g n = some m ∧ m.origin = some o

theorem permitted_facts {fl : Flags} {m : Module ν ω} (h : permitted fl m = true) :
    fl.loc = true ∧ (∃ o, m.origin = some o) ∧ m.excluded = false ∧
    (m.inPip = true → fl.pip = true) ∧ (m.inStdlib = true → fl.stdlib = true) := by
  unfold permitted at h
  simp only [Bool.and_eq_true, Bool.or_eq_true, Bool.not_eq_true'] at h
  obtain ⟨⟨⟨⟨h1, h2⟩, h3⟩, h4⟩, h5⟩ := h
  refine ⟨h1, ?_, h3, ?_, ?_⟩
  · cases ho : m.origin with
    | none => rw [ho] at h2; cases h2
    | some o => exact ⟨o, rfl⟩
  · intro hp; rcases h4 with h4 | h4
    · rw [hp] at h4; cases h4
    · exact h4
  · intro hp; rcases h5 with h5 | h5
    · rw [hp] at h5; cases h5
    · exact h5

theorem loop_complete {g : Graph ν ω} {fl : Flags} {target : List (Imp ν)}
    (hinj : OriginInjective g) (hnb : NoOverBlacklist g) :
    ∀ (k : Nat) (st : St ν ω) (q : List (Imp ν)) (st' : St ν ω),
      Inv g fl target st q → loop g fl k st q = .done st' → Inv g fl target st' [] := by
  intro k
  induction k with
  | zero =>
    intro st q st' hinv hdone
    cases q with
    | nil => simp [loop] at hdone; subst hdone; exact hinv
    | cons i q => simp [loop] at hdone
  | succ k ih =>
    intro st q st' hinv hdone
    cases q with
    | nil => simp [loop] at hdone; subst hdone; exact hinv
    | cons i q =>
      unfold loop at hdone
      -- the popped symbol is handled once its rung is known
      cases hc : classify g fl st.seen i with
      | crashRead => rw [hc] at hdone; cases hdone
      | fatalCompile => rw [hc] at hdone; cases hdone
      | skip r =>
        rw [hc] at hdone
        simp only at hdone
        have hi : Handled g fl st.analysed i := by
          intro n m ht hl hperm
          obtain ⟨_, ⟨o, ho⟩, hexc, hp, hs⟩ := permitted_facts hperm
          have hmem := (lookup_mem hl).1
          have hb : m.blacklisted = false := by
            cases hb : m.blacklisted
            · rfl
            · have := hnb m hmem hb; rw [hexc] at this; cases this
          rcases classify_of_allowed (g := g) (fl := fl) (seen := st.seen) ht hl ho hb hp hs with
            ⟨hseen, _⟩ | ⟨_, h2⟩
          · obtain ⟨n', hn', m', hl', ho'⟩ := hinv.seenOf o hseen
            have hm' := lookup_mem hl'
            have hm := lookup_mem hl
            have : m'.name = m.name :=
              hinj m' hm'.1 m hm.1 (by rw [ho, ho']) (by rw [ho']; simp)
            rw [hm'.2, hm.2] at this
            subst this
            exact hn'
          · rw [hc] at h2
            rcases h2 with h2 | h2 | h2 <;> cases h2
        apply ih _ _ _ _ hdone
        refine ⟨?_, ?_, ?_⟩
        · intro j hj
          rcases hinv.roots j hj with h | h
          · rcases List.mem_cons.mp h with h | h
            · subst h; exact Or.inr hi
            · exact Or.inl h
          · exact Or.inr h
        · intro p hp pm hl j hj
          rcases hinv.edges p hp pm hl j hj with h | h
          · rcases List.mem_cons.mp h with h | h
            · subst h; exact Or.inr hi
            · exact Or.inl h
          · exact Or.inr h
        · exact hinv.seenOf
      | analyse n o m =>
        rw [hc] at hdone
        simp only at hdone
        have hp := classify_analyse hc
        have mono : ∀ j, Handled g fl st.analysed j → Handled g fl (st.analysed ++ [n]) j := by
          intro j hj n' m' a b c
          exact List.mem_append_left _ (hj n' m' a b c)
        have hi : Handled g fl (st.analysed ++ [n]) i := by
          intro n' m' ht _ _
          rw [hp.target] at ht; cases ht
          simp
        apply ih _ _ _ _ hdone
        refine ⟨?_, ?_, ?_⟩
        · intro j hj
          rcases hinv.roots j hj with h | h
          · rcases List.mem_cons.mp h with h | h
            · subst h; exact Or.inr hi
            · exact Or.inl (List.mem_append_left _ h)
          · exact Or.inr (mono j h)
        · intro p hpm pm hl j hj
          rcases List.mem_append.mp hpm with hpm | hpm
          · rcases hinv.edges p hpm pm hl j hj with h | h
            · rcases List.mem_cons.mp h with h | h
              · subst h; exact Or.inr hi
              · exact Or.inl (List.mem_append_left _ h)
            · exact Or.inr (mono j h)
          · simp at hpm; subst hpm
            rw [hp.look] at hl; cases hl
            exact Or.inl (List.mem_append_right _ hj)
        · intro o' ho'
          rcases List.mem_append.mp ho' with h | h
          · obtain ⟨n', hn', rest⟩ := hinv.seenOf o' h
            exact ⟨n', List.mem_append_left _ hn', rest⟩
          · simp at h; subst h
            exact ⟨n, by simp, m, hp.look, hp.origin⟩

/-- **C12, completeness.** If no file is reachable under two names and `is_in_import_blacklist`
blacklists only excluded names, then whenever the stage finishes (`done` — which
`C12_terminates` guarantees up to rattr's own fatal/crash exits) every module of `Spec.Reach` has
been analysed. -/
theorem C12_bfs_complete (g : Graph ν ω) (fl : Flags) (fuel : Nat) (target : List (Imp ν))
    (st : St ν ω) (hinj : OriginInjective g) (hnb : NoOverBlacklist g)
    (hdone : bfs g fl fuel target = .done st) :
    ∀ n, Reach g fl target n → n ∈ st.analysed := by
  intro n hr
  have hloc : fl.loc = true := by
    cases hr with
    | root _ _ _ hp => exact (permitted_facts hp).1
    | step _ _ _ _ _ hp => exact (permitted_facts hp).1
  unfold bfs at hdone
  split at hdone
  · cases hdone
  · have hany : fl.any = true := by simp [Flags.any, hloc]
    simp only [hany, if_true] at hdone
    have hinv : Inv g fl target st [] :=
      loop_complete hinj hnb fuel St.empty target st
        ⟨fun i hi => Or.inl hi, by simp [St.empty], by simp [St.empty]⟩ hdone
    induction hr with
    | root hi ht hl hp =>
      rcases hinv.roots _ hi with h | h
      · cases h
      · exact h _ _ ht hl hp
    | step _ hlp hi ht hl hp ih =>
      rcases hinv.edges _ ih _ hlp _ hi with h | h
      · cases h
      · exact h _ _ ht hl hp

/-! ### Levels are monotone -/

theorem permitted_mono {a b : Flags} (h : Flags.le a b) (m : Module ν ω)
    (hp : permitted a m = true) : permitted b m = true := by
  obtain ⟨h1, ⟨o, h2⟩, h3, h4, h5⟩ := permitted_facts hp
  unfold permitted
  have b1 := h.1 h1
  simp only [b1, h2, h3, Option.isSome_some, Bool.not_false, Bool.true_and]
  cases hp' : m.inPip <;> cases hs' : m.inStdlib <;> simp_all [Flags.le]

theorem Reach_mono {g : Graph ν ω} {a b : Flags} {target : List (Imp ν)} (h : Flags.le a b) :
    ∀ n, Reach g a target n → Reach g b target n := by
  intro n hr
  induction hr with
  | root hi ht hl hp => exact Reach.root hi ht hl (permitted_mono h _ hp)
  | step _ hlp hi ht hl hp ih => exact Reach.step ih hlp hi ht hl (permitted_mono h _ hp)

theorem levelFlags_mono {l l' : Nat} (h : l ≤ l') : Flags.le (levelFlags l) (levelFlags l') := by
  unfold Flags.le levelFlags
  match l, l' with
  | 0, _ => simp
  | 1, 0 => omega
  | 1, 1 => simp
  | 1, 2 => simp
  | 1, _ + 3 => simp
  | 2, 0 => omega
  | 2, 1 => omega
  | 2, 2 => simp
  | 2, _ + 3 => simp
  | _ + 3, 0 => omega
  | _ + 3, 1 => omega
  | _ + 3, 2 => omega
  | _ + 3, _ + 3 => simp

/-- **C12, levels are monotone.** What must be analysed at level `l` must be analysed at every higher
level; and for finished runs of the model the analysed sets are nested accordingly. -/
theorem C12_levels_monotone (g : Graph ν ω) (target : List (Imp ν)) (l l' : Nat) (hl : l ≤ l') :
    (∀ n, Reach g (levelFlags l) target n → Reach g (levelFlags l') target n) ∧
    (∀ fuel fuel' st', OriginInjective g → NoOverBlacklist g →
       ExclusionHonoured g (levelFlags l) →
       bfs g (levelFlags l') fuel' target = .done st' →
       ∀ n ∈ (bfs g (levelFlags l) fuel target).state.analysed, n ∈ st'.analysed) := by
  refine ⟨Reach_mono (levelFlags_mono hl), ?_⟩
  intro fuel fuel' st' hinj hnb hex hdone n hn
  have h1 := C12_bfs_sound g (levelFlags l) fuel target (flagsOK_levels l) hex n hn
  exact C12_bfs_complete g (levelFlags l') fuel' target st' hinj hnb hdone n
    (Reach_mono (levelFlags_mono hl) n h1)

/-! ### The resolver's second ladder -/

theorem importAllowed_found {g : Graph ν ω} {fl : Flags} {irs : List ν} {i : Imp ν} {n : ν}
    (h : importAllowed g fl irs i = .found n) : n ∈ irs := by
  unfold importAllowed at h
  cases ht : i.target with
  | none => rw [ht] at h; cases h
  | some n' =>
    rw [ht] at h
    simp only at h
    cases hl : lookup g n' with
    | none =>
      rw [hl] at h
      simp only at h
      split at h
      · rename_i hin; injection h with h; subst h; exact hin
      · cases h
    | some m =>
      rw [hl] at h
      simp only at h
      split at h
      · cases h
      · split at h
        · cases h
        · split at h
          · cases h
          · split at h
            · cases h
            · split at h
              · rename_i hin; injection h with h; subst h; exact hin
              · cases h

/-- **C12, resolver.** `resolve_import` consults the IR of a module only if that module is a key of
`import_irs`; with the keys the BFS produced, only if it is in `Spec.Reach`. -/
theorem C12_resolver_within (g : Graph ν ω) (fl : Flags) (fuel : Nat) (target : List (Imp ν))
    (hfl : FlagsOK fl) (hex : ExclusionHonoured g fl) (i : Imp ν) (n : ν)
    (h : importAllowed g fl (irsKeys (bfs g fl fuel target).state.analysed) i = .found n) :
    n ∈ (bfs g fl fuel target).state.analysed ∧ Reach g fl target n := by
  have hk := (C12_once g fl fuel target).2.2.1
  rw [hk] at h
  have hmem : n ∈ (bfs g fl fuel target).state.analysed := importAllowed_found h
  exact ⟨hmem, C12_bfs_sound g fl fuel target hfl hex n hmem⟩

/-- **C12, resolver never misses.** Under the hypotheses of completeness and soundness, for an import
symbol of the target or of an analysed module that names a module with a file, the resolver's ladder
never ends in `ImportError("… not found")`: it either ignores the import for the same reason the BFS
skipped it, or finds the IR. -/
theorem C12_resolver_total (g : Graph ν ω) (fl : Flags) (fuel : Nat) (target : List (Imp ν))
    (st : St ν ω) (hinj : OriginInjective g) (hnb : NoOverBlacklist g)
    (hex : ExclusionHonoured g fl)
    (hdone : bfs g fl fuel target = .done st) (i : Imp ν)
    (hsrc : i ∈ target ∨ ∃ p ∈ st.analysed, ∃ pm, lookup g p = some pm ∧ i ∈ pm.imports)
    (hres : hasOrigin g i = true) :
    importAllowed g fl (irsKeys st.analysed) i ≠ .crashNotFound := by
  have hst : (bfs g fl fuel target).state = st := by rw [hdone]; rfl
  have hk := (C12_once g fl fuel target).2.2.1
  rw [hst] at hk
  rw [hk]
  unfold hasOrigin at hres
  unfold importAllowed
  cases ht : i.target with
  | none => simp
  | some n =>
    rw [ht] at hres
    simp only at hres ⊢
    cases hl : lookup g n with
    | none => rw [hl] at hres; cases hres
    | some m =>
      rw [hl] at hres
      simp only at hres ⊢
      cases hb : m.blacklisted
      · simp only [Bool.false_eq_true, if_false]
        cases hloc : fl.loc
        · simp
        · simp only [Bool.not_true, Bool.false_eq_true, if_false]
          split
          · simp
          · rename_i hpip
            split
            · simp
            · rename_i hstd
              -- permitted, hence reachable, hence analysed
              have hmem := (lookup_mem hl).1
              have hstdOk : m.inStdlib = true → fl.stdlib = true := by
                intro h; cases hf : fl.stdlib <;> simp_all
              have hpipOk : m.inPip = true → fl.pip = true := by
                intro h; cases hf : fl.pip <;> simp_all
              have hexc : m.excluded = false := by
                cases he : m.excluded
                · rfl
                · rcases hex m hmem he with h | ⟨h1, h2⟩
                  · rw [hb] at h; cases h
                  · have := hstdOk h1; rw [h2] at this; cases this
              have hperm : permitted fl m = true := by
                unfold permitted
                simp only [hloc, hexc, Bool.not_false, Bool.true_and, hres]
                cases h1 : m.inPip <;> cases h2 : m.inStdlib <;> simp_all
              have hreach : Reach g fl target n := by
                rcases hsrc with h | ⟨p, hp, pm, hlp, hip⟩
                · exact Reach.root h ht hl hperm
                · have hfl : FlagsOK fl := fun _ => hloc
                  have hpr := C12_bfs_sound g fl fuel target hfl hex p (by rw [hst]; exact hp)
                  exact Reach.step hpr hlp hip ht hl hperm
              have := C12_bfs_complete g fl fuel target st hinj hnb hdone n hreach
              simp [this]
      · simp

/-! ### The executable closure used by the driver is inside `Reach` -/

theorem mem_permittedTargets {g : Graph ν ω} {fl : Flags} {imps : List (Imp ν)} {n : ν}
    (h : n ∈ permittedTargets g fl imps) :
    ∃ i ∈ imps, ∃ m, i.target = some n ∧ lookup g n = some m ∧ permitted fl m = true := by
  unfold permittedTargets at h
  rw [List.mem_filterMap] at h
  obtain ⟨i, hi, hf⟩ := h
  refine ⟨i, hi, ?_⟩
  cases ht : i.target with
  | none => rw [ht] at hf; cases hf
  | some n' =>
    rw [ht] at hf
    simp only at hf
    cases hl : lookup g n' with
    | none => rw [hl] at hf; cases hf
    | some m =>
      rw [hl] at hf
      simp only at hf
      split at hf
      · rename_i hp
        injection hf with hf; subst hf
        exact ⟨m, rfl, hl, hp⟩
      · cases hf

/-- Every name the executable closure `Spec.reach` returns (what the driver reports as the spec's
answer, any number of rounds) is in the inductive `Spec.Reach`. The converse direction is validated
by the differential cross-check against the Python closure on every run. -/
theorem reach_sound (g : Graph ν ω) (fl : Flags) (target : List (Imp ν)) (k : Nat) :
    ∀ n ∈ reachIter g fl target k, Reach g fl target n := by
  induction k with
  | zero => intro n hn; cases hn
  | succ k ih =>
    intro n hn
    unfold reachIter reachStep at hn
    rw [List.mem_eraseDups, List.mem_append] at hn
    rcases hn with hn | hn
    · obtain ⟨i, hi, m, ht, hl, hp⟩ := mem_permittedTargets hn
      exact Reach.root hi ht hl hp
    · obtain ⟨i, hi, m, ht, hl, hp⟩ := mem_permittedTargets hn
      unfold importsOf at hi
      rw [List.mem_flatMap] at hi
      obtain ⟨p, hp', hip⟩ := hi
      cases hlp : lookup g p with
      | none => rw [hlp] at hip; cases hip
      | some pm =>
        rw [hlp] at hip
        exact Reach.step (ih p hp') hlp hip ht hl hp

/-! ### The full statement, its refutation, and the strongest true version -/

/-- C12 at one (graph, level, target): when the stage finishes, the analysed names are exactly
`Spec.Reach`, no file is analysed twice, and the resolver finds the IR of every import symbol it lets
through. -/
def C12_at (g : Graph ν ω) (lvl : Nat) (target : List (Imp ν)) : Prop :=
  ∀ st, bfs g (levelFlags lvl) (fuelBound g target) target = .done st →
    (∀ n, n ∈ st.analysed ↔ Reach g (levelFlags lvl) target n) ∧
    (st.analysed.map (originOf g)).Nodup ∧
    (∀ i ∈ target, hasOrigin g i = true →
      importAllowed g (levelFlags lvl) (irsKeys st.analysed) i ≠ .crashNotFound)

/-- Full statement: for every graph whose blacklist verdicts have the shape the pinned
`is_in_import_blacklist` gives them. FALSE on the pinned tree (`C12_full_false`). -/
def C12_full : Prop :=
  ∀ (g : Graph Nat Nat) (lvl : Nat) (target : List (Imp Nat)), RealBlacklist g → C12_at g lvl target

/-- **C12, strongest true version.** Exactly `C12_at`, for all graphs, under the two exclusion
predicates (one per known finding) and `NoOverBlacklist`. -/
theorem C12_partial (g : Graph ν ω) (lvl : Nat) (target : List (Imp ν))
    (hinj : OriginInjective g) (hnb : NoOverBlacklist g)
    (hex : ExclusionHonoured g (levelFlags lvl)) : C12_at g lvl target := by
  intro st hdone
  have hst : (bfs g (levelFlags lvl) (fuelBound g target) target).state = st := by rw [hdone]; rfl
  refine ⟨fun n => ⟨?_, ?_⟩, ?_, ?_⟩
  · intro hn
    exact C12_bfs_sound g _ _ target (flagsOK_levels lvl) hex n (by rw [hst]; exact hn)
  · exact C12_bfs_complete g _ _ target st hinj hnb hdone n
  · have := (C12_once g (levelFlags lvl) (fuelBound g target) target).1
    rw [hst] at this; exact this
  · intro i hi hres
    exact C12_resolver_total g _ _ target st hinj hnb hex hdone i (Or.inl hi) hres

/-- `RealBlacklist` gives `NoOverBlacklist`, and `ExclusionHonoured` below level 3 or when no stdlib
module is excluded — so `C12_partial` covers every case outside the two finding classes. -/
theorem realBlacklist_hyps (g : Graph ν ω) (fl : Flags) (h : RealBlacklist g)
    (hs : fl.stdlib = false ∨ ∀ m ∈ g, m.inStdlib = true → m.excluded = false) :
    NoOverBlacklist g ∧ ExclusionHonoured g fl := by
  refine ⟨?_, ?_⟩
  · intro m hm hb
    rw [h m hm] at hb
    simp at hb; exact hb.1
  · intro m hm he
    rw [h m hm, he]
    cases hstd : m.inStdlib
    · left; simp
    · right
      rcases hs with hs | hs
      · exact ⟨rfl, hs⟩
      · have := hs m hm hstd; rw [he] at this; cases this

section Witnesses

private def mk (name : Nat) (origin : Nat) (imports : List Nat) : Module Nat Nat :=
  { name := name, origin := some origin, readable := true, blacklisted := false, inPip := false,
    inStdlib := false, excluded := false, imports := imports.map (fun n => ⟨some n, false⟩) }

/-- One file (origin 10) reachable as module 1 (`pkg.sib`) and as module 2 (`sib`). -/
private def gTwo : Graph Nat Nat := [mk 1 10 [], mk 2 10 []]
private def tTwo : List (Imp Nat) := [⟨some 1, false⟩, ⟨some 2, false⟩]

/-- **Counterexample (known finding).** One file under two names: the second name is skipped as
"seen", so it never becomes a key of `import_irs`, although it is permitted and imported by the
target; resolving a call through it then raises `ImportError('… not found')`. -/
theorem C12_cex_two_names_one_origin :
    bfs gTwo (levelFlags 1) (fuelBound gTwo tTwo) tTwo
      = .done { analysed := [1], seen := [10], skipped := [(some 2, Reason.seen)], pops := 2 }
    ∧ Reach gTwo (levelFlags 1) tTwo 2
    ∧ importAllowed gTwo (levelFlags 1) [1] ⟨some 2, false⟩ = .crashNotFound
    ∧ RealBlacklist gTwo ∧ ¬ OriginInjective gTwo := by
  refine ⟨by decide, ?_, by decide, by decide, by decide⟩
  exact Reach.root (i := ⟨some 2, false⟩) (m := mk 2 10 []) (by decide) rfl (by decide) (by decide)

/-- A stdlib module (3) whose name matches an `--exclude-import` pattern: `is_in_import_blacklist`
exempts stdlib names, so at level 3 it is analysed. -/
private def gStd : Graph Nat Nat :=
  [{ mk 3 30 [] with inStdlib := true, excluded := true, blacklisted := false }]
private def tStd : List (Imp Nat) := [⟨some 3, false⟩]

/-- **Counterexample (known finding).** `-f 3 -F <pattern matching a stdlib module>`: the module is
analysed although it matches an exclusion pattern. -/
theorem C12_cex_excluded_stdlib :
    bfs gStd (levelFlags 3) (fuelBound gStd tStd) tStd
      = .done { analysed := [3], seen := [30], skipped := [], pops := 1 }
    ∧ (∀ m, lookup gStd 3 = some m → permitted (levelFlags 3) m = false)
    ∧ RealBlacklist gStd ∧ ¬ ExclusionHonoured gStd (levelFlags 3) := by
  refine ⟨by decide, ?_, by decide, by decide⟩
  intro m hm
  have : lookup gStd 3 = some (gStd.head (by decide)) := by decide
  rw [this] at hm; cases hm; decide

theorem C12_full_false : ¬ C12_full := by
  intro h
  have h1 := h gTwo 1 tTwo C12_cex_two_names_one_origin.2.2.2.1 _ C12_cex_two_names_one_origin.1
  have h2 := (h1.1 2).mpr C12_cex_two_names_one_origin.2.1
  revert h2; decide

/-! ### Non-vacuity: a 4-module graph with a cycle (a → c → a) and a diamond (a → c ← b), a pip module
and an excluded module; the hypotheses of every theorem hold and the outcome is non-trivial. -/

private def gEx : Graph Nat Nat :=
  [ mk 1 11 [3, 5],          -- a: imports c and the pip module
    mk 2 12 [3, 6],          -- b: imports c and an excluded module
    mk 3 13 [1, 4],          -- c: imports a (cycle) and d
    mk 4 14 [],              -- d
    { mk 5 15 [4] with inPip := true },
    { mk 6 16 [] with excluded := true, blacklisted := true } ]
private def tEx : List (Imp Nat) := [⟨some 1, false⟩, ⟨some 2, false⟩, ⟨none, true⟩]

example : OriginInjective gEx ∧ NoOverBlacklist gEx ∧ RealBlacklist gEx ∧
    ExclusionHonoured gEx (levelFlags 1) ∧ ExclusionHonoured gEx (levelFlags 3) := by decide

example : (bfs gEx (levelFlags 1) (fuelBound gEx tEx) tEx).state.analysed = [1, 2, 3, 4] := by decide
example : (bfs gEx (levelFlags 2) (fuelBound gEx tEx) tEx).state.analysed = [1, 2, 3, 5, 4] := by decide
example : (bfs gEx (levelFlags 0) (fuelBound gEx tEx) tEx).state.analysed = [] := by decide
example : (bfs gEx (levelFlags 1) (fuelBound gEx tEx) tEx).isDone = true := by decide
example : (bfs gEx (levelFlags 1) (fuelBound gEx tEx) tEx).state.skipped =
    [(none, Reason.unresolved), (some 5, Reason.pip), (some 3, Reason.seen),
     (some 6, Reason.blacklist), (some 1, Reason.seen)] := by decide
example : Spec.reach gEx (levelFlags 2) tEx = [1, 2, 3, 5, 4] := by decide
/-- fatal: a non-blacklisted import of a module that cannot be located. -/
example : bfs gEx (levelFlags 1) 100 [⟨none, false⟩] = .fatal St.empty := by decide
/-- out of fuel is reachable with too little fuel (so `C12_terminates` is not vacuous). -/
example : (bfs gEx (levelFlags 1) 2 tEx) = .outOfFuel
    { analysed := [1, 2], seen := [11, 12], skipped := [], pops := 2 } := by decide

end Witnesses

/-! ## Real files: "each once" counts analyses per REAL file

`seen_module_origins` compares origin *strings*. That the strings identify files is the job of
`find_module_in_path` (`python_path.resolve()`, Tie A `tieA_locate_origin`): `OriginsCanonical`. -/

/-- Tie A: `find_module_in_path` resolves the SEARCH DIRECTORY, joins the parts of the dotted name
below it, and returns that path without resolving it again — `Imports.originIn`. -/
theorem tieA_locate_origin :
    Generated.C12.locateOps =
      ["if modulename == ''", "return None", "endif", "module_parts = modulename.split('.')",
       "install_location = python_path.resolve()", "for part in module_parts",
       "install_location /= part", "endfor", "if install_location.is_dir()",
       "install_location /= '__init__.py'", "else",
       "install_location = install_location.with_suffix('.py')", "endif",
       "if not install_location.exists()", "return None", "endif", "return install_location"] := by
  decide

/-- The spelling of a search directory is irrelevant: two spellings of one directory (through a
symlink, `./x`, `x/../x`, a trailing slash) give the same origin for the same module. -/
theorem origin_spelling_irrelevant {σ : Type} (resolve : σ → List Str) (d d' : σ) (rel : List Str)
    (h : resolve d = resolve d') : originIn resolve d rel = originIn resolve d' rel := by
  unfold originIn; rw [h]

/-- A search directory nested in another one (`proj/pk` on the path next to `proj`): the file
`pk/s0.py` has ONE origin under its two names `pk.s0` and `s0` — the first half of the known finding
`second-name-of-analysed-file-missing-from-import-irs` (`C12_cex_two_names_one_origin`). -/
theorem origin_nested_search_dir {σ : Type} (resolve : σ → List Str) (d d' : σ) (p rel : List Str)
    (h : resolve d' = resolve d ++ p) : originIn resolve d' rel = originIn resolve d (p ++ rel) := by
  unfold originIn; rw [h, List.append_assoc]

theorem originsCanonicalB_iff {ρ : Type} [DecidableEq ρ] (g : Graph ν ω) (real : ω → ρ) :
    originsCanonicalB g real = true ↔ OriginsCanonical g real := by
  unfold originsCanonicalB OriginsCanonical
  simp only [List.all_eq_true]
  constructor
  · intro h a ha b hb oa ob hoa hob hr
    have := h a ha b hb
    simp only [hoa, hob, Bool.or_eq_true, Bool.not_eq_true', decide_eq_false_iff_not,
      decide_eq_true_eq] at this
    rcases this with h1 | h1
    · exact absurd hr h1
    · exact h1
  · intro h a ha b hb
    cases hoa : a.origin with
    | none => simp
    | some oa =>
      cases hob : b.origin with
      | none => simp
      | some ob =>
        simp only [Bool.or_eq_true, Bool.not_eq_true', decide_eq_false_iff_not, decide_eq_true_eq]
        by_cases hr : real oa = real ob
        · exact Or.inr (h a ha b hb oa ob hoa hob hr)
        · exact Or.inl hr

/-- **C12, "each once", per real file.** If origins are canonical (`OriginsCanonical`), no REAL file
is analysed twice — for every graph (several names per file, cycles, diamonds), flags and fuel. -/
theorem C12_once_real {ρ : Type} (g : Graph ν ω) (real : ω → ρ) (fl : Flags) (fuel : Nat)
    (target : List (Imp ν)) (hc : OriginsCanonical g real) :
    (realFiles g real (bfs g fl fuel target).state.analysed).Nodup := by
  have hnd := (C12_once g fl fuel target).1
  have hadm := bfs_admitted g fl fuel target
  have hmap : realFiles g real (bfs g fl fuel target).state.analysed
      = ((bfs g fl fuel target).state.analysed.map (originOf g)).map (Option.map real) := by
    simp [realFiles, originOf, List.map_map, Function.comp_def]
  rw [hmap]
  unfold List.Nodup at hnd ⊢
  rw [List.pairwise_map]
  refine hnd.imp_of_mem ?_
  intro x y hx hy hne hxy
  apply hne
  rw [List.mem_map] at hx hy
  obtain ⟨n, hn, rfl⟩ := hx
  obtain ⟨n', hn', rfl⟩ := hy
  obtain ⟨m, o, hl, ho, _⟩ := hadm n hn
  obtain ⟨m', o', hl', ho', _⟩ := hadm n' hn'
  have e1 : originOf g n = some o := by simp [originOf, hl, ho]
  have e2 : originOf g n' = some o' := by simp [originOf, hl', ho']
  rw [e1, e2] at hxy ⊢
  simp only [Option.map_some, Option.some.injEq] at hxy
  rw [hc m (lookup_mem hl).1 m' (lookup_mem hl').1 o o' ho ho' hxy]

section RealWitnesses

private def mkO (name : Nat) (origin : List Str) : Module Nat (List Str) :=
  { name := name, origin := some origin, readable := true, blacklisted := false, inPip := false,
    inStdlib := false, excluded := false, imports := [] }

/-- `proj/lnk -> pk`: search dir `proj` (spelling 0), module 1 = `pk.s0`, module 2 = `lnk.s0`. -/
private def resolve0 : Nat → List Str := fun _ => [str "proj"]
private def gLnk : Graph Nat (List Str) :=
  [mkO 1 (originIn resolve0 0 [str "pk", str "s0.py"]), mkO 2 (originIn resolve0 0 [str "lnk", str "s0.py"])]
private def tLnk : List (Imp Nat) := [⟨some 1, false⟩, ⟨some 2, false⟩]
/-- realpath: the segment `lnk` is a symlink to `pk`. -/
private def realLnk (p : List Str) : List Str := p.map fun s => if s = str "lnk" then str "pk" else s

/-- **Counterexample (known finding).** A symlink BELOW a search dir: the two names of the one file
have different origins, so the file is analysed twice (and both names are keys of `import_irs`). -/
theorem C12_cex_symlink_below_search_dir :
    bfs gLnk (levelFlags 1) (fuelBound gLnk tLnk) tLnk
      = .done { analysed := [1, 2],
                seen := [[str "proj", str "pk", str "s0.py"], [str "proj", str "lnk", str "s0.py"]],
                skipped := [], pops := 2 }
    ∧ ¬ (realFiles gLnk realLnk [1, 2]).Nodup
    ∧ OriginInjective gLnk ∧ ¬ OriginsCanonical gLnk realLnk := by
  refine ⟨by decide, by decide, by decide, ?_⟩
  rw [← originsCanonicalB_iff]; decide

/-- Non-vacuity of `C12_once_real`: two search-dir spellings of one directory (1 = `via/proj`
through a symlink, 0 = `proj`), one file under the names 1 (`pk.s0`, found via spelling 0) and 2
(`s0`, found via the nested dir `proj/pk` spelled through the symlink): ONE origin, analysed once. -/
private def resolveVia : Nat → List Str
  | 0 => [str "proj"]
  | _ => [str "proj", str "pk"]
private def gVia : Graph Nat (List Str) :=
  [mkO 1 (originIn resolveVia 0 [str "pk", str "s0.py"]), mkO 2 (originIn resolveVia 1 [str "s0.py"])]

example : OriginsCanonical gVia id ∧
    (bfs gVia (levelFlags 1) (fuelBound gVia tLnk) tLnk).state.analysed = [1] ∧
    (realFiles gVia id (bfs gVia (levelFlags 1) (fuelBound gVia tLnk) tLnk).state.analysed).Nodup := by
  refine ⟨?_, by decide, by decide⟩
  rw [← originsCanonicalB_iff]; decide

end RealWitnesses

/-! ## The isort section behind `is_in_stdlib`: `__future__` (FUTURE) is a stdlib module -/

/-- Tie A: the installed isort has exactly the five sections of the model; `is_in_stdlib` maps each
of them (evaluated with `place_module` held constant) to what `Imports.isInStdlib` says, which is
what the spec demands (`Spec.stdlibSection`); the body of `is_in_stdlib` is the single membership
test; `is_in_pip` does not consult isort; isort places `__future__` in FUTURE, dotted stdlib names
in STDLIB, a module under its src_paths (the cwd of `python -m rattr`) in FIRSTPARTY — unless the name
is a stdlib name, which wins —, relative names in LOCALFOLDER and everything else in THIRDPARTY: all
five sections occur. -/
theorem tieA_isort_sections :
    Generated.C12.isortSections = ["FUTURE", "STDLIB", "THIRDPARTY", "FIRSTPARTY", "LOCALFOLDER"] ∧
    Generated.C12.stdlibOfSection
      = Generated.C12.isortSections.map (fun s => (s, isInStdlib (Section.ofString s))) ∧
    (∀ s ∈ Generated.C12.isortSections, Section.ofString s ≠ .other ∧
        isInStdlib (Section.ofString s) = stdlibSection (Section.ofString s)) ∧
    Generated.C12.isInStdlibBody = ["try:\n    section = place_module(name)\nexcept (OSError, RuntimeError):\n    return False",
      "return section in (sections.STDLIB, sections.FUTURE)"] ∧
    Generated.C12.isInPipConsultsIsort = false ∧
    ("__future__", "FUTURE") ∈ Generated.C12.placeSamples ∧ ("os.path", "STDLIB") ∈ Generated.C12.placeSamples ∧
    ("collections.abc", "STDLIB") ∈ Generated.C12.placeSamples ∧
    ("lm0 (a module in src_paths)", "FIRSTPARTY") ∈ Generated.C12.placeSamples ∧
    ("keyword (also a module in src_paths)", "STDLIB") ∈ Generated.C12.placeSamples ∧
    (".relative", "LOCALFOLDER") ∈ Generated.C12.placeSamples ∧
    ("zz_no_such_module", "THIRDPARTY") ∈ Generated.C12.placeSamples := by
  decide

/-- The model of `is_in_stdlib` is the spec's classification, section by section. -/
theorem isInStdlib_eq_spec (s : Section) : isInStdlib s = stdlibSection s := by
  cases s <;> rfl

theorem levelFlags_stdlib {lvl : Nat} (h : (levelFlags lvl).stdlib = true) : 3 ≤ lvl := by
  match lvl with
  | 0 => simp [levelFlags] at h
  | 1 => simp [levelFlags] at h
  | 2 => simp [levelFlags] at h
  | _ + 3 => omega

/-- **C12, stdlib sections.** A module isort places in FUTURE (`__future__`) or STDLIB is analysed
only at level 3 — for every graph, target, fuel, and wherever the import stands (target or any
followed module). -/
theorem C12_stdlib_section_only_at_level3 (g : Graph ν ω) (sec : ν → Section) (lvl fuel : Nat)
    (target : List (Imp ν)) (hs : SectionsAgree g sec) (n : ν) (m : Module ν ω)
    (hl : lookup g n = some m) (hsec : stdlibSection (sec n) = true)
    (hn : n ∈ (bfs g (levelFlags lvl) fuel target).state.analysed) : 3 ≤ lvl := by
  have hm := lookup_mem hl
  have hstd : m.inStdlib = true := by
    rw [hs m hm.1, hm.2, isInStdlib_eq_spec]; exact hsec
  exact levelFlags_stdlib ((C12_class_respects_flags g (levelFlags lvl) fuel target n m hl hn).2.1 hstd)

/-- The FUTURE instance: `from __future__ import …` never gets `__future__.py` analysed below
level 3. -/
theorem C12_future_only_at_level3 (g : Graph ν ω) (sec : ν → Section) (lvl fuel : Nat)
    (target : List (Imp ν)) (hs : SectionsAgree g sec) (n : ν) (m : Module ν ω)
    (hl : lookup g n = some m) (hsec : sec n = .future)
    (hn : n ∈ (bfs g (levelFlags lvl) fuel target).state.analysed) : 3 ≤ lvl :=
  C12_stdlib_section_only_at_level3 g sec lvl fuel target hs n m hl (by rw [hsec]; rfl) hn

section FutureWitnesses

private def mkF (name origin : Nat) (inStdlib : Bool) (imports : List Nat) : Module Nat Nat :=
  { name := name, origin := some origin, readable := true, blacklisted := false, inPip := false,
    inStdlib := inStdlib, excluded := false, imports := imports.map (fun n => ⟨some n, false⟩) }

/-- target → lib (1) → `__future__` (9), and target → `__future__`. -/
private def gFut (verdict : Bool) : Graph Nat Nat := [mkF 1 11 false [9], mkF 9 19 verdict []]
private def tFut : List (Imp Nat) := [⟨some 9, false⟩, ⟨some 1, false⟩]
private def secFut : Nat → Section := fun n => if n = 9 then .future else .thirdparty

/-- Non-vacuity: with the verdicts of the code as it is, `__future__` is skipped at levels 1 and 2
(rung `stdlib`) and analysed at level 3. -/
example : SectionsAgree (gFut true) secFut ∧
    (bfs (gFut true) (levelFlags 1) (fuelBound (gFut true) tFut) tFut).state.analysed = [1] ∧
    (bfs (gFut true) (levelFlags 2) (fuelBound (gFut true) tFut) tFut).state.analysed = [1] ∧
    (bfs (gFut true) (levelFlags 3) (fuelBound (gFut true) tFut) tFut).state.analysed = [9, 1] := by decide

/-- **Fixed defect (0d0bd4b).** With the verdict the old comparison `== sections.STDLIB` gave for the
FUTURE section (`inStdlib = false`), `__future__` is analysed at level 1 although the spec does not
permit a stdlib module there: the old verdicts do not satisfy `SectionsAgree`. -/
theorem C12_fixed_future_as_local :
    (bfs (gFut false) (levelFlags 1) (fuelBound (gFut false) tFut) tFut).state.analysed = [9, 1]
    ∧ ¬ SectionsAgree (gFut false) secFut ∧ stdlibSection (secFut 9) = true := by decide

end FutureWitnesses

/-! ## How the follow level reaches the loop: command line, pyproject.toml, `-c` file, default

`FollowConfig.stage` = `Cli.parseArguments` (the two-pass configuration stage, model of C20) ∘
`Arguments.follow_imports` ∘ `Imports.bfs`. -/

/-- Tie A: in both regenerated option tables exactly ONE option writes `_follow_imports_level`:
`-f` / `--follow-imports`, `store`, `int`, choices 0..3, default 1 (no legacy flag); the TOML key is
`follow-imports` of type int and is passed on under its own name. -/
theorem tieA_follow_option :
    followOpts Cli.tomlParser = [followOpt] ∧ followOpts Cli.cliParser = [followOpt] ∧
    followOpt.flags = [str "-f", str "--follow-imports"] ∧ followOpt.action = .store ∧
    followOpt.vtype = .int ∧ followOpt.default = .int 1 ∧
    followOpt.choices = some [.int 0, .int 1, .int 2, .int 3] ∧
    Dict.get? Cli.tomlTypeMap followKey = some Cli.TomlType.int ∧
    Cli.argName Cli.tomlNameMap followKey = str "--follow-imports" := by
  decide +kernel

/-- Tie A: `Arguments.follow_*_imports` of level `lvl` (regenerated table) are the bits
`flagsOfVal` computes, which are the documented ones. -/
theorem tieA_flagsOfVal :
    ∀ lvl : Nat, lvl < 4 → flagsOfVal (.int (lvl : Int)) = some (genFlags lvl) ∧ genFlags lvl = levelFlags lvl := by
  decide

/-- **C12, the configured level.** Whenever `parse_arguments` succeeds, the level it hands on is
`Spec.effective` of what the selected TOML table says and what the command line says: the last
`-f` or `--follow-imports` of the command line, else the TOML value, else 1. For ALL worlds of TOML
files and ALL argument lists. -/
theorem C12_configured_level (w : Cli.World) (argv : List Cli.Text) (eoe : Bool) (ns : Cli.Namespace)
    (h : Cli.parseArguments w none argv eoe = .ok ns) :
    ∃ conf, selectedToml w argv = some conf ∧
      Dict.get? ns levelDest = some (Spec.effective .scalar (.int 1)
        (C20.tomlSays followOpt ((Cli.translate Cli.tomlNameMap conf).map Cli.lex))
        (C20.cliSays followOpt (argv.map Cli.lex))) := by
  obtain ⟨conf, ns1, hsel, h1, h2⟩ := parseArguments_ok w argv eoe ns h
  refine ⟨conf, hsel, ?_⟩
  have := C20.C20_precedence followOpt followOpt_mem _ _ ns1 ns h1 h2
  have hd : followOpt.dest = levelDest := by rw [followOpt_eq]
  have hk : C20.kindOf followOpt = .scalar := by rw [followOpt_eq]; rfl
  have hdef : followOpt.default = .int 1 := by rw [followOpt_eq]
  rw [hd, hk, hdef] at this
  exact this

/-- **C12, level from TOML only** (pyproject.toml, a parent's pyproject.toml, or the `-c` file —
whichever `selectedToml` picks): `follow-imports = N` anywhere in the table, a command line that does
not mention the option: the level is `N` — in particular for `N = 0`. -/
theorem C12_level_from_toml (w : Cli.World) (argv : List Cli.Text) (eoe : Bool) (ns : Cli.Namespace)
    (h : Cli.parseArguments w none argv eoe = .ok ns) (a b : Cli.Toml) (N : Int)
    (hsel : selectedToml w argv = some (a ++ (followKey, .sc (.int N)) :: b))
    (ha : quiet followOpt ((Cli.translate Cli.tomlNameMap a).map Cli.lex) = true)
    (hb : quiet followOpt ((Cli.translate Cli.tomlNameMap b).map Cli.lex) = true)
    (hcli : quiet followOpt (argv.map Cli.lex) = true) :
    Dict.get? ns levelDest = some (.int N) := by
  obtain ⟨conf, hsel', hv⟩ := C12_configured_level w argv eoe ns h
  rw [hsel] at hsel'; injection hsel' with hsel'; subst hsel'
  rw [hv, tomlSays_follow a b N ha hb, cliSays_follow_quiet _ hcli]
  rfl

/-- **C12, the command line wins**: the last `-f` or `--follow-imports` value of the command line is the
level, whatever any TOML file says. -/
theorem C12_level_from_cli (w : Cli.World) (argv : List Cli.Text) (eoe : Bool) (ns : Cli.Namespace)
    (h : Cli.parseArguments w none argv eoe = .ok ns) (v : Cli.Val)
    (hlast : (C20.vals followOpt (argv.map Cli.lex)).getLast? = some v) :
    Dict.get? ns levelDest = some v := by
  obtain ⟨conf, _, hv⟩ := C12_configured_level w argv eoe ns h
  have hact : followOpt.action = .store := by rw [followOpt_eq]
  rw [hv]
  simp only [Spec.effective, C20.cliSays, hact, hlast]

/-- **C12, default**: neither source mentions the option: level 1. -/
theorem C12_level_default (w : Cli.World) (argv : List Cli.Text) (eoe : Bool) (ns : Cli.Namespace)
    (h : Cli.parseArguments w none argv eoe = .ok ns) (conf : Cli.Toml)
    (hsel : selectedToml w argv = some conf)
    (hq : quiet followOpt ((Cli.translate Cli.tomlNameMap conf).map Cli.lex) = true)
    (hcli : quiet followOpt (argv.map Cli.lex) = true) :
    Dict.get? ns levelDest = some (.int 1) := by
  obtain ⟨conf', hsel', hv⟩ := C12_configured_level w argv eoe ns h
  rw [hsel] at hsel'; injection hsel' with hsel'; subst hsel'
  rw [hv, tomlSays_follow_quiet _ hq, cliSays_follow_quiet _ hcli]
  rfl

/-- **C12, end to end.** Whatever the channel: if the configured stage runs the import loop, it
runs it with the bits of ONE documented level `N < 4`, `N` is the effective level of the two sources,
and everything analysed is in `Spec.Reach` for that level. -/
theorem C12_stage_respects_level (w : Cli.World) (argv : List Cli.Text) (g : Graph ν ω)
    (target : List (Imp ν)) (fl : Flags) (out : Out ν ω)
    (h : stage w argv g target = .ran fl out) :
    ∃ conf, ∃ N : Nat, N < 4 ∧ selectedToml w argv = some conf ∧
      Spec.effective .scalar (.int 1)
        (C20.tomlSays followOpt ((Cli.translate Cli.tomlNameMap conf).map Cli.lex))
        (C20.cliSays followOpt (argv.map Cli.lex)) = .int (N : Int) ∧
      fl = levelFlags N ∧ out = bfs g (levelFlags N) (fuelBound g target) target ∧
      (ExclusionHonoured g (levelFlags N) → ∀ n ∈ out.state.analysed, Reach g (levelFlags N) target n) := by
  unfold stage at h
  cases hp : Cli.parseArguments w none argv true with
  | ok ns =>
    simp only [hp] at h
    obtain ⟨conf, hsel, hv⟩ := C12_configured_level w argv true ns hp
    cases hf : (Dict.get? ns levelDest).bind flagsOfVal with
    | none => simp [hf] at h
    | some fl' =>
      simp only [hf, Stage.ran.injEq] at h
      obtain ⟨rfl, rfl⟩ := h
      rw [hv] at hf
      simp only [Option.bind_some] at hf
      obtain ⟨N, hN, hval, hfl⟩ := flagsOfVal_some hf
      subst hfl
      refine ⟨conf, N, hN, hsel, hval, rfl, rfl, ?_⟩
      intro hex n hn
      exact C12_bfs_sound g _ _ target (flagsOK_levels N) hex n hn
  | cliError e => simp [hp] at h
  | tomlError e => simp [hp] at h
  | tomlFatal e => simp [hp] at h

/-- **C12, level 0 through TOML.** `follow-imports = 0` in the TOML table that applies and a command
line silent about the option: the stage (if it gets as far as the loop) analyses NOTHING. -/
theorem C12_stage_level0_via_toml (w : Cli.World) (argv : List Cli.Text) (g : Graph ν ω)
    (target : List (Imp ν)) (fl : Flags) (out : Out ν ω)
    (h : stage w argv g target = .ran fl out) (a b : Cli.Toml)
    (hsel : selectedToml w argv = some (a ++ (followKey, .sc (.int 0)) :: b))
    (ha : quiet followOpt ((Cli.translate Cli.tomlNameMap a).map Cli.lex) = true)
    (hb : quiet followOpt ((Cli.translate Cli.tomlNameMap b).map Cli.lex) = true)
    (hcli : quiet followOpt (argv.map Cli.lex) = true) :
    fl = levelFlags 0 ∧ out.state.analysed = [] := by
  obtain ⟨conf, N, hN, hsel', heff, hfl, hout, _⟩ := C12_stage_respects_level w argv g target fl out h
  rw [hsel] at hsel'; injection hsel' with hsel'; subst hsel'
  rw [tomlSays_follow a b 0 ha hb, cliSays_follow_quiet _ hcli] at heff
  have hN0 : N = 0 := by
    simp only [Spec.effective, List.getLast?_nil] at heff
    injection heff with heff
    omega
  subst hN0
  exact ⟨hfl, by rw [hout]; exact (C12_level0_empty g _ target).1⟩

section ConfigWitnesses
open Cli

private def wToml (n : Int) : World :=
  { overrideFile := none, parents := [],
    cwd := { vcs := false, pyproject := some (.table [(str "strict", .sc (.bool false)), (followKey, .sc (.int n)),
                                                       (str "exclude-imports", .list [.str (.word (str "lm1"))])]) } }
private def argvT : List Text := [.word (str "target.py")]

/-- Non-vacuity (kernel evaluation of the whole configuration stage on the regenerated tables):
`follow-imports = 0` in pyproject.toml, nothing on the command line → level 0, pattern `lm1`;
`-f 2` on the command line overrides `follow-imports = 0`; a `-c` file overrides pyproject.toml. -/
example : C20.outGet (parseArguments (wToml 0) none argvT true) levelDest = some (.int 0) ∧
    C20.outGet (parseArguments (wToml 3) none argvT true) levelDest = some (.int 3) ∧
    C20.outGet (parseArguments (wToml 0) none argvT true) exclDest = some (.texts [.word (str "lm1")]) ∧
    C20.outGet (parseArguments (wToml 0) none (argvT ++ [.word (str "-f"), .num 2]) true) levelDest = some (.int 2) ∧
    C20.outGet (parseArguments { wToml 0 with overrideFile := some (.table [(followKey, .sc (.int 2))]) } none
      ([.word (str "-c"), .word (str "alt.toml")] ++ argvT) true) levelDest = some (.int 2) := by
  decide +kernel

example : selectedToml (wToml 0) argvT = some ([(str "strict", .sc (.bool false))] ++ (followKey, .sc (.int 0)) ::
      [(str "exclude-imports", .list [.str (.word (str "lm1"))])]) ∧
    quiet followOpt ((translate tomlNameMap [(str "strict", .sc (.bool false))]).map lex) = true ∧
    quiet followOpt ((translate tomlNameMap [(str "exclude-imports", .list [.str (.word (str "lm1"))])]).map lex) = true ∧
    quiet followOpt (argvT.map lex) = true := by
  decide +kernel

/-- The stage on the 4-module example graph with `follow-imports = 0` from TOML: the loop is not
entered; with `follow-imports = 2`: the level-2 set. -/
example : (match stage (wToml 0) argvT gEx tEx with | .ran fl out => some (fl, out.state.analysed) | _ => none)
      = some (levelFlags 0, []) ∧
    (match stage (wToml 2) argvT gEx tEx with | .ran fl out => some (fl, out.state.analysed) | _ => none)
      = some (levelFlags 2, [1, 2, 3, 5, 4]) := by
  decide +kernel

end ConfigWitnesses

/-! ## Where the edges come from: import statements, relative levels, `__init__.py`

Until here the edges of the graph (`Imp.target`) were parameters. `Edges.*` (RattrModel/ImportEdges.lean)
computes them the way rattr does — `derive_absolute_module_name` for `from ..x import f`, with its
`__init__.py` adjustment, then the right-to-left prefix search of `find_module_name_and_spec` — and the
theorems below say that the graph so obtained is the graph Python's own rule gives
(`importlib.util.resolve_name` on the package of the importing file, longest existing prefix), for
every project, every nesting depth, every level, `__init__.py` or not, whatever other modules of the
same name exist elsewhere (`ex` is arbitrary). Hence the set analysed is `Spec.Reach` over PYTHON's
edges (`C12_project_partial`). -/

section EdgeTheorems
open Rattr.Locator Rattr.Edges

/-- Tie A: the import visitors build the `Import` symbol from exactly the data the model uses (the two
starred ones — outside C12's fragment — go through the same `derive_absolute_module_name` call;
`visit_relative_import`: base = name of the CURRENT file, module = `derive_absolute_module_name(base,
node.module, node.level)`, qualified name = module + "." + imported name); `Import.module_name` is the
first component of `find_module_name_and_spec(qualified_name)`; `derive_absolute_module_name` is the
three statements `Locator.deriveAbs` models. -/
theorem tieA_edge_sites :
    Generated.C12.edgeSites =
      ["visit_Import:name=alias.asname or alias.name", "visit_Import:qualified_name=alias.name",
       "visit_Import:module_name=alias.name", "visit_Import:token=node",
       "visit_starred_relative_import:base = derive_module_name_from_path(config.state.current_file)",
       "visit_starred_relative_import:module_name = derive_absolute_module_name(base, node.module, node.level)",
       "visit_starred_relative_import:name='*'", "visit_starred_relative_import:qualified_name=module_name",
       "visit_starred_relative_import:module_name=module_name", "visit_starred_relative_import:token=node",
       "visit_relative_import:base = derive_module_name_from_path(config.state.current_file)",
       "visit_relative_import:module_name = derive_absolute_module_name(base, node.module, node.level)",
       "visit_relative_import:name=target.asname or target.name",
       "visit_relative_import:qualified_name=f'{module_name}.{target.name}'",
       "visit_relative_import:module_name=module_name", "visit_relative_import:token=node",
       "visit_starred_import:name='*'", "visit_starred_import:qualified_name=node.module",
       "visit_starred_import:module_name=node.module", "visit_starred_import:token=node",
       "visit_named_import:name=target.asname or target.name",
       "visit_named_import:qualified_name=f'{node.module}.{target.name}'",
       "visit_named_import:module_name=node.module", "visit_named_import:token=node"] ∧
    Generated.C12.importModuleName =
      ["_module_name_and_spec:return find_module_name_and_spec(self.qualified_name)",
       "module_name:return self._module_name_and_spec[0]"] ∧
    Generated.C12.deriveAbsBody =
      ["config = Config()", "if config.state.current_file.name == '__init__.py'", "level -= 1", "endif",
       "if level > 0", "base = '.'.join(base.split('.')[:-level])", "endif",
       "return f'{base}.{target}' if target is not None else base"] := by
  decide

/-- Tie A, evaluated: the real `derive_absolute_module_name` run on the grid `__init__.py` / module ×
base of 1..5 components × no / plain / dotted target × level 0..5 (180 rows, levels beyond the
top-level package included) returns what `Locator.deriveAbs` returns, row by row. -/
theorem tieA_derive_abs_table :
    Generated.C12.deriveAbsTable.length = 180 ∧
    Generated.C12.deriveAbsTable.all (fun r => deriveAbsStr r.1 r.2.1 r.2.2.1 r.2.2.2.1 == r.2.2.2.2) = true := by
  decide +kernel

/-- The qualified name rattr gives an import statement is the one Python's rule gives, whenever
Python accepts the statement: absolute or relative, any level, in a module or in an `__init__.py`. -/
theorem C12_edge_qualified_like_python (f : Edges.Src) (s : Stmt) (q : Dotted)
    (h : pyQualified f s = .ok q) : qualified f s = q := by
  unfold pyQualified at h
  unfold qualified moduleOf
  by_cases hl : s.level = 0
  · simp only [hl, if_true] at h ⊢
    cases hn : s.name <;> simp_all
  · simp only [hl, if_false] at h ⊢
    cases hr : Spec.pyResolveName (Spec.packageOf f.base f.isInit) s.level s.module with
    | error e => rw [hr] at h; cases h
    | ok m =>
      rw [hr] at h
      have hd := C12Edges.deriveAbs_like_python f.isInit f.base s.module s.level m (by omega) hr
      rw [hd]
      cases hn : s.name <;> simp_all

/-- A statement Python refuses (relative import beyond the top-level package / without a parent
package) gives no edge: the name rattr derives starts with "." and `find_module_name_and_spec` rejects
it — whatever modules exist. -/
theorem C12_edge_escape_unresolved (ex : Dotted → Bool) (f : Edges.Src) (s : Stmt) (e : Spec.ResolveErr) (n : Str)
    (hl : 1 ≤ s.level) (hn : s.name = some n) (hb : f.base ≠ [])
    (h : pyQualified f s = .error e) : moduleName ex (qualified f s) = none := by
  have hl0 : s.level ≠ 0 := by omega
  unfold pyQualified at h
  simp only [hl0, if_false] at h
  cases hr : Spec.pyResolveName (Spec.packageOf f.base f.isInit) s.level s.module with
  | ok m => rw [hr] at h; cases h
  | error e' =>
    have hd := C12Edges.deriveAbs_escape f.isInit f.base s.module s.level e' hl hb hr
    unfold moduleName qualified moduleOf
    simp only [hl0, if_false, hn, hd, C12Edges.startsWithDot_escName, if_true]

/-- **One edge.** For every statement of the fragment (`wf`: decidable, evaluated on every generated
statement) the edge the BFS enqueues is Python's edge, for every existence predicate `ex` — so a
same-named module one or two packages further up (or down) is never reached instead. -/
theorem C12_edge_like_python (ex : Dotted → Bool) (f : Edges.Src) (s : Stmt) (h : wf f s = true) :
    impOf ex f s = pyImpOf ex f s := by
  unfold impOf pyImpOf pyTarget
  unfold wf at h
  cases hq : pyQualified f s with
  | ok q =>
    rw [hq] at h
    simp only [Bool.and_eq_true, decide_eq_true_eq, Bool.not_eq_true'] at h
    rw [C12_edge_qualified_like_python f s q hq, C12Edges.moduleName_eq_longestPrefix ex q h.1 h.2]
  | error e =>
    rw [hq] at h
    simp only [Bool.and_eq_true, decide_eq_true_eq, Option.isSome_iff_exists] at h
    obtain ⟨⟨hl, n, hn⟩, hb⟩ := h
    rw [C12_edge_escape_unresolved ex f s e n hl hn hb hq]

/-- The module an edge leads to exists and is a prefix of the qualified name. -/
theorem C12_edge_target_exists (ex : Dotted → Bool) (q n : Dotted) (hq : q ≠ [])
    (h : moduleName ex q = some n) : ex n = true ∧ ∃ k, n = q.take k := by
  unfold moduleName at h
  split at h
  · cases h
  · refine ⟨List.find?_some h, ?_⟩
    have hm := List.mem_of_find?_eq_some h
    unfold iterModuleNamesRight at hm
    simp only [hq, if_false, List.mem_map, List.mem_range] at hm
    obtain ⟨k, _, hk⟩ := hm
    exact ⟨q.length - k, hk.symm⟩

/-- **The `__init__.py` rule.** The `__init__.py` of a package resolves every import statement
exactly as a module lying directly inside that package does — for every level and every module
part. (This is `level -= 1`; an adjustment made for level 1 only would break it at levels ≥ 2.) -/
theorem C12_init_as_module_inside (f : Edges.Src) (s : Stmt) (x : Str) (hi : f.isInit = true) (hb : f.base ≠ []) :
    moduleOf f s = moduleOf (asModuleInside f x) s := by
  unfold moduleOf asModuleInside
  by_cases hl : s.level = 0
  · simp [hl]
  · simp only [hl, if_false, hi]
    rw [C12Edges.deriveAbs_eq, C12Edges.deriveAbs_eq]
    have hs : C12Edges.strip f.base (s.level - 1) = C12Edges.strip (f.base ++ [x]) s.level := by
      unfold C12Edges.strip
      have hpos : s.level > 0 := by omega
      simp only [hpos, if_true, List.length_append, List.length_cons, List.length_nil]
      have ht : (f.base ++ [x]).take (f.base.length + (0 + 1) - s.level) = f.base.take (f.base.length - (s.level - 1)) := by
        have : f.base.length + (0 + 1) - s.level = f.base.length - (s.level - 1) := by omega
        rw [this, List.take_append_of_le_length (by omega)]
      rw [ht]
      by_cases h1 : s.level - 1 > 0
      · simp [h1]
      · have h0 : s.level - 1 = 0 := by omega
        simp only [h0, Nat.lt_irrefl, gt_iff_lt, if_false, Nat.sub_zero, List.take_length]
        simp [joinSplit, hb]
    simp only [if_true, Bool.false_eq_true, if_false, hs]

/-- **The whole graph.** In a project all of whose statements are in the fragment, the graph rattr
walks is the graph of Python's edges. -/
theorem C12_graph_like_python {ω : Type} (ex : Dotted → Bool) (P : List (PFile ω)) (h : WellFormed P) :
    graphOf ex P = pyGraphOf ex P := by
  unfold graphOf pyGraphOf
  apply List.map_congr_left
  intro p hp
  unfold toModule toPyModule
  congr 1
  apply List.map_congr_left
  intro s hs
  exact C12_edge_like_python ex p.src s (h p hp s hs)

/-- **C12 over statements.** Project `P`, target file `t` (not one of the graph's nodes: it is analysed
as the target), level `lvl`: when the stage finishes on the graph RATTR derives from the statements,
the analysed modules are exactly `Spec.Reach` over the edges PYTHON derives from them, each file once,
and the resolver finds every import it lets through — under `C12_partial`'s hypotheses, for every
nesting depth, relative level and existence predicate. -/
theorem C12_project_partial {ω : Type} [DecidableEq ω] (ex : Dotted → Bool) (P : List (PFile ω)) (t : PFile ω)
    (lvl : Nat) (hwf : WellFormed (t :: P))
    (hinj : OriginInjective (pyGraphOf ex P)) (hnb : NoOverBlacklist (pyGraphOf ex P))
    (hex : ExclusionHonoured (pyGraphOf ex P) (levelFlags lvl)) :
    ∀ st, bfs (graphOf ex P) (levelFlags lvl)
            (fuelBound (graphOf ex P) (t.stmts.map (impOf ex t.src))) (t.stmts.map (impOf ex t.src)) = .done st →
      (∀ n, n ∈ st.analysed ↔ Reach (pyGraphOf ex P) (levelFlags lvl) (t.stmts.map (pyImpOf ex t.src)) n) ∧
      (st.analysed.map (originOf (pyGraphOf ex P))).Nodup ∧
      (∀ i ∈ t.stmts.map (pyImpOf ex t.src), hasOrigin (pyGraphOf ex P) i = true →
        importAllowed (pyGraphOf ex P) (levelFlags lvl) (irsKeys st.analysed) i ≠ .crashNotFound) := by
  have hg : graphOf ex P = pyGraphOf ex P :=
    C12_graph_like_python ex P (fun p hp => hwf p (List.mem_cons_of_mem _ hp))
  have ht : t.stmts.map (impOf ex t.src) = t.stmts.map (pyImpOf ex t.src) := by
    apply List.map_congr_left
    intro s hs
    exact C12_edge_like_python ex t.src s (hwf t (List.mem_cons_self ..) s hs)
  rw [hg, ht]
  exact C12_partial (pyGraphOf ex P) lvl (t.stmts.map (pyImpOf ex t.src)) hinj hnb hex

/-! #### Non-vacuity: the chain `np`, `np.q1`, `np.q1.q2` with a module `util` in every package and at
the top level; `from ..util import f` written in `np/q1/q2/__init__.py` and in `np/q1/q2/m.py` -/

private def S (s : String) : Dotted := Strs.splitDot s.toList
private def exNp : Dotted → Bool := fun n =>
  n ∈ [S "np", S "np.q1", S "np.q1.q2", S "np.q1.q2.m", S "util", S "np.util", S "np.q1.util", S "np.q1.q2.util"]
private def initQ2 : Edges.Src := { base := S "np.q1.q2", isInit := true }
private def modQ2 : Edges.Src := { base := S "np.q1.q2.m", isInit := false }
private def relUtil (lvl : Nat) : Stmt := { level := lvl, module := some (S "util"), name := some "f".toList, declBl := false }

example : (impOf exNp initQ2 (relUtil 1)).target = some (S "np.q1.q2.util") ∧
    (impOf exNp initQ2 (relUtil 2)).target = some (S "np.q1.util") ∧
    (impOf exNp initQ2 (relUtil 3)).target = some (S "np.util") ∧
    (impOf exNp modQ2 (relUtil 2)).target = some (S "np.q1.util") ∧
    (impOf exNp modQ2 (relUtil 3)).target = some (S "np.util") := by decide
example : wf initQ2 (relUtil 2) = true ∧ wf modQ2 (relUtil 3) = true ∧ wf initQ2 (relUtil 4) = true ∧
    pyQualified initQ2 (relUtil 4) = .error .beyondTopLevel ∧ (impOf exNp initQ2 (relUtil 4)).target = none := by decide
/-- what stripping one component too many in an `__init__.py` would reach: the decoy one level up -/
example : Spec.longestPrefix exNp (deriveAbs false initQ2.base (some (S "util")) 2 ++ ["f".toList]) = some (S "np.util") := by
  decide

/-- a whole project: the chain with all its `util` modules, `np/q1/q2/__init__.py` doing
`from ..util import f`, a target doing `from np.q1.q2 import g` — the hypotheses of
`C12_project_partial` hold and the stage analyses `np.q1.q2` and `np.q1.util` (not `np.util`, not
`np.q1.q2.util`, not `util`) -/
private def pf (name : String) (isInit : Bool) (origin : Nat) (stmts : List Stmt) : PFile Nat :=
  { src := { base := S name, isInit := isInit }, origin := some origin, readable := true, blacklisted := false,
    inPip := false, inStdlib := false, excluded := false, stmts := stmts }
private def Pnp : List (PFile Nat) :=
  [pf "np" true 1 [], pf "np.q1" true 2 [], pf "np.q1.q2" true 3 [relUtil 2], pf "util" false 4 [],
   pf "np.util" false 5 [], pf "np.q1.util" false 6 [], pf "np.q1.q2.util" false 7 []]
private def tNp : PFile Nat :=
  pf "target" false 0 [{ level := 0, module := some (S "np.q1.q2"), name := some "g".toList, declBl := false }]

example : WellFormed (tNp :: Pnp) ∧ OriginInjective (pyGraphOf exNp Pnp) ∧ NoOverBlacklist (pyGraphOf exNp Pnp) ∧
    ExclusionHonoured (pyGraphOf exNp Pnp) (levelFlags 1) := by decide
example : (bfs (graphOf exNp Pnp) (levelFlags 1) (fuelBound (graphOf exNp Pnp) (tNp.stmts.map (impOf exNp tNp.src)))
    (tNp.stmts.map (impOf exNp tNp.src))).state.analysed = [S "np.q1.q2", S "np.q1.util"] := by decide

end EdgeTheorems

/-! ### Block positions: which import statements of a file become edges

`RootContextBuilder` reaches an import statement only through its `visit_` methods
(RattrModel/ImportBlocks.lean). Python executes an import statement wherever it stands at module level.
The theorems say: in a file whose module-level statements are of the classes the builder descends into
(`if` / `elif` / `else`, `for` / `while` with `else`, `with`, `try` / `except` / `else` / `finally`, `try` / `except*`,
`match` / `case` — the last two since /repo 6e8e4cc —, nested to any depth), the import symbols of the root context — the queue of the BFS — are EXACTLY the import symbols
written in the file (a permutation of them: `try` registers its handlers last); nothing is ever invented;
and one statement of a class without a descending visitor (a class body) loses what stands inside it
(`C12_cex_import_inside_class_body`: a defect of the pinned code, listed in known_findings.json; `match` and
`try … except*` were lost in the same way before 6e8e4cc: `C12_cex_import_inside_match_before_6e8e4cc`). -/

section BlockTheorems
open Rattr.Blocks

variable {α : Type}

/-- Tie A: the visitor table the model transcribes is the one of the source (every statement class of
this interpreter's grammar that has nested statement lists is in it). -/
theorem tieA_block_visitors :
    Generated.C12.blockVisitors = Blocks.visitorTable ∧ Generated.C12.registerBodies = Blocks.registerBodies := by
  decide

theorem try_shuffle (o f h : List α) : (o ++ (f ++ h)).Perm (h ++ (o ++ f)) := by
  rw [← List.append_assoc]; exact List.perm_append_comm

mutual
theorem reg_perm_written (b : Blk α) (h : descended b = true) : (reg b).Perm (written b) := by
  cases b with
  | leaf a => simp [reg, written]
  | ifS b o =>
    simp only [descended, Bool.and_eq_true] at h
    simp only [reg, written]
    exact (regL_perm_writtenL b h.1).append (regL_perm_writtenL o h.2)
  | loopS b o =>
    simp only [descended, Bool.and_eq_true] at h
    simp only [reg, written]
    exact (regL_perm_writtenL b h.1).append (regL_perm_writtenL o h.2)
  | withS b =>
    simp only [descended] at h
    simp only [reg, written]
    exact regL_perm_writtenL b h
  | tryS b hd o f =>
    simp only [descended, Bool.and_eq_true] at h
    obtain ⟨⟨⟨hb, hh⟩, ho⟩, hf⟩ := h
    simp only [reg, written]
    exact (regL_perm_writtenL b hb).append
      (((regL_perm_writtenL o ho).append ((regL_perm_writtenL f hf).append (regL_perm_writtenL hd hh))).trans
        (try_shuffle _ _ _))
  | matchS c =>
    simp only [descended] at h
    simp only [reg, written]
    exact regL_perm_writtenL c h
  | noVisit k => simp [descended] at h
theorem regL_perm_writtenL (l : List (Blk α)) (h : descendedL l = true) : (regL l).Perm (writtenL l) := by
  cases l with
  | nil => simp [regL, writtenL]
  | cons x r =>
    simp only [descendedL, Bool.and_eq_true] at h
    simp only [regL, writtenL]
    exact (reg_perm_written x h.1).append (regL_perm_writtenL r h.2)
end

mutual
theorem reg_sub_written (b : Blk α) : ∀ a ∈ reg b, a ∈ written b := by
  intro a ha
  cases b with
  | leaf x => simpa [reg, written] using ha
  | ifS b o =>
    simp only [reg, written, List.mem_append] at ha ⊢
    exact ha.imp (regL_sub_writtenL b a) (regL_sub_writtenL o a)
  | loopS b o =>
    simp only [reg, written, List.mem_append] at ha ⊢
    exact ha.imp (regL_sub_writtenL b a) (regL_sub_writtenL o a)
  | withS b =>
    simp only [reg, written] at ha ⊢
    exact regL_sub_writtenL b a ha
  | tryS b hd o f =>
    simp only [reg, written, List.mem_append] at ha ⊢
    rcases ha with h | h | h | h
    · exact .inl (regL_sub_writtenL b a h)
    · exact .inr (.inr (.inl (regL_sub_writtenL o a h)))
    · exact .inr (.inr (.inr (regL_sub_writtenL f a h)))
    · exact .inr (.inl (regL_sub_writtenL hd a h))
  | matchS c =>
    simp only [reg, written] at ha ⊢
    exact regL_sub_writtenL c a ha
  | noVisit k => simp [reg] at ha
theorem regL_sub_writtenL (l : List (Blk α)) : ∀ a ∈ regL l, a ∈ writtenL l := by
  intro a ha
  cases l with
  | nil => simp [regL] at ha
  | cons x r =>
    simp only [regL, writtenL, List.mem_append] at ha ⊢
    exact ha.imp (reg_sub_written x a) (regL_sub_writtenL r a)
end

mutual
theorem reg_eq_written (b : Blk α) (h : tryFree b = true) : reg b = written b := by
  cases b with
  | leaf a => simp [reg, written]
  | ifS b o =>
    simp only [tryFree, Bool.and_eq_true] at h
    simp only [reg, written, regL_eq_writtenL b h.1, regL_eq_writtenL o h.2]
  | loopS b o =>
    simp only [tryFree, Bool.and_eq_true] at h
    simp only [reg, written, regL_eq_writtenL b h.1, regL_eq_writtenL o h.2]
  | withS b =>
    simp only [tryFree] at h
    simp only [reg, written, regL_eq_writtenL b h]
  | tryS b hd o f => simp [tryFree] at h
  | matchS c =>
    simp only [tryFree] at h
    simp only [reg, written, regL_eq_writtenL c h]
  | noVisit k => simp [tryFree] at h
theorem regL_eq_writtenL (l : List (Blk α)) (h : tryFreeL l = true) : regL l = writtenL l := by
  cases l with
  | nil => simp [regL, writtenL]
  | cons x r =>
    simp only [tryFreeL, Bool.and_eq_true] at h
    simp only [regL, writtenL, reg_eq_written x h.1, regL_eq_writtenL r h.2]
end

/-- **C12, every module-level block position is an edge.** In a module body made of import statements and
of `if` / `for` / `while` / `with` / `try` / `try … except*` / `match` statements nested to any depth, every import
symbol written anywhere (in an `else`, an `elif`, a handler, a `finally`, a `case`, …) is registered in the root context — and so put
on the queue of the import loop — exactly as often as it is written. -/
theorem C12_every_block_position_is_an_edge (l : List (Blk α)) (h : descendedL l = true) :
    (regL l).Perm (writtenL l) ∧ ∀ a, a ∈ writtenL l ↔ a ∈ regL l :=
  ⟨regL_perm_writtenL l h, fun _ => (regL_perm_writtenL l h).mem_iff.symm⟩

/-- Nothing is invented: whatever the statements of a module are, a registered import symbol is a written
one. -/
theorem C12_registered_are_written (l : List (Blk α)) : ∀ a ∈ regL l, a ∈ writtenL l :=
  regL_sub_writtenL l

/-- Without `try` statements the order of registration (the order of the queue) is the source order. -/
theorem C12_block_order_is_source_order (l : List (Blk α)) (h : tryFreeL l = true) : regL l = writtenL l :=
  regL_eq_writtenL l h

/-- **…as edges of the graph.** A file whose statement list is what `register_stmts` makes of its block tree
`t` (all of it descended into): its edges in rattr's graph are, as a set, Python's edges of ALL import
statements written in it (`C12_edge_like_python` per statement). -/
theorem C12_block_edges_like_python {ω : Type} (ex : Locator.Dotted → Bool) (p : Edges.PFile ω) (t : List (Blk Edges.Stmt))
    (hp : p.stmts = regL t) (hd : descendedL t = true) (hwf : ∀ s ∈ writtenL t, Edges.wf p.src s = true) :
    ∀ i, i ∈ (Edges.toModule ex p).imports ↔ i ∈ (writtenL t).map (Edges.pyImpOf ex p.src) := by
  intro i
  have hperm := (regL_perm_writtenL t hd).map (Edges.impOf ex p.src)
  have hmap : (writtenL t).map (Edges.impOf ex p.src) = (writtenL t).map (Edges.pyImpOf ex p.src) := by
    apply List.map_congr_left
    intro s hs
    exact C12_edge_like_python ex p.src s (hwf s hs)
  simp only [Edges.toModule, hp]
  rw [← hmap]
  exact hperm.mem_iff

/-- **C12, `match` cases and `except*` handlers are edges too** (the code since /repo 6e8e4cc; before it:
`C12_cex_import_inside_match_before_6e8e4cc`). A module body built from import statements and `if` / `for` /
`while` / `with` / `try` / `try … except*` / `match` statements, nested to any depth — i.e. anything but a
class / function body: every import symbol written in a `case` body or an `except*` handler (or anywhere else)
is registered exactly as often as it is written. For `match x: case 0: import a` followed by `import b`:
both, in source order. -/
theorem C12_match_cases_and_except_star_are_edges (cs : List (List (Blk α))) (b h o f rest : List (Blk α))
    (hc : descendedL cs.flatten = true) (hb : descendedL b = true) (hh : descendedL h = true)
    (ho : descendedL o = true) (hf : descendedL f = true) (hr : descendedL rest = true) :
    (∀ a, a ∈ writtenL (Blk.matchS cs.flatten :: Blk.tryS b h o f :: rest) ↔
          a ∈ regL (Blk.matchS cs.flatten :: Blk.tryS b h o f :: rest)) ∧
    regL [Blk.matchS [Blk.leaf (0 : Nat)], Blk.leaf 1] = [0, 1] := by
  constructor
  · have hd : descendedL (Blk.matchS cs.flatten :: Blk.tryS b h o f :: rest) = true := by
      simp [descendedL, descended, hc, hb, hh, ho, hf, hr]
    exact (C12_every_block_position_is_an_edge _ hd).2
  · simp [regL, reg]

/-- **Counterexample, the code before /repo 6e8e4cc** (known finding `:match`, status fixed): without a
`visit_Match` the statement `match x: case 0: import a` followed by `import b` registered `b` only — a module
reachable only through `a` was never analysed. (`try … except*` was lost in the same way: no `visit_TryStar`.) -/
theorem C12_cex_import_inside_match_before_6e8e4cc :
    regL (before6e8e4ccL [Blk.matchS [Blk.leaf 0], Blk.leaf 1]) = [1] ∧
    (0 : Nat) ∈ writtenL (before6e8e4ccL [Blk.matchS [Blk.leaf 0], Blk.leaf 1]) ∧
    regL [Blk.matchS [Blk.leaf 0], Blk.leaf 1] = [0, 1] := by
  refine ⟨by simp [before6e8e4ccL, before6e8e4cc, regL, reg], by simp [before6e8e4ccL, before6e8e4cc, writtenL, written],
    by simp [regL, reg]⟩

/-- **Counterexample (defect of the pinned code).** `class K: import a` followed by `import b`: `a` is written
(Python executes a class body when it imports the module) and is not registered — `visit_ClassDef` adds the
class and does not descend (`Blk.noVisit`); a module reachable only through it is never analysed. -/
theorem C12_cex_import_inside_class_body :
    regL [Blk.noVisit [Blk.leaf 0], Blk.leaf 1] = [1] ∧ (0 : Nat) ∈ writtenL [Blk.noVisit [Blk.leaf 0], Blk.leaf 1] ∧
    ¬ (∀ (l : List (Blk Nat)) a, a ∈ writtenL l → a ∈ regL l) := by
  refine ⟨by simp [regL, reg], by simp [writtenL, written], ?_⟩
  intro h
  have := h [Blk.noVisit [Blk.leaf 0], Blk.leaf 1] 0 (by simp [writtenL, written])
  simp [regL, reg] at this

/-- non-vacuity: `if c: import 0 / elif d: import 1 / else: try: import 2 / except: import 3 / else: import 4 /
finally: import 5` — all six registered, the handler's last -/
example : descendedL [Blk.ifS [Blk.leaf 0] [Blk.ifS [Blk.leaf 1]
      [Blk.tryS [Blk.leaf 2] [Blk.leaf 3] [Blk.leaf 4] [Blk.leaf 5]]]] = true ∧
    regL [Blk.ifS [Blk.leaf 0] [Blk.ifS [Blk.leaf 1]
      [Blk.tryS [Blk.leaf 2] [Blk.leaf 3] [Blk.leaf 4] [Blk.leaf 5]]]] = [0, 1, 2, 4, 5, 3] := by
  simp [descendedL, descended, regL, reg]

end BlockTheorems

/-! ### Configuration discovery: WHICH pyproject.toml is the project's

`find_project_root` (rattr/config/_util.py; model `Cli.findPyproject`): the working directory if it is a
project root (has pyproject.toml / .git / .hg / .svn), else the NEAREST ancestor that is one. With nested
roots (a repository with `.git` — or another project's pyproject.toml — above a project that has its own
pyproject.toml) the inner project's `[tool.rattr]` table applies, wherever below the inner root rattr is
started; nothing above the nearest root plays any role. -/

section DiscoveryTheorems
open Rattr.Cli

/-- the source of the three functions, statement by statement -/
def projectRootOps : List String :=
  ["_is_project_root: if not path.is_dir()", "_is_project_root: return False", "_is_project_root: endif",
   "_is_project_root: is_python_project = (path / 'pyproject.toml').is_file()",
   "_is_project_root: is_git_repo = (path / '.git').exists()",
   "_is_project_root: is_mercurial_repo = (path / '.hg').is_dir()",
   "_is_project_root: is_apache_svn_repo = (path / '.svn').is_dir()",
   "_is_project_root: return is_python_project or is_git_repo or is_mercurial_repo or is_apache_svn_repo",
   "find_project_root: cwd = Path.cwd().resolve()", "find_project_root: if _is_project_root(cwd)",
   "find_project_root: return cwd", "find_project_root: endif",
   "find_project_root: for dir in (dir for dir in cwd.parents if _is_project_root(dir))",
   "find_project_root: return dir", "find_project_root: endfor", "find_project_root: return cwd",
   "find_pyproject_toml: pyproject_toml = find_project_root() / 'pyproject.toml'",
   "find_pyproject_toml: if pyproject_toml.is_file()", "find_pyproject_toml: return pyproject_toml",
   "find_pyproject_toml: endif", "find_pyproject_toml: return None"]

theorem tieA_project_root : Generated.C12.projectRootOps = projectRootOps := by decide

theorem find_first_root (pre post : List Dir) (d : Dir) (hpre : ∀ x ∈ pre, x.isRoot = false) (hd : d.isRoot = true) :
    (pre ++ d :: post).find? Dir.isRoot = some d := by
  induction pre with
  | nil => simp [hd]
  | cons x r ih =>
    have hx := hpre x (List.mem_cons_self ..)
    simp only [List.cons_append, List.find?, hx]
    exact ih (fun y hy => hpre y (List.mem_cons_of_mem _ hy))

/-- **The nearest root wins.** rattr started in a directory that is not a root; `d` the nearest ancestor that
is one: the project's TOML is `d`'s (none if `d` has no pyproject.toml) — whatever lies above `d`. -/
theorem C12_nearest_root_wins (w : World) (pre post : List Dir) (d : Dir) (hc : w.cwd.isRoot = false)
    (hp : w.parents = pre ++ d :: post) (hpre : ∀ x ∈ pre, x.isRoot = false) (hd : d.isRoot = true) :
    findPyproject w = d.pyproject := by
  simp [findPyproject, hc, hp, find_first_root pre post d hpre hd]

/-- Started in the inner root itself: its own pyproject.toml, whatever any ancestor has. -/
theorem C12_cwd_root_wins (w : World) (h : w.cwd.isRoot = true) (ps : List Dir) :
    findPyproject { w with parents := ps } = w.cwd.pyproject := by
  simp [findPyproject, h]

/-- Two worlds that differ only ABOVE the nearest project root (or anywhere above a working directory that is
itself a root). -/
def SameBelowNearestRoot (w w' : World) : Prop :=
  w.overrideFile = w'.overrideFile ∧ w.cwd = w'.cwd ∧
  (w.cwd.isRoot = true ∨
    ∃ pre d post post', w.parents = pre ++ d :: post ∧ w'.parents = pre ++ d :: post' ∧
      (∀ x ∈ pre, x.isRoot = false) ∧ d.isRoot = true)

theorem findPyproject_same (w w' : World) (h : SameBelowNearestRoot w w') : findPyproject w = findPyproject w' := by
  obtain ⟨_, hc, h⟩ := h
  rcases h with h | ⟨pre, d, post, post', hp, hp', hpre, hd⟩
  · have h' : w'.cwd.isRoot = true := hc ▸ h
    simp [findPyproject, h', hc]
  · cases hr : w.cwd.isRoot with
    | true =>
      have h' : w'.cwd.isRoot = true := hc ▸ hr
      simp [findPyproject, h', hc]
    | false =>
      have h' : w'.cwd.isRoot = false := hc ▸ hr
      rw [C12_nearest_root_wins w pre post d hr hp hpre hd, C12_nearest_root_wins w' pre post' d h' hp' hpre hd]

/-- **Outer roots play no role**, for the whole configuration stage: same outcome of `parse_arguments` (same
namespace, same error), hence the same level, the same patterns. -/
theorem C12_outer_roots_irrelevant (w w' : World) (h : SameBelowNearestRoot w w') (argv : List Text) (eoe : Bool) :
    parseArguments w none argv eoe = parseArguments w' none argv eoe ∧ selectedToml w argv = selectedToml w' argv := by
  have hf := findPyproject_same w w' h
  have ho : ∀ ns, getOverride w ns = getOverride w' ns := by
    intro ns; simp only [getOverride, h.1]
  constructor
  · simp only [parseArguments, hf, ho]
  · simp only [selectedToml, hf, ho]

/-- **…and for the stage.** The import loop runs with the same flags on the same graph: the modules analysed
do not depend on anything above the nearest project root. -/
theorem C12_stage_ignores_outer_roots (w w' : World) (h : SameBelowNearestRoot w w') (argv : List Text)
    (g : Graph ν ω) (target : List (Imp ν)) : stage w argv g target = stage w' argv g target := by
  simp only [stage, (C12_outer_roots_irrelevant w w' h argv true).1]

/-- non-vacuity (the layout of the seeded change): cwd `…/api/src` (nothing), parent `…/api` with the inner
pyproject.toml, above it the repository (`.git`) and, further up, another project's pyproject.toml -/
example : findPyproject (World.mk none (Dir.mk false none)
      [Dir.mk false (some (.table [(followKey, .sc (.int 0))])), Dir.mk true none,
       Dir.mk false (some (.table [(followKey, .sc (.int 3))]))])
    = some (.table [(followKey, .sc (.int 0))]) := by decide

end DiscoveryTheorems

end Rattr.C12

/-
  C04 — call-site arguments are bound to parameters exactly as Python binds them.

  Model: `Swaps.construct` (RattrModel/Swaps.lean) = `construct_call_swaps`.
  Spec:  `Spec.pyBind`     (RattrModel/Spec/PyBind.lean) = CPython's binding rule.

  Full statement (`C04_full`) is NOT a theorem of the pinned code: three classes of calls violate it
  (`C04_cex_*`, each replayed on the implementation and listed in known_findings.json). What is
  proved for all signatures and calls, with no size bound:
    * every arity rejection class of Python is diagnosed (`C04_posonly_short`, `C04_too_many`,
      `C04_unexpected_keyword`, `C04_multiple_values`);
    * positional calls bind exactly the i-th parameter to the i-th argument with no diagnostic
      (`C04_positional`), `*args` is always mapped to the tuple stand-in (`C04_vararg`);
    * a keyword naming a still-unfilled positional-or-keyword / keyword-only parameter binds it
      to that argument (`C04_keyword_binds`).
-/
import RattrModel.Swaps
import RattrModel.Spec.PyBind
import RattrModel.Generated.C04

namespace Rattr.C04
open Rattr Rattr.Swaps

variable {α : Type} [DecidableEq α]

/-! ### Tie A: the tables the model hard-codes are what the source says now -/

theorem tieA_all_order :
    Generated.C04.ifaceAllOrder = ["posonly", "args", "vararg", "kwonly", "kwarg"] := by decide

theorem tieA_standins :
    Generated.C04.varargStandIn = "@Tuple" ∧ Generated.C04.kwargStandIn = "@Dict" := by decide

/-! ### The full statement (kept visible; false on the pinned tree) -/

def SameMap (a b : Dict α α) : Prop := ∀ k, Dict.get? a k = Dict.get? b k

/-- C04 at one (signature, call): accepted ⇒ swaps are Python's binding plus stand-ins and there is
no diagnostic; rejected for an arity reason other than a missing argument ⇒ some diagnostic. -/
def C04_at (si : StandIns α) (s : Spec.Sig α) (c : CallArgs α) : Prop :=
  match Spec.pyBind s c with
  | .ok b => (construct si s.iface c).2 = [] ∧
             SameMap (construct si s.iface c).1 (Spec.expectedSwaps si s b)
  | .error .missingRequired => True     -- [interp] not decidable without defaults
  | .error _ => (construct si s.iface c).2 ≠ []

def C04_full : Prop :=
  ∀ (si : StandIns Nat) (s : Spec.Sig Nat) (c : CallArgs Nat),
    (s.iface.all).Nodup → (c.kwargs.map Prod.fst).Nodup → C04_at si s c

/-! ### Counterexamples (one per known finding), closed by kernel evaluation -/

private def siN : StandIns Nat := { tuple := 100, dict := 101 }

/-- `def callee(a, /, **kw)`; `callee(x, a=y)`: Python accepts, rattr diagnoses. -/
theorem C04_cex_kwarg_clash :
    Spec.pyBind (α := Nat) { posonly := [⟨1, false⟩], args := [], vararg := none, kwonly := [], kwarg := some 9 }
        { args := [50], kwargs := [(1, 51)] }
      = .ok { explicit := [(1, 50)], varargGot := [], kwargGot := [(1, 51)] }
    ∧ (construct siN { posonly := [1], args := [], vararg := none, kwonly := [], kwarg := some 9 }
        { args := [50], kwargs := [(1, 51)] }).2 = [SwapDiag.byPositionAndName [1]] := by
  decide

/-- `def callee(a, b=0, /)`; `callee(x)`: Python accepts, rattr drops every swap and diagnoses. -/
theorem C04_cex_posonly_default :
    Spec.pyBind (α := Nat) { posonly := [⟨1, false⟩, ⟨2, true⟩], args := [], vararg := none, kwonly := [], kwarg := none }
        { args := [50], kwargs := [] }
      = .ok { explicit := [(1, 50)], varargGot := [], kwargGot := [] }
    ∧ construct siN { posonly := [1, 2], args := [], vararg := none, kwonly := [], kwarg := none }
        { args := [50], kwargs := [] } = ([], [SwapDiag.posonlyShort]) := by
  decide

/-- `def callee(**kw)`; `callee()`: the `**kw` parameter is left unmapped. -/
theorem C04_cex_kwarg_empty :
    construct siN { posonly := [], args := [], vararg := none, kwonly := [], kwarg := some 9 }
        { args := [], kwargs := [] } = ([], [])
    ∧ Spec.expectedSwaps siN (α := Nat) { posonly := [], args := [], vararg := none, kwonly := [], kwarg := some 9 }
        { explicit := [], varargGot := [], kwargGot := [] } = [(9, 101)] := by
  decide

theorem C04_full_false : ¬ C04_full := by
  intro h
  have h1 := h siN { posonly := [⟨1, false⟩], args := [], vararg := none, kwonly := [], kwarg := some 9 }
    { args := [50], kwargs := [(1, 51)] } (by decide) (by decide)
  have hc := C04_cex_kwarg_clash
  unfold C04_at at h1
  rw [hc.1] at h1
  have h2 : (construct siN (Spec.Sig.iface (α := Nat)
      { posonly := [⟨1, false⟩], args := [], vararg := none, kwonly := [], kwarg := some 9 })
      { args := [50], kwargs := [(1, 51)] }).2 = [SwapDiag.byPositionAndName [1]] := hc.2
  rw [h2] at h1
  exact absurd h1.1 (by decide)

/-! ### Lemmas on the positional phases -/

theorem bindPosonly_none (ps cargs : List α) (sw : Dict α α) :
    cargs.length < ps.length → bindPosonly ps cargs sw = none := by
  induction ps generalizing cargs sw with
  | nil => intro h; simp at h
  | cons p ps ih =>
    intro h
    cases cargs with
    | nil => rfl
    | cons a as =>
      simp only [bindPosonly]
      apply ih
      simpa using h

theorem bindPosonly_some (ps cargs : List α) (sw : Dict α α) :
    ps.length ≤ cargs.length →
    ∃ sw', bindPosonly ps cargs sw = some (sw', cargs.drop ps.length) := by
  induction ps generalizing cargs sw with
  | nil => intro _; exact ⟨sw, rfl⟩
  | cons p ps ih =>
    intro h
    cases cargs with
    | nil => simp at h
    | cons a as =>
      simp only [bindPosonly, List.length_cons, List.drop_succ_cons]
      apply ih
      simpa using h

theorem bindArgs_rest (ps cargs : List α) (sw : Dict α α) :
    (bindArgs ps cargs sw).2.2 = cargs.drop ps.length ∧
    (bindArgs ps cargs sw).2.1 = ps.drop cargs.length := by
  induction ps generalizing cargs sw with
  | nil => cases cargs <;> simp [bindArgs]
  | cons p ps ih =>
    cases cargs with
    | nil => simp [bindArgs]
    | cons a as =>
      simp only [bindArgs, List.length_cons, List.drop_succ_cons]
      exact ih as _

/-! ### Rejections are diagnosed -/

/-- Fewer positionals than positional-only parameters: diagnosed, and nothing is bound. -/
theorem C04_posonly_short (si : StandIns α) (f : Iface α) (c : CallArgs α)
    (h : c.args.length < f.posonly.length) :
    construct si f c = ([], [SwapDiag.posonlyShort]) := by
  unfold construct
  rw [bindPosonly_none _ _ _ h]

/-- More positionals than positional parameters and no `*args`: "too many positional arguments"
is diagnosed whatever the keywords are. -/
theorem C04_too_many (si : StandIns α) (f : Iface α) (c : CallArgs α)
    (hv : f.vararg = none)
    (h : f.posonly.length + f.args.length < c.args.length) :
    SwapDiag.tooManyPositional ∈ (construct si f c).2 := by
  unfold construct
  obtain ⟨sw', hsw⟩ := bindPosonly_some f.posonly c.args [] (by omega)
  rw [hsw]
  have hr := (bindArgs_rest f.args (c.args.drop f.posonly.length) sw').1
  simp only [hv]
  generalize hb : bindArgs f.args (List.drop f.posonly.length c.args) sw' = r at hr
  obtain ⟨sw2, ia, ca⟩ := r
  simp only at hr
  have hne : ca ≠ [] := by
    rw [hr]
    intro hnil
    have := congrArg List.length hnil
    simp at this
    omega
  simp [hne]

end Rattr.C04

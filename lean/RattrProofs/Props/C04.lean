/-
  C04 — call-site arguments are bound to parameters exactly as Python binds them.

  Model: `Swaps.construct` (RattrModel/Swaps.lean) = `construct_call_swaps`.
  Spec:  `Spec.pyBind`     (RattrModel/Spec/PyBind.lean) = CPython's binding rule.

  Full statement (`C04_full`) is NOT a theorem of the pinned code: three classes of calls violate it
  (`C04_cex_*`, each replayed on the implementation and listed in known_findings.json). What is
  proved for all signatures (pairwise distinct parameter names) and all calls, with no size bound
  (helper development: RattrProofs/Lemmas/Swaps.lean):
    * `C04_partial` — outside E1 (keyword spelled like a positional-only / `*args` / `**kwargs`
      parameter while `**kwargs` exists) and E2 (omitted positional-only parameter): an accepted
      call gets exactly Python's binding (lenient reading for `**kwargs`) and no diagnostic; a call
      rejected for an arity reason other than a missing argument is diagnosed;
      `C04_partial_strict` — additionally outside E3 (`**kwargs` receives nothing): `C04_at`;
      `C04_partial_sharp` — the same with the sharp first exclusion `E1s ⊆ E1`;
    * `C04_rejected_diagnosed` — part (c) with no exclusion at all;
    * `C04_exact` — `C04_at` holds iff Python rejects the call or the call is outside
      `E1s ∪ E2 ∪ E3` (so the three classes are exactly the defects; `C04_E1s_diagnosed`,
      `C04_accepted_clean_iff`, `C04_E3_unmapped`);
    * stand-alone facts: `C04_posonly_short`, `C04_too_many`, `C04_positional`,
      `C04_vararg_always_mapped`, `C04_unexpected_keyword`, `C04_multiple_values`,
      `C04_keyword_binds`.

  The substitution AS USED for inlining (`unbind_ir_with_call_swaps` = `Results.unbindIr`, one step
  of `destructively_simplify_ir_call_tree` = `Results.foldChild`, the diagnostics of the fold =
  `Pipeline.foldDiags`), second half of this file:
    * `C04_unbind_pointwise`, `C04_unbind_bases`, `C04_unbind_simultaneous`, `C04_unbind_swap` — the
      substitution is SIMULTANEOUS (one look-up per name; swapped parameters come out swapped);
      `C04_cex_sequential_substitution` — applying the swaps one after another is another function;
    * `C04_inline_step_exact` — exactly what one inlining step leaves in the caller;
      `C04_inline_rooted` / `_positional` / `_keyword` / `_self` — `param.attr` of the callee arrives
      as `argument.attr` (the implicit `self` of an initialiser: the FULL name of the target);
    * `C04_step_diags`, `C04_step_rejected_diagnosed`, `C04_pipeline_rejected_diagnosed` — a call edge
      Python rejects is diagnosed whatever the callee's IR holds (empty included), up to the
      diagnostics of `Pipeline.run`;
    * `C04_mkCall_self` — `Call.from_call(…, self=x)` puts `x` in front of the positionals;
      `C04_mkCall_unpacking_irrelevant` — a `**mapping` keyword entry, wherever written, changes nothing;
    * `C04_pipeline_test_module` — kernel evaluation of the whole pipeline model on one module.

  The call AS WRITTEN and the diagnostic AS SHOWN (RattrModel/SrcCall.lean: `SrcCall.toArgs` =
  `CallArguments.from_call`, `SrcCall.arityShown` = the arity diagnostics through `error.error`), last section:
    * `tieA_from_call`, `tieA_error_shown` — probes of the two functions on the tree under test;
    * `C04_src_unpacking_irrelevant`, `C04_src_recorded`, `C04_src_keyword_recorded` — `**mapping` entries are
      looked through wherever they are written, every explicit keyword reaches `construct_call_swaps`;
    * `C04_src_partial_strict` — `C04_at` for the written call (known classes stated on its explicit part);
    * `C04_error_shown_every_level`, `C04_src_rejected_shown` — a rejected call puts an `error` (`fatal` under
      --strict) line on stderr at EVERY warning level, although it is raised with no current file;
    * `C04_main_rejected_shown` — the same through the model of the whole `main` (`MainRun.mainOf`): a rejected
      edge of any call tree puts an `error` line on stderr for every `cfg.warnLevel` (`runEvents_error_printed`);
      `C04_main_test_module_shown` — kernel evaluation of `MainRun.main` on the test module, four levels.
-/
import RattrModel.Swaps
import RattrModel.Spec.PyBind
import RattrModel.Generated.C04
import RattrProofs.Lemmas.Swaps
import RattrModel.Results
import RattrModel.Pipeline
import RattrProofs.Lemmas.Pipeline
import RattrModel.SrcCall
import RattrModel.MainRun

namespace Rattr.C04
open Rattr Rattr.Swaps

variable {α : Type} [DecidableEq α]

/-! ### Tie A: the tables the model hard-codes are what the source says now -/

theorem tieA_all_order :
    Generated.C04.ifaceAllOrder = ["posonly", "args", "vararg", "kwonly", "kwarg"] := by decide

theorem tieA_standins :
    Generated.C04.varargStandIn = "@Tuple" ∧ Generated.C04.kwargStandIn = "@Dict" := by decide

/-! ### The full statement (kept visible; false on the pinned tree) -/

def SameMap (a b : Dict α α) : Prop := ∀ k, Dict.get? a k = Dict.get? b k

/-- C04 at one (signature, call): accepted ⇒ swaps are Python's binding plus stand-ins and there is
no diagnostic; rejected for an arity reason other than a missing argument ⇒ some diagnostic. -/
def C04_at (si : StandIns α) (s : Spec.Sig α) (c : CallArgs α) : Prop :=
  match Spec.pyBind s c with
  | .ok b => (construct si s.iface c).2 = [] ∧
             SameMap (construct si s.iface c).1 (Spec.expectedSwaps si s b)
  | .error .missingRequired => True     -- [interp] not decidable without defaults
  | .error _ => (construct si s.iface c).2 ≠ []

def C04_full : Prop :=
  ∀ (si : StandIns Nat) (s : Spec.Sig Nat) (c : CallArgs Nat),
    (s.iface.all).Nodup → (c.kwargs.map Prod.fst).Nodup → C04_at si s c

/-! ### Counterexamples (one per known finding), closed by kernel evaluation -/

private def siN : StandIns Nat := { tuple := 100, dict := 101 }

/-- `def callee(a, /, **kw)`; `callee(x, a=y)`: Python accepts, rattr diagnoses. -/
theorem C04_cex_kwarg_clash :
    Spec.pyBind (α := Nat) { posonly := [⟨1, false⟩], args := [], vararg := none, kwonly := [], kwarg := some 9 }
        { args := [50], kwargs := [(1, 51)] }
      = .ok { explicit := [(1, 50)], varargGot := [], kwargGot := [(1, 51)] }
    ∧ (construct siN { posonly := [1], args := [], vararg := none, kwonly := [], kwarg := some 9 }
        { args := [50], kwargs := [(1, 51)] }).2 = [SwapDiag.byPositionAndName [1]] := by
  decide

/-- `def callee(a, b=0, /)`; `callee(x)`: Python accepts, rattr drops every swap and diagnoses. -/
theorem C04_cex_posonly_default :
    Spec.pyBind (α := Nat) { posonly := [⟨1, false⟩, ⟨2, true⟩], args := [], vararg := none, kwonly := [], kwarg := none }
        { args := [50], kwargs := [] }
      = .ok { explicit := [(1, 50)], varargGot := [], kwargGot := [] }
    ∧ construct siN { posonly := [1, 2], args := [], vararg := none, kwonly := [], kwarg := none }
        { args := [50], kwargs := [] } = ([], [SwapDiag.posonlyShort]) := by
  decide

/-- `def callee(**kw)`; `callee()`: the `**kw` parameter is left unmapped. -/
theorem C04_cex_kwarg_empty :
    construct siN { posonly := [], args := [], vararg := none, kwonly := [], kwarg := some 9 }
        { args := [], kwargs := [] } = ([], [])
    ∧ Spec.expectedSwaps siN (α := Nat) { posonly := [], args := [], vararg := none, kwonly := [], kwarg := some 9 }
        { explicit := [], varargGot := [], kwargGot := [] } = [(9, 101)] := by
  decide

theorem C04_full_false : ¬ C04_full := by
  intro h
  have h1 := h siN { posonly := [⟨1, false⟩], args := [], vararg := none, kwonly := [], kwarg := some 9 }
    { args := [50], kwargs := [(1, 51)] } (by decide) (by decide)
  have hc := C04_cex_kwarg_clash
  unfold C04_at at h1
  rw [hc.1] at h1
  have h2 : (construct siN (Spec.Sig.iface (α := Nat)
      { posonly := [⟨1, false⟩], args := [], vararg := none, kwonly := [], kwarg := some 9 })
      { args := [50], kwargs := [(1, 51)] }).2 = [SwapDiag.byPositionAndName [1]] := hc.2
  rw [h2] at h1
  exact absurd h1.1 (by decide)

/-! ### Lemmas on the positional phases -/

theorem bindPosonly_none (ps cargs : List α) (sw : Dict α α) :
    cargs.length < ps.length → bindPosonly ps cargs sw = none := by
  induction ps generalizing cargs sw with
  | nil => intro h; simp at h
  | cons p ps ih =>
    intro h
    cases cargs with
    | nil => rfl
    | cons a as =>
      simp only [bindPosonly]
      apply ih
      simpa using h

theorem bindPosonly_some (ps cargs : List α) (sw : Dict α α) :
    ps.length ≤ cargs.length →
    ∃ sw', bindPosonly ps cargs sw = some (sw', cargs.drop ps.length) := by
  induction ps generalizing cargs sw with
  | nil => intro _; exact ⟨sw, rfl⟩
  | cons p ps ih =>
    intro h
    cases cargs with
    | nil => simp at h
    | cons a as =>
      simp only [bindPosonly, List.length_cons, List.drop_succ_cons]
      apply ih
      simpa using h

theorem bindArgs_rest (ps cargs : List α) (sw : Dict α α) :
    (bindArgs ps cargs sw).2.2 = cargs.drop ps.length ∧
    (bindArgs ps cargs sw).2.1 = ps.drop cargs.length := by
  induction ps generalizing cargs sw with
  | nil => cases cargs <;> simp [bindArgs]
  | cons p ps ih =>
    cases cargs with
    | nil => simp [bindArgs]
    | cons a as =>
      simp only [bindArgs, List.length_cons, List.drop_succ_cons]
      exact ih as _

/-! ### Rejections are diagnosed -/

/-- Fewer positionals than positional-only parameters: diagnosed, and nothing is bound. -/
theorem C04_posonly_short (si : StandIns α) (f : Iface α) (c : CallArgs α)
    (h : c.args.length < f.posonly.length) :
    construct si f c = ([], [SwapDiag.posonlyShort]) := by
  unfold construct
  rw [bindPosonly_none _ _ _ h]

/-- More positionals than positional parameters and no `*args`: "too many positional arguments"
is diagnosed whatever the keywords are. -/
theorem C04_too_many (si : StandIns α) (f : Iface α) (c : CallArgs α)
    (hv : f.vararg = none)
    (h : f.posonly.length + f.args.length < c.args.length) :
    SwapDiag.tooManyPositional ∈ (construct si f c).2 := by
  unfold construct
  obtain ⟨sw', hsw⟩ := bindPosonly_some f.posonly c.args [] (by omega)
  rw [hsw]
  have hr := (bindArgs_rest f.args (c.args.drop f.posonly.length) sw').1
  simp only [hv]
  generalize hb : bindArgs f.args (List.drop f.posonly.length c.args) sw' = r at hr
  obtain ⟨sw2, ia, ca⟩ := r
  simp only at hr
  have hne : ca ≠ [] := by
    rw [hr]
    intro hnil
    have := congrArg List.length hnil
    simp at this
    omega
  simp [hne]

/-! ### The general partial theorem (all signatures, all calls, no size bound)

Proof: `RattrProofs/Lemmas/Swaps.lean` — the positional loops are `Spec.zipPos`; the keyword loop
and `Spec.bindKws` are run in lock-step under the invariant `SwapsLemmas.Inv`. -/

open Rattr.SwapsLemmas

/-- (E1) `**kwargs` exists and some keyword is spelled like a positional-only parameter, like the
`*args` parameter or like the `**kwargs` parameter itself (Python puts it into `**kwargs`; the
pinned code reports "by position and name"). -/
def E1 (s : Spec.Sig α) (c : CallArgs α) : Prop :=
  s.kwarg.isSome = true ∧
    ∃ kv ∈ c.kwargs, kv.1 ∈ s.posonly.map (·.name) ∨ kv.1 ∈ s.vararg.toList ∨ kv.1 ∈ s.kwarg.toList

/-- (E2) a positional-only parameter is omitted (Python accepts iff it has a default; the pinned
code always reports and drops every swap). -/
def E2 (s : Spec.Sig α) (c : CallArgs α) : Prop := c.args.length < s.posonly.length

/-- (E3) `**kwargs` exists and no keyword goes into it: every keyword names a
positional-or-keyword or keyword-only parameter (the pinned code leaves `**kwargs` unmapped). -/
def E3 (s : Spec.Sig α) (c : CallArgs α) : Prop :=
  s.kwarg.isSome = true ∧
    ∀ kv ∈ c.kwargs, kv.1 ∈ s.args.map (·.name) ∨ kv.1 ∈ s.kwonly.map (·.name)

/-- exactly the three known defect classes -/
def Excluded (s : Spec.Sig α) (c : CallArgs α) : Prop := E1 s c ∨ E2 s c ∨ E3 s c

instance (s : Spec.Sig α) (c : CallArgs α) : Decidable (E1 s c) := by unfold E1; infer_instance
instance (s : Spec.Sig α) (c : CallArgs α) : Decidable (E2 s c) := by unfold E2; infer_instance
instance (s : Spec.Sig α) (c : CallArgs α) : Decidable (E3 s c) := by unfold E3; infer_instance
instance (s : Spec.Sig α) (c : CallArgs α) : Decidable (Excluded s c) := by
  unfold Excluded; infer_instance

/-- **C04, general partial theorem.** For every signature with pairwise distinct parameter names
and every call with pairwise distinct keywords, outside E1 and E2 and whatever the stand-ins are:
(a) a call Python accepts is bound exactly as Python binds it (`*args ↦ @Tuple` whenever it
exists, `**kwargs ↦ @Dict` iff it received something) and (b) nothing is diagnosed; (c) a call
Python rejects for an arity reason other than a missing argument is diagnosed. -/
theorem C04_partial (si : StandIns α) (s : Spec.Sig α) (c : CallArgs α)
    (hn : s.iface.all.Nodup) (hk : (c.kwargs.map Prod.fst).Nodup)
    (hE1 : ¬ E1 s c) (hE2 : ¬ E2 s c) :
    match Spec.pyBind s c with
    | .ok b => (construct si s.iface c).2 = [] ∧
               SameMap (construct si s.iface c).1 (Spec.expectedSwapsLenient si s b)
    | .error .missingRequired => True
    | .error _ => (construct si s.iface c).2 ≠ [] := by
  have hlen : s.posonly.length ≤ c.args.length := by unfold E2 at hE2; omega
  obtain ⟨filled, h1, h2, h3, -, -⟩ := zipPos_append_summary s.posonly s.args c.args hlen
  have hfill : ∀ x ∈ filled, x ∈ s.iface.args := by
    intro x hx
    show x ∈ s.args.map (·.name)
    rw [h2]; exact List.mem_append.mpr (Or.inl hx)
  have hclash : ∀ kv ∈ c.kwargs, ¬ KwClash s.iface kv.1 := by
    intro kv hkv hc
    exact hE1 ⟨hc.1, kv, hkv, hc.2⟩
  have I0 : Inv si s.iface filled (m0 si s c) (st0 s c) c.kwargs :=
    Inv_init si s.iface hn _ _ s.kwonly filled h1 h2 rfl c.kwargs
  have hloop :
      match Spec.bindKws filled s.kwarg.isSome (st0 s c) c.kwargs with
      | .ok st' =>
          Inv si s.iface filled (c.kwargs.foldl (kwStep si s.kwarg s.iface.all) (m0 si s c)) st' []
      | .error e => e ≠ .missingRequired ∧ e ≠ .tooManyPositional ∧
          SwapsLemmas.Diag (c.kwargs.foldl (kwStep si s.kwarg s.iface.all) (m0 si s c)) :=
    kw_loop si s.iface filled hn hfill c.kwargs _ _ I0 hk hclash
  rw [pyBind_eq s c hlen, construct_eq si s c hn hlen]
  have hf0 : filled0 s c = filled := h3
  rw [hf0]
  by_cases htm : (Spec.zipPos (s.posonly ++ s.args) c.args).2.2 ≠ [] ∧ s.vararg.isNone = true
  · rw [if_pos htm]
    have : (Spec.zipPos (s.posonly ++ s.args) c.args).2.2 ≠ [] ∧ s.vararg = none :=
      ⟨htm.1, by simpa using htm.2⟩
    simp [this]
  · rw [if_neg htm]
    have htm' : ¬ ((Spec.zipPos (s.posonly ++ s.args) c.args).2.2 ≠ [] ∧ s.vararg = none) := by
      intro h; exact htm ⟨h.1, by simp [h.2]⟩
    generalize Spec.bindKws filled s.kwarg.isSome (st0 s c) c.kwargs = r at hloop ⊢
    cases r with
    | error e =>
      obtain ⟨he1, he2, hd⟩ := hloop
      have hne : (List.foldl (kwStep si s.kwarg s.iface.all) (m0 si s c) c.kwargs).unexpected ≠ [] ∨
          (List.foldl (kwStep si s.kwarg s.iface.all) (m0 si s c) c.kwargs).byPosName ≠ [] := hd
      cases e <;> first | exact absurd rfl he1 | exact absurd rfl he2 | skip
      all_goals
        simp only [ne_eq]
        rcases hne with h | h <;> simp [h]
    | ok st' =>
      have I : Inv si s.iface filled _ st' [] := hloop
      simp only []
      by_cases hm : st'.open_.any (fun p => !p.hasDefault) = true
      · rw [if_pos hm]; trivial
      · rw [if_neg hm]
        refine ⟨?_, ?_⟩
        · simp [htm', I.clean.1, I.clean.2]
        · intro k
          exact I.same k

/-- **C04 outside the three defect classes**: the full statement `C04_at` (strict reading:
`**kwargs ↦ @Dict` whenever the parameter exists) holds for every signature and call that is not
`Excluded`. -/
theorem C04_partial_strict (si : StandIns α) (s : Spec.Sig α) (c : CallArgs α)
    (hn : s.iface.all.Nodup) (hk : (c.kwargs.map Prod.fst).Nodup) (hX : ¬ Excluded s c) :
    C04_at si s c := by
  have hE1 : ¬ E1 s c := fun h => hX (Or.inl h)
  have hE2 : ¬ E2 s c := fun h => hX (Or.inr (Or.inl h))
  have hE3 : ¬ E3 s c := fun h => hX (Or.inr (Or.inr h))
  have hlen : s.posonly.length ≤ c.args.length := by unfold E2 at hE2; omega
  have main := C04_partial si s c hn hk hE1 hE2
  unfold C04_at
  generalize hp : Spec.pyBind s c = r at main ⊢
  cases r with
  | error e => cases e <;> exact main
  | ok b =>
    have heq : Spec.expectedSwaps si s b = Spec.expectedSwapsLenient si s b := by
      unfold Spec.expectedSwaps Spec.expectedSwapsLenient
      by_cases hkw : s.kwarg.isSome = true
      · have hex : ∃ kv ∈ c.kwargs,
            kv.1 ∉ s.args.map (·.name) ∧ kv.1 ∉ s.kwonly.map (·.name) := by
          apply Classical.byContradiction
          intro hne
          apply hE3
          refine ⟨hkw, fun kv hkv => ?_⟩
          apply Classical.byContradiction
          intro h
          exact hne ⟨kv, hkv, fun h1 => h (Or.inl h1), fun h2 => h (Or.inr h2)⟩
        have := pyBind_ok_got s c hlen b hp hex
        rw [if_pos this]
      · have : s.kwarg = none := by simpa using hkw
        simp [this]
    simp only [] at main ⊢
    rw [heq]; exact main

/-- **C04 (c), unconditionally.** For every signature with pairwise distinct parameter names and
every call (no exclusion at all, keywords need not even be distinct): a call Python rejects for an
arity reason other than a missing argument is diagnosed. -/
theorem C04_rejected_diagnosed (si : StandIns α) (s : Spec.Sig α) (c : CallArgs α)
    (hn : s.iface.all.Nodup) (e : Spec.BindErr) (h : Spec.pyBind s c = .error e)
    (he : e ≠ .missingRequired) :
    (construct si s.iface c).2 ≠ [] := by
  by_cases hE2 : c.args.length < s.posonly.length
  · rw [C04_posonly_short si s.iface c (by simpa [Spec.Sig.iface] using hE2)]; simp
  · have hlen : s.posonly.length ≤ c.args.length := by omega
    obtain ⟨filled, h1, h2, h3, -, -⟩ := zipPos_append_summary s.posonly s.args c.args hlen
    have hfill : ∀ x ∈ filled, x ∈ s.iface.args := by
      intro x hx
      show x ∈ s.args.map (·.name)
      rw [h2]; exact List.mem_append.mpr (Or.inl hx)
    have I0 : InvW si s.iface (m0 si s c) (st0 s c) :=
      (Inv_init si s.iface hn _ _ s.kwonly filled h1 h2 rfl []).toInvW
    have hloop :
        match Spec.bindKws filled s.kwarg.isSome (st0 s c) c.kwargs with
        | .ok st' =>
            InvW si s.iface (c.kwargs.foldl (kwStep si s.kwarg s.iface.all) (m0 si s c)) st'
        | .error e => e ≠ .missingRequired ∧ e ≠ .tooManyPositional ∧
            SwapsLemmas.Diag (c.kwargs.foldl (kwStep si s.kwarg s.iface.all) (m0 si s c)) :=
      kw_loopW si s.iface filled hn hfill c.kwargs _ _ I0
    rw [pyBind_eq s c hlen] at h
    rw [construct_eq si s c hn hlen]
    have hf0 : filled0 s c = filled := h3
    rw [hf0] at h
    by_cases htm : (Spec.zipPos (s.posonly ++ s.args) c.args).2.2 ≠ [] ∧ s.vararg.isNone = true
    · have : (Spec.zipPos (s.posonly ++ s.args) c.args).2.2 ≠ [] ∧ s.vararg = none :=
        ⟨htm.1, by simpa using htm.2⟩
      simp [this]
    · rw [if_neg htm] at h
      generalize Spec.bindKws filled s.kwarg.isSome (st0 s c) c.kwargs = r at hloop h
      cases r with
      | error e' =>
        obtain ⟨-, -, hd⟩ := hloop
        have hne :
            (List.foldl (kwStep si s.kwarg s.iface.all) (m0 si s c) c.kwargs).unexpected ≠ [] ∨
            (List.foldl (kwStep si s.kwarg s.iface.all) (m0 si s c) c.kwargs).byPosName ≠ [] := hd
        simp only [ne_eq]
        rcases hne with h' | h' <;> simp [h']
      | ok st' =>
        simp only [] at h
        split at h
        · injection h with h; exact absurd h.symm he
        · cases h

/-! ### The sharp form of the first exclusion

A keyword spelled like the `**kwargs` parameter itself is harmless unless an earlier keyword has
already gone into `**kwargs`. `E1s ⊆ E1`; outside `E1s` and `E2` the theorem still holds
(`C04_partial_sharp`), and inside `E1s` (outside `E2`) the pinned code always diagnoses
(`C04_E1s_diagnosed`) — so for the calls Python accepts, with all positional-only parameters
supplied, "no diagnostic" is *equivalent* to `¬ E1s` (`C04_accepted_clean_iff`). -/

/-- (E1, sharp) `**kwargs` exists and some keyword is spelled like a positional-only parameter or
like the `*args` parameter, or the first keyword that Python puts into `**kwargs` is followed by a
keyword spelled like the `**kwargs` parameter. -/
def E1s (s : Spec.Sig α) (c : CallArgs α) : Prop :=
  s.kwarg.isSome = true ∧
    ((∃ kv ∈ c.kwargs, kv.1 ∈ s.posonly.map (·.name) ∨ kv.1 ∈ s.vararg.toList) ∨
      selfClash s.iface c.kwargs = true)

instance (s : Spec.Sig α) (c : CallArgs α) : Decidable (E1s s c) := by unfold E1s; infer_instance

theorem E1s_imp_E1 (s : Spec.Sig α) (c : CallArgs α) (h : E1s s c) : E1 s c := by
  obtain ⟨hk, h⟩ := h
  refine ⟨hk, ?_⟩
  rcases h with ⟨kv, hkv, h⟩ | h
  · exact ⟨kv, hkv, by rcases h with h | h; exact Or.inl h; exact Or.inr (Or.inl h)⟩
  · obtain ⟨kv, hkv, h⟩ := selfClash_mem _ _ h
    exact ⟨kv, hkv, Or.inr (Or.inr h)⟩

/-- `C04_partial` under the sharp exclusion. -/
theorem C04_partial_sharp (si : StandIns α) (s : Spec.Sig α) (c : CallArgs α)
    (hn : s.iface.all.Nodup) (hk : (c.kwargs.map Prod.fst).Nodup)
    (hE1 : ¬ E1s s c) (hE2 : ¬ E2 s c) :
    match Spec.pyBind s c with
    | .ok b => (construct si s.iface c).2 = [] ∧
               SameMap (construct si s.iface c).1 (Spec.expectedSwapsLenient si s b)
    | .error .missingRequired => True
    | .error _ => (construct si s.iface c).2 ≠ [] := by
  have hlen : s.posonly.length ≤ c.args.length := by unfold E2 at hE2; omega
  obtain ⟨filled, h1, h2, h3, -, -⟩ := zipPos_append_summary s.posonly s.args c.args hlen
  have hfill : ∀ x ∈ filled, x ∈ s.iface.args := by
    intro x hx
    show x ∈ s.args.map (·.name)
    rw [h2]; exact List.mem_append.mpr (Or.inl hx)
  have hclash : ∀ kv ∈ c.kwargs, ¬ KwClashS s.iface kv.1 := by
    intro kv hkv hc
    exact hE1 ⟨hc.1, Or.inl ⟨kv, hkv, hc.2⟩⟩
  have hself : selfClash s.iface c.kwargs = false := by
    cases hsc : selfClash s.iface c.kwargs with
    | false => rfl
    | true =>
      obtain ⟨kv, -, hkv⟩ := selfClash_mem _ _ hsc
      have hks : s.kwarg.isSome = true := by
        have : kv.1 ∈ s.kwarg.toList := hkv
        cases hkk : s.kwarg <;> simp [hkk] at this ⊢
      exact absurd ⟨hks, Or.inr hsc⟩ hE1
  have I0 : Inv si s.iface filled (m0 si s c) (st0 s c) c.kwargs :=
    Inv_init si s.iface hn _ _ s.kwonly filled h1 h2 rfl c.kwargs
  have hro : ∀ kv ∈ c.kwargs, kv.1 ∈ s.iface.args ++ s.iface.kwonly →
      kv.1 ∈ (m0 si s c).args ++ (m0 si s c).kwonly ∨ kv.1 ∈ filled := by
    intro kv _ hm
    have hm' : kv.1 ∈ s.args.map (·.name) ++ s.kwonly.map (·.name) := hm
    rw [h2] at hm'
    simp only [m0, List.mem_append] at hm' ⊢
    grind
  have hloop :
      match Spec.bindKws filled s.kwarg.isSome (st0 s c) c.kwargs with
      | .ok st' =>
          Inv si s.iface filled (c.kwargs.foldl (kwStep si s.kwarg s.iface.all) (m0 si s c)) st' []
      | .error e => e ≠ .missingRequired ∧ e ≠ .tooManyPositional ∧
          SwapsLemmas.Diag (c.kwargs.foldl (kwStep si s.kwarg s.iface.all) (m0 si s c)) :=
    kw_loopS si s.iface filled hn hfill c.kwargs _ _ I0 hk hclash hro
      (fun hg => absurd rfl hg) (fun _ => hself)
  rw [pyBind_eq s c hlen, construct_eq si s c hn hlen]
  have hf0 : filled0 s c = filled := h3
  rw [hf0]
  by_cases htm : (Spec.zipPos (s.posonly ++ s.args) c.args).2.2 ≠ [] ∧ s.vararg.isNone = true
  · rw [if_pos htm]
    have : (Spec.zipPos (s.posonly ++ s.args) c.args).2.2 ≠ [] ∧ s.vararg = none :=
      ⟨htm.1, by simpa using htm.2⟩
    simp [this]
  · rw [if_neg htm]
    have htm' : ¬ ((Spec.zipPos (s.posonly ++ s.args) c.args).2.2 ≠ [] ∧ s.vararg = none) := by
      intro h; exact htm ⟨h.1, by simp [h.2]⟩
    generalize Spec.bindKws filled s.kwarg.isSome (st0 s c) c.kwargs = r at hloop ⊢
    cases r with
    | error e =>
      obtain ⟨he1, he2, hd⟩ := hloop
      have hne : (List.foldl (kwStep si s.kwarg s.iface.all) (m0 si s c) c.kwargs).unexpected ≠ [] ∨
          (List.foldl (kwStep si s.kwarg s.iface.all) (m0 si s c) c.kwargs).byPosName ≠ [] := hd
      cases e <;> first | exact absurd rfl he1 | exact absurd rfl he2 | skip
      all_goals
        simp only [ne_eq]
        rcases hne with h | h <;> simp [h]
    | ok st' =>
      have I : Inv si s.iface filled _ st' [] := hloop
      simp only []
      by_cases hm : st'.open_.any (fun p => !p.hasDefault) = true
      · rw [if_pos hm]; trivial
      · rw [if_neg hm]
        refine ⟨?_, ?_⟩
        · simp [htm', I.clean.1, I.clean.2]
        · intro k
          exact I.same k

/-- Inside the sharp exclusion (with every positional-only parameter supplied) the pinned code
always emits the "by position and name" diagnostic — whether or not Python accepts the call. -/
theorem C04_E1s_diagnosed (si : StandIns α) (s : Spec.Sig α) (c : CallArgs α)
    (hn : s.iface.all.Nodup) (hE2 : ¬ E2 s c) (h : E1s s c) :
    ∃ ks, SwapDiag.byPositionAndName ks ∈ (construct si s.iface c).2 := by
  have hlen : s.posonly.length ≤ c.args.length := by unfold E2 at hE2; omega
  obtain ⟨-, h⟩ := h
  rcases h with ⟨kv, hkv, h⟩ | h
  · obtain ⟨ks, h1, -⟩ := byPos_of_contains_sig si s c hn hlen kv hkv h
    exact ⟨ks, h1⟩
  · exact selfClash_sig si s c hn hlen h

/-- **Exactness of the first exclusion.** For a call Python accepts, with all positional-only
parameters supplied: the pinned code is silent iff the call is outside `E1s`. -/
theorem C04_accepted_clean_iff (si : StandIns α) (s : Spec.Sig α) (c : CallArgs α)
    (hn : s.iface.all.Nodup) (hk : (c.kwargs.map Prod.fst).Nodup) (hE2 : ¬ E2 s c)
    (b : Spec.Binding α) (hb : Spec.pyBind s c = .ok b) :
    (construct si s.iface c).2 = [] ↔ ¬ E1s s c := by
  constructor
  · intro hnil h
    obtain ⟨ks, hks⟩ := C04_E1s_diagnosed si s c hn hE2 h
    rw [hnil] at hks
    simp at hks
  · intro h
    have := C04_partial_sharp si s c hn hk h hE2
    rw [hb] at this
    exact this.1

/-! ### Exactness of the whole exclusion -/

/-- the three defect classes, the first in its sharp form -/
def ExcludedS (s : Spec.Sig α) (c : CallArgs α) : Prop := E1s s c ∨ E2 s c ∨ E3 s c

instance (s : Spec.Sig α) (c : CallArgs α) : Decidable (ExcludedS s c) := by
  unfold ExcludedS; infer_instance

theorem ExcludedS_imp_Excluded (s : Spec.Sig α) (c : CallArgs α) (h : ExcludedS s c) :
    Excluded s c := by
  rcases h with h | h | h
  · exact Or.inl (E1s_imp_E1 s c h)
  · exact Or.inr (Or.inl h)
  · exact Or.inr (Or.inr h)

/-- outside E3 the strict and the lenient reading of an accepted call coincide -/
theorem expectedSwaps_eq_lenient (si : StandIns α) (s : Spec.Sig α) (c : CallArgs α)
    (hE2 : ¬ E2 s c) (hE3 : ¬ E3 s c) (b : Spec.Binding α) (hp : Spec.pyBind s c = .ok b) :
    Spec.expectedSwaps si s b = Spec.expectedSwapsLenient si s b := by
  have hlen : s.posonly.length ≤ c.args.length := by unfold E2 at hE2; omega
  unfold Spec.expectedSwaps Spec.expectedSwapsLenient
  by_cases hkw : s.kwarg.isSome = true
  · have hex : ∃ kv ∈ c.kwargs,
        kv.1 ∉ s.args.map (·.name) ∧ kv.1 ∉ s.kwonly.map (·.name) := by
      apply Classical.byContradiction
      intro hne
      apply hE3
      refine ⟨hkw, fun kv hkv => ?_⟩
      apply Classical.byContradiction
      intro h
      exact hne ⟨kv, hkv, fun h1 => h (Or.inl h1), fun h2 => h (Or.inr h2)⟩
    have := pyBind_ok_got s c hlen b hp hex
    rw [if_pos this]
  · have : s.kwarg = none := by simpa using hkw
    simp [this]

/-- Inside E3 (outside the other two classes) an accepted call leaves `**kwargs` unmapped. -/
theorem C04_E3_unmapped (si : StandIns α) (s : Spec.Sig α) (c : CallArgs α)
    (hn : s.iface.all.Nodup) (hk : (c.kwargs.map Prod.fst).Nodup)
    (hE1 : ¬ E1s s c) (hE2 : ¬ E2 s c) (hE3 : E3 s c)
    (b : Spec.Binding α) (hb : Spec.pyBind s c = .ok b) (kn : α) (hkn : s.kwarg = some kn) :
    Dict.get? (construct si s.iface c).1 kn = none := by
  have hlen : s.posonly.length ≤ c.args.length := by unfold E2 at hE2; omega
  obtain ⟨hgot, hsub⟩ := pyBind_ok_E3 s c hlen hk b hb hE3.2
  have main := C04_partial_sharp si s c hn hk hE1 hE2
  rw [hb] at main
  rw [main.2 kn]
  obtain ⟨hd1, hd2⟩ := all_disj s.iface hn
  unfold Spec.expectedSwapsLenient
  simp only [hgot, ne_eq, not_true_eq_false, if_false, List.append_nil]
  apply (get?_eq_none_iff _ _).mpr
  simp only [List.map_append, List.mem_append, not_or, List.map_map, Function.comp_def,
    List.map_id']
  constructor
  · intro hx
    have h1 : kn ∈ s.iface.posonly ++ s.iface.args ++ s.iface.kwonly := hsub kn hx
    have := (hd1 kn h1).2
    have hk' : s.iface.kwarg = some kn := hkn
    simp [hk'] at this
  · intro hx
    have hx' : kn ∈ s.iface.vararg.toList := by
      show kn ∈ s.vararg.toList
      simpa using hx
    have := hd2 kn hx'
    have hk' : s.iface.kwarg = some kn := hkn
    simp [hk'] at this

/-- **C04, exact form.** For every signature with pairwise distinct parameter names and every
call with pairwise distinct keywords: the property holds at (signature, call) **iff** Python
rejects the call or the call is outside the three defect classes. -/
theorem C04_exact (si : StandIns α) (s : Spec.Sig α) (c : CallArgs α)
    (hn : s.iface.all.Nodup) (hk : (c.kwargs.map Prod.fst).Nodup) :
    C04_at si s c ↔ (∀ b, Spec.pyBind s c = .ok b → ¬ ExcludedS s c) := by
  constructor
  · intro hat b hb hX
    unfold C04_at at hat
    rw [hb] at hat
    obtain ⟨hnil, hsame⟩ := hat
    by_cases hE2 : E2 s c
    · have := C04_posonly_short si s.iface c (by simpa [Spec.Sig.iface, E2] using hE2)
      rw [this] at hnil
      simp at hnil
    · by_cases hE1 : E1s s c
      · exact (C04_accepted_clean_iff si s c hn hk hE2 b hb).mp hnil hE1
      · have hE3 : E3 s c := by
          rcases hX with h | h | h
          · exact absurd h hE1
          · exact absurd h hE2
          · exact h
        obtain ⟨kn, hkn⟩ := Option.isSome_iff_exists.mp hE3.1
        have hnone := C04_E3_unmapped si s c hn hk hE1 hE2 hE3 b hb kn hkn
        rw [hsame kn] at hnone
        have hmem : kn ∈ (Spec.expectedSwaps si s b).map Prod.fst := by
          unfold Spec.expectedSwaps
          simp [hkn]
        exact ((get?_eq_none_iff _ _).mp hnone) hmem
  · intro h
    unfold C04_at
    cases hp : Spec.pyBind s c with
    | error e =>
      cases e
      case missingRequired => trivial
      all_goals exact C04_rejected_diagnosed si s c hn _ hp (by simp)
    | ok b =>
      have hX := h b hp
      have hE1 : ¬ E1s s c := fun h => hX (Or.inl h)
      have hE2 : ¬ E2 s c := fun h => hX (Or.inr (Or.inl h))
      have hE3 : ¬ E3 s c := fun h => hX (Or.inr (Or.inr h))
      have main := C04_partial_sharp si s c hn hk hE1 hE2
      rw [hp] at main
      simp only []
      rw [expectedSwaps_eq_lenient si s c hE2 hE3 b hp]
      exact main

/-! ### Non-vacuity of `C04_partial` / `C04_partial_strict`

`def callee(p, /, a, b=0, *va, k, **kw)` (all five kinds; names 1..6) and three calls. -/

/-- `def callee(p, /, a, b=0, *va, k, **kw)` -/
def sigEx : Spec.Sig Nat :=
  { posonly := [⟨1, false⟩], args := [⟨2, false⟩, ⟨3, true⟩], vararg := some 4,
    kwonly := [⟨5, false⟩], kwarg := some 6 }

/-- accepted: `callee(x0, x1, k=v1, extra=v2)` — every hypothesis of `C04_partial_strict` holds,
Python accepts, and the conclusion is the non-trivial one. -/
example :
    let c : CallArgs Nat := { args := [50, 51], kwargs := [(5, 52), (7, 53)] }
    sigEx.iface.all.Nodup ∧ (c.kwargs.map Prod.fst).Nodup ∧ ¬ Excluded sigEx c ∧
    Spec.pyBind sigEx c
      = .ok { explicit := [(1, 50), (2, 51), (5, 52)], varargGot := [], kwargGot := [(7, 53)] } ∧
    construct siN sigEx.iface c = ([(1, 50), (2, 51), (4, 100), (5, 52), (6, 101)], []) := by
  decide

/-- accepted with surplus positionals and a keyword for a positional-or-keyword parameter:
`callee(x0, x1, x2, x3, k=v1, extra=v2)`. -/
example :
    let c : CallArgs Nat := { args := [50, 51, 54, 55], kwargs := [(5, 52), (7, 53)] }
    sigEx.iface.all.Nodup ∧ (c.kwargs.map Prod.fst).Nodup ∧ ¬ Excluded sigEx c ∧
    Spec.pyBind sigEx c
      = .ok { explicit := [(1, 50), (2, 51), (3, 54), (5, 52)], varargGot := [55],
              kwargGot := [(7, 53)] } := by
  decide

/-- rejected ("multiple values for argument 'a'"): `callee(x0, x1, a=v, k=v1)` — the hypotheses of
`C04_partial` hold and its conclusion is the diagnosed branch. -/
example :
    let c : CallArgs Nat := { args := [50, 51], kwargs := [(2, 52), (5, 53)] }
    sigEx.iface.all.Nodup ∧ (c.kwargs.map Prod.fst).Nodup ∧ ¬ E1 sigEx c ∧ ¬ E2 sigEx c ∧
    Spec.pyBind sigEx c = .error .multipleValues ∧
    (construct siN sigEx.iface c).2 = [SwapDiag.byPositionAndName [2]] := by
  decide

/-- rejected ("unexpected keyword", no `**kwargs`): `def g(a, *, k)`; `g(x, k=v, zz=w)`. -/
example :
    let s : Spec.Sig Nat :=
      { posonly := [], args := [⟨2, false⟩], vararg := none, kwonly := [⟨5, false⟩], kwarg := none }
    let c : CallArgs Nat := { args := [50], kwargs := [(5, 52), (7, 53)] }
    s.iface.all.Nodup ∧ (c.kwargs.map Prod.fst).Nodup ∧ ¬ E1 s c ∧ ¬ E2 s c ∧
    Spec.pyBind s c = .error .unexpectedKeyword ∧
    (construct siN s.iface c).2 = [SwapDiag.unexpectedKeywords [7]] := by
  decide

/-- the theorem instantiated on the first call really yields Python's binding, no diagnostic -/
example :
    (construct siN sigEx.iface { args := [50, 51], kwargs := [(5, 52), (7, 53)] }).2 = [] ∧
    SameMap (construct siN sigEx.iface { args := [50, 51], kwargs := [(5, 52), (7, 53)] }).1
      (Spec.expectedSwaps siN sigEx
        { explicit := [(1, 50), (2, 51), (5, 52)], varargGot := [], kwargGot := [(7, 53)] }) := by
  have h := C04_partial_strict siN sigEx { args := [50, 51], kwargs := [(5, 52), (7, 53)] }
    (by decide) (by decide) (by decide)
  have hp : Spec.pyBind sigEx { args := [50, 51], kwargs := [(5, 52), (7, 53)] }
      = .ok { explicit := [(1, 50), (2, 51), (5, 52)], varargGot := [], kwargGot := [(7, 53)] } := by
    decide
  unfold C04_at at h
  rw [hp] at h
  exact h

/-- `E1` but not `E1s`: `def callee(**kw)`, `callee(kw=v, zz=w)` — Python accepts, the pinned code
is silent and binds as Python does (test, by kernel evaluation); `callee(zz=w, kw=v)` is in `E1s`. -/
example :
    let s : Spec.Sig Nat := { posonly := [], args := [], vararg := none, kwonly := [], kwarg := some 6 }
    E1 s { args := [], kwargs := [(6, 50), (7, 51)] } ∧
    ¬ E1s s { args := [], kwargs := [(6, 50), (7, 51)] } ∧
    E1s s { args := [], kwargs := [(7, 51), (6, 50)] } ∧
    construct siN s.iface { args := [], kwargs := [(6, 50), (7, 51)] } = ([(6, 101)], []) ∧
    construct siN s.iface { args := [], kwargs := [(7, 51), (6, 50)] }
      = ([(6, 101)], [SwapDiag.byPositionAndName [6]]) := by
  decide

/-- each exclusion is inhabited by the corresponding counterexample of the pinned code -/
example :
    E1 (α := Nat) { posonly := [⟨1, false⟩], args := [], vararg := none, kwonly := [], kwarg := some 9 }
      { args := [50], kwargs := [(1, 51)] } ∧
    E2 (α := Nat) { posonly := [⟨1, false⟩, ⟨2, true⟩], args := [], vararg := none, kwonly := [], kwarg := none }
      { args := [50], kwargs := [] } ∧
    E3 (α := Nat) { posonly := [], args := [], vararg := none, kwonly := [], kwarg := some 9 }
      { args := [], kwargs := [] } := by
  decide

/-! ### Stand-alone facts, for every interface and every call (distinct parameter names) -/

/-- The i-th positional-only / positional-or-keyword parameter receives exactly the i-th
positional argument, whatever the keywords are. -/
theorem C04_positional (si : StandIns α) (f : Iface α) (c : CallArgs α)
    (hn : f.all.Nodup) (hlen : f.posonly.length ≤ c.args.length) :
    ∀ pa ∈ List.zip (f.posonly ++ f.args) c.args,
      Dict.get? (construct si f c).1 pa.1 = some pa.2 := by
  have := positional_sig si (sigOf f) c (by rw [sigOf_iface]; exact hn)
    (by simpa [sigOf] using hlen)
  rwa [sigOf_iface] at this

/-- `*args` is mapped to the tuple stand-in whenever it exists (and the call is not cut short by
the positional-only diagnostic). -/
theorem C04_vararg_always_mapped (si : StandIns α) (f : Iface α) (c : CallArgs α)
    (hn : f.all.Nodup) (hlen : f.posonly.length ≤ c.args.length) (v : α)
    (hv : f.vararg = some v) :
    Dict.get? (construct si f c).1 v = some si.tuple := by
  have := vararg_sig si (sigOf f) c (by rw [sigOf_iface]; exact hn)
    (by simpa [sigOf] using hlen) v (by rw [sigOf_iface]; exact hv)
  rwa [sigOf_iface] at this

/-- No `**kwargs`: a keyword that is not a parameter name is reported in the
"unexpected keyword arguments" diagnostic. -/
theorem C04_unexpected_keyword (si : StandIns α) (f : Iface α) (c : CallArgs α)
    (hn : f.all.Nodup) (hlen : f.posonly.length ≤ c.args.length) (hkw : f.kwarg = none)
    (kv : α × α) (hmem : kv ∈ c.kwargs) (hall : kv.1 ∉ f.all) :
    ∃ ks, SwapDiag.unexpectedKeywords ks ∈ (construct si f c).2 ∧ kv.1 ∈ ks := by
  have := unexpected_sig si (sigOf f) c (by rw [sigOf_iface]; exact hn)
    (by simpa [sigOf] using hlen) (by rw [sigOf_iface]; exact hkw) kv hmem
    (by rw [sigOf_iface]; exact hall)
  rwa [sigOf_iface] at this

/-- A keyword naming a positionally filled parameter is reported in the "by position and name"
diagnostic. -/
theorem C04_multiple_values (si : StandIns α) (f : Iface α) (c : CallArgs α)
    (hn : f.all.Nodup) (hlen : f.posonly.length ≤ c.args.length)
    (kv : α × α) (hmem : kv ∈ c.kwargs)
    (hfilled : kv.1 ∈ (List.zip (f.posonly ++ f.args) c.args).map Prod.fst) :
    ∃ ks, SwapDiag.byPositionAndName ks ∈ (construct si f c).2 ∧ kv.1 ∈ ks := by
  have := multiple_values_sig si (sigOf f) c (by rw [sigOf_iface]; exact hn)
    (by simpa [sigOf] using hlen) kv hmem (by rw [sigOf_iface]; exact hfilled)
  rwa [sigOf_iface] at this

/-- A keyword naming a positional-or-keyword parameter not filled by position, or a keyword-only
parameter, is mapped to its argument. -/
theorem C04_keyword_binds (si : StandIns α) (f : Iface α) (c : CallArgs α)
    (hn : f.all.Nodup) (hlen : f.posonly.length ≤ c.args.length)
    (hk : (c.kwargs.map Prod.fst).Nodup) (kv : α × α) (hmem : kv ∈ c.kwargs)
    (hopen : kv.1 ∈ f.args.drop (c.args.length - f.posonly.length) ∨ kv.1 ∈ f.kwonly) :
    Dict.get? (construct si f c).1 kv.1 = some kv.2 := by
  have := keyword_binds_sig si (sigOf f) c (by rw [sigOf_iface]; exact hn)
    (by simpa [sigOf] using hlen) hk kv hmem (by rw [sigOf_iface]; exact hopen)
  rwa [sigOf_iface] at this

/-- hypotheses of the five stand-alone facts are satisfiable (tests, by kernel evaluation):
`callee(x0, x1, x2, x3, k=v1)` fills `p, a, b` by position and `k` by keyword;
`def g(a, b, *, k)`, `g(x, a=y, zz=w, b=z)` has a doubly given `a`, an unknown `zz`, a bound `b`. -/
example :
    let f := sigEx.iface
    let c : CallArgs Nat := { args := [50, 51, 54, 55], kwargs := [(5, 52)] }
    f.all.Nodup ∧ f.posonly.length ≤ c.args.length ∧ f.vararg = some 4 ∧
    List.zip (f.posonly ++ f.args) c.args = [(1, 50), (2, 51), (3, 54)] ∧
    (c.kwargs.map Prod.fst).Nodup ∧ (5, 52) ∈ c.kwargs ∧ 5 ∈ f.kwonly := by
  decide

example :
    let f : Iface Nat := { posonly := [], args := [2, 3], vararg := none, kwonly := [5], kwarg := none }
    let c : CallArgs Nat := { args := [50], kwargs := [(2, 51), (7, 52), (3, 53)] }
    f.all.Nodup ∧ f.posonly.length ≤ c.args.length ∧ f.kwarg = none ∧
    (c.kwargs.map Prod.fst).Nodup ∧
    ((7, 52) ∈ c.kwargs ∧ 7 ∉ f.all) ∧
    ((2, 51) ∈ c.kwargs ∧ 2 ∈ (List.zip (f.posonly ++ f.args) c.args).map Prod.fst) ∧
    ((3, 53) ∈ c.kwargs ∧ 3 ∈ f.args.drop (c.args.length - f.posonly.length)) ∧
    construct siN f c =
      ([(2, 50), (3, 53)], [SwapDiag.unexpectedKeywords [7], SwapDiag.byPositionAndName [2]]) := by
  decide


/-! ## The substitution as it is USED for inlining

`construct_call_swaps` only BUILDS the parameter ↦ argument map. What the property speaks of — "the
parameter-to-argument substitution used for inlining" — is `unbind_ir_with_call_swaps` applied with
that map to the callee's IR inside `destructively_simplify_ir_call_tree`, and the arity diagnostic
reaches the user only if that loop calls `construct_call_swaps` for the edge. Model:
`Results.unbindName / unbindList / unbindIr`, `Results.foldChild`, `Pipeline.childDiags / foldDiags`
(correspondence: ops `unbind`, `pipeline`). -/

section Inlining
open Rattr.Results

/-- the ONE-STEP image of a base name under the swaps: `swaps.get(basename, basename)` -/
def image (sw : Dict Str Str) (b : Str) : Str := (Dict.get? sw b).getD b

/-- a name rooted at the variable `p`: `p` itself (`s = ""`), `p.attr`, `p[]`, `p.a.b` … -/
def rooted (p s : Str) : NameS := ⟨p ++ s, p⟩

/-- a Python identifier as far as `unbind_name` cares: non-empty, no leading `*` -/
def Plain (p : Str) : Prop := p ≠ [] ∧ p.head? ≠ some '*'

instance (p : Str) : Decidable (Plain p) := by unfold Plain; infer_instance

theorem unbindName_base {n n' : NameS} {nb : Str} (h : unbindName n nb = some n') : n'.base = nb := by
  unfold unbindName at h
  by_cases hb : n.base = nb
  · rw [if_pos hb] at h; injection h with h; subst h; exact hb
  · rw [if_neg hb] at h
    simp only [] at h
    split at h <;> split at h
    all_goals first | (injection h with h; subst h; rfl) | cases h

theorem unbindName_rooted (p s a : Str) (hp : Plain p) :
    unbindName (rooted p s) a = some (rooted a s) := by
  obtain ⟨hne, hst⟩ := hp
  unfold unbindName rooted
  by_cases hb : p = a
  · subst hb; simp
  · have hh : (p ++ s).head? ≠ some '*' := by
      cases p with
      | nil => exact absurd rfl hne
      | cons c r => simpa using hst
    have hpre : p.isPrefixOf (p ++ s) = true := by
      rw [List.isPrefixOf_iff_prefix]; exact List.prefix_append p s
    have hc : ¬ (List.head? p = some '*' ∨ p = [] ∧ List.head? s = some '*') := by
      rintro (h | h)
      · exact hst h
      · exact hne h.1
    simp [hb, hc]

/-- `unbind_ir_with_call_swaps` is a POINTWISE map: the i-th output name is `unbind_name` of the
i-th input name with the one-step image of ITS OWN base name — no output is looked up again. -/
theorem C04_unbind_pointwise (sw : Dict Str Str) :
    ∀ (l l' : List NameS), unbindList sw l = some l' →
      l'.length = l.length ∧ ∀ q ∈ l.zip l', unbindName q.1 (image sw q.1.base) = some q.2
  | [], l', h => by
    simp only [unbindList, Option.some.injEq] at h; subst h; simp
  | n :: r, l', h => by
    simp only [unbindList] at h
    cases hn : unbindName n ((Dict.get? sw n.base).getD n.base) with
    | none => simp [hn] at h
    | some n1 =>
      cases hr : unbindList sw r with
      | none => simp [hn, hr] at h
      | some r1 =>
        simp only [hn, hr, Option.some.injEq] at h
        subst h
        obtain ⟨h1, h2⟩ := C04_unbind_pointwise sw r r1 hr
        refine ⟨by simp [h1], ?_⟩
        intro q hq
        simp only [List.zip_cons_cons, List.mem_cons] at hq
        rcases hq with rfl | hq
        · exact hn
        · exact h2 q hq

/-- the base names after the substitution are the one-step images of the base names before it
(simultaneous substitution: an argument that is spelled like another parameter is NOT substituted
again). -/
theorem C04_unbind_bases (sw : Dict Str Str) :
    ∀ (l l' : List NameS), unbindList sw l = some l' →
      l'.map (·.base) = l.map (fun n => image sw n.base)
  | [], l', h => by
    simp only [unbindList, Option.some.injEq] at h; subst h; rfl
  | n :: r, l', h => by
    simp only [unbindList] at h
    cases hn : unbindName n ((Dict.get? sw n.base).getD n.base) with
    | none => simp [hn] at h
    | some n1 =>
      cases hr : unbindList sw r with
      | none => simp [hn, hr] at h
      | some r1 =>
        simp only [hn, hr, Option.some.injEq] at h
        subst h
        simp only [List.map_cons, C04_unbind_bases sw r r1 hr, unbindName_base hn]
        rfl

/-- **closed form on parameter-rooted names**: every name `p ++ s` rooted at an identifier `p`
becomes `image sw p ++ s`, all at once. -/
theorem C04_unbind_simultaneous (sw : Dict Str Str) (ps : List (Str × Str))
    (hp : ∀ q ∈ ps, Plain q.1) :
    unbindList sw (ps.map fun q => rooted q.1 q.2)
      = some (ps.map fun q => rooted (image sw q.1) q.2) := by
  induction ps with
  | nil => rfl
  | cons q r ih =>
    have h1 := unbindName_rooted q.1 q.2 (image sw q.1) (hp q (List.mem_cons_self))
    have h2 := ih (fun x hx => hp x (List.mem_cons_of_mem _ hx))
    simp only [List.map_cons, unbindList]
    have hb : (rooted q.1 q.2).base = q.1 := rfl
    rw [hb]
    change (match unbindName (rooted q.1 q.2) (image sw q.1), _ with | some n', some r' => some (n' :: r') | _, _ => none) = _
    rw [h1, h2]

/-- swapping two parameters (`def f(a, b)`, call `f(b, a)`): what was rooted at `a` is rooted at
`b` afterwards AND vice versa. -/
theorem C04_unbind_swap (a b s t : Str) (hab : a ≠ b) (ha : Plain a) (hb : Plain b) :
    unbindList [(a, b), (b, a)] [rooted a s, rooted b t] = some [rooted b s, rooted a t] := by
  have := C04_unbind_simultaneous [(a, b), (b, a)] [(a, s), (b, t)]
    (by intro q hq; simp at hq; rcases hq with h | h <;> subst h <;> assumption)
  simpa [image, Dict.get?, hab] using this

/-- NOT the model — the swaps applied one after another, each pass rewriting the whole list (the
"only rebuild what is swapped" optimisation). -/
def unbindSeq (sw : Dict Str Str) (l : List NameS) : Option (List NameS) :=
  sw.foldl (fun acc kv => acc.bind (unbindList [kv])) (some l)

/-- the sequential reading is a DIFFERENT function on arguments that are a permutation of the
parameter names: `def f(a, b): a.x`, `f(b, a)` — simultaneous: `b.x`; sequential: back to `a.x`. -/
theorem C04_cex_sequential_substitution :
    unbindList [("a".toList, "b".toList), ("b".toList, "a".toList)] [⟨"a.x".toList, "a".toList⟩]
      = some [⟨"b.x".toList, "b".toList⟩] ∧
    unbindSeq [("a".toList, "b".toList), ("b".toList, "a".toList)] [⟨"a.x".toList, "a".toList⟩]
      = some [⟨"a.x".toList, "a".toList⟩] := by
  decide

/-! ### one inlining step (`for child in node.children: … |= unbound`) -/

/-- the swaps `destructively_simplify_ir_call_tree` computes for the edge `c` into the callee `g` -/
abbrev swapsFor (P : Prog) (g : Key) (c : CallRec) : Dict Str Str :=
  (Swaps.construct (si P) (fnAt P g).iface c.args).1

/-- **exactly** what one inlining step leaves in the caller's entry: what was there, plus the
pointwise one-step image of the callee's entry — nothing else, and nothing less. (`pk = ch.key`,
direct recursion, included: the callee's entry is read BEFORE the caller's is written.) -/
theorem C04_inline_step_exact (P : Prog) (pk : Key) (σ σ' : Store) (ch : Results.Node) (c : CallRec)
    (he : ch.edgeIn = some c) (h : foldChild P pk σ ch = some σ') (k : Kind) (x : NameS) :
    x ∈ (σ' pk).of k ↔
      x ∈ (σ pk).of k ∨
      ∃ n ∈ (σ ch.key).of k, unbindName n (image (swapsFor P ch.key c) n.base) = some x := by
  unfold foldChild at h
  simp only [he] at h
  cases hu : unbindIr (Swaps.construct (si P) (fnAt P ch.key).iface c.args).1 (σ ch.key) with
  | none => simp [hu] at h
  | some u =>
    simp only [hu, Option.some.injEq] at h
    subst h
    have hm := mem_unbindIr hu k x
    simp only [Store.update, if_true]
    cases k <;> simp only [IrSets.of] at hm ⊢ <;> rw [mem_union_iff, hm] <;> rfl

/-- a name of the callee rooted at a parameter that the swaps map to `arg` arrives in the caller
rooted at `arg`; a name rooted at a parameter the swaps do not mention arrives unchanged
("parameters that receive no argument are left unmapped"). -/
theorem C04_inline_rooted (P : Prog) (pk : Key) (σ σ' : Store) (ch : Results.Node) (c : CallRec)
    (he : ch.edgeIn = some c) (h : foldChild P pk σ ch = some σ') (k : Kind) (p s : Str)
    (hp : Plain p) (hmem : rooted p s ∈ (σ ch.key).of k) :
    rooted (image (swapsFor P ch.key c) p) s ∈ (σ' pk).of k :=
  (C04_inline_step_exact P pk σ σ' ch c he h k _).mpr
    (Or.inr ⟨_, hmem, unbindName_rooted p s _ hp⟩)

/-- … the i-th positional parameter: `param.attr` in the callee ⇒ `arg_i.attr` in the caller. -/
theorem C04_inline_positional (P : Prog) (pk : Key) (σ σ' : Store) (ch : Results.Node) (c : CallRec)
    (he : ch.edgeIn = some c) (h : foldChild P pk σ ch = some σ') (k : Kind) (s : Str)
    (hn : (fnAt P ch.key).iface.all.Nodup)
    (hlen : (fnAt P ch.key).iface.posonly.length ≤ c.args.args.length)
    (pa : Str × Str)
    (hpa : pa ∈ List.zip ((fnAt P ch.key).iface.posonly ++ (fnAt P ch.key).iface.args) c.args.args)
    (hp : Plain pa.1) (hmem : rooted pa.1 s ∈ (σ ch.key).of k) :
    rooted pa.2 s ∈ (σ' pk).of k := by
  have := C04_inline_rooted P pk σ σ' ch c he h k pa.1 s hp hmem
  have hg := C04_positional (si P) (fnAt P ch.key).iface c.args hn hlen pa hpa
  simpa [image, swapsFor, hg] using this

/-- … a keyword argument for a parameter not filled by position / a keyword-only parameter. -/
theorem C04_inline_keyword (P : Prog) (pk : Key) (σ σ' : Store) (ch : Results.Node) (c : CallRec)
    (he : ch.edgeIn = some c) (h : foldChild P pk σ ch = some σ') (k : Kind) (s : Str)
    (hn : (fnAt P ch.key).iface.all.Nodup)
    (hlen : (fnAt P ch.key).iface.posonly.length ≤ c.args.args.length)
    (hk : (c.args.kwargs.map Prod.fst).Nodup) (kv : Str × Str) (hkv : kv ∈ c.args.kwargs)
    (hopen : kv.1 ∈ (fnAt P ch.key).iface.args.drop (c.args.args.length - (fnAt P ch.key).iface.posonly.length)
      ∨ kv.1 ∈ (fnAt P ch.key).iface.kwonly)
    (hp : Plain kv.1) (hmem : rooted kv.1 s ∈ (σ ch.key).of k) :
    rooted kv.2 s ∈ (σ' pk).of k := by
  have := C04_inline_rooted P pk σ σ' ch c he h k kv.1 s hp hmem
  have hg := C04_keyword_binds (si P) (fnAt P ch.key).iface c.args hn hlen hk kv hkv hopen
  simpa [image, swapsFor, hg] using this

/-- … the implicit `self` of an initialiser call: `CallArguments.from_call(call, self=target)` puts
the assignment target in front of the positional arguments, so the FIRST positional parameter of
`__init__` is bound to the target's FULL name: `o.field = Cls(…)` ⇒ `self.attr ↦ o.field.attr`. -/
theorem C04_inline_self (P : Prog) (pk : Key) (σ σ' : Store) (ch : Results.Node) (c : CallRec)
    (he : ch.edgeIn = some c) (h : foldChild P pk σ ch = some σ') (k : Kind) (s : Str)
    (hn : (fnAt P ch.key).iface.all.Nodup)
    (hlen : (fnAt P ch.key).iface.posonly.length ≤ c.args.args.length)
    (self target : Str) (rest restArgs : List Str)
    (hself : (fnAt P ch.key).iface.posonly ++ (fnAt P ch.key).iface.args = self :: rest)
    (hargs : c.args.args = target :: restArgs)
    (hp : Plain self) (hmem : rooted self s ∈ (σ ch.key).of k) :
    rooted target s ∈ (σ' pk).of k := by
  refine C04_inline_positional P pk σ σ' ch c he h k s hn hlen (self, target) ?_ hp hmem
  rw [hself, hargs]; simp

/-! ### the arity diagnostic of an inlining step does not look at the callee's IR -/

open Rattr.Pipeline Rattr.FnA Rattr.FileA

/-- the four templates of `construct_call_swaps` -/
def isSwapsTemplate (t : Str) : Bool :=
  t = "swaps-posonly-short".toList || t = "swaps-too-many-positional".toList ||
  t = "swaps-unexpected-keywords".toList || t = "swaps-by-position-and-name".toList

theorem swapDiag_error (fn : Str) (d : SwapDiag Str) :
    (swapDiag fn d).lvl = .error ∧ isSwapsTemplate (swapDiag fn d).tmpl = true := by
  cases d <;> exact ⟨rfl, by simp only [swapDiag, mkDiag]; decide⟩

/-- the diagnostics of the step for child `ch` are those of `construct_call_swaps(callee, call)`,
one for one — a function of the callee's INTERFACE and the call's arguments only (no store, no IR). -/
theorem C04_step_diags (f : Facts) (imp : ImpFacts) (fir : FileIr) (P : Prog) (ch : Results.Node)
    (c : CallRec) (he : ch.edgeIn = some c) :
    ∃ fn, childDiags (diagCtx f imp fir P) ch
      = ((Swaps.construct (si P) (fnAt P ch.key).iface c.args).2).map (swapDiag fn) := by
  unfold childDiags
  rw [he]
  exact ⟨_, rfl⟩

/-- **rejected ⇒ diagnosed, at the step**: a call edge Python rejects for an arity reason other than
a missing argument yields an `error`-level `construct_call_swaps` diagnostic when the edge is
folded — whatever the callee's entry holds (empty, stub, constant function, namedtuple …). -/
theorem C04_step_rejected_diagnosed (f : Facts) (imp : ImpFacts) (fir : FileIr) (P : Prog)
    (ch : Results.Node) (c : CallRec) (he : ch.edgeIn = some c)
    (s : Spec.Sig Str) (hs : s.iface = (fnAt P ch.key).iface) (hn : s.iface.all.Nodup)
    (e : Spec.BindErr) (hrej : Spec.pyBind s c.args = .error e) (hne : e ≠ .missingRequired) :
    ∃ d ∈ childDiags (diagCtx f imp fir P) ch, d.lvl = .error ∧ isSwapsTemplate d.tmpl = true := by
  obtain ⟨fn, hfn⟩ := C04_step_diags f imp fir P ch c he
  have hd := C04_rejected_diagnosed (si P) s c.args hn e hrej hne
  rw [hs] at hd
  rw [hfn]
  cases hl : (Swaps.construct (si P) (fnAt P ch.key).iface c.args).2 with
  | nil => exact absurd hl hd
  | cons d r =>
    exact ⟨swapDiag fn d, by simp, swapDiag_error fn d⟩

/-- every child of every node of a call tree contributes its step diagnostics to the fold -/
theorem childDiags_sub_foldDiags (D : DiagCtx) (nodes : List Results.Node) (i : Nat)
    (hi : i < nodes.length) (ch : Results.Node) (hch : ch ∈ childrenOf nodes i) :
    ∀ d ∈ childDiags D ch, d ∈ foldDiags D nodes := by
  intro d hd
  unfold foldDiags
  simp only [List.mem_flatMap, List.mem_reverse, List.mem_range]
  exact ⟨i, hi, ch, hch, hd⟩

/-- the diagnostics of a successful result generation contain the fold diagnostics of every root -/
theorem foldDiags_sub_genLoop (P : Prog) (D : DiagCtx) :
    ∀ (order : List Key) (σ : Store) (rs : List (Key × IrSets)) (σ' : Store) (ds : List Rattr.Diag),
      genLoop P D order σ = .ok (rs, σ', ds) →
      ∀ root ∈ order, ∀ nodes, callTree P root = some nodes → ∀ d ∈ foldDiags D nodes, d ∈ ds
  | [], _, _, _, _, _ => by intro root hr; cases hr
  | f :: r, σ, rs, σ', ds, h => by
    simp only [genLoop] at h
    cases hct : callTree P f with
    | none => simp [hct] at h
    | some nodes0 =>
      simp only [hct] at h
      cases htc : treeCrash P D nodes0 with
      | some e => simp [htc] at h
      | none =>
        simp only [htc] at h
        cases h1 : runRoot P σ f with
        | outOfFuel => simp [h1] at h
        | never => simp [h1] at h
        | ok q =>
          obtain ⟨res1, σ1⟩ := q
          simp only [h1] at h
          cases h2 : genLoop P D r σ1 with
          | fatal a b => simp [h2] at h
          | crash e => simp [h2] at h
          | ok q2 =>
            obtain ⟨rs2, σ2, ds2⟩ := q2
            simp only [h2, Outcome.ok.injEq, Prod.mk.injEq] at h
            obtain ⟨_, _, e3⟩ := h
            subst e3
            intro root hroot nodes hnodes d hd
            rcases List.mem_cons.mp hroot with rfl | hroot
            · rw [hct] at hnodes
              injection hnodes with hnodes
              subst hnodes
              simp [hd]
            · have := foldDiags_sub_genLoop P D r σ1 rs2 σ2 ds2 h2 root hroot nodes hnodes d hd
              simp [this]

/-- **rejected ⇒ diagnosed, through the whole pipeline model.** In a successful run of
`python -m rattr -o results -f 0 file.py` (model `Pipeline.run`): for every analysed callable taken
as a root, every edge of its call tree (a call resolved to a callee of the file — function, lambda,
class initialiser, namedtuple) whose arguments Python rejects against the callee's signature for an
arity reason other than a missing argument contributes an `error`-level `construct_call_swaps`
diagnostic to the run's diagnostics. No hypothesis on the callee's body: an empty IR is checked like
any other. -/
theorem C04_pipeline_rejected_diagnosed {env : Env} {mn : Str} {f : Facts} {b : List Str}
    {body : List Top} {imp : ImpFacts} {doc : ResultsDoc} {ds : List Rattr.Diag}
    (h : run env mn f b body imp = .ok (doc, ds)) :
    ∃ r s, RootCtx.compile f b body = .ok r ∧ FileA.analyseWith env mn f r.ctx body = .ok s ∧
      ∀ root, root < s.ir.length → ∀ nodes, callTree (toProg id f imp s.ir) root = some nodes →
      ∀ i, i < nodes.length → ∀ ch ∈ childrenOf nodes i, ∀ c, ch.edgeIn = some c →
      ∀ sg : Spec.Sig Str, sg.iface = (fnAt (toProg id f imp s.ir) ch.key).iface → sg.iface.all.Nodup →
      ∀ e, Spec.pyBind sg c.args = .error e → e ≠ .missingRequired →
      ∃ d ∈ ds, d.lvl = .error ∧ isSwapsTemplate d.tmpl = true := by
  unfold run runWith at h
  cases hc : RootCtx.compile f b body with
  | fatal r d => simp [hc] at h
  | crash r e => simp [hc] at h
  | ok r =>
    simp only [hc] at h
    cases hs : hasStarred r.ctx with
    | true => simp [hs] at h
    | false =>
      simp only [hs, Bool.false_eq_true, if_false] at h
      cases ha : FileA.analyseWith env mn f r.ctx body with
      | fatal s d => simp [ha] at h
      | crash s e => simp [ha] at h
      | ok s =>
        simp only [ha] at h
        unfold results resultsStore at h
        cases hg : genLoop (toProg id f imp s.ir) (diagCtx f imp s.ir (toProg id f imp s.ir))
            (List.range s.ir.length) (toStore s.ir) with
        | fatal a d => simp [hg] at h
        | crash e => simp [hg] at h
        | ok q =>
          obtain ⟨rs, σ', ds3⟩ := q
          simp only [hg, Outcome.ok.injEq, Prod.mk.injEq] at h
          refine ⟨r, s, rfl, ha, ?_⟩
          intro root hroot nodes hnodes i hi ch hch c he sg hsg hn e hrej hne
          obtain ⟨d, hd, hlvl⟩ := C04_step_rejected_diagnosed f imp s.ir (toProg id f imp s.ir) ch c he
            sg hsg hn e hrej hne
          have h1 := childDiags_sub_foldDiags _ nodes i hi ch hch d hd
          have h2 := foldDiags_sub_genLoop _ _ _ _ _ _ _ hg root (List.mem_range.mpr hroot) nodes hnodes d h1
          refine ⟨d, ?_, hlvl⟩
          rw [← h.2]
          simp [h2]


/-! ### kernel evaluation of the WHOLE pipeline model on a module with the three situations -/

def envT : FnA.Env := { ctxEnv := { prims := [], literals := [] }, analysers := [] }

def modT : List Top :=
  [.funcDef "swap".toList ⟨[], ["a".toList, "b".toList], none, [], none⟩
      [(.assign [(.attr (.name "a".toList .load) "first".toList .store)] .const), (.delete [(.attr (.name "b".toList .load) "second".toList .del)])]
      [] false,
   .funcDef "caller".toList ⟨[], ["a".toList, "b".toList], none, [], none⟩
      [(.other "Expr".toList [(.call (.name "swap".toList .load) [(.name "b".toList .load), (.name "a".toList .load)] [] [])])]
      [] false,
   .funcDef "walk".toList ⟨[], ["a".toList, "b".toList], none, [], none⟩
      [(.other "Expr".toList [(.attr (.name "a".toList .load) "left".toList .load)]), (.other "Expr".toList [(.call (.name "walk".toList .load) [(.name "b".toList .load), (.name "a".toList .load)] [] [])])]
      [] false,
   .classDef "Cls".toList []
     [.funcDef "__init__".toList ⟨[], ["self".toList, "v".toList], none, [], none⟩
      [(.assign [(.attr (.name "self".toList .load) "keep".toList .store)] (.attr (.name "v".toList .load) "src".toList .load))]
      [] false]
     [],
   .funcDef "build".toList ⟨[], ["o".toList, "p".toList, "t".toList], none, [], none⟩
      [(.assign [(.attr (.name "o".toList .load) "field".toList .store)] (.call (.name "Cls".toList .load) [(.name "p".toList .load)] [] [])), (.assign [(.sub (.name "t".toList .load) .const .store)] (.call (.name "Cls".toList .load) [(.name "o".toList .load)] [] []))]
      [] false,
   .funcDef "stub".toList ⟨[], ["a".toList, "b".toList], none, [], none⟩
      [(.other "Pass".toList [])]
      [] false,
   .funcDef "bad".toList ⟨[], ["e".toList, "f".toList, "g".toList], none, [], none⟩
      [(.other "Expr".toList [(.call (.name "stub".toList .load) [(.name "e".toList .load), (.name "f".toList .load), (.name "g".toList .load)] [] [])])]
      [] false]


def T' (x : String) : Str := x.toList

/-- what `python -m rattr -o results -f 0 target.py` prints for that file, in FileIr order (checked
against the real CLI) -/
def docT : ResultsDoc :=
  [(T' "swap", ⟨[], [T' "a.first"], [T' "b.second"], []⟩),
   (T' "caller", ⟨[T' "a", T' "b"], [T' "b.first"], [T' "a.second"], [T' "swap()"]⟩),
   (T' "walk", ⟨[T' "a", T' "a.left", T' "b", T' "b.left"], [], [], [T' "walk()"]⟩),
   (T' "Cls", ⟨[T' "v.src"], [T' "self.keep"], [], []⟩),
   (T' "build", ⟨[T' "o", T' "o.src", T' "p", T' "p.src"],
      [T' "o.field", T' "o.field.keep", T' "t[]", T' "t[].keep"], [], [T' "Cls()"]⟩),
   (T' "stub", ⟨[], [], [], []⟩),
   (T' "bad", ⟨[T' "e", T' "f", T' "g"], [], [], [T' "stub()"]⟩)]

def outcomeIs (o : FileA.Outcome (ResultsDoc × List Rattr.Diag)) (doc : ResultsDoc) (ds : List Rattr.Diag) : Bool :=
  match o with
  | .ok (d, s) => decide (d = doc) && decide (s = ds)
  | _ => false

theorem eq_of_outcomeIs {o : FileA.Outcome (ResultsDoc × List Rattr.Diag)} {doc : ResultsDoc} {ds : List Rattr.Diag}
    (h : outcomeIs o doc ds = true) : o = .ok (doc, ds) := by
  cases o with
  | ok a =>
    obtain ⟨d, s⟩ := a
    simp only [outcomeIs, Bool.and_eq_true, decide_eq_true_eq] at h
    rw [h.1, h.2]
  | fatal a b => simp [outcomeIs] at h
  | crash e => simp [outcomeIs] at h

/-- TEST (kernel evaluation of the whole pipeline model, source → document + diagnostics):
`swap(b, a)` exchanges the two parameters (`b.first`, `a.second`), the recursive flip `walk(b, a)`
reports both `a.left` and `b.left`, `o.field = Cls(p)` / `t[0] = Cls(o)` bind the initialiser's
`self` to the FULL target name (`o.field.keep`, `t[].keep`), and the call `stub(e, f, g)` of a
callee with an EMPTY IR is diagnosed. -/
theorem C04_pipeline_test_module :
    run envT (T' "target") {} [] modT
      = .ok (docT, [mkDiag .error "swaps-too-many-positional" (T' "stub")]) :=
  eq_of_outcomeIs (by decide +kernel)

/-- `Call.from_call(name, call, target, self=x)`: the implicit `self` is put IN FRONT of the
positional arguments of the recorded call (`visit_ClassAssign` passes the full name of the
assignment target, `visit_Call` `@<Class>`, `visit_ReturnValue` `@ReturnValue`). -/
theorem C04_mkCall_self (s : St) (name : Str) (args : List Rattr.Node) (kwn : List (Option Str))
    (kwv : List Rattr.Node) (target : Option Sym) (x : Str) (k : St → CallSym → Res) :
    FnA.mkCall s name args kwn kwv target (some x) k =
      FnA.argNames s args fun s as =>
        FnA.kwargNames s kwn kwv fun s kws =>
          k s { name := Strs.withoutCallBrackets name, args := x :: as, kwargs := kws, target := target } :=
  rfl

theorem kwargNames_skip (s : St) (kn₁ kn₂ : List (Option Str)) (kv₁ kv₂ : List Rattr.Node) (v : Rattr.Node)
    (hl : kn₁.length = kv₁.length) (cont : St → List (Str × Str) → Res) :
    FnA.kwargNames s (kn₁ ++ none :: kn₂) (kv₁ ++ v :: kv₂) cont
      = FnA.kwargNames s (kn₁ ++ kn₂) (kv₁ ++ kv₂) cont := by
  induction kn₁ generalizing kv₁ cont with
  | nil =>
    cases kv₁ with
    | nil => simp [FnA.kwargNames]
    | cons _ _ => simp at hl
  | cons k r ih =>
    cases kv₁ with
    | nil => simp at hl
    | cons w t =>
      have hl' : r.length = t.length := by simpa using hl
      cases k with
      | none => simpa [FnA.kwargNames] using ih t hl' cont
      | some k' =>
        simp only [List.cons_append, FnA.kwargNames]
        cases oldNames true w with
        | ok a full => exact ih t hl' _
        | fatal d => rfl
        | crash e => rfl

/-- `Call.from_call` in the pipeline model (the record that the file walk stores and result generation
binds): a `**mapping` entry among the keywords — wherever it is written, before, between or after the
explicit ones — changes neither the recorded call nor the diagnostics; its value is not even named. -/
theorem C04_mkCall_unpacking_irrelevant (s : St) (name : Str) (args : List Rattr.Node)
    (kn₁ kn₂ : List (Option Str)) (kv₁ kv₂ : List Rattr.Node) (v : Rattr.Node)
    (hl : kn₁.length = kv₁.length) (target : Option Sym) (self : Option Str) (k : St → CallSym → Res) :
    FnA.mkCall s name args (kn₁ ++ none :: kn₂) (kv₁ ++ v :: kv₂) target self k
      = FnA.mkCall s name args (kn₁ ++ kn₂) (kv₁ ++ kv₂) target self k := by
  unfold FnA.mkCall
  congr 1
  funext s' as
  exact kwargNames_skip s' kn₁ kn₂ kv₁ kv₂ v hl _

/-- hypotheses of `C04_unbind_swap` / `C04_inline_positional` are satisfiable (tests, kernel
evaluation): `def swap(a, b): a.first = 1`, `def caller(a, b): swap(b, a)`. -/
example :
    Plain "a".toList ∧ Plain "b".toList ∧
    (let P : Prog := { fns := [{ iface := ⟨[], ["a".toList, "b".toList], none, [], none⟩,
                                  calls := [⟨0, "swap".toList, ⟨["b".toList, "a".toList], []⟩⟩] },
                                { iface := ⟨[], ["a".toList, "b".toList], none, [], none⟩, calls := [] }],
                        resolve := fun c => if c = 0 then some 1 else none }
     let σ : Store := fun k => if k = 1 then ⟨[], [rooted "a".toList ".first".toList], []⟩ else IrSets.empty
     let ch : Results.Node := { key := 1, edgeIn := some ⟨0, "swap".toList, ⟨["b".toList, "a".toList], []⟩⟩, parent := some 0 }
     (fnAt P 1).iface.all.Nodup ∧
     ("a".toList, "b".toList) ∈ List.zip ((fnAt P 1).iface.posonly ++ (fnAt P 1).iface.args) ["b".toList, "a".toList] ∧
     (foldChild P 0 σ ch).map (fun σ' => (σ' 0).sets) = some [rooted "b".toList ".first".toList]) := by
  decide

end Inlining

/-! ## The call as written, the diagnostic as shown -/

section Source
open Rattr.SrcCall
variable {α : Type} [DecidableEq α]

/-! ### Tie A for the two code paths of this section -/

/-- the probe call `f(p, *q, k1=a, **m, k2=b.c, **n, k3=d[0])` with `self='s'` as the model sees it -/
def probeCall : SrcCall String :=
  { pos := [(false, "p"), (true, "*q")],
    kws := [(some "k1", "a"), (none, "m"), (some "k2", "b.c"), (none, "n"), (some "k3", "d[]")] }

/-- `CallArguments.from_call` of the tree under test records the probe call as the model does: the
implicit `self` first, `*iterable` kept as a positional (one error), `**mapping` entries skipped wherever
they are written, every explicit keyword kept. -/
theorem tieA_from_call :
    toArgs (some "s") probeCall
      = { args := Generated.C04.fromCallProbeArgs, kwargs := Generated.C04.fromCallProbeKwargs } ∧
    starredErrors probeCall = Generated.C04.fromCallProbeErrors := by decide

def placeOfName : String → Option Diag.Where
  | "target" => some .target | "import" => some .import_ | "none" => some .none | _ => none

/-- `error.error` of the tree under test prints its line at every warning level and wherever the
diagnostic arises (also with no current file, i.e. during result simplification) — as `Diag.error`. -/
theorem tieA_error_shown :
    Generated.C04.errorShownProbe =
      (Diag.WarnLevel.every.flatMap fun w => [Diag.Where.target, .import_, .none].map fun l =>
        (w.name, (match l with | .target => "target" | .import_ => "import" | .none => "none"),
         decide ((Diag.error ⟨false, 0, w, false, false⟩ Diag.State.init l 5).printed = [⟨.error, l⟩]))) := by
  decide

/-! ### `CallArguments.from_call`: `**mapping` entries are looked through, wherever they are written -/

theorem kwargsInto_skip (l₁ l₂ : List (Option α × α)) (v : α) (d : Dict α α) :
    kwargsInto (l₁ ++ (none, v) :: l₂) d = kwargsInto (l₁ ++ l₂) d := by
  induction l₁ generalizing d with
  | nil => rfl
  | cons x r ih =>
    obtain ⟨k, w⟩ := x
    cases k <;> simp [kwargsInto, ih]

/-- **the position (and the presence) of a `**mapping` does not matter**: the recorded call of
`f(…, k1=a, **m, k2=b)` is that of `f(…, k1=a, k2=b)`. -/
theorem C04_src_unpacking_irrelevant (self : Option α) (pos : List (Bool × α))
    (l₁ l₂ : List (Option α × α)) (v : α) :
    toArgs self ⟨pos, l₁ ++ (none, v) :: l₂⟩ = toArgs self ⟨pos, l₁ ++ l₂⟩ := by
  simp [toArgs, kwargsInto_skip]

theorem dict_set_fresh (d : Dict α α) (k v : α) (h : k ∉ d.map Prod.fst) :
    Dict.set d k v = d ++ [(k, v)] := by
  induction d with
  | nil => rfl
  | cons x r ih =>
    obtain ⟨k', v'⟩ := x
    simp only [List.map_cons, List.mem_cons, not_or] at h
    have hne : ¬ k' = k := fun e => h.1 e.symm
    simp [Dict.set, hne, ih h.2]

theorem kwargsInto_explicit (l : List (Option α × α)) (d : Dict α α)
    (h : (d.map Prod.fst ++ (explicit l).map Prod.fst).Nodup) :
    kwargsInto l d = d ++ explicit l := by
  induction l generalizing d with
  | nil => simp [kwargsInto, explicit]
  | cons x r ih =>
    obtain ⟨k, v⟩ := x
    cases k with
    | none =>
      have : explicit ((none, v) :: r) = explicit r := by simp [explicit]
      rw [this] at h ⊢
      simpa [kwargsInto] using ih d h
    | some k =>
      have hx : explicit ((some k, v) :: r) = (k, v) :: explicit r := by simp [explicit]
      rw [hx] at h ⊢
      have hk : k ∉ d.map Prod.fst := by
        intro hm
        have := List.nodup_append.mp h
        exact this.2.2 k hm k (by simp) rfl
      simp only [kwargsInto]
      rw [dict_set_fresh d k v hk]
      have h' : ((d ++ [(k, v)]).map Prod.fst ++ (explicit r).map Prod.fst).Nodup := by
        simpa [List.append_assoc] using h
      rw [ih _ h']
      simp

/-- **the recorded call is the explicit part of the written call**: the implicit `self` first, the
positionals in order, exactly the explicit keywords in the order written (explicit keyword names are
pairwise distinct — CPython's compiler rejects a repeated keyword). -/
theorem C04_src_recorded (self : Option α) (c : SrcCall α)
    (h : ((explicit c.kws).map Prod.fst).Nodup) :
    toArgs self c = { args := self.toList ++ c.pos.map Prod.snd, kwargs := explicit c.kws } := by
  simp only [toArgs]
  rw [kwargsInto_explicit c.kws [] (by simpa using h)]
  simp

/-- an explicit keyword reaches `construct_call_swaps` whatever is written around it -/
theorem C04_src_keyword_recorded (self : Option α) (c : SrcCall α)
    (h : ((explicit c.kws).map Prod.fst).Nodup) (k v : α) (hm : (some k, v) ∈ c.kws) :
    (k, v) ∈ (toArgs self c).kwargs := by
  rw [C04_src_recorded self c h]
  simp only [explicit, List.mem_filterMap]
  exact ⟨(some k, v), hm, rfl⟩

/-- **C04 for the call as written**: outside the three known classes (stated on the explicit part) a
written call — with any number of `**mapping` entries anywhere among its keywords — gets exactly
Python's binding of its explicit part and no diagnostic; rejected ⇒ diagnosed. -/
theorem C04_src_partial_strict (si : StandIns α) (s : Spec.Sig α) (self : Option α) (c : SrcCall α)
    (hn : s.iface.all.Nodup) (hk : ((explicit c.kws).map Prod.fst).Nodup)
    (hX : ¬ Excluded s { args := self.toList ++ c.pos.map Prod.snd, kwargs := explicit c.kws }) :
    C04_at si s (toArgs self c) := by
  rw [C04_src_recorded self c hk]
  exact C04_partial_strict si s _ hn hk hX

/-! ### the arity diagnostic AS SHOWN: `error.error` has no filter -/

/-- `error.error` prints a line (level `error`, or `fatal` under --strict) for EVERY configuration —
any warning level, strict or not — and wherever it is raised. -/
theorem C04_error_shown_every_level (cfg : Diag.Cfg) (st : Diag.State) (l : Diag.Where) (b : Nat) :
    ∃ ln ∈ (Diag.error cfg st l b).printed, (ln.level = .error ∨ ln.level = .fatal) ∧ ln.loc = l := by
  unfold Diag.error
  by_cases h : (b > 0 && cfg.strict) = true
  · simp [h, Diag.fatal]
  · simp [h]

/-- **rejected ⇒ an error line on stderr, at every warning level**: for a call as written whose
recorded form Python rejects for an arity reason other than a missing argument, the first thing
`construct_call_swaps` puts on stderr is an `error` (under --strict: `fatal`) line — whatever
`--warning-level` is, although the diagnostic is raised with no current file. -/
theorem C04_src_rejected_shown (cfg : Diag.Cfg) (st : Diag.State) (si : StandIns α) (s : Spec.Sig α)
    (self : Option α) (c : SrcCall α) (hn : s.iface.all.Nodup) (e : Spec.BindErr)
    (h : Spec.pyBind s (toArgs self c) = .error e) (he : e ≠ .missingRequired) :
    ∃ ln ∈ (arityShown cfg st si s.iface self c).printed,
      (ln.level = .error ∨ ln.level = .fatal) ∧ ln.loc = .none := by
  have hd := C04_rejected_diagnosed si s (toArgs self c) hn e h he
  unfold arityShown
  cases hds : (construct si s.iface (toArgs self c)).2 with
  | nil => exact absurd hds hd
  | cons d r =>
    obtain ⟨ln, hln, hp⟩ := C04_error_shown_every_level cfg st .none 5
    refine ⟨ln, ?_, hp⟩
    simp only [arityEvents, List.map_cons, Diag.runEvents, Diag.emit]
    by_cases hx : (Diag.error cfg st Diag.Where.none 5).exited = true
    · simp only [hx, ↓reduceIte]; exact hln
    · simp only [hx]; exact List.mem_append_left _ hln

end Source

/-- `callee(x0, x1, **m, k=v1, **n, extra=v2)` -/
def srcEx1 : SrcCall Nat :=
  { pos := [(false, 50), (false, 51)], kws := [(none, 60), (some 5, 52), (none, 61), (some 7, 53)] }
/-- `def g(a, *, k)` -/
def sigEx2 : Spec.Sig Nat :=
  { posonly := [], args := [⟨2, false⟩], vararg := none, kwonly := [⟨5, false⟩], kwarg := none }
/-- `g(x, **m, zz=w, k=v)` -/
def srcEx2 : SrcCall Nat := { pos := [(false, 50)], kws := [(none, 60), (some 7, 53), (some 5, 52)] }

/-- hypotheses of `C04_src_partial_strict` / `C04_src_rejected_shown` are satisfiable (tests, kernel
evaluation): `def callee(p, /, a, b=0, *va, k, **kw)`; `callee(x0, x1, **m, k=v1, **n, extra=v2)` is bound
as Python binds its explicit part; `def g(a, *, k)`, `g(x, **m, zz=w, k=v)` is rejected and shown under
`-w none`. -/
example :
    ((SrcCall.explicit srcEx1.kws).map Prod.fst).Nodup ∧
    ¬ Excluded sigEx { args := [50, 51], kwargs := SrcCall.explicit srcEx1.kws } ∧
    construct siN sigEx.iface (SrcCall.toArgs none srcEx1) = ([(1, 50), (2, 51), (4, 100), (5, 52), (6, 101)], []) ∧
    Spec.pyBind sigEx2 (SrcCall.toArgs none srcEx2) = .error .unexpectedKeyword ∧
    (SrcCall.arityShown ⟨false, 0, .none, false, false⟩ Diag.State.init siN sigEx2.iface none srcEx2).printed
      = [⟨.error, .none⟩] := by
  decide


section Shown
open Rattr.Results Rattr.Pipeline Rattr.FnA Rattr.FileA

/-! ### rejected ⇒ an error line on stderr, through the model of the whole `main`, at every warning level -/

theorem emit_not_exited (cfg : Diag.Cfg) (hs : cfg.strict = false) (s : Diag.State) (e : Diag.Event)
    (he : e.level ≠ .fatal) : (Diag.emit cfg s e).exited = false := by
  obtain ⟨lv, b, l⟩ := e
  cases lv
  · simp only [Diag.emit, Diag.info]; (repeat' split) <;> rfl
  · simp only [Diag.emit, Diag.warning]; (repeat' split) <;> rfl
  · simp [Diag.emit, Diag.error, hs]
  · exact absurd rfl he

theorem emit_error_printed (cfg : Diag.Cfg) (hs : cfg.strict = false) (s : Diag.State) (e : Diag.Event)
    (he : e.level = .error) : (Diag.emit cfg s e).printed = [⟨.error, e.loc⟩] := by
  obtain ⟨lv, b, l⟩ := e
  simp only at he
  subst he
  simp [Diag.emit, Diag.error, hs]

/-- not strict, no fatal diagnostic among the events: every `error` event is a printed line —
the warning level (`cfg.warnLevel`) and the place of the event do not enter. -/
theorem runEvents_error_printed (cfg : Diag.Cfg) (hs : cfg.strict = false) (s : Diag.State)
    (evs : List Diag.Event) (hnf : ∀ e ∈ evs, e.level ≠ .fatal) (e : Diag.Event) (hm : e ∈ evs)
    (he : e.level = .error) : ⟨.error, e.loc⟩ ∈ (Diag.runEvents cfg s evs).printed := by
  induction evs generalizing s with
  | nil => cases hm
  | cons x r ih =>
    have hx := emit_not_exited cfg hs s x (hnf x (by simp))
    simp only [Diag.runEvents, hx, Bool.false_eq_true, if_false]
    rcases List.mem_cons.mp hm with rfl | hm'
    · rw [emit_error_printed cfg hs s e he]; simp
    · exact List.mem_append_right _ (ih _ (fun y hy => hnf y (List.mem_cons_of_mem _ hy)) hm')

theorem run_printed_sup (cfg : Diag.Cfg) (evs : List Diag.Event) (ln : Diag.Line)
    (h : ln ∈ (Diag.runEvents cfg Diag.State.init evs).printed) : ln ∈ (Diag.run cfg evs).printed := by
  unfold Diag.run
  simp only []
  split
  · exact h
  · split
    · exact h
    · exact List.mem_append_left _ h

/-- `MainRun.staged` is `Pipeline.run` with the phases kept apart (successful runs). -/
theorem staged_of_run {env : FnA.Env} {mn : Str} {f : Facts} {b : List Str} {body : List Top}
    {imp : ImpFacts} {doc : ResultsDoc} {ds : List Rattr.Diag}
    (h : run env mn f b body imp = .ok (doc, ds)) :
    ∃ st, MainRun.staged env mn f b body imp = .ok st ∧ st.doc = some doc
      ∧ st.analysis ++ st.simpl = ds := by
  unfold run runWith at h
  unfold MainRun.staged MainRun.stagedWith
  cases hc : RootCtx.compile f b body with
  | fatal r d => simp [hc] at h
  | crash r e => simp [hc] at h
  | ok r =>
    simp only [hc] at h ⊢
    by_cases hst : hasStarred r.ctx = true
    · simp [hst] at h
    · simp only [hst] at h ⊢
      cases ha : FileA.analyseWith env mn f r.ctx body with
      | fatal s d => simp [ha] at h
      | crash s e => simp [ha] at h
      | ok s =>
        simp only [ha] at h ⊢
        cases hr : results id f imp s.ir with
        | fatal ds' d => simp [hr] at h
        | crash e => simp [hr] at h
        | ok p =>
          obtain ⟨doc', ds'⟩ := p
          simp only [hr] at h ⊢
          injection h with h
          injection h with h1 h2
          exact ⟨_, rfl, by simp [h1], by simp [← h2, List.append_assoc]⟩

/-- **rejected ⇒ an `error` line on stderr, at every warning level, through the model of `main`.**
`python -m rattr -w <any level> -o results -f 0 file.py`, not --strict, a run that reaches the results
(model `Pipeline.run` = ok) and raises no fatal diagnostic: for every edge of every call tree whose
arguments Python rejects against the callee's signature for an arity reason other than a missing
argument, the lines `MainRun.mainOf` prints on stderr contain an `error` line — `cfg.warnLevel` is
universally quantified (`none`, `local`, `default`, `all`), although the diagnostic is raised during
result simplification, where no file is current. -/
theorem C04_main_rejected_shown (cfg : Diag.Cfg) (hs : cfg.strict = false)
    {env : FnA.Env} {mn : Str} {f : Facts} {b : List Str}
    {body : List Top} {imp : ImpFacts} {doc : ResultsDoc} {ds : List Rattr.Diag}
    (h : run env mn f b body imp = .ok (doc, ds)) (hnf : ∀ d ∈ ds, d.lvl ≠ .fatal) :
    ∃ st r s, MainRun.staged env mn f b body imp = .ok st ∧
      RootCtx.compile f b body = .ok r ∧ FileA.analyseWith env mn f r.ctx body = .ok s ∧
      ∀ root, root < s.ir.length → ∀ nodes, callTree (toProg id f imp s.ir) root = some nodes →
      ∀ i, i < nodes.length → ∀ ch ∈ childrenOf nodes i, ∀ c, ch.edgeIn = some c →
      ∀ sg : Spec.Sig Str, sg.iface = (fnAt (toProg id f imp s.ir) ch.key).iface → sg.iface.all.Nodup →
      ∀ e, Spec.pyBind sg c.args = .error e → e ≠ .missingRequired →
      ∃ ln ∈ (MainRun.mainOf cfg st).diag.printed, ln.level = .error := by
  obtain ⟨st, hst, -, hds⟩ := staged_of_run h
  obtain ⟨r, s, hr, ha, hall⟩ := C04_pipeline_rejected_diagnosed h
  refine ⟨st, r, s, hst, hr, ha, ?_⟩
  intro root hroot nodes hnodes i hi ch hch c he sg hsg hn e hrej hne
  obtain ⟨d, hd, hlvl, -⟩ := hall root hroot nodes hnodes i hi ch hch c he sg hsg hn e hrej hne
  -- the event of `d`
  have hlev : ∀ (loc : Diag.Where) (x : Rattr.Diag), (MainRun.eventOf loc x).level = MainRun.levelOf x.lvl := fun _ _ => rfl
  have hnf' : ∀ ev ∈ MainRun.events st, ev.level ≠ .fatal := by
    intro ev hev
    unfold MainRun.events at hev
    rcases List.mem_append.mp hev with hm | hm
    all_goals
      obtain ⟨x, hx, rfl⟩ := List.mem_map.mp hm
      have hxd : x ∈ ds := by rw [← hds]; simp [hx]
      have := hnf x hxd
      rw [hlev]
      cases hxl : x.lvl <;> simp_all [MainRun.levelOf]
  rw [← hds] at hd
  have hev : ∃ ev ∈ MainRun.events st, ev.level = .error := by
    unfold MainRun.events
    rcases List.mem_append.mp hd with hm | hm
    · exact ⟨MainRun.eventOf .target d, List.mem_append_left _ (List.mem_map_of_mem hm), by rw [hlev, hlvl]; rfl⟩
    · exact ⟨MainRun.eventOf .none d, List.mem_append_right _ (List.mem_map_of_mem hm), by rw [hlev, hlvl]; rfl⟩
  obtain ⟨ev, hevm, hevl⟩ := hev
  have hp := runEvents_error_printed cfg hs Diag.State.init (MainRun.events st) hnf' ev hevm hevl
  exact ⟨⟨.error, ev.loc⟩, run_printed_sup cfg _ _ hp, rfl⟩

/-- the hypotheses of `C04_main_rejected_shown` are satisfiable: the test module of
`C04_pipeline_test_module` (its only diagnostic is the arity error of `stub(e, f, g)`), `-w none`. -/
example := C04_main_rejected_shown ⟨false, 0, .none, false, false⟩ rfl C04_pipeline_test_module (by decide)

def printedIs (o : Except Str MainRun.Result) (ls : List Diag.Line) : Bool :=
  match o with
  | .ok r => decide (r.diag.printed = ls) && decide (r.diag.exit = 0)
  | _ => false

/-- TEST (kernel evaluation of the model of the whole `main` on the test module): the arity error of
`stub(e, f, g)` is the one line on stderr, the exit status is 0 — under each of the four warning levels. -/
theorem C04_main_test_module_shown :
    ∀ w ∈ Diag.WarnLevel.every,
      printedIs (MainRun.main ⟨false, 0, w, false, false⟩ envT (T' "target") {} [] modT) [⟨.error, .none⟩] = true := by
  decide +kernel

end Shown

end Rattr.C04

/-
  C04 — call-site arguments are bound to parameters exactly as Python binds them.

  Model: `Swaps.construct` (RattrModel/Swaps.lean) = `construct_call_swaps`.
  Spec:  `Spec.pyBind`     (RattrModel/Spec/PyBind.lean) = CPython's binding rule.

  Full statement (`C04_full`) is NOT a theorem of the pinned code: three classes of calls violate it
  (`C04_cex_*`, each replayed on the implementation and listed in known_findings.json). What is
  proved for all signatures (pairwise distinct parameter names) and all calls, with no size bound
  (helper development: RattrProofs/Lemmas/Swaps.lean):
    * `C04_partial` — outside E1 (keyword spelled like a positional-only / `*args` / `**kwargs`
      parameter while `**kwargs` exists) and E2 (omitted positional-only parameter): an accepted
      call gets exactly Python's binding (lenient reading for `**kwargs`) and no diagnostic; a call
      rejected for an arity reason other than a missing argument is diagnosed;
      `C04_partial_strict` — additionally outside E3 (`**kwargs` receives nothing): `C04_at`;
      `C04_partial_sharp` — the same with the sharp first exclusion `E1s ⊆ E1`;
    * `C04_rejected_diagnosed` — part (c) with no exclusion at all;
    * `C04_exact` — `C04_at` holds iff Python rejects the call or the call is outside
      `E1s ∪ E2 ∪ E3` (so the three classes are exactly the defects; `C04_E1s_diagnosed`,
      `C04_accepted_clean_iff`, `C04_E3_unmapped`);
    * stand-alone facts: `C04_posonly_short`, `C04_too_many`, `C04_positional`,
      `C04_vararg_always_mapped`, `C04_unexpected_keyword`, `C04_multiple_values`,
      `C04_keyword_binds`.
-/
import RattrModel.Swaps
import RattrModel.Spec.PyBind
import RattrModel.Generated.C04
import RattrProofs.Lemmas.Swaps

namespace Rattr.C04
open Rattr Rattr.Swaps

variable {α : Type} [DecidableEq α]

/-! ### Tie A: the tables the model hard-codes are what the source says now -/

theorem tieA_all_order :
    Generated.C04.ifaceAllOrder = ["posonly", "args", "vararg", "kwonly", "kwarg"] := by decide

theorem tieA_standins :
    Generated.C04.varargStandIn = "@Tuple" ∧ Generated.C04.kwargStandIn = "@Dict" := by decide

/-! ### The full statement (kept visible; false on the pinned tree) -/

def SameMap (a b : Dict α α) : Prop := ∀ k, Dict.get? a k = Dict.get? b k

/-- C04 at one (signature, call): accepted ⇒ swaps are Python's binding plus stand-ins and there is
no diagnostic; rejected for an arity reason other than a missing argument ⇒ some diagnostic. -/
def C04_at (si : StandIns α) (s : Spec.Sig α) (c : CallArgs α) : Prop :=
  match Spec.pyBind s c with
  | .ok b => (construct si s.iface c).2 = [] ∧
             SameMap (construct si s.iface c).1 (Spec.expectedSwaps si s b)
  | .error .missingRequired => True     -- [interp] not decidable without defaults
  | .error _ => (construct si s.iface c).2 ≠ []

def C04_full : Prop :=
  ∀ (si : StandIns Nat) (s : Spec.Sig Nat) (c : CallArgs Nat),
    (s.iface.all).Nodup → (c.kwargs.map Prod.fst).Nodup → C04_at si s c

/-! ### Counterexamples (one per known finding), closed by kernel evaluation -/

private def siN : StandIns Nat := { tuple := 100, dict := 101 }

/-- `def callee(a, /, **kw)`; `callee(x, a=y)`: Python accepts, rattr diagnoses. -/
theorem C04_cex_kwarg_clash :
    Spec.pyBind (α := Nat) { posonly := [⟨1, false⟩], args := [], vararg := none, kwonly := [], kwarg := some 9 }
        { args := [50], kwargs := [(1, 51)] }
      = .ok { explicit := [(1, 50)], varargGot := [], kwargGot := [(1, 51)] }
    ∧ (construct siN { posonly := [1], args := [], vararg := none, kwonly := [], kwarg := some 9 }
        { args := [50], kwargs := [(1, 51)] }).2 = [SwapDiag.byPositionAndName [1]] := by
  decide

/-- `def callee(a, b=0, /)`; `callee(x)`: Python accepts, rattr drops every swap and diagnoses. -/
theorem C04_cex_posonly_default :
    Spec.pyBind (α := Nat) { posonly := [⟨1, false⟩, ⟨2, true⟩], args := [], vararg := none, kwonly := [], kwarg := none }
        { args := [50], kwargs := [] }
      = .ok { explicit := [(1, 50)], varargGot := [], kwargGot := [] }
    ∧ construct siN { posonly := [1, 2], args := [], vararg := none, kwonly := [], kwarg := none }
        { args := [50], kwargs := [] } = ([], [SwapDiag.posonlyShort]) := by
  decide

/-- `def callee(**kw)`; `callee()`: the `**kw` parameter is left unmapped. -/
theorem C04_cex_kwarg_empty :
    construct siN { posonly := [], args := [], vararg := none, kwonly := [], kwarg := some 9 }
        { args := [], kwargs := [] } = ([], [])
    ∧ Spec.expectedSwaps siN (α := Nat) { posonly := [], args := [], vararg := none, kwonly := [], kwarg := some 9 }
        { explicit := [], varargGot := [], kwargGot := [] } = [(9, 101)] := by
  decide

theorem C04_full_false : ¬ C04_full := by
  intro h
  have h1 := h siN { posonly := [⟨1, false⟩], args := [], vararg := none, kwonly := [], kwarg := some 9 }
    { args := [50], kwargs := [(1, 51)] } (by decide) (by decide)
  have hc := C04_cex_kwarg_clash
  unfold C04_at at h1
  rw [hc.1] at h1
  have h2 : (construct siN (Spec.Sig.iface (α := Nat)
      { posonly := [⟨1, false⟩], args := [], vararg := none, kwonly := [], kwarg := some 9 })
      { args := [50], kwargs := [(1, 51)] }).2 = [SwapDiag.byPositionAndName [1]] := hc.2
  rw [h2] at h1
  exact absurd h1.1 (by decide)

/-! ### Lemmas on the positional phases -/

theorem bindPosonly_none (ps cargs : List α) (sw : Dict α α) :
    cargs.length < ps.length → bindPosonly ps cargs sw = none := by
  induction ps generalizing cargs sw with
  | nil => intro h; simp at h
  | cons p ps ih =>
    intro h
    cases cargs with
    | nil => rfl
    | cons a as =>
      simp only [bindPosonly]
      apply ih
      simpa using h

theorem bindPosonly_some (ps cargs : List α) (sw : Dict α α) :
    ps.length ≤ cargs.length →
    ∃ sw', bindPosonly ps cargs sw = some (sw', cargs.drop ps.length) := by
  induction ps generalizing cargs sw with
  | nil => intro _; exact ⟨sw, rfl⟩
  | cons p ps ih =>
    intro h
    cases cargs with
    | nil => simp at h
    | cons a as =>
      simp only [bindPosonly, List.length_cons, List.drop_succ_cons]
      apply ih
      simpa using h

theorem bindArgs_rest (ps cargs : List α) (sw : Dict α α) :
    (bindArgs ps cargs sw).2.2 = cargs.drop ps.length ∧
    (bindArgs ps cargs sw).2.1 = ps.drop cargs.length := by
  induction ps generalizing cargs sw with
  | nil => cases cargs <;> simp [bindArgs]
  | cons p ps ih =>
    cases cargs with
    | nil => simp [bindArgs]
    | cons a as =>
      simp only [bindArgs, List.length_cons, List.drop_succ_cons]
      exact ih as _

/-! ### Rejections are diagnosed -/

/-- Fewer positionals than positional-only parameters: diagnosed, and nothing is bound. -/
theorem C04_posonly_short (si : StandIns α) (f : Iface α) (c : CallArgs α)
    (h : c.args.length < f.posonly.length) :
    construct si f c = ([], [SwapDiag.posonlyShort]) := by
  unfold construct
  rw [bindPosonly_none _ _ _ h]

/-- More positionals than positional parameters and no `*args`: "too many positional arguments"
is diagnosed whatever the keywords are. -/
theorem C04_too_many (si : StandIns α) (f : Iface α) (c : CallArgs α)
    (hv : f.vararg = none)
    (h : f.posonly.length + f.args.length < c.args.length) :
    SwapDiag.tooManyPositional ∈ (construct si f c).2 := by
  unfold construct
  obtain ⟨sw', hsw⟩ := bindPosonly_some f.posonly c.args [] (by omega)
  rw [hsw]
  have hr := (bindArgs_rest f.args (c.args.drop f.posonly.length) sw').1
  simp only [hv]
  generalize hb : bindArgs f.args (List.drop f.posonly.length c.args) sw' = r at hr
  obtain ⟨sw2, ia, ca⟩ := r
  simp only at hr
  have hne : ca ≠ [] := by
    rw [hr]
    intro hnil
    have := congrArg List.length hnil
    simp at this
    omega
  simp [hne]

/-! ### The general partial theorem (all signatures, all calls, no size bound)

Proof: `RattrProofs/Lemmas/Swaps.lean` — the positional loops are `Spec.zipPos`; the keyword loop
and `Spec.bindKws` are run in lock-step under the invariant `SwapsLemmas.Inv`. -/

open Rattr.SwapsLemmas

/-- (E1) `**kwargs` exists and some keyword is spelled like a positional-only parameter, like the
`*args` parameter or like the `**kwargs` parameter itself (Python puts it into `**kwargs`; the
pinned code reports "by position and name"). -/
def E1 (s : Spec.Sig α) (c : CallArgs α) : Prop :=
  s.kwarg.isSome = true ∧
    ∃ kv ∈ c.kwargs, kv.1 ∈ s.posonly.map (·.name) ∨ kv.1 ∈ s.vararg.toList ∨ kv.1 ∈ s.kwarg.toList

/-- (E2) a positional-only parameter is omitted (Python accepts iff it has a default; the pinned
code always reports and drops every swap). -/
def E2 (s : Spec.Sig α) (c : CallArgs α) : Prop := c.args.length < s.posonly.length

/-- (E3) `**kwargs` exists and no keyword goes into it: every keyword names a
positional-or-keyword or keyword-only parameter (the pinned code leaves `**kwargs` unmapped). -/
def E3 (s : Spec.Sig α) (c : CallArgs α) : Prop :=
  s.kwarg.isSome = true ∧
    ∀ kv ∈ c.kwargs, kv.1 ∈ s.args.map (·.name) ∨ kv.1 ∈ s.kwonly.map (·.name)

/-- exactly the three known defect classes -/
def Excluded (s : Spec.Sig α) (c : CallArgs α) : Prop := E1 s c ∨ E2 s c ∨ E3 s c

instance (s : Spec.Sig α) (c : CallArgs α) : Decidable (E1 s c) := by unfold E1; infer_instance
instance (s : Spec.Sig α) (c : CallArgs α) : Decidable (E2 s c) := by unfold E2; infer_instance
instance (s : Spec.Sig α) (c : CallArgs α) : Decidable (E3 s c) := by unfold E3; infer_instance
instance (s : Spec.Sig α) (c : CallArgs α) : Decidable (Excluded s c) := by
  unfold Excluded; infer_instance

/-- **C04, general partial theorem.** For every signature with pairwise distinct parameter names
and every call with pairwise distinct keywords, outside E1 and E2 and whatever the stand-ins are:
(a) a call Python accepts is bound exactly as Python binds it (`*args ↦ @Tuple` whenever it
exists, `**kwargs ↦ @Dict` iff it received something) and (b) nothing is diagnosed; (c) a call
Python rejects for an arity reason other than a missing argument is diagnosed. -/
theorem C04_partial (si : StandIns α) (s : Spec.Sig α) (c : CallArgs α)
    (hn : s.iface.all.Nodup) (hk : (c.kwargs.map Prod.fst).Nodup)
    (hE1 : ¬ E1 s c) (hE2 : ¬ E2 s c) :
    match Spec.pyBind s c with
    | .ok b => (construct si s.iface c).2 = [] ∧
               SameMap (construct si s.iface c).1 (Spec.expectedSwapsLenient si s b)
    | .error .missingRequired => True
    | .error _ => (construct si s.iface c).2 ≠ [] := by
  have hlen : s.posonly.length ≤ c.args.length := by unfold E2 at hE2; omega
  obtain ⟨filled, h1, h2, h3, -, -⟩ := zipPos_append_summary s.posonly s.args c.args hlen
  have hfill : ∀ x ∈ filled, x ∈ s.iface.args := by
    intro x hx
    show x ∈ s.args.map (·.name)
    rw [h2]; exact List.mem_append.mpr (Or.inl hx)
  have hclash : ∀ kv ∈ c.kwargs, ¬ KwClash s.iface kv.1 := by
    intro kv hkv hc
    exact hE1 ⟨hc.1, kv, hkv, hc.2⟩
  have I0 : Inv si s.iface filled (m0 si s c) (st0 s c) c.kwargs :=
    Inv_init si s.iface hn _ _ s.kwonly filled h1 h2 rfl c.kwargs
  have hloop :
      match Spec.bindKws filled s.kwarg.isSome (st0 s c) c.kwargs with
      | .ok st' =>
          Inv si s.iface filled (c.kwargs.foldl (kwStep si s.kwarg s.iface.all) (m0 si s c)) st' []
      | .error e => e ≠ .missingRequired ∧ e ≠ .tooManyPositional ∧
          Diag (c.kwargs.foldl (kwStep si s.kwarg s.iface.all) (m0 si s c)) :=
    kw_loop si s.iface filled hn hfill c.kwargs _ _ I0 hk hclash
  rw [pyBind_eq s c hlen, construct_eq si s c hn hlen]
  have hf0 : filled0 s c = filled := h3
  rw [hf0]
  by_cases htm : (Spec.zipPos (s.posonly ++ s.args) c.args).2.2 ≠ [] ∧ s.vararg.isNone = true
  · rw [if_pos htm]
    have : (Spec.zipPos (s.posonly ++ s.args) c.args).2.2 ≠ [] ∧ s.vararg = none :=
      ⟨htm.1, by simpa using htm.2⟩
    simp [this]
  · rw [if_neg htm]
    have htm' : ¬ ((Spec.zipPos (s.posonly ++ s.args) c.args).2.2 ≠ [] ∧ s.vararg = none) := by
      intro h; exact htm ⟨h.1, by simp [h.2]⟩
    generalize Spec.bindKws filled s.kwarg.isSome (st0 s c) c.kwargs = r at hloop ⊢
    cases r with
    | error e =>
      obtain ⟨he1, he2, hd⟩ := hloop
      have hne : (List.foldl (kwStep si s.kwarg s.iface.all) (m0 si s c) c.kwargs).unexpected ≠ [] ∨
          (List.foldl (kwStep si s.kwarg s.iface.all) (m0 si s c) c.kwargs).byPosName ≠ [] := hd
      cases e <;> first | exact absurd rfl he1 | exact absurd rfl he2 | skip
      all_goals
        simp only [ne_eq]
        rcases hne with h | h <;> simp [h]
    | ok st' =>
      have I : Inv si s.iface filled _ st' [] := hloop
      simp only []
      by_cases hm : st'.open_.any (fun p => !p.hasDefault) = true
      · rw [if_pos hm]; trivial
      · rw [if_neg hm]
        refine ⟨?_, ?_⟩
        · simp [htm', I.clean.1, I.clean.2]
        · intro k
          exact I.same k

/-- **C04 outside the three defect classes**: the full statement `C04_at` (strict reading:
`**kwargs ↦ @Dict` whenever the parameter exists) holds for every signature and call that is not
`Excluded`. -/
theorem C04_partial_strict (si : StandIns α) (s : Spec.Sig α) (c : CallArgs α)
    (hn : s.iface.all.Nodup) (hk : (c.kwargs.map Prod.fst).Nodup) (hX : ¬ Excluded s c) :
    C04_at si s c := by
  have hE1 : ¬ E1 s c := fun h => hX (Or.inl h)
  have hE2 : ¬ E2 s c := fun h => hX (Or.inr (Or.inl h))
  have hE3 : ¬ E3 s c := fun h => hX (Or.inr (Or.inr h))
  have hlen : s.posonly.length ≤ c.args.length := by unfold E2 at hE2; omega
  have main := C04_partial si s c hn hk hE1 hE2
  unfold C04_at
  generalize hp : Spec.pyBind s c = r at main ⊢
  cases r with
  | error e => cases e <;> exact main
  | ok b =>
    have heq : Spec.expectedSwaps si s b = Spec.expectedSwapsLenient si s b := by
      unfold Spec.expectedSwaps Spec.expectedSwapsLenient
      by_cases hkw : s.kwarg.isSome = true
      · have hex : ∃ kv ∈ c.kwargs,
            kv.1 ∉ s.args.map (·.name) ∧ kv.1 ∉ s.kwonly.map (·.name) := by
          apply Classical.byContradiction
          intro hne
          apply hE3
          refine ⟨hkw, fun kv hkv => ?_⟩
          apply Classical.byContradiction
          intro h
          exact hne ⟨kv, hkv, fun h1 => h (Or.inl h1), fun h2 => h (Or.inr h2)⟩
        have := pyBind_ok_got s c hlen b hp hex
        rw [if_pos this]
      · have : s.kwarg = none := by simpa using hkw
        simp [this]
    simp only [] at main ⊢
    rw [heq]; exact main

/-- **C04 (c), unconditionally.** For every signature with pairwise distinct parameter names and
every call (no exclusion at all, keywords need not even be distinct): a call Python rejects for an
arity reason other than a missing argument is diagnosed. -/
theorem C04_rejected_diagnosed (si : StandIns α) (s : Spec.Sig α) (c : CallArgs α)
    (hn : s.iface.all.Nodup) (e : Spec.BindErr) (h : Spec.pyBind s c = .error e)
    (he : e ≠ .missingRequired) :
    (construct si s.iface c).2 ≠ [] := by
  by_cases hE2 : c.args.length < s.posonly.length
  · rw [C04_posonly_short si s.iface c (by simpa [Spec.Sig.iface] using hE2)]; simp
  · have hlen : s.posonly.length ≤ c.args.length := by omega
    obtain ⟨filled, h1, h2, h3, -, -⟩ := zipPos_append_summary s.posonly s.args c.args hlen
    have hfill : ∀ x ∈ filled, x ∈ s.iface.args := by
      intro x hx
      show x ∈ s.args.map (·.name)
      rw [h2]; exact List.mem_append.mpr (Or.inl hx)
    have I0 : InvW si s.iface (m0 si s c) (st0 s c) :=
      (Inv_init si s.iface hn _ _ s.kwonly filled h1 h2 rfl []).toInvW
    have hloop :
        match Spec.bindKws filled s.kwarg.isSome (st0 s c) c.kwargs with
        | .ok st' =>
            InvW si s.iface (c.kwargs.foldl (kwStep si s.kwarg s.iface.all) (m0 si s c)) st'
        | .error e => e ≠ .missingRequired ∧ e ≠ .tooManyPositional ∧
            Diag (c.kwargs.foldl (kwStep si s.kwarg s.iface.all) (m0 si s c)) :=
      kw_loopW si s.iface filled hn hfill c.kwargs _ _ I0
    rw [pyBind_eq s c hlen] at h
    rw [construct_eq si s c hn hlen]
    have hf0 : filled0 s c = filled := h3
    rw [hf0] at h
    by_cases htm : (Spec.zipPos (s.posonly ++ s.args) c.args).2.2 ≠ [] ∧ s.vararg.isNone = true
    · have : (Spec.zipPos (s.posonly ++ s.args) c.args).2.2 ≠ [] ∧ s.vararg = none :=
        ⟨htm.1, by simpa using htm.2⟩
      simp [this]
    · rw [if_neg htm] at h
      generalize Spec.bindKws filled s.kwarg.isSome (st0 s c) c.kwargs = r at hloop h
      cases r with
      | error e' =>
        obtain ⟨-, -, hd⟩ := hloop
        have hne :
            (List.foldl (kwStep si s.kwarg s.iface.all) (m0 si s c) c.kwargs).unexpected ≠ [] ∨
            (List.foldl (kwStep si s.kwarg s.iface.all) (m0 si s c) c.kwargs).byPosName ≠ [] := hd
        simp only [ne_eq]
        rcases hne with h' | h' <;> simp [h']
      | ok st' =>
        simp only [] at h
        split at h
        · injection h with h; exact absurd h.symm he
        · cases h

/-! ### The sharp form of the first exclusion

A keyword spelled like the `**kwargs` parameter itself is harmless unless an earlier keyword has
already gone into `**kwargs`. `E1s ⊆ E1`; outside `E1s` and `E2` the theorem still holds
(`C04_partial_sharp`), and inside `E1s` (outside `E2`) the pinned code always diagnoses
(`C04_E1s_diagnosed`) — so for the calls Python accepts, with all positional-only parameters
supplied, "no diagnostic" is *equivalent* to `¬ E1s` (`C04_accepted_clean_iff`). -/

/-- (E1, sharp) `**kwargs` exists and some keyword is spelled like a positional-only parameter or
like the `*args` parameter, or the first keyword that Python puts into `**kwargs` is followed by a
keyword spelled like the `**kwargs` parameter. -/
def E1s (s : Spec.Sig α) (c : CallArgs α) : Prop :=
  s.kwarg.isSome = true ∧
    ((∃ kv ∈ c.kwargs, kv.1 ∈ s.posonly.map (·.name) ∨ kv.1 ∈ s.vararg.toList) ∨
      selfClash s.iface c.kwargs = true)

instance (s : Spec.Sig α) (c : CallArgs α) : Decidable (E1s s c) := by unfold E1s; infer_instance

theorem E1s_imp_E1 (s : Spec.Sig α) (c : CallArgs α) (h : E1s s c) : E1 s c := by
  obtain ⟨hk, h⟩ := h
  refine ⟨hk, ?_⟩
  rcases h with ⟨kv, hkv, h⟩ | h
  · exact ⟨kv, hkv, by rcases h with h | h; exact Or.inl h; exact Or.inr (Or.inl h)⟩
  · obtain ⟨kv, hkv, h⟩ := selfClash_mem _ _ h
    exact ⟨kv, hkv, Or.inr (Or.inr h)⟩

/-- `C04_partial` under the sharp exclusion. -/
theorem C04_partial_sharp (si : StandIns α) (s : Spec.Sig α) (c : CallArgs α)
    (hn : s.iface.all.Nodup) (hk : (c.kwargs.map Prod.fst).Nodup)
    (hE1 : ¬ E1s s c) (hE2 : ¬ E2 s c) :
    match Spec.pyBind s c with
    | .ok b => (construct si s.iface c).2 = [] ∧
               SameMap (construct si s.iface c).1 (Spec.expectedSwapsLenient si s b)
    | .error .missingRequired => True
    | .error _ => (construct si s.iface c).2 ≠ [] := by
  have hlen : s.posonly.length ≤ c.args.length := by unfold E2 at hE2; omega
  obtain ⟨filled, h1, h2, h3, -, -⟩ := zipPos_append_summary s.posonly s.args c.args hlen
  have hfill : ∀ x ∈ filled, x ∈ s.iface.args := by
    intro x hx
    show x ∈ s.args.map (·.name)
    rw [h2]; exact List.mem_append.mpr (Or.inl hx)
  have hclash : ∀ kv ∈ c.kwargs, ¬ KwClashS s.iface kv.1 := by
    intro kv hkv hc
    exact hE1 ⟨hc.1, Or.inl ⟨kv, hkv, hc.2⟩⟩
  have hself : selfClash s.iface c.kwargs = false := by
    cases hsc : selfClash s.iface c.kwargs with
    | false => rfl
    | true =>
      obtain ⟨kv, -, hkv⟩ := selfClash_mem _ _ hsc
      have hks : s.kwarg.isSome = true := by
        have : kv.1 ∈ s.kwarg.toList := hkv
        cases hkk : s.kwarg <;> simp [hkk] at this ⊢
      exact absurd ⟨hks, Or.inr hsc⟩ hE1
  have I0 : Inv si s.iface filled (m0 si s c) (st0 s c) c.kwargs :=
    Inv_init si s.iface hn _ _ s.kwonly filled h1 h2 rfl c.kwargs
  have hro : ∀ kv ∈ c.kwargs, kv.1 ∈ s.iface.args ++ s.iface.kwonly →
      kv.1 ∈ (m0 si s c).args ++ (m0 si s c).kwonly ∨ kv.1 ∈ filled := by
    intro kv _ hm
    have hm' : kv.1 ∈ s.args.map (·.name) ++ s.kwonly.map (·.name) := hm
    rw [h2] at hm'
    simp only [m0, List.mem_append] at hm' ⊢
    grind
  have hloop :
      match Spec.bindKws filled s.kwarg.isSome (st0 s c) c.kwargs with
      | .ok st' =>
          Inv si s.iface filled (c.kwargs.foldl (kwStep si s.kwarg s.iface.all) (m0 si s c)) st' []
      | .error e => e ≠ .missingRequired ∧ e ≠ .tooManyPositional ∧
          Diag (c.kwargs.foldl (kwStep si s.kwarg s.iface.all) (m0 si s c)) :=
    kw_loopS si s.iface filled hn hfill c.kwargs _ _ I0 hk hclash hro
      (fun hg => absurd rfl hg) (fun _ => hself)
  rw [pyBind_eq s c hlen, construct_eq si s c hn hlen]
  have hf0 : filled0 s c = filled := h3
  rw [hf0]
  by_cases htm : (Spec.zipPos (s.posonly ++ s.args) c.args).2.2 ≠ [] ∧ s.vararg.isNone = true
  · rw [if_pos htm]
    have : (Spec.zipPos (s.posonly ++ s.args) c.args).2.2 ≠ [] ∧ s.vararg = none :=
      ⟨htm.1, by simpa using htm.2⟩
    simp [this]
  · rw [if_neg htm]
    have htm' : ¬ ((Spec.zipPos (s.posonly ++ s.args) c.args).2.2 ≠ [] ∧ s.vararg = none) := by
      intro h; exact htm ⟨h.1, by simp [h.2]⟩
    generalize Spec.bindKws filled s.kwarg.isSome (st0 s c) c.kwargs = r at hloop ⊢
    cases r with
    | error e =>
      obtain ⟨he1, he2, hd⟩ := hloop
      have hne : (List.foldl (kwStep si s.kwarg s.iface.all) (m0 si s c) c.kwargs).unexpected ≠ [] ∨
          (List.foldl (kwStep si s.kwarg s.iface.all) (m0 si s c) c.kwargs).byPosName ≠ [] := hd
      cases e <;> first | exact absurd rfl he1 | exact absurd rfl he2 | skip
      all_goals
        simp only [ne_eq]
        rcases hne with h | h <;> simp [h]
    | ok st' =>
      have I : Inv si s.iface filled _ st' [] := hloop
      simp only []
      by_cases hm : st'.open_.any (fun p => !p.hasDefault) = true
      · rw [if_pos hm]; trivial
      · rw [if_neg hm]
        refine ⟨?_, ?_⟩
        · simp [htm', I.clean.1, I.clean.2]
        · intro k
          exact I.same k

/-- Inside the sharp exclusion (with every positional-only parameter supplied) the pinned code
always emits the "by position and name" diagnostic — whether or not Python accepts the call. -/
theorem C04_E1s_diagnosed (si : StandIns α) (s : Spec.Sig α) (c : CallArgs α)
    (hn : s.iface.all.Nodup) (hE2 : ¬ E2 s c) (h : E1s s c) :
    ∃ ks, SwapDiag.byPositionAndName ks ∈ (construct si s.iface c).2 := by
  have hlen : s.posonly.length ≤ c.args.length := by unfold E2 at hE2; omega
  obtain ⟨-, h⟩ := h
  rcases h with ⟨kv, hkv, h⟩ | h
  · obtain ⟨ks, h1, -⟩ := byPos_of_contains_sig si s c hn hlen kv hkv h
    exact ⟨ks, h1⟩
  · exact selfClash_sig si s c hn hlen h

/-- **Exactness of the first exclusion.** For a call Python accepts, with all positional-only
parameters supplied: the pinned code is silent iff the call is outside `E1s`. -/
theorem C04_accepted_clean_iff (si : StandIns α) (s : Spec.Sig α) (c : CallArgs α)
    (hn : s.iface.all.Nodup) (hk : (c.kwargs.map Prod.fst).Nodup) (hE2 : ¬ E2 s c)
    (b : Spec.Binding α) (hb : Spec.pyBind s c = .ok b) :
    (construct si s.iface c).2 = [] ↔ ¬ E1s s c := by
  constructor
  · intro hnil h
    obtain ⟨ks, hks⟩ := C04_E1s_diagnosed si s c hn hE2 h
    rw [hnil] at hks
    simp at hks
  · intro h
    have := C04_partial_sharp si s c hn hk h hE2
    rw [hb] at this
    exact this.1

/-! ### Exactness of the whole exclusion -/

/-- the three defect classes, the first in its sharp form -/
def ExcludedS (s : Spec.Sig α) (c : CallArgs α) : Prop := E1s s c ∨ E2 s c ∨ E3 s c

instance (s : Spec.Sig α) (c : CallArgs α) : Decidable (ExcludedS s c) := by
  unfold ExcludedS; infer_instance

theorem ExcludedS_imp_Excluded (s : Spec.Sig α) (c : CallArgs α) (h : ExcludedS s c) :
    Excluded s c := by
  rcases h with h | h | h
  · exact Or.inl (E1s_imp_E1 s c h)
  · exact Or.inr (Or.inl h)
  · exact Or.inr (Or.inr h)

/-- outside E3 the strict and the lenient reading of an accepted call coincide -/
theorem expectedSwaps_eq_lenient (si : StandIns α) (s : Spec.Sig α) (c : CallArgs α)
    (hE2 : ¬ E2 s c) (hE3 : ¬ E3 s c) (b : Spec.Binding α) (hp : Spec.pyBind s c = .ok b) :
    Spec.expectedSwaps si s b = Spec.expectedSwapsLenient si s b := by
  have hlen : s.posonly.length ≤ c.args.length := by unfold E2 at hE2; omega
  unfold Spec.expectedSwaps Spec.expectedSwapsLenient
  by_cases hkw : s.kwarg.isSome = true
  · have hex : ∃ kv ∈ c.kwargs,
        kv.1 ∉ s.args.map (·.name) ∧ kv.1 ∉ s.kwonly.map (·.name) := by
      apply Classical.byContradiction
      intro hne
      apply hE3
      refine ⟨hkw, fun kv hkv => ?_⟩
      apply Classical.byContradiction
      intro h
      exact hne ⟨kv, hkv, fun h1 => h (Or.inl h1), fun h2 => h (Or.inr h2)⟩
    have := pyBind_ok_got s c hlen b hp hex
    rw [if_pos this]
  · have : s.kwarg = none := by simpa using hkw
    simp [this]

/-- Inside E3 (outside the other two classes) an accepted call leaves `**kwargs` unmapped. -/
theorem C04_E3_unmapped (si : StandIns α) (s : Spec.Sig α) (c : CallArgs α)
    (hn : s.iface.all.Nodup) (hk : (c.kwargs.map Prod.fst).Nodup)
    (hE1 : ¬ E1s s c) (hE2 : ¬ E2 s c) (hE3 : E3 s c)
    (b : Spec.Binding α) (hb : Spec.pyBind s c = .ok b) (kn : α) (hkn : s.kwarg = some kn) :
    Dict.get? (construct si s.iface c).1 kn = none := by
  have hlen : s.posonly.length ≤ c.args.length := by unfold E2 at hE2; omega
  obtain ⟨hgot, hsub⟩ := pyBind_ok_E3 s c hlen hk b hb hE3.2
  have main := C04_partial_sharp si s c hn hk hE1 hE2
  rw [hb] at main
  rw [main.2 kn]
  obtain ⟨hd1, hd2⟩ := all_disj s.iface hn
  unfold Spec.expectedSwapsLenient
  simp only [hgot, ne_eq, not_true_eq_false, if_false, List.append_nil]
  apply (get?_eq_none_iff _ _).mpr
  simp only [List.map_append, List.mem_append, not_or, List.map_map, Function.comp_def,
    List.map_id']
  constructor
  · intro hx
    have h1 : kn ∈ s.iface.posonly ++ s.iface.args ++ s.iface.kwonly := hsub kn hx
    have := (hd1 kn h1).2
    have hk' : s.iface.kwarg = some kn := hkn
    simp [hk'] at this
  · intro hx
    have hx' : kn ∈ s.iface.vararg.toList := by
      show kn ∈ s.vararg.toList
      simpa using hx
    have := hd2 kn hx'
    have hk' : s.iface.kwarg = some kn := hkn
    simp [hk'] at this

/-- **C04, exact form.** For every signature with pairwise distinct parameter names and every
call with pairwise distinct keywords: the property holds at (signature, call) **iff** Python
rejects the call or the call is outside the three defect classes. -/
theorem C04_exact (si : StandIns α) (s : Spec.Sig α) (c : CallArgs α)
    (hn : s.iface.all.Nodup) (hk : (c.kwargs.map Prod.fst).Nodup) :
    C04_at si s c ↔ (∀ b, Spec.pyBind s c = .ok b → ¬ ExcludedS s c) := by
  constructor
  · intro hat b hb hX
    unfold C04_at at hat
    rw [hb] at hat
    obtain ⟨hnil, hsame⟩ := hat
    by_cases hE2 : E2 s c
    · have := C04_posonly_short si s.iface c (by simpa [Spec.Sig.iface, E2] using hE2)
      rw [this] at hnil
      simp at hnil
    · by_cases hE1 : E1s s c
      · exact (C04_accepted_clean_iff si s c hn hk hE2 b hb).mp hnil hE1
      · have hE3 : E3 s c := by
          rcases hX with h | h | h
          · exact absurd h hE1
          · exact absurd h hE2
          · exact h
        obtain ⟨kn, hkn⟩ := Option.isSome_iff_exists.mp hE3.1
        have hnone := C04_E3_unmapped si s c hn hk hE1 hE2 hE3 b hb kn hkn
        rw [hsame kn] at hnone
        have hmem : kn ∈ (Spec.expectedSwaps si s b).map Prod.fst := by
          unfold Spec.expectedSwaps
          simp [hkn]
        exact ((get?_eq_none_iff _ _).mp hnone) hmem
  · intro h
    unfold C04_at
    cases hp : Spec.pyBind s c with
    | error e =>
      cases e
      case missingRequired => trivial
      all_goals exact C04_rejected_diagnosed si s c hn _ hp (by simp)
    | ok b =>
      have hX := h b hp
      have hE1 : ¬ E1s s c := fun h => hX (Or.inl h)
      have hE2 : ¬ E2 s c := fun h => hX (Or.inr (Or.inl h))
      have hE3 : ¬ E3 s c := fun h => hX (Or.inr (Or.inr h))
      have main := C04_partial_sharp si s c hn hk hE1 hE2
      rw [hp] at main
      simp only []
      rw [expectedSwaps_eq_lenient si s c hE2 hE3 b hp]
      exact main

/-! ### Non-vacuity of `C04_partial` / `C04_partial_strict`

`def callee(p, /, a, b=0, *va, k, **kw)` (all five kinds; names 1..6) and three calls. -/

/-- `def callee(p, /, a, b=0, *va, k, **kw)` -/
def sigEx : Spec.Sig Nat :=
  { posonly := [⟨1, false⟩], args := [⟨2, false⟩, ⟨3, true⟩], vararg := some 4,
    kwonly := [⟨5, false⟩], kwarg := some 6 }

/-- accepted: `callee(x0, x1, k=v1, extra=v2)` — every hypothesis of `C04_partial_strict` holds,
Python accepts, and the conclusion is the non-trivial one. -/
example :
    let c : CallArgs Nat := { args := [50, 51], kwargs := [(5, 52), (7, 53)] }
    sigEx.iface.all.Nodup ∧ (c.kwargs.map Prod.fst).Nodup ∧ ¬ Excluded sigEx c ∧
    Spec.pyBind sigEx c
      = .ok { explicit := [(1, 50), (2, 51), (5, 52)], varargGot := [], kwargGot := [(7, 53)] } ∧
    construct siN sigEx.iface c = ([(1, 50), (2, 51), (4, 100), (5, 52), (6, 101)], []) := by
  decide

/-- accepted with surplus positionals and a keyword for a positional-or-keyword parameter:
`callee(x0, x1, x2, x3, k=v1, extra=v2)`. -/
example :
    let c : CallArgs Nat := { args := [50, 51, 54, 55], kwargs := [(5, 52), (7, 53)] }
    sigEx.iface.all.Nodup ∧ (c.kwargs.map Prod.fst).Nodup ∧ ¬ Excluded sigEx c ∧
    Spec.pyBind sigEx c
      = .ok { explicit := [(1, 50), (2, 51), (3, 54), (5, 52)], varargGot := [55],
              kwargGot := [(7, 53)] } := by
  decide

/-- rejected ("multiple values for argument 'a'"): `callee(x0, x1, a=v, k=v1)` — the hypotheses of
`C04_partial` hold and its conclusion is the diagnosed branch. -/
example :
    let c : CallArgs Nat := { args := [50, 51], kwargs := [(2, 52), (5, 53)] }
    sigEx.iface.all.Nodup ∧ (c.kwargs.map Prod.fst).Nodup ∧ ¬ E1 sigEx c ∧ ¬ E2 sigEx c ∧
    Spec.pyBind sigEx c = .error .multipleValues ∧
    (construct siN sigEx.iface c).2 = [SwapDiag.byPositionAndName [2]] := by
  decide

/-- rejected ("unexpected keyword", no `**kwargs`): `def g(a, *, k)`; `g(x, k=v, zz=w)`. -/
example :
    let s : Spec.Sig Nat :=
      { posonly := [], args := [⟨2, false⟩], vararg := none, kwonly := [⟨5, false⟩], kwarg := none }
    let c : CallArgs Nat := { args := [50], kwargs := [(5, 52), (7, 53)] }
    s.iface.all.Nodup ∧ (c.kwargs.map Prod.fst).Nodup ∧ ¬ E1 s c ∧ ¬ E2 s c ∧
    Spec.pyBind s c = .error .unexpectedKeyword ∧
    (construct siN s.iface c).2 = [SwapDiag.unexpectedKeywords [7]] := by
  decide

/-- the theorem instantiated on the first call really yields Python's binding, no diagnostic -/
example :
    (construct siN sigEx.iface { args := [50, 51], kwargs := [(5, 52), (7, 53)] }).2 = [] ∧
    SameMap (construct siN sigEx.iface { args := [50, 51], kwargs := [(5, 52), (7, 53)] }).1
      (Spec.expectedSwaps siN sigEx
        { explicit := [(1, 50), (2, 51), (5, 52)], varargGot := [], kwargGot := [(7, 53)] }) := by
  have h := C04_partial_strict siN sigEx { args := [50, 51], kwargs := [(5, 52), (7, 53)] }
    (by decide) (by decide) (by decide)
  have hp : Spec.pyBind sigEx { args := [50, 51], kwargs := [(5, 52), (7, 53)] }
      = .ok { explicit := [(1, 50), (2, 51), (5, 52)], varargGot := [], kwargGot := [(7, 53)] } := by
    decide
  unfold C04_at at h
  rw [hp] at h
  exact h

/-- `E1` but not `E1s`: `def callee(**kw)`, `callee(kw=v, zz=w)` — Python accepts, the pinned code
is silent and binds as Python does (test, by kernel evaluation); `callee(zz=w, kw=v)` is in `E1s`. -/
example :
    let s : Spec.Sig Nat := { posonly := [], args := [], vararg := none, kwonly := [], kwarg := some 6 }
    E1 s { args := [], kwargs := [(6, 50), (7, 51)] } ∧
    ¬ E1s s { args := [], kwargs := [(6, 50), (7, 51)] } ∧
    E1s s { args := [], kwargs := [(7, 51), (6, 50)] } ∧
    construct siN s.iface { args := [], kwargs := [(6, 50), (7, 51)] } = ([(6, 101)], []) ∧
    construct siN s.iface { args := [], kwargs := [(7, 51), (6, 50)] }
      = ([(6, 101)], [SwapDiag.byPositionAndName [6]]) := by
  decide

/-- each exclusion is inhabited by the corresponding counterexample of the pinned code -/
example :
    E1 (α := Nat) { posonly := [⟨1, false⟩], args := [], vararg := none, kwonly := [], kwarg := some 9 }
      { args := [50], kwargs := [(1, 51)] } ∧
    E2 (α := Nat) { posonly := [⟨1, false⟩, ⟨2, true⟩], args := [], vararg := none, kwonly := [], kwarg := none }
      { args := [50], kwargs := [] } ∧
    E3 (α := Nat) { posonly := [], args := [], vararg := none, kwonly := [], kwarg := some 9 }
      { args := [], kwargs := [] } := by
  decide

/-! ### Stand-alone facts, for every interface and every call (distinct parameter names) -/

/-- The i-th positional-only / positional-or-keyword parameter receives exactly the i-th
positional argument, whatever the keywords are. -/
theorem C04_positional (si : StandIns α) (f : Iface α) (c : CallArgs α)
    (hn : f.all.Nodup) (hlen : f.posonly.length ≤ c.args.length) :
    ∀ pa ∈ List.zip (f.posonly ++ f.args) c.args,
      Dict.get? (construct si f c).1 pa.1 = some pa.2 := by
  have := positional_sig si (sigOf f) c (by rw [sigOf_iface]; exact hn)
    (by simpa [sigOf] using hlen)
  rwa [sigOf_iface] at this

/-- `*args` is mapped to the tuple stand-in whenever it exists (and the call is not cut short by
the positional-only diagnostic). -/
theorem C04_vararg_always_mapped (si : StandIns α) (f : Iface α) (c : CallArgs α)
    (hn : f.all.Nodup) (hlen : f.posonly.length ≤ c.args.length) (v : α)
    (hv : f.vararg = some v) :
    Dict.get? (construct si f c).1 v = some si.tuple := by
  have := vararg_sig si (sigOf f) c (by rw [sigOf_iface]; exact hn)
    (by simpa [sigOf] using hlen) v (by rw [sigOf_iface]; exact hv)
  rwa [sigOf_iface] at this

/-- No `**kwargs`: a keyword that is not a parameter name is reported in the
"unexpected keyword arguments" diagnostic. -/
theorem C04_unexpected_keyword (si : StandIns α) (f : Iface α) (c : CallArgs α)
    (hn : f.all.Nodup) (hlen : f.posonly.length ≤ c.args.length) (hkw : f.kwarg = none)
    (kv : α × α) (hmem : kv ∈ c.kwargs) (hall : kv.1 ∉ f.all) :
    ∃ ks, SwapDiag.unexpectedKeywords ks ∈ (construct si f c).2 ∧ kv.1 ∈ ks := by
  have := unexpected_sig si (sigOf f) c (by rw [sigOf_iface]; exact hn)
    (by simpa [sigOf] using hlen) (by rw [sigOf_iface]; exact hkw) kv hmem
    (by rw [sigOf_iface]; exact hall)
  rwa [sigOf_iface] at this

/-- A keyword naming a positionally filled parameter is reported in the "by position and name"
diagnostic. -/
theorem C04_multiple_values (si : StandIns α) (f : Iface α) (c : CallArgs α)
    (hn : f.all.Nodup) (hlen : f.posonly.length ≤ c.args.length)
    (kv : α × α) (hmem : kv ∈ c.kwargs)
    (hfilled : kv.1 ∈ (List.zip (f.posonly ++ f.args) c.args).map Prod.fst) :
    ∃ ks, SwapDiag.byPositionAndName ks ∈ (construct si f c).2 ∧ kv.1 ∈ ks := by
  have := multiple_values_sig si (sigOf f) c (by rw [sigOf_iface]; exact hn)
    (by simpa [sigOf] using hlen) kv hmem (by rw [sigOf_iface]; exact hfilled)
  rwa [sigOf_iface] at this

/-- A keyword naming a positional-or-keyword parameter not filled by position, or a keyword-only
parameter, is mapped to its argument. -/
theorem C04_keyword_binds (si : StandIns α) (f : Iface α) (c : CallArgs α)
    (hn : f.all.Nodup) (hlen : f.posonly.length ≤ c.args.length)
    (hk : (c.kwargs.map Prod.fst).Nodup) (kv : α × α) (hmem : kv ∈ c.kwargs)
    (hopen : kv.1 ∈ f.args.drop (c.args.length - f.posonly.length) ∨ kv.1 ∈ f.kwonly) :
    Dict.get? (construct si f c).1 kv.1 = some kv.2 := by
  have := keyword_binds_sig si (sigOf f) c (by rw [sigOf_iface]; exact hn)
    (by simpa [sigOf] using hlen) hk kv hmem (by rw [sigOf_iface]; exact hopen)
  rwa [sigOf_iface] at this

/-- hypotheses of the five stand-alone facts are satisfiable (tests, by kernel evaluation):
`callee(x0, x1, x2, x3, k=v1)` fills `p, a, b` by position and `k` by keyword;
`def g(a, b, *, k)`, `g(x, a=y, zz=w, b=z)` has a doubly given `a`, an unknown `zz`, a bound `b`. -/
example :
    let f := sigEx.iface
    let c : CallArgs Nat := { args := [50, 51, 54, 55], kwargs := [(5, 52)] }
    f.all.Nodup ∧ f.posonly.length ≤ c.args.length ∧ f.vararg = some 4 ∧
    List.zip (f.posonly ++ f.args) c.args = [(1, 50), (2, 51), (3, 54)] ∧
    (c.kwargs.map Prod.fst).Nodup ∧ (5, 52) ∈ c.kwargs ∧ 5 ∈ f.kwonly := by
  decide

example :
    let f : Iface Nat := { posonly := [], args := [2, 3], vararg := none, kwonly := [5], kwarg := none }
    let c : CallArgs Nat := { args := [50], kwargs := [(2, 51), (7, 52), (3, 53)] }
    f.all.Nodup ∧ f.posonly.length ≤ c.args.length ∧ f.kwarg = none ∧
    (c.kwargs.map Prod.fst).Nodup ∧
    ((7, 52) ∈ c.kwargs ∧ 7 ∉ f.all) ∧
    ((2, 51) ∈ c.kwargs ∧ 2 ∈ (List.zip (f.posonly ++ f.args) c.args).map Prod.fst) ∧
    ((3, 53) ∈ c.kwargs ∧ 3 ∈ f.args.drop (c.args.length - f.posonly.length)) ∧
    construct siN f c =
      ([(2, 50), (3, 53)], [SwapDiag.unexpectedKeywords [7], SwapDiag.byPositionAndName [2]]) := by
  decide

end Rattr.C04

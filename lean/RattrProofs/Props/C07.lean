/-
  C07 — rattr ends with results or its own diagnostic, never a traceback or hang.

  What is proved here (all inputs, no size bound):
    * Tie A  `tieA_raise_sites` / `tieA_assert_sites`: the `raise` / `assert` statements found in the
      source NOW are exactly the classified ones of `RattrModel.Crash` (a new `raise` breaks the build);
      `reachable_rows_listed`: every row a site is classified into is one of the known crash rows.
    * `C07_terminates`, `C07_pipeline_terminates`: the work-list loops (call tree, import following) finish
      within their bounds, every stage model is a total function, result generation never runs out of fuel.
    * `C07_fn_no_crash_partial`: for EVERY function body satisfying the decidable shape predicate
      `Crash.NoCrashShapeFn`, every plugin table, module name, parameter list and every SANE root context
      (`Crash.SaneCtx`: builtins under their own names, no import qualified `getattr`/…; decidable, true of
      every context the root-context builder produces: `C07_file_root_context_sane`), the function analyser
      does not end in an unhandled exception; `C07_fn_restores_context`: it hands the enclosing context back
      unchanged. `C07_fn_no_crash_anyctx_partial` is the round-1 theorem (every context, narrower predicate).
    * `C07_file_no_crash_partial`: for EVERY module satisfying `Crash.NoCrashShapeFile` (RattrModel/CrashFile.lean)
      the root-context builder, the file / class analysers and the whole single-file pipeline end `ok` or
      `fatal`; the only exceptions left are the three of result generation (`Crash.resultsCrashes`), which are
      real (`C07_cex_file_K22_results_unbind`, `C07_cex_file_K9_results_import_error`).
    * `C07_results_no_crash_partial`: for EVERY FileIr satisfying `Crash.ResultsSafe` (names start with their
      basename, no starred parameter name, imports found) result generation ends with a document;
      `C07_pipeline_no_crash_partial`: for EVERY module satisfying `Crash.NoCrashShapePipeline` the whole
      `-f 0` run ends `ok` / `fatal`.
    * one counterexample theorem per crash row expressible in the models (function level: K3, K4 x4, K5 x2,
      `defaultdict((a+b).c)`, K22; module level: K1, K8, K4, K2, K7, customOnDef, K11; result generation: K22, K9),
      each with the exception class the real code raises; the unconditional statements are refuted
      (`C07_full_false`, `C07_pipeline_full_false`).
  Round 3 (option combinations × degenerate inputs, file-system shapes):
    * `C07_show_stats_no_crash` / `C07_output_stage_no_crash`: under EVERY `--stdout` value, for every target text,
      every text behind every followed module and every final state of the import BFS, the output stage of `main`
      does not raise — `show_stats` is partial (`C07_show_stats_ok_iff`: `log10` of the larger line count, two
      divisions) and is saved only by the `+ 1` of `read` in another module (`C07_read_lines_pos`,
      `C07_cex_show_stats_*`); Tie A `tieA_stats_exprs` pins every expression of that chain.
    * `C07_import_error_classes`: when `resolve_import` raises `ImportError` for an import STATEMENT of the target
      or of an analysed module, then the module is unresolved, has no file origin, or — the only class with a
      file — the SAME ORIGIN was analysed under ANOTHER NAME (localised `C12_bfs_complete`, no injectivity
      hypothesis); `C07_resolve_import_no_crash_partial` is the converse under `OriginInjective`; the class is real
      (`C07_cex_resolve_two_names_one_origin`: `import pkg` + `import pkg.__init__`), a symlink is NOT in it
      (`C07_symlinked_module_has_ir`: the seen-set is keyed by `spec.origin` as spelled, not by the real file).
    * K23 / K24 / K25 (found in round 3, fixed upstream in c5833ef / 353eacf / bcdf6de; Tie A `tieA_fix_guards`):
      `C07_K23_never_crashes` — a relative import in a file without a derivable module name ends `fatal`, never in an
      exception, for every path and every verdict table of `module_exists`; `C07_K23_fatal_iff` / `C07_K23_base_iff` say
      exactly when (no right-suffix of the dotted path is importable), `C07_K23_located_file_has_base` that it never
      happens to a file the locator found; `C07_cex_K23_before_c5833ef` keeps the old crash as a counterexample.
      `C07_main_tail_no_crash`: the whole tail of `main` — output stage under every `--stdout` value, then the cache
      write under every state of the `-C` path (absent, writable, not writable) — ends `ok` or `fatal`;
      `C07_cex_K25_before_bcdf6de` is the old escape of the `OSError`.
  Import following (several files), the cache and the CLI are otherwise covered by the raise-site table and by the
  CLI sweep of py/props/c07.py, not by a theorem. `ResultsSafe` is a condition on the FileIr the front-stage MODEL
  computes, not on the syntax of the module: that every name the analysers produce outside K22 starts with its
  basename is proved for `key=` lambda bodies only (`QName`, RattrProofs/Lemmas/C07Wide.lean).
-/
import RattrModel.Crash
import RattrModel.Generated.C07
import RattrModel.Generated.C17
import RattrModel.Generated.RC
import RattrModel.OutputEncode
import RattrProofs.Lemmas.FileAnalyser
import RattrProofs.Lemmas.C07Induction
import RattrProofs.Lemmas.C07WideInduction
import RattrProofs.Lemmas.C07File
import RattrProofs.Lemmas.C07Results
import RattrProofs.Lemmas.Results
import RattrProofs.Props.C12
import RattrModel.Stats
import RattrModel.RelBase
import RattrProofs.Lemmas.C07Imports

namespace Rattr.C07
open Rattr Rattr.FnA Rattr.Crash

/-! ### Tie A -/

/-- every `raise` statement of the source is classified, in source order, and nothing else is. -/
theorem tieA_raise_sites : Generated.C07.raiseSites = classifiedRaiseSites.map (·.site) := by
  decide +kernel

theorem tieA_assert_sites : Generated.C07.assertSites = classifiedAssertSites.map (·.site) := by
  decide +kernel

/-- the crash rows that own a raise / assert site are known rows (K-rows of DESIGN §7 + K11). K23 — the two
`raise ValueError  # never` of the relative-import visitors, found reachable in round 3 — left this list with fix
c5833ef: the statements are gone from the source (`tieA_raise_sites`) and the guard is `error.fatal` (`tieA_fix_guards`). -/
theorem reachable_rows_listed :
    reachableRows = ["K11", "K5", "K2", "K4", "K1", "K3", "K10", "K9", "K22", "K8"] := by
  decide +kernel

/-! ### Termination -/

/-- **"never hangs"** for the modelled algorithms: the call-tree BFS and the import BFS end within
their fuel bounds on every input (cyclic graphs included); the visitor model is a total function
(mutual structural recursion over the AST), so it returns a result on every body. -/
theorem C07_terminates :
    (∀ (P : Prog) (root : Key), ∃ nodes, Results.callTree P root = some nodes) ∧
    (∀ (ν ω : Type) [DecidableEq ν] [DecidableEq ω] (g : Imports.Graph ν ω) (fl : Imports.Flags)
        (target : List (Imports.Imp ν)) (fuel : Nat), Imports.fuelBound g target ≤ fuel →
        ∀ s, Imports.bfs g fl fuel target ≠ .outOfFuel s) ∧
    (∀ env mn root ps body, ∃ r, FnA.analyse env mn root ps body = r) :=
  ⟨Results.callTree_terminates, fun _ _ _ _ g fl target fuel hf => C12.C12_terminates g fl target fuel hf,
   fun _ _ _ _ _ => ⟨_, rfl⟩⟩

/-! ### Crash-freedom of the function analyser -/

/-- the property for one body: no environment makes the analysis end in an unhandled exception. -/
def FnNoCrash (body : List Node) : Prop :=
  ∀ env mn root ps, ¬ ∃ s e, FnA.analyse env mn root ps body = .crash s e

/-- **Round-1 theorem** (every root context, also contexts no run can produce). -/
theorem C07_fn_no_crash_anyctx_partial (body : List Node) (h : NoCrashShapeFnAnyCtx body = true) : FnNoCrash body := by
  intro env mn root ps ⟨s, e, he⟩
  unfold FnA.analyse at he
  have : NC (visitList env mn body (addArguments { ctx := Context.push root } ps) >>>=
      fun s => .ok { s with ctx := Context.pop s.ctx }) :=
    nc_bind (visitList_nc env mn body _ h) (fun s => nc_ok _)
  exact this s e he

/-- the property for one body over the contexts rattr builds: a builtin is stored under its own name and no
import is qualified `getattr` / `hasattr` / `setattr` / `delattr` (`SaneCtx`, decidable). -/
def FnNoCrashSane (body : List Node) : Prop :=
  ∀ env mn root ps, SaneCtx root = true → ¬ ∃ s e, FnA.analyse env mn root ps body = .crash s e

/-- **Main theorem** (wider predicate, RattrModel/Crash.lean §3): for EVERY body satisfying `NoCrashShapeFn`,
every plugin table, module name, parameter list and every sane root context, the function analyser does
not end in an unhandled exception. -/
theorem C07_fn_no_crash_partial (body : List Node) (h : NoCrashShapeFn body = true) : FnNoCrashSane body := by
  intro env mn root ps hroot ⟨s, e, he⟩
  exact (analyse_spec env mn root ps body h hroot).1 s e he

/-- … and a normal end hands the enclosing context back exactly as it was: whatever the function's body
declares, deletes or shadows happens in scopes of its own (what the file analyser relies on when it analyses
the next function in "the same" context object). -/
theorem C07_fn_restores_context (body : List Node) (h : NoCrashShapeFn body = true) (env : Env) (mn : Str)
    (root : Context) (ps : Params) (hroot : SaneCtx root = true) (s : St)
    (he : FnA.analyse env mn root ps body = .ok s) : s.ctx = root :=
  (analyse_spec env mn root ps body h hroot).2 s he

/-- **The predicate was widened, not moved**: every body the round-1 predicate accepts is accepted by
`NoCrashShapeFn` (mutual induction over the node; strictness: `widerBody` below). -/
theorem C07_shape_widened (body : List Node) (h : NoCrashShapeFnAnyCtx body = true) : NoCrashShapeFn body = true :=
  shape_widened body h

/-- After the `del` fix (adebbdf) the model unbinds by FULL name; the predicate's `del` clause
(`unravelFullOk`) accepts exactly the targets the old clause (`unravelOk`) accepted, so the hypothesis of
`C07_fn_no_crash_partial` did not get stronger. -/
theorem C07_del_clause_unchanged : unravelFullOk = unravelOk := funext unravelFullOk_eq

/-- the full statement (no shape hypothesis) — false on the pinned tree. -/
def C07_full : Prop := ∀ body, FnNoCrash body

/-! ### Counterexamples (tests by evaluation: each runs the model on one tiny body) -/

def S (s : String) : Str := s.toList
def nm (s : String) : Node := .name (S s) .load
def binop (a b : Node) : Node := .other (S "BinOp") [a, b]
def noPs : Params := ⟨[], [], none, [], none⟩
def ps (l : List String) : Params := ⟨[], l.map S, none, [], none⟩

def cexEnv : Env :=
  { ctxEnv := { prims := [], literals := [S "List", S "Tuple", S "Set", S "Dict", S "JoinedStr"] },
    analysers := [S "getattr", S "hasattr", S "setattr", S "delattr", S "sorted", S "collections.defaultdict"] }

def bi (n : String) : Str × Sym := (S n, { kind := .builtin, name := S n, callable := true })
def cexRoot : Context :=
  [[bi "getattr", bi "sorted", bi "print",
    (S "defaultdict", { kind := .import_, name := S "defaultdict", callable := true, qual := S "collections.defaultdict" })]]

def crashClass : Res → Option Str
  | .crash _ e => some e
  | _ => none

def run (params : List String) (body : List Node) : Option Str :=
  crashClass (FnA.analyse cexEnv (S "target") cexRoot (ps params) body)

/-- K3: `sorted(xs, key=lambda a, b: a.k)` → bare `SyntaxError`. -/
def k3Body : List Node :=
  [.ret [.call (nm "sorted") [nm "xs"] [some (S "key")] [.lam (ps ["a", "b"]) (.attr (nm "a") (S "k") .load)]]]
theorem C07_cex_K3_sorted_key_arity : run ["xs"] k3Body = some (S "SyntaxError") := by decide +kernel

def unnameableTarget : Node := .attr (binop (nm "a") (nm "b")) (S "c") .store
/-- K4: `(a + b).c = 1`. -/
def k4StoreBody : List Node := [.assign [unnameableTarget] .const]
theorem C07_cex_K4_store : run ["a", "b"] k4StoreBody = some (S "RattrBinOpInNameable") := by decide +kernel
/-- K4: `del (a + b).c`. -/
def k4DelBody : List Node := [.delete [.attr (binop (nm "a") (nm "b")) (S "c") .del]]
theorem C07_cex_K4_del : run ["a", "b"] k4DelBody = some (S "RattrBinOpInNameable") := by decide +kernel
/-- K4: `for (a + b).c in x: pass`. -/
def k4ForBody : List Node := [.forLoop unnameableTarget (nm "x") [.other (S "Pass") []] []]
theorem C07_cex_K4_for : run ["a", "b", "x"] k4ForBody = some (S "RattrBinOpInNameable") := by decide +kernel
/-- K4: `with x as (a + b).c: pass`. -/
def k4WithBody : List Node := [.withStmt [.withitem (nm "x") [unnameableTarget]] [.other (S "Pass") []]]
theorem C07_cex_K4_with : run ["a", "b", "x"] k4WithBody = some (S "RattrBinOpInNameable") := by decide +kernel

/-- K5: `getattr(a + b, 'c')` → `TypeError` (old namer, reached first through the custom analyser). -/
def k5Body : List Node := [.other (S "Expr") [.call (nm "getattr") [binop (nm "a") (nm "b"), .strConst (S "c")] [] []]]
theorem C07_cex_K5_getattr : run ["a", "b"] k5Body = some (S "TypeError") := by decide +kernel
/-- K5: `print(getattr(a + b, 'c'))` → the NEW namer raises while naming the argument. -/
def k5ArgBody : List Node :=
  [.other (S "Expr") [.call (nm "print") [.call (nm "getattr") [.attr (binop (nm "a") (nm "b")) (S "d") .load, .strConst (S "c")] [] []] [] []]]
theorem C07_cex_K5_getattr_argument : run ["a", "b"] k5ArgBody = some (S "RattrBinOpInNameable") := by decide +kernel
/-- found while building the predicate: `defaultdict((a + b).c)`. -/
def ddBody : List Node := [.other (S "Expr") [.call (nm "defaultdict") [.attr (binop (nm "a") (nm "b")) (S "c") .load] [] []]]
theorem C07_cex_defaultdict_factory : run ["a", "b"] ddBody = some (S "RattrBinOpInNameable") := by decide +kernel

/-- K22 (found while proving the names invariant): `sorted(xs, key=lambda getattr: getattr(q, 'x').m)` — the
name `getattr(q, 'x').m` has basename `getattr` and full name `q.x.m`; unbinding the lambda parameter
`getattr` looks for the prefix `getattr` → `ValueError("never")` in `unbind_name`. -/
def k22Body : List Node :=
  [.ret [.call (nm "sorted") [nm "xs"] [some (S "key")]
    [.lam (ps ["getattr"]) (.attr (.call (nm "getattr") [nm "q", .strConst (S "x")] [] []) (S "m") .load)]]]
theorem C07_cex_K22_unbind_never : run ["xs", "q"] k22Body = some (S "ValueError") := by decide +kernel

/-- each counterexample body is rejected by both predicates (the exclusions are not vacuous on them). -/
theorem C07_cex_bodies_rejected :
    [k3Body, k4StoreBody, k4DelBody, k4ForBody, k4WithBody, k5Body, k5ArgBody, ddBody, k22Body].all
      (fun b => !NoCrashShapeFn b && !NoCrashShapeFnAnyCtx b) = true := by decide +kernel

theorem C07_full_false : ¬ C07_full := by
  intro h
  have hc : run ["a", "b"] k4StoreBody = some (S "RattrBinOpInNameable") := C07_cex_K4_store
  unfold run at hc
  cases hr : FnA.analyse cexEnv (S "target") cexRoot (ps ["a", "b"]) k4StoreBody with
  | ok s => rw [hr] at hc; cases hc
  | fatal s d => rw [hr] at hc; cases hc
  | crash s e => exact h k4StoreBody cexEnv (S "target") cexRoot (ps ["a", "b"]) ⟨s, e, hr⟩

/-! ### Non-vacuity: bodies satisfying the predicate, exercising the visitor (tests) -/

/-- `x.y = f(a.b, k=c)[0]; for i in a: print(i.z, (a + b).w); return getattr(a, 'n').m` -/
def goodBody : List Node :=
  [.assign [.attr (nm "x") (S "y") .store]
     (.sub (.call (nm "f") [.attr (nm "a") (S "b") .load] [some (S "k")] [nm "c"]) .const .load),
   .forLoop (.name (S "i") .store) (nm "a")
     [.other (S "Expr") [.call (nm "print") [.attr (nm "i") (S "z") .load, .attr (binop (nm "a") (nm "b")) (S "w") .load] [] []]] [],
   .ret [.attr (.call (nm "getattr") [nm "a", .strConst (S "n")] [] []) (S "m") .load]]

example : NoCrashShapeFnAnyCtx goodBody = true := by decide +kernel
example : NoCrashShapeFn goodBody = true := by decide +kernel
example : FnNoCrash goodBody := C07_fn_no_crash_anyctx_partial goodBody (by decide +kernel)
example : FnNoCrashSane goodBody := C07_fn_no_crash_partial goodBody (by decide +kernel)
example : SaneCtx cexRoot = true := by decide +kernel

/-- what the wider predicate accepts and the round-1 predicate rejected:
`y = sorted(xs, key=lambda w: w.k.j); f(1, x); return (a + b).m(a), 'sep'.join(b), Cls(1, a)`; then an
`import` (always fatal) makes the unnameable store after it unreachable. -/
def widerBody : List Node :=
  [.assign [.name (S "y") .store]
     (.call (nm "sorted") [nm "xs"] [some (S "key")] [.lam (ps ["w"]) (.attr (.attr (nm "w") (S "k") .load) (S "j") .load)]),
   .other (S "Expr") [.call (nm "f") [.const, nm "x"] [] []],
   .ret [.seq (S "Tuple") [.call (.attr (binop (nm "a") (nm "b")) (S "m") .load) [nm "a"] [] [],
                            .call (.attr (.strConst (S "sep")) (S "join") .load) [nm "b"] [] [],
                            .call (nm "Cls") [.const, nm "a"] [] []] .load],
   .other (S "If") [nm "a", .forbidden (S "Import")],
   .assign [unnameableTarget] .const]
example : NoCrashShapeFnAnyCtx widerBody = false := by decide +kernel
example : NoCrashShapeFn widerBody = true := by decide +kernel
example : FnNoCrashSane widerBody := C07_fn_no_crash_partial widerBody (by decide +kernel)
/-- the key lambda is really analysed and unbound: `w.k.j` comes back as `xs.k.j`. -/
def okGets : Res → Option (List Str)
  | .ok s => some (s.gets.map (·.full))
  | .fatal s _ => some (s.gets.map (·.full))
  | _ => none

example : okGets (FnA.analyse cexEnv (S "target") cexRoot (ps ["xs", "x", "a", "b"]) widerBody)
    = some [S "xs", S "xs.k.j", S "x", S "a", S "b"] := by decide +kernel

/-! ### Crash-freedom of the single-file pipeline (RattrModel/CrashFile.lean) -/

/-- the property for one module: the root-context builder and the file / class / function analysers never end
in an unhandled exception, and whatever exception `python -m rattr -f 0 file.py` can still die of is one of
the three of result generation (`Crash.resultsCrashes`: `unbind_name`'s ValueError K22, `resolve_import`'s
ImportError K9 / K10, the marker of a missing per-case fact). -/
def FileNoCrash (env : Env) (mn : Str) (f : Facts) (builtins : List Str) (body : List Top) : Prop :=
  (∀ s e, RootCtx.compile f builtins body ≠ .crash s e) ∧
  (∀ e, FileA.analyseFile env mn f builtins body ≠ .crash e) ∧
  (∀ imp e, Pipeline.run env mn f builtins body imp = .crash e → e ∈ resultsCrashes)

/-- **Main theorem for a module.** For EVERY module satisfying the decidable predicate `NoCrashShapeFile`
(plugin table, module name, per-case facts, builtins: all arbitrary): stage S2 ends `ok` / `fatal`, stages
S2 + S4 end `ok` / `fatal`, and the whole pipeline ends `ok` / `fatal` or in one of the three exceptions of
result generation — never in the `ValueError` of `gen_import_from_stmt` (K1), the `AssertionError` of a relative
import (K8), a naming exception at module level (K4), `TypeError` of `get_attrname` (K2), `AttributeError` of a
`rattr_results` call spec (K7), `customOnDef`, `ValueError` of `ClassAnalyser.symbol` (K11), `NotImplementedError`
of the walrus branch, any "unreachable" arm, any crash of the function analyser (K3 / K4 / K5 / K22-in-`sorted`), nor
`Outside:starred-import`. Composition of `compile_good` (S2), `visitTops_good` (S4, over `analyse_spec` for every
analysed body) and `results_crash`. -/
theorem C07_file_no_crash_partial (env : Env) (mn : Str) (f : Facts) (builtins : List Str) (body : List Top)
    (h : NoCrashShapeFile env.analysers mn f builtins body = true) : FileNoCrash env mn f builtins body := by
  obtain ⟨hreg, hshape, hbound⟩ := shapeFile_parts h
  have hc := compile_good f builtins body hreg
  refine ⟨hc.1, ?_, ?_⟩
  · intro e he
    unfold FileA.analyseFile at he
    cases hr : RootCtx.compile f builtins body with
    | ok r =>
      rw [hr] at he
      simp only [] at he
      have hw := analyseWith_good env mn f r.ctx body hshape (GoodCtx.sane (hc.2 r hr)) (hbound r hr)
      cases ha : FileA.analyseWith env mn f r.ctx body with
      | ok s => rw [ha] at he; cases he
      | fatal s d => rw [ha] at he; cases he
      | crash s e' => exact hw.1 s e' ha
    | fatal r d => rw [hr] at he; cases he
    | crash r e' => exact hc.1 r e' hr
  · intro imp e he
    unfold Pipeline.run Pipeline.runWith at he
    cases hr : RootCtx.compile f builtins body with
    | ok r =>
      rw [hr] at he
      simp only [] at he
      rw [(GoodCtx.noStar (hc.2 r hr))] at he
      simp only [Bool.false_eq_true, if_false] at he
      have hw := analyseWith_good env mn f r.ctx body hshape (GoodCtx.sane (hc.2 r hr)) (hbound r hr)
      cases ha : FileA.analyseWith env mn f r.ctx body with
      | ok s =>
        rw [ha] at he
        simp only [] at he
        cases hres : Pipeline.results id f imp s.ir with
        | ok q => rw [hres] at he; obtain ⟨doc, ds⟩ := q; cases he
        | fatal ds d => rw [hres] at he; cases he
        | crash e' =>
          rw [hres] at he
          simp only [FileA.Outcome.crash.injEq] at he
          subst he
          exact results_crash id f imp s.ir e' hres
      | fatal s d => rw [ha] at he; cases he
      | crash s e' => exact absurd ha (hw.1 s e')
    | fatal r d => rw [hr] at he; cases he
    | crash r e' => exact absurd hr (hc.1 r e')

/-- **Result generation** (stage S6) under the decidable condition `ResultsSafe` on the FileIr (every name starts
with its basename — false exactly on the K22 names —, no parameter name starts with `*`, every import a call
resolves to is found): for EVERY FileIr, call graph (recursion, shared callees) and order of ties it ends with a
document. By the store invariant "every name of every entry is `nameWF`" through `foldTree` / `genLoop`. -/
theorem C07_results_no_crash_partial (ord : List CallSym → List CallSym) (f : Facts) (imp : Pipeline.ImpFacts)
    (fir : Pipeline.FileIr) (h : ResultsSafe imp fir = true) :
    ∃ doc ds, Pipeline.results ord f imp fir = .ok (doc, ds) :=
  results_ok ord f imp fir h

/-- **The whole single-file pipeline**: for EVERY module satisfying `NoCrashShapePipeline` (= `NoCrashShapeFile` +
`ResultsSafe` of the FileIr the front-stage model computes; decidable) `python -m rattr -f 0 file.py` ends with
its results or with a `fatal:` diagnostic — no crash outcome at all. -/
theorem C07_pipeline_no_crash_partial (env : Env) (mn : Str) (f : Facts) (builtins : List Str) (body : List Top)
    (imp : Pipeline.ImpFacts) (h : NoCrashShapePipeline env mn f builtins body imp = true) :
    (∃ doc ds, Pipeline.run env mn f builtins body imp = .ok (doc, ds)) ∨
    (∃ ds d, Pipeline.run env mn f builtins body imp = .fatal ds d) := by
  simp only [NoCrashShapePipeline, Bool.and_eq_true] at h
  obtain ⟨hfile, hres⟩ := h
  obtain ⟨hreg, hshape, hbound⟩ := shapeFile_parts hfile
  have hc := compile_good f builtins body hreg
  unfold Pipeline.run Pipeline.runWith
  unfold FileA.analyseFile at hres
  cases hr : RootCtx.compile f builtins body with
  | ok r =>
    rw [hr] at hres
    simp only [] at hres ⊢
    rw [GoodCtx.noStar (hc.2 r hr)]
    simp only [Bool.false_eq_true, if_false]
    have hw := analyseWith_good env mn f r.ctx body hshape (GoodCtx.sane (hc.2 r hr)) (hbound r hr)
    cases ha : FileA.analyseWith env mn f r.ctx body with
    | ok s =>
      rw [ha] at hres
      simp only [] at hres ⊢
      obtain ⟨doc, ds, hd⟩ := results_ok id f imp s.ir hres
      rw [hd]
      exact Or.inl ⟨_, _, rfl⟩
    | fatal s d => exact Or.inr ⟨_, _, rfl⟩
    | crash s e => exact absurd ha (hw.1 s e)
  | fatal r d => exact Or.inr ⟨_, _, rfl⟩
  | crash r e => exact absurd hr (hc.1 r e)

/-- … and the root context such a module compiles to is sane (the hypothesis of `C07_fn_no_crash_partial` for every
function analysed in it) and holds no starred import. -/
theorem C07_file_root_context_sane (f : Facts) (builtins : List Str) (body : List Top) (h : registerLOk body = true)
    (r : St) (hr : RootCtx.compile f builtins body = .ok r) :
    SaneCtx r.ctx = true ∧ Pipeline.hasStarred r.ctx = false :=
  ⟨GoodCtx.sane ((compile_good f builtins body h).2 r hr), GoodCtx.noStar ((compile_good f builtins body h).2 r hr)⟩

/-- **"never hangs"** for the pipeline model: every stage is a total function (structural recursion over the
module / the AST; the two work-list loops of result generation run on fuel), and the fuel always suffices: for
EVERY FileIr, result generation never answers `OutOfFuel` (no hypothesis; `Results.callTree_terminates`). -/
theorem C07_pipeline_terminates :
    (∀ ord f imp fir, Pipeline.results ord f imp fir ≠ .crash "OutOfFuel".toList) ∧
    (∀ env mn f builtins body imp, ∃ o, Pipeline.run env mn f builtins body imp = o) := by
  refine ⟨fun ord f imp fir he => ?_, fun _ _ _ _ _ _ => ⟨_, rfl⟩⟩
  have := results_crash ord f imp fir _ he
  revert this
  decide

/-! ### Counterexamples for the module-level stages (tests by evaluation) and the residual classes -/

def fps (l : List String) : Params := ⟨[], l.map S, none, [], none⟩
def exBuiltins : List Str := ["sorted", "print", "getattr"].map S

def crashClassO {α : Type} : FileA.Outcome α → Option Str
  | .crash e => some e
  | _ => none

def shapeFile (mn : String) (f : Facts) (body : List Top) : Bool :=
  NoCrashShapeFile cexEnv.analysers (S mn) f exBuiltins body

/-- K1: `from a.b import *` outside `__init__.py` → `ValueError` in `gen_import_from_stmt`. -/
def mK1 : List Top := [.importFrom (some (S "a.b")) 0 [⟨S "*", none⟩] [] false true]
theorem C07_cex_file_K1_dotted_star : crashClass (RootCtx.compile {} exBuiltins mK1) = some (S "ValueError") := by
  decide +kernel
/-- K8: a relative import whose module is found under another name → the `assert`. -/
def mK8 : List Top := [.importFrom (some (S "m")) 1 [⟨S "f", none⟩] (S "pkg.m") false false]
theorem C07_cex_file_K8_relative_assert : crashClass (RootCtx.compile {} exBuiltins mK8) = some (S "AssertionError") := by
  decide +kernel
/-- K4 at module level: `(a + b).c = 1`, `del (a + b).c`. -/
def mK4 : List Top := [.assign [unnameableTarget] [] (some .const)]
def mK4del : List Top := [.delete [.attr (binop (nm "a") (nm "b")) (S "c") .del]]
theorem C07_cex_file_K4_module_level :
    crashClass (RootCtx.compile {} exBuiltins mK4) = some (S "RattrBinOpInNameable") ∧
    crashClass (RootCtx.compile {} exBuiltins mK4del) = some (S "RattrBinOpInNameable") := by decide +kernel
/-- K2: a decorator that is no Name / Attribute / Call (`@d[0]`) → `TypeError` in `get_attrname`. -/
def mK2 : List Top := [.funcDef (S "f") (fps ["a"]) [.ret [.attr (nm "a") (S "x") .load]] [⟨.bad, none⟩] false]
theorem C07_cex_file_K2_decorator :
    crashClassO (FileA.analyseFile cexEnv (S "target") {} exBuiltins mK2) = some (S "TypeError") := by decide +kernel
/-- K7: `@rattr_results(calls=[('f', (['a'], ['b']))])` → `.items()` on a list. -/
def k7Deco : Ann.Deco := ⟨.named (S "rattr_results"),
  some ([], [(some (S "calls"), .list [.tuple [.str (S "f"), .tuple [.list [.str (S "a")], .list [.str (S "b")]]]])])⟩
def mK7 : List Top := [.funcDef (S "g") (fps ["a"]) [] [k7Deco] false]
theorem C07_cex_file_K7_call_spec :
    crashClassO (FileA.analyseFile cexEnv (S "target") {} exBuiltins mK7) = some (S "AttributeError") := by decide +kernel
/-- `def defaultdict` in a module called `collections`: the custom analyser's `on_def`. -/
def mCustom : List Top := [.funcDef (S "defaultdict") (fps ["a"]) [] [] false]
theorem C07_cex_file_custom_on_def :
    crashClassO (FileA.analyseFile cexEnv (S "collections") {} exBuiltins mCustom) = some (S "customOnDef") := by
  decide +kernel
/-- K11: `def C(a): …` then `class C:` with an `__init__` → `ValueError` in `ClassAnalyser.symbol`. -/
def mK11 : List Top :=
  [.funcDef (S "C") (fps ["a"]) [.ret [.attr (nm "a") (S "x") .load]] [] false,
   .classDef (S "C") [] [.funcDef (S "__init__") (fps ["self", "q"]) [] [] false] []]
theorem C07_cex_file_K11_class_symbol :
    crashClassO (FileA.analyseFile cexEnv (S "target") {} exBuiltins mK11) = some (S "ValueError") := by decide +kernel

/-- every one of them is rejected by the predicate. -/
theorem C07_cex_file_modules_rejected :
    [shapeFile "target" {} mK1, shapeFile "target" {} mK8, shapeFile "target" {} mK4, shapeFile "target" {} mK4del,
     shapeFile "target" {} mK2, shapeFile "target" {} mK7, shapeFile "collections" {} mCustom,
     shapeFile "target" {} mK11] = List.replicate 8 false := by decide +kernel

/-- **the residual classes are real**: K22 in result generation — `def f(getattr, q): return getattr(q, 'x').m`,
`def g(b, c): return f(b, c)` satisfies the predicate, the front stages succeed, and `unbind_name` raises
`ValueError("never")` while `g`'s call to `f` is folded. (Confirmed against the real code: a NEW finding.) -/
def mK22 : List Top :=
  [.funcDef (S "f") (fps ["getattr", "q"])
     [.ret [.attr (.call (nm "getattr") [nm "q", .strConst (S "x")] [] []) (S "m") .load]] [] false,
   .funcDef (S "g") (fps ["b", "c"]) [.ret [.call (nm "f") [nm "b", nm "c"] [] []]] [] false]
theorem C07_cex_file_K22_results_unbind :
    shapeFile "target" {} mK22 = true ∧
    crashClassO (Pipeline.run cexEnv (S "target") {} exBuiltins mK22 []) = some (S "ValueError") := by decide +kernel
/-- K9: `import lp` + `lp.nosuch.f(a)` → `ImportError` in `resolve_import`, likewise behind a module that
satisfies the predicate. -/
def mK9 : List Top :=
  [.importStmt [⟨S "lp", none⟩],
   .funcDef (S "g") (fps ["a"])
     [.other (S "Expr") [.call (.attr (.attr (nm "lp") (S "nosuch") .load) (S "f") .load) [nm "a"] [] []]] [] false]
def fLp : Facts := { mods := [(S "lp", { blacklisted := false, originFound := true, modExists := true })] }
theorem C07_cex_file_K9_results_import_error :
    shapeFile "target" fLp mK9 = true ∧
    crashClassO (Pipeline.run cexEnv (S "target") fLp exBuiltins mK9
      [(S "lp.nosuch.f", { found := false, blacklisted := false })]) = some (S "ImportError") := by decide +kernel

/-- crash-freedom of the whole pipeline without hypotheses on result generation is therefore false. -/
theorem C07_pipeline_full_false :
    ¬ (∀ env mn f builtins body imp, NoCrashShapeFile env.analysers mn f builtins body = true →
        ∀ e, Pipeline.run env mn f builtins body imp ≠ .crash e) := by
  intro h
  have h1 := C07_cex_file_K22_results_unbind
  have := h cexEnv (S "target") {} exBuiltins mK22 [] h1.1
  cases hr : Pipeline.run cexEnv (S "target") {} exBuiltins mK22 [] with
  | ok q => rw [hr] at h1; simp [crashClassO] at h1
  | fatal ds d => rw [hr] at h1; simp [crashClassO] at h1
  | crash e => exact this e hr

/-! ### Non-vacuity: a module satisfying the predicate, through the whole pipeline (tests) -/

def exStatic : Ann.Deco := ⟨.named (S "staticmethod"), none⟩
/-- `import os; class K: def __init__(self, v): self.v = v.kv; @staticmethod def sm(w): return w.s;
lam2 = lambda p: p.q; def top(a, b): return sorted(a.xs, key=lambda w: w.k), K(b).v, K.sm(a), lam2(a), os.getcwd()` -/
def exModule : List Top :=
  [.importStmt [⟨S "os", none⟩],
   .classDef (S "K") []
     [.funcDef (S "__init__") (fps ["self", "v"])
        [.assign [.attr (nm "self") (S "v") .store] (.attr (nm "v") (S "kv") .load)] [] false,
      .funcDef (S "sm") (fps ["w"]) [.ret [.attr (nm "w") (S "s") .load]] [exStatic] false] [],
   .assign [.name (S "lam2") .store] [] (some (.lam (fps ["p"]) (.attr (nm "p") (S "q") .load))),
   .funcDef (S "top") (fps ["a", "b"])
     [.ret [.seq (S "Tuple")
        [.call (nm "sorted") [.attr (nm "a") (S "xs") .load] [some (S "key")] [.lam (fps ["w"]) (.attr (nm "w") (S "k") .load)],
         .attr (.call (nm "K") [nm "b"] [] []) (S "v") .load,
         .call (.attr (nm "K") (S "sm") .load) [nm "a"] [] [],
         .call (nm "lam2") [nm "a"] [] [],
         .call (.attr (nm "os") (S "getcwd") .load) [] [] []] .load]] [] false]
def exFacts : Facts := { mods := [(S "os", { blacklisted := false, originFound := true, modExists := true })] }
def exImp : Pipeline.ImpFacts := [(S "os.getcwd", { found := true, blacklisted := false })]

example : NoCrashShapeFile cexEnv.analysers (S "target") exFacts exBuiltins exModule = true := by decide +kernel
example : FileNoCrash cexEnv (S "target") exFacts exBuiltins exModule :=
  C07_file_no_crash_partial cexEnv (S "target") exFacts exBuiltins exModule (by decide +kernel)
/-- and the pipeline really ends with a document for the four callables of that module. -/
def docKeys {α : Type} : FileA.Outcome (Pipeline.ResultsDoc × α) → Option (List Str)
  | .ok (doc, _) => some (doc.map (·.1))
  | _ => none
example : docKeys (Pipeline.run cexEnv (S "target") exFacts exBuiltins exModule exImp)
    = some [S "K", S "K.sm", S "lam2", S "top"] := by decide +kernel
example : registerLOk exModule = true := by decide +kernel
example : NoCrashShapePipeline cexEnv (S "target") exFacts exBuiltins exModule exImp = true := by decide +kernel
example : ∃ doc ds, Pipeline.run cexEnv (S "target") exFacts exBuiltins exModule exImp = .ok (doc, ds) := by
  rcases C07_pipeline_no_crash_partial cexEnv (S "target") exFacts exBuiltins exModule exImp (by decide +kernel) with h | ⟨ds, d, h⟩
  · exact h
  · have hk : docKeys (Pipeline.run cexEnv (S "target") exFacts exBuiltins exModule exImp) = some [S "K", S "K.sm", S "lam2", S "top"] := by
      decide +kernel
    rw [h] at hk; simp [docKeys] at hk
/-- the two residual modules are rejected by the pipeline predicate (through `ResultsSafe`). -/
theorem C07_cex_pipeline_modules_rejected :
    NoCrashShapePipeline cexEnv (S "target") {} exBuiltins mK22 [] = false ∧
    NoCrashShapePipeline cexEnv (S "target") fLp exBuiltins mK9 [(S "lp.nosuch.f", { found := false, blacklisted := false })] = false := by
  decide +kernel

/-! ## Round 3 — (1) the output stage under every `--stdout` value (RattrModel/Stats.lean) -/

open Rattr.Stats in
/-- Tie A: every expression between `f.readlines()` and the two divisions of `show_stats` is the one the model
transcribes (a `- 1` "fixing" the line count at either consumer, a dropped guard, a new output mode: all break it). -/
theorem tieA_stats_exprs : Generated.C07.statsExprs = Stats.pinnedExprs := by decide +kernel

/-- `read` never reports 0 lines: the empty file "has one line". This is the ONLY thing that keeps `show_stats`
total, and it lives in `rattr/analyser/util.py`, not in `rattr/__main__.py`. -/
theorem C07_read_lines_pos (s : Str) : 1 ≤ Stats.readLines s := by
  unfold Stats.readLines; omega

/-- what `show_stats` needs, exactly (every `RattrStats`, also those no run produces). -/
theorem C07_show_stats_ok_iff (s : Stats.RunStats) (tz : Bool) :
    Stats.showStats s tz = .ok ↔ (0 < max s.fileLines s.importLines ∧ s.fileLines ≠ 0 ∧ tz = false) := by
  unfold Stats.showStats
  by_cases h1 : max s.fileLines s.importLines ≤ 0
  · simp only [h1, if_true]
    constructor
    · intro h; cases h
    · intro ⟨h, _, _⟩; omega
  · simp only [h1, if_false]
    by_cases h2 : s.fileLines = 0
    · simp [h2]
    · simp only [h2, if_false]
      cases tz
      · simp; omega
      · simp

/-- **`--stdout stats` never dies of its arithmetic**: for EVERY target text, every text behind every module
name and every final state of the import BFS (any number of followed imports, including none and including
empty files everywhere), as long as the five timers do not sum to `0.0`. -/
theorem C07_show_stats_no_crash {ν ω : Type} (target : Str) (src : ν → Str) (st : Imports.St ν ω) :
    Stats.showStats (Stats.statsOf target src st) false = .ok := by
  rw [C07_show_stats_ok_iff]
  have h := C07_read_lines_pos target
  have e1 : (Stats.statsOf target src st).fileLines = ((Stats.readLines target : Nat) : Int) := rfl
  have e2 : (Stats.statsOf target src st).importLines = ((Stats.importLines src st.analysed : Nat) : Int) := rfl
  rw [e1, e2]
  exact ⟨by omega, by omega, rfl⟩

/-- the same for `--follow-imports 0` (`RattrImportStats(0, 0, 0)`). -/
theorem C07_show_stats_no_crash_no_follow (target : Str) :
    Stats.showStats (Stats.statsOfNoFollow target) false = .ok := by
  rw [C07_show_stats_ok_iff]
  have h := C07_read_lines_pos target
  have e1 : (Stats.statsOfNoFollow target).fileLines = ((Stats.readLines target : Nat) : Int) := rfl
  have e2 : (Stats.statsOfNoFollow target).importLines = 0 := rfl
  rw [e1, e2]
  exact ⟨by omega, by omega, rfl⟩

/-- **every output mode**: `-o stats | ir | results | cacheable | silent` × every run. -/
theorem C07_output_stage_no_crash {ν ω : Type} (o : Stats.Output) (target : Str) (src : ν → Str)
    (st : Imports.St ν ω) : Stats.outputOfRun o target src st false = .ok := by
  unfold Stats.outputOfRun Stats.outputStage
  cases o <;> first | rfl | exact C07_show_stats_no_crash target src st

/-- the line count of degenerate files, by evaluation (tests): empty, one newline, no final newline, `\r\n`,
lone `\r`, comment only. -/
theorem C07_read_lines_degenerate :
    [Stats.readLines [], Stats.readLines (S "\n"), Stats.readLines (S "pass"), Stats.readLines (S "pass\n"),
     Stats.readLines (S "a\r\nb\r\n"), Stats.readLines (S "a\rb"), Stats.readLines (S "# c\n\n   \n"),
     Stats.readLines (S "\r\n\n\r")] = [1, 2, 2, 2, 3, 3, 4, 4] := by decide +kernel

/-- **`show_stats` itself is partial** (tests by evaluation): with the line counts an "off-by-one corrected"
assembly would hand over for an empty target — `file_lines = import_lines = 0` — `log10(0)` raises `ValueError`;
with an empty target and non-empty imports the average-badness division raises `ZeroDivisionError`. -/
theorem C07_cex_show_stats_zero_lines :
    Stats.showStats ⟨0, 0, 0, 0⟩ false = .crash "ValueError" ∧
    Stats.showStats ⟨0, 7, 2, 2⟩ false = .crash "ZeroDivisionError" ∧
    Stats.showStats ⟨-1, -1, 0, 0⟩ false = .crash "ValueError" ∧
    Stats.showStats ⟨1, 0, 0, 0⟩ true = .crash "ZeroDivisionError" ∧
    Stats.showStats ⟨1, 0, 0, 0⟩ false = .ok := by decide +kernel

/-- … so the unconditional statement about `show_stats` is false. -/
theorem C07_show_stats_full_false : ¬ ∀ s tz, Stats.showStats s tz = .ok := by
  intro h
  have := h ⟨0, 0, 0, 0⟩ false
  revert this
  decide

/-! ## Round 3 — (2) `resolve_import` × the import BFS: which ImportError classes exist -/

section ImportErrors
open Rattr.Imports Rattr.Resolve Rattr.C12 Rattr.C07I
variable {ν ω : Type} [DecidableEq ν] [DecidableEq ω]

/-- The three ways `resolve_import` can raise `ImportError` for an import symbol that came from an import
STATEMENT of the target or of an analysed module (the harness signs them `[module-unresolved]`,
`[module-without-file]`, `[same-origin-under-another-name]`). -/
inductive ImportErrorClass (g : Graph ν ω) (st : Imports.St ν ω) (i : Imp ν) : Prop where
  | unresolved : i.target = none → ImportErrorClass g st i
  | noFile (n : ν) : i.target = some n → originOf g n = none → ImportErrorClass g st i
  | sameOrigin (n n' : ν) (o : ω) : i.target = some n → originOf g n = some o →
      n' ∈ st.analysed → n' ≠ n → originOf g n' = some o → ImportErrorClass g st i

/-- **Classification.** For EVERY module graph (several names per file, cycles), flags with `loc`, fuel: if the
BFS ended normally and `resolve_import` raises for a statement import, one of the three classes holds. In
particular a module WITH a file lacks its IR only because the same origin was analysed under another name. -/
theorem C07_import_error_classes (g : Graph ν ω) (fl : Flags) (fuel : Nat) (target : List (Imp ν))
    (st : Imports.St ν ω) (hdone : bfs g fl fuel target = .done st) (i : Imp ν)
    (hsrc : i ∈ target ∨ ∃ p ∈ st.analysed, ∃ pm, lookup g p = some pm ∧ i ∈ pm.imports)
    (hcrash : importAllowed g fl (irsKeys st.analysed) i = .crashNoModule ∨
              importAllowed g fl (irsKeys st.analysed) i = .crashNotFound) :
    ImportErrorClass g st i := by
  have hst : (bfs g fl fuel target).state = st := by rw [hdone]; rfl
  have hk := (C12_once g fl fuel target).2.2.1
  rw [hst] at hk
  rw [hk] at hcrash
  cases ht : i.target with
  | none => exact .unresolved ht
  | some n =>
    cases ho : originOf g n with
    | none => exact .noFile n ht ho
    | some o =>
      obtain ⟨m, hl, hmo⟩ := originOf_some ho
      unfold importAllowed at hcrash
      rw [ht] at hcrash
      simp only [hl] at hcrash
      -- walk down the ladder: only the last rung can crash
      by_cases hb : m.blacklisted = true
      · simp [hb] at hcrash
      · simp only [hb, Bool.false_eq_true, if_false] at hcrash
        by_cases hloc : fl.loc = true
        · simp only [hloc, Bool.not_true, Bool.false_eq_true, if_false] at hcrash
          by_cases hpip : (!fl.pip && m.inPip) = true
          · simp [hpip] at hcrash
          · simp only [hpip, Bool.false_eq_true, if_false] at hcrash
            by_cases hstd : (!fl.stdlib && m.inStdlib) = true
            · simp [hstd] at hcrash
            · simp only [hstd, Bool.false_eq_true, if_false] at hcrash
              by_cases hin : n ∈ st.analysed
              · simp [hin] at hcrash
              · have hp : Passes g fl i n o :=
                  { target := ht, origin := ho,
                    notBlack := fun m' hl' => by
                      rw [hl] at hl'; cases hl'; simpa using hb
                    pipOk := fun m' hl' h => by
                      rw [hl] at hl'; cases hl'
                      cases hf : fl.pip
                      · simp [hf, h] at hpip
                      · rfl
                    stdlibOk := fun m' hl' h => by
                      rw [hl] at hl'; cases hl'
                      cases hf : fl.stdlib
                      · simp [hf, h] at hstd
                      · rfl }
                obtain ⟨n', hn', ho'⟩ := bfs_covers g fl fuel target st hloc hdone i hsrc n o hp
                refine .sameOrigin n n' o ht ho hn' ?_ ho'
                intro h; subst h; exact hin hn'
        · have : fl.loc = false := by cases h : fl.loc <;> simp_all
          simp [this] at hcrash

/-- **Converse under injectivity** (C12's theorem, restated for the crash): with no file under two names and an
honest blacklist, `resolve_import` never raises `ImportError("… not found")` for a statement import that has a file. -/
theorem C07_resolve_import_no_crash_partial (g : Graph ν ω) (fl : Flags) (fuel : Nat) (target : List (Imp ν))
    (st : Imports.St ν ω) (hinj : Spec.OriginInjective g) (hnb : Spec.NoOverBlacklist g) (hex : Spec.ExclusionHonoured g fl)
    (hdone : bfs g fl fuel target = .done st) (i : Imp ν)
    (hsrc : i ∈ target ∨ ∃ p ∈ st.analysed, ∃ pm, lookup g p = some pm ∧ i ∈ pm.imports)
    (hres : hasOrigin g i = true) :
    importAllowed g fl (irsKeys st.analysed) i ≠ .crashNotFound ∧
    importAllowed g fl (irsKeys st.analysed) i ≠ .crashNoModule := by
  refine ⟨C12_resolver_total g fl fuel target st hinj hnb hex hdone i hsrc hres, ?_⟩
  unfold hasOrigin at hres
  unfold importAllowed
  cases ht : i.target with
  | none => rw [ht] at hres; cases hres
  | some n =>
    simp only
    cases hl : lookup g n with
    | none => simp only; split <;> simp
    | some m => simp only; repeat' split
                all_goals simp

end ImportErrors

namespace R3
open Rattr.Imports Rattr.Resolve

def mkM (name origin : Nat) (imports : List (Imp Nat)) : Module Nat Nat :=
  { name := name, origin := some origin, readable := true, blacklisted := false, inPip := false,
    inStdlib := false, excluded := false, imports := imports }

/-- `import pkg` (1) + `import pkg.__init__` (2): ONE origin (10 = `pkg/__init__.py`) under two names. -/
def gInit : Graph Nat Nat := [mkM 1 10 [], mkM 2 10 []]
def tInit : List (Imp Nat) := [⟨some 1, false⟩, ⟨some 2, false⟩]

/-- `impl.py` (origin 10) and `compat.py -> impl.py` (origin 11: `spec.origin` is the path AS SPELLED by the
module name; both have the real file 10). -/
def gLink : Graph Nat Nat := [mkM 1 10 [], mkM 2 11 []]
def realLink : Nat → Nat := fun _ => 10

end R3

open Rattr.Imports Rattr.Resolve R3 in
/-- **The class is real** (known finding `[same-origin-under-another-name]`): the second name of the one origin
is skipped as "seen", has no key in `import_irs`, and a call through it makes `resolve_import` raise. -/
theorem C07_cex_resolve_two_names_one_origin :
    (bfs gInit (Spec.levelFlags 1) (fuelBound gInit tInit) tInit).state.analysed = [1] ∧
    importAllowed gInit (Spec.levelFlags 1) [1] ⟨some 2, false⟩ = .crashNotFound ∧
    importAllowed gInit (Spec.levelFlags 1) [1] ⟨none, false⟩ = .crashNoModule := by decide +kernel

open Rattr.Imports Rattr.Resolve R3 in
/-- **A symlinked module file is NOT in that class** (test by evaluation; what a de-duplication by real path
would break): the two names have different origins although they are one real file, both are analysed, both
are keys, and the call through the alias resolves. -/
theorem C07_symlinked_module_has_ir :
    (bfs gLink (Spec.levelFlags 1) (fuelBound gLink tInit) tInit).state.analysed = [1, 2] ∧
    importAllowed gLink (Spec.levelFlags 1) [1, 2] ⟨some 2, false⟩ = .found 2 ∧
    Spec.originsCanonicalB gLink realLink = false := by decide +kernel

/-! ## Round 3 — (3) K23 / K25 after the upstream fixes c5833ef / 353eacf / bcdf6de -/

/-- Tie A: the guards of the three fixes are in the source (both `if base is None:` bodies call `error.fatal`,
`is_in_stdlib` catches `OSError` / `RuntimeError` of `place_module`, `write_cache_file` turns `OSError` into
`error.fatal`, `main` writes the cache only through it). -/
theorem tieA_fix_guards : Generated.C07.fixGuards = Crash.pinnedGuards := by decide +kernel

section K23
open Rattr.Locator Rattr.RelBase

/-- `deriveWith` is `derive_module_name_from_path` of the locator model when the verdicts are the model's own. -/
theorem C07_K23_deriveWith_env (env : Locator.Env) (comps : List Str) :
    deriveWith (moduleExists env) comps = deriveModuleNameFromPath env comps := rfl

/-- **K23, current code**: whatever the path of the current file and whatever `module_exists` answers, the guard of
the relative-import visitors does not end in an exception — it hands over a base or ends `fatal`. -/
theorem C07_K23_never_crashes (ex : Dotted → Bool) (comps : List Str) (e : String) :
    relBase true ex comps ≠ .crash e := by
  unfold relBase
  cases deriveWith ex comps <;> simp

/-- the file has no base exactly when NO right-suffix of its dotted path is an importable module … -/
theorem C07_K23_base_iff (ex : Dotted → Bool) (comps : List Str) :
    deriveWith ex comps = none ↔
      ∀ k, k < (longestName comps).length → ex ((longestName comps).drop k) = false := by
  unfold deriveWith iterModuleNamesLeft
  rw [List.find?_eq_none]
  constructor
  · intro h k hk
    have := h ((longestName comps).drop k) (List.mem_map.mpr ⟨k, List.mem_range.mpr hk, rfl⟩)
    simpa using this
  · intro h x hx
    obtain ⟨k, hk, rfl⟩ := List.mem_map.mp hx
    simp [h k (List.mem_range.mp hk)]

/-- … and that is exactly when the run ends with the `fatal:` diagnostic of c5833ef. -/
theorem C07_K23_fatal_iff (ex : Dotted → Bool) (comps : List Str) :
    relBase true ex comps = .fatal ↔
      ∀ k, k < (longestName comps).length → ex ((longestName comps).drop k) = false := by
  rw [← C07_K23_base_iff]
  unfold relBase
  cases deriveWith ex comps <;> simp

/-- a file the locator finds under (a suffix of) its own dotted path has a base: every followed import (its
`spec.origin` was produced by the locator from that very name) and every target inside the search path — the
diagnostic can only concern the target. -/
theorem C07_K23_located_file_has_base (ex : Dotted → Bool) (comps : List Str) (k : Nat)
    (hk : k < (longestName comps).length) (hex : ex ((longestName comps).drop k) = true) :
    ∃ b, relBase true ex comps = .base b := by
  unfold relBase
  cases h : deriveWith ex comps with
  | some b => exact ⟨b, rfl⟩
  | none =>
    have := (C07_K23_base_iff ex comps).mp h k hk
    rw [this] at hex
    cases hex

def k23Env : Locator.Env := { fs := [[[S "target.py"], [S "pkg", S "__init__.py"], [S "pkg", S "x.py"]]], stdlib := [] }

/-- the round-3 witnesses on the current code (tests by evaluation, each replayed on the implementation): `rattr
../other/t.py` (`"...other.t.py"`), `rattr a.b/t.py`, `rattr pkg/script` (no suffix) end `fatal`; `rattr pkg/x.py`
has the base `pkg.x`. -/
theorem C07_cex_K23_no_base :
    relBase true (moduleExists k23Env) [[], [], [], S "other", S "t", S "py"] = .fatal ∧
    relBase true (moduleExists k23Env) [S "a", S "b", S "t", S "py"] = .fatal ∧
    relBase true (moduleExists k23Env) [S "pkg", S "script"] = .fatal ∧
    relBase true (moduleExists k23Env) [S "pkg", S "x", S "py"] = .base [S "pkg", S "x"] := by decide +kernel

/-- **before c5833ef** the same three inputs ended in the `ValueError` marked "never here" (known finding K23 of
round 3; kept so that the statement `C07_K23_never_crashes` is seen to be about the fix). -/
theorem C07_cex_K23_before_c5833ef :
    relBase false (moduleExists k23Env) [[], [], [], S "other", S "t", S "py"] = .crash "ValueError" ∧
    relBase false (moduleExists k23Env) [S "a", S "b", S "t", S "py"] = .crash "ValueError" ∧
    relBase false (moduleExists k23Env) [S "pkg", S "script"] = .crash "ValueError" := by decide +kernel

end K23

/-! ### K25: the cache write at the end of `main` -/

/-- **the whole tail of `main`** (current code): every `--stdout` value × every run × every state of the `-C` path
(no `-C`, writable, NOT writable) ends `ok` or `fatal` — never in an exception. -/
theorem C07_main_tail_no_crash {ν ω : Type} (o : Stats.Output) (target : Str) (src : ν → Str)
    (st : Imports.St ν ω) (cache : Option Bool) (e : String) :
    Stats.mainTail true o (Stats.statsOf target src st) false cache ≠ .crash e := by
  have h := C07_output_stage_no_crash o target src st
  unfold Stats.outputOfRun at h
  unfold Stats.mainTail
  rw [h]
  cases cache with
  | none => simp
  | some w => cases w <;> simp

/-- … and it is `fatal` exactly when `-C` names a path that cannot be written. -/
theorem C07_main_tail_fatal_iff {ν ω : Type} (o : Stats.Output) (target : Str) (src : ν → Str)
    (st : Imports.St ν ω) (cache : Option Bool) :
    Stats.mainTail true o (Stats.statsOf target src st) false cache = .fatal ↔ cache = some false := by
  have h := C07_output_stage_no_crash o target src st
  unfold Stats.outputOfRun at h
  unfold Stats.mainTail
  rw [h]
  cases cache with
  | none => simp
  | some w => cases w <;> simp

/-- **before bcdf6de** the `OSError` of `mkdir` / `write_text` escaped (known finding K25 of round 3). -/
theorem C07_cex_K25_before_bcdf6de :
    Stats.mainTail false .results ⟨2, 0, 0, 0⟩ false (some false) = .crash "OSError" ∧
    Stats.mainTail true .results ⟨2, 0, 0, 0⟩ false (some false) = .fatal ∧
    Stats.mainTail true .stats ⟨0, 0, 0, 0⟩ false (some false) = .crash "ValueError" := by decide +kernel

/-! ## Round 4 — (1) module-level definitions at every block position -/

/-- Tie A (shared with C17): the block visitors of `RootContextBuilder` are ONE `register_stmts` over ALL their blocks
(`*node.body, *node.orelse` for `If` / `For` / `AsyncFor` / `While`; body, else, finally and every handler for `Try`;
the body for `With` / `AsyncWith`): `RootCtx.register` on `compound` / `tryStmt` transcribes exactly that. A visitor
that forgets a block (seeded change C07-m11: `for … else`, `while … else`) changes the table. -/
theorem tieA_builder_bodies : Generated.C17.builderBodies = RootCtx.builderBodies := by decide

/-- Tie A (shared with C17): the `visit_*` methods of the builder are the modelled ones —
`Match` and `TryStar` included since /repo 6e8e4cc (K11m, K11t below), and no helper the model does not know. -/
theorem tieA_root_builder_visitors :
    FileA.sameMembers Generated.RC.rootBuilderVisitors RootCtx.visitorNames = true := by decide

/-- a class with an initialiser -/
def initCls (n : String) : Top := .classDef (S n) [] [.funcDef (S "__init__") (fps ["self", "q"]) [] [] false] []

/-- `for item in items: pass / else: class C: def __init__ …` and the same below `while`, `if`, `with`, in every block of
`try`, and two levels deep (`if` → `for … else`); since /repo 6e8e4cc also below a `case` of `match` (first case, a later
case with a guard, nested in `for … else`) and in every block of `try … except* …` (`ast.TryStar`: `visit_TryStar`
delegates to `visit_Try`, the harness encodes it as `tryStmt`). -/
def mBlocks : List (List Top) :=
  [[.compound (S "For") [.expr (nm "item"), .expr (nm "items"), .compound (S "Pass") [], initCls "C"]],
   [.compound (S "While") [.expr (nm "flag"), .compound (S "Pass") [], initCls "C"]],
   [.compound (S "If") [.expr (nm "flag"), .compound (S "Pass") [], initCls "C"]],
   [.compound (S "With") [.expr (nm "ctx"), initCls "C"]],
   [.tryStmt [initCls "A"] [.compound (S "ExceptHandler") [.expr (nm "E"), initCls "B"]] [initCls "C"] [initCls "D"]],
   [.compound (S "If") [.expr (nm "flag"),
      .compound (S "For") [.expr (nm "item"), .expr (nm "items"), .compound (S "Pass") [], initCls "C"]]],
   [.compound (S "Match") [.expr (nm "flag"), .compound (S "match_case") [.expr .const, initCls "C"]]],
   [.compound (S "Match") [.expr (nm "flag"), .compound (S "match_case") [.expr .const, .compound (S "Pass") []],
      .compound (S "match_case") [.expr .const, .expr (nm "guard"), initCls "C", initCls "D"]]],
   [.compound (S "For") [.expr (nm "item"), .expr (nm "items"), .compound (S "Pass") [],
      .compound (S "Match") [.expr (nm "flag"), .compound (S "match_case") [.expr .const, initCls "C"]]]],
   [.tryStmt [initCls "A"] [.compound (S "ExceptHandler") [.expr (nm "E"), .compound (S "Pass") []],
      .compound (S "ExceptHandler") [.expr (nm "F"), initCls "B"]] [] []]]

/-- **on the current code** each of them passes the predicate and the file stage ends without an exception (tests by
evaluation of the model; the implementation side is the block-position corpus of py/props/c07blocks.py, through the
CLI and in `file_tie`). -/
theorem C07_file_block_positions_registered :
    mBlocks.map (shapeFile "target" {}) = List.replicate 10 true ∧
    mBlocks.map (fun m => crashClassO (FileA.analyseFile cexEnv (S "target") {} exBuiltins m)) = List.replicate 10 none := by
  decide +kernel

/-- K11m / K11t (known findings of round 4, **fixed in /repo 6e8e4cc**: `visit_Match`, `visit_TryStar`): the class below
a `case` of `match` and the class inside `try … except* …` now get their Class symbol — the file stage ends normally,
the class is in the FileIr, and the predicate accepts both modules. (Before the fix both ended in the `ValueError` of
`ClassAnalyser.symbol`; a worktree at bcdf6de still shows it through the CLI.) -/
def mK11match : List Top :=
  [.compound (S "Match") [.expr (nm "flag"), .compound (S "match_case") [.expr .const, initCls "C"]]]
def mK11trystar : List Top :=
  [.tryStmt [initCls "C"] [.compound (S "ExceptHandler") [.expr (nm "E"), .compound (S "Pass") []]] [] []]
theorem C07_file_K11_match_trystar_fixed :
    crashClassO (FileA.analyseFile cexEnv (S "target") {} exBuiltins mK11match) = none ∧
    crashClassO (FileA.analyseFile cexEnv (S "target") {} exBuiltins mK11trystar) = none ∧
    shapeFile "target" {} mK11match = true ∧ shapeFile "target" {} mK11trystar = true := by decide +kernel

/-- the mechanism stays what it was: a statement with nested statement lists that the builder has NO visitor for (none
is left in the Python 3.12 grammar: Tie A `tieA_root_builder_visitors`, and C12's `tieA_block_visitors`) hides its
definitions from the root context while the file analyser reaches them — `ValueError` of `ClassAnalyser.symbol`,
rejected by the predicate. -/
def mK11unvisited : List Top := [.compound (S "SomeFutureBlock") [initCls "C"]]
theorem C07_cex_file_K11_unvisited_block :
    crashClassO (FileA.analyseFile cexEnv (S "target") {} exBuiltins mK11unvisited) = some (S "ValueError") ∧
    shapeFile "target" {} mK11unvisited = false := by decide +kernel

/-! ## Round 4 — (2) the output side: encoder × stream (RattrModel.OutputEncode) -/

section OutputEncoding
open Rattr.OutEnc

/-- Tie A: `serialise` is `converter.dumps(model, **kwargs)`, its callers pass `indent=4` or nothing — never
`ensure_ascii` — and the four output functions hand exactly that text to `print` / `write_text`. -/
theorem tieA_serialise_sites : Generated.C07.serialiseSites = OutEnc.pinnedSerialiseSites := by decide +kernel

/-- Tie A: the only non-ASCII text of rattr's own code is the `∞` of `show_stats` (K26) and two `--help` texts. -/
theorem tieA_non_ascii_constants : Generated.C07.nonAsciiConstants = OutEnc.pinnedNonAsciiConstants := by
  decide +kernel

theorem C07_hexDigit_ascii (n : Nat) (h : n < 16) : hexDigit n < 128 := by
  unfold hexDigit; split <;> omega

theorem C07_hex4_ascii (n c : Nat) (h : c ∈ hex4 n) : c < 128 := by
  have h16 : ∀ m : Nat, m % 16 < 16 := fun m => Nat.mod_lt m (by decide)
  simp only [hex4, List.mem_cons, List.mem_nil_iff, or_false] at h
  rcases h with h | h | h | h | h | h
  · omega
  · omega
  · rw [h]; exact C07_hexDigit_ascii _ (h16 _)
  · rw [h]; exact C07_hexDigit_ascii _ (h16 _)
  · rw [h]; exact C07_hexDigit_ascii _ (h16 _)
  · rw [h]; exact C07_hexDigit_ascii _ (h16 _)

theorem C07_shortEscape_ascii (n : Nat) (e : PyStr) (h : shortEscape n = some e) (c : Nat) (hc : c ∈ e) : c < 128 := by
  unfold shortEscape at h
  repeat' split at h
  all_goals first
    | (cases h; done)
    | (cases h
       simp only [List.mem_cons, List.mem_nil_iff, or_false] at hc
       omega)

/-- **`ensure_ascii=True`: every code point — lone surrogates, astral characters, controls — is written in ASCII.** -/
theorem C07_escAscii_ascii (n c : Nat) (h : c ∈ escAscii n) : c < 128 := by
  unfold escAscii at h
  split at h
  · next e he => exact C07_shortEscape_ascii n e he c h
  · split at h
    · split at h
      · exact C07_hex4_ascii _ _ h
      · rcases List.mem_append.mp h with h | h <;> exact C07_hex4_ascii _ _ h
    · next hn => simp at h; omega

theorem C07_dumpStr_ascii (s : PyStr) (c : Nat) (h : c ∈ dumpStr true s) : c < 128 := by
  simp only [dumpStr, if_true, List.mem_cons, List.mem_append, List.mem_flatMap, List.mem_nil_iff, or_false] at h
  rcases h with h | ⟨n, _, hn⟩ | h
  · omega
  · exact C07_escAscii_ascii n c hn
  · omega

theorem C07_render_ascii : ∀ (doc : List Tok), PunctAscii doc = true → ∀ c ∈ render true doc, c < 128
  | [], _, c, h => by simp [render] at h
  | .punct p :: r, hp, c, h => by
    simp only [PunctAscii, Bool.and_eq_true, List.all_eq_true, decide_eq_true_eq] at hp
    simp only [render, List.mem_append] at h
    rcases h with h | h
    · exact hp.1 c h
    · exact C07_render_ascii r hp.2 c h
  | .str s :: r, hp, c, h => by
    simp only [PunctAscii] at hp
    simp only [render, List.mem_append] at h
    rcases h with h | h
    · exact C07_dumpStr_ascii s c h
    · exact C07_render_ascii r hp c h

theorem C07_ascii_encodable (cd : Codec) (n : Nat) (h : n < 128) : encodable cd n = true := by
  cases cd <;> simp [encodable, isSurrogate] <;> omega

/-- **the output documents are always written**: whatever strings the results / IR / cache document holds (names from
identifiers and from string literals: any code points) and whatever the stream's encoding (ASCII, Latin-1, UTF-8), with
the pinned `ensure_ascii` the `print` / `write_text` of the output stage does not raise. -/
theorem C07_output_documents_always_written (cd : Codec) (doc : List Tok) (hp : PunctAscii doc = true) :
    emit cd pinnedEnsureAscii doc = .written := by
  unfold emit write pinnedEnsureAscii writable
  rw [if_pos]
  rw [List.all_eq_true]
  intro c hc
  exact C07_ascii_encodable cd c (C07_render_ascii doc hp c hc)

/-- without `ensure_ascii` the text keeps every code point `≥ 32` that is no quote / backslash … -/
theorem C07_escRaw_keeps (n : Nat) (h32 : 32 ≤ n) (hq : n ≠ 34) (hb : n ≠ 92) : escRaw n = [n] := by
  have : shortEscape n = none := by
    unfold shortEscape
    repeat' split
    all_goals first | omega | rfl
  unfold escRaw
  rw [this]
  simp; omega

/-- … so a document with ONE string holding a code point the stream cannot encode is not written: the seeded change
C07-m10 (`ensure_ascii=False`) on `getattr(o, "\ud83d")` under any UTF codec, on `höhe` under an ASCII stream. -/
theorem C07_raw_unencodable_raises (cd : Codec) (pre post : PyStr) (n : Nat) (before after : List Tok)
    (h32 : 32 ≤ n) (hq : n ≠ 34) (hb : n ≠ 92) (hn : encodable cd n = false) :
    emit cd false (before ++ .str (pre ++ n :: post) :: after) = .raised "UnicodeEncodeError" := by
  have hmem : n ∈ render false (before ++ .str (pre ++ n :: post) :: after) := by
    have : ∀ b : List Tok, n ∈ render false (b ++ .str (pre ++ n :: post) :: after) := by
      intro b
      induction b with
      | nil =>
        simp only [List.nil_append, render, dumpStr, List.mem_append, List.mem_cons, List.flatMap_append,
          List.flatMap_cons]
        left; right; left; right; left
        simp [C07_escRaw_keeps n h32 hq hb]
      | cons t r ih =>
        cases t <;> simp only [List.cons_append, render, List.mem_append] <;> exact Or.inr ih
    exact this before
  unfold emit write
  rw [if_neg]
  unfold writable
  rw [List.all_eq_true]
  intro hall
  have := hall n hmem
  rw [hn] at this
  cases this

/-- the witnesses of the corpus, by evaluation: the lone surrogate of `getattr(o, "\ud83d")`, `höhe`, an astral
character — written under every codec with the pinned flag; with `ensure_ascii=False` the surrogate raises under UTF-8,
`höhe` and the astral character under ASCII (the astral one also under Latin-1) and pass under UTF-8. -/
theorem C07_cex_ensure_ascii_false :
    [Codec.ascii, .latin1, .utf8].map (fun cd => emit cd true [.punct [123], .str [0xD83D], .punct [125]]) =
      List.replicate 3 .written ∧
    emit .utf8 false [.str [111, 46, 0xD83D]] = .raised "UnicodeEncodeError" ∧
    emit .ascii false [.str [104, 0xF6, 104, 101]] = .raised "UnicodeEncodeError" ∧
    emit .latin1 false [.str [104, 0xF6, 104, 101]] = .written ∧
    emit .utf8 false [.str [104, 0xF6, 104, 101]] = .written ∧
    emit .latin1 false [.str [0x1F600]] = .raised "UnicodeEncodeError" ∧
    emit .utf8 false [.str [0x1F600]] = .written ∧
    dumpStr true [0x1F600] = [34, 92, 117, 100, 56, 51, 100, 92, 117, 100, 101, 48, 48, 34] := by decide +kernel

/-- K26 (found in round 4): `--stdout stats` prints `∞` (threshold 0): an ASCII / Latin-1 stream raises, for every
input. (`C07_main_tail_no_crash` above is about the numbers of the table; it takes a stream that can carry the text.) -/
theorem C07_cex_K26_stats_infinity :
    write .ascii statsInfinity = .raised "UnicodeEncodeError" ∧
    write .latin1 statsInfinity = .raised "UnicodeEncodeError" ∧
    write .utf8 statsInfinity = .written := by decide +kernel

example : PunctAscii [.punct [123, 10, 32], .str [0xD83D, 0x1F600, 0], .punct [58, 32], .str [], .punct [125]] = true := by
  decide

end OutputEncoding

end Rattr.C07

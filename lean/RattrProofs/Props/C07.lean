/-
  C07 — rattr ends with results or its own diagnostic, never a traceback or hang.

  What is proved here (all inputs, no size bound):
    * Tie A  `tieA_raise_sites` / `tieA_assert_sites`: the `raise` / `assert` statements found in the
      source NOW are exactly the classified ones of `RattrModel.Crash` (a new `raise` breaks the build);
      `reachable_rows_listed`: every row a site is classified into is one of the known crash rows.
    * `C07_terminates`: the two work-list loops (call tree, import following) finish within their
      bounds, and the function-analyser model is a total function (structural recursion).
    * `C07_fn_no_crash_partial`: for EVERY function body satisfying the decidable shape predicate
      `Crash.NoCrashShapeFn`, every plugin table, module name, root context and parameter list, the
      function analyser does not end in an unhandled exception. "partial": the predicate is
      conservative (see RattrModel/Crash.lean §2): it treats every call as possibly dispatched to a
      custom analyser and excludes `key=<lambda>` keywords altogether.
    * one counterexample theorem per crash row expressible in the function-analyser model
      (K3, K4 x4, K5 x2, + `defaultdict((a+b).c)`), each with the exception class the real code
      raises; `C07_full` (crash-freedom without the predicate) is refuted: `C07_full_false`.
  The other stages (file / class / root context / imports / results / CLI) are covered by the
  raise-site table and by the CLI sweep of py/props/c07.py, not by a theorem.
-/
import RattrModel.Crash
import RattrModel.Generated.C07
import RattrProofs.Lemmas.C07Induction
import RattrProofs.Lemmas.Results
import RattrProofs.Props.C12

namespace Rattr.C07
open Rattr Rattr.FnA Rattr.Crash

/-! ### Tie A -/

/-- every `raise` statement of the source is classified, in source order, and nothing else is. -/
theorem tieA_raise_sites : Generated.C07.raiseSites = classifiedRaiseSites.map (·.site) := by
  decide +kernel

theorem tieA_assert_sites : Generated.C07.assertSites = classifiedAssertSites.map (·.site) := by
  decide +kernel

/-- the crash rows that own a raise / assert site are known rows (K-rows of DESIGN §7 + K11). -/
theorem reachable_rows_listed :
    reachableRows = ["K11", "K5", "K2", "K4", "K1", "K3", "K10", "K9", "K8"] := by
  decide +kernel

/-! ### Termination -/

/-- **"never hangs"** for the modelled algorithms: the call-tree BFS and the import BFS end within
their fuel bounds on every input (cyclic graphs included); the visitor model is a total function
(mutual structural recursion over the AST), so it returns a result on every body. -/
theorem C07_terminates :
    (∀ (P : Prog) (root : Key), ∃ nodes, Results.callTree P root = some nodes) ∧
    (∀ (ν ω : Type) [DecidableEq ν] [DecidableEq ω] (g : Imports.Graph ν ω) (fl : Imports.Flags)
        (target : List (Imports.Imp ν)) (fuel : Nat), Imports.fuelBound g target ≤ fuel →
        ∀ s, Imports.bfs g fl fuel target ≠ .outOfFuel s) ∧
    (∀ env mn root ps body, ∃ r, FnA.analyse env mn root ps body = r) :=
  ⟨Results.callTree_terminates, fun _ _ _ _ g fl target fuel hf => C12.C12_terminates g fl target fuel hf,
   fun _ _ _ _ _ => ⟨_, rfl⟩⟩

/-! ### Crash-freedom of the function analyser -/

/-- the property for one body: no environment makes the analysis end in an unhandled exception. -/
def FnNoCrash (body : List Node) : Prop :=
  ∀ env mn root ps, ¬ ∃ s e, FnA.analyse env mn root ps body = .crash s e

/-- **Main theorem.** -/
theorem C07_fn_no_crash_partial (body : List Node) (h : NoCrashShapeFn body = true) : FnNoCrash body := by
  intro env mn root ps ⟨s, e, he⟩
  unfold FnA.analyse at he
  have : NC (visitList env mn body (addArguments { ctx := Context.push root } ps) >>>=
      fun s => .ok { s with ctx := Context.pop s.ctx }) :=
    nc_bind (visitList_nc env mn body _ h) (fun s => nc_ok _)
  exact this s e he

/-- After the `del` fix (adebbdf) the model unbinds by FULL name; the predicate's `del` clause
(`unravelFullOk`) accepts exactly the targets the old clause (`unravelOk`) accepted, so the hypothesis of
`C07_fn_no_crash_partial` did not get stronger. -/
theorem C07_del_clause_unchanged : unravelFullOk = unravelOk := funext unravelFullOk_eq

/-- the full statement (no shape hypothesis) — false on the pinned tree. -/
def C07_full : Prop := ∀ body, FnNoCrash body

/-! ### Counterexamples (tests by evaluation: each runs the model on one tiny body) -/

def S (s : String) : Str := s.toList
def nm (s : String) : Node := .name (S s) .load
def binop (a b : Node) : Node := .other (S "BinOp") [a, b]
def noPs : Params := ⟨[], [], none, [], none⟩
def ps (l : List String) : Params := ⟨[], l.map S, none, [], none⟩

def cexEnv : Env :=
  { ctxEnv := { prims := [], literals := [S "List", S "Tuple", S "Set", S "Dict", S "JoinedStr"] },
    analysers := [S "getattr", S "hasattr", S "setattr", S "delattr", S "sorted", S "collections.defaultdict"] }

def bi (n : String) : Str × Sym := (S n, { kind := .builtin, name := S n, callable := true })
def cexRoot : Context :=
  [[bi "getattr", bi "sorted", bi "print",
    (S "defaultdict", { kind := .import_, name := S "defaultdict", callable := true, qual := S "collections.defaultdict" })]]

def crashClass : Res → Option Str
  | .crash _ e => some e
  | _ => none

def run (params : List String) (body : List Node) : Option Str :=
  crashClass (FnA.analyse cexEnv (S "target") cexRoot (ps params) body)

/-- K3: `sorted(xs, key=lambda a, b: a.k)` → bare `SyntaxError`. -/
def k3Body : List Node :=
  [.ret [.call (nm "sorted") [nm "xs"] [some (S "key")] [.lam (ps ["a", "b"]) (.attr (nm "a") (S "k") .load)]]]
theorem C07_cex_K3_sorted_key_arity : run ["xs"] k3Body = some (S "SyntaxError") := by decide +kernel

def unnameableTarget : Node := .attr (binop (nm "a") (nm "b")) (S "c") .store
/-- K4: `(a + b).c = 1`. -/
def k4StoreBody : List Node := [.assign [unnameableTarget] .const]
theorem C07_cex_K4_store : run ["a", "b"] k4StoreBody = some (S "RattrBinOpInNameable") := by decide +kernel
/-- K4: `del (a + b).c`. -/
def k4DelBody : List Node := [.delete [.attr (binop (nm "a") (nm "b")) (S "c") .del]]
theorem C07_cex_K4_del : run ["a", "b"] k4DelBody = some (S "RattrBinOpInNameable") := by decide +kernel
/-- K4: `for (a + b).c in x: pass`. -/
def k4ForBody : List Node := [.forLoop unnameableTarget (nm "x") [.other (S "Pass") []] []]
theorem C07_cex_K4_for : run ["a", "b", "x"] k4ForBody = some (S "RattrBinOpInNameable") := by decide +kernel
/-- K4: `with x as (a + b).c: pass`. -/
def k4WithBody : List Node := [.withStmt [.withitem (nm "x") [unnameableTarget]] [.other (S "Pass") []]]
theorem C07_cex_K4_with : run ["a", "b", "x"] k4WithBody = some (S "RattrBinOpInNameable") := by decide +kernel

/-- K5: `getattr(a + b, 'c')` → `TypeError` (old namer, reached first through the custom analyser). -/
def k5Body : List Node := [.other (S "Expr") [.call (nm "getattr") [binop (nm "a") (nm "b"), .strConst (S "c")] [] []]]
theorem C07_cex_K5_getattr : run ["a", "b"] k5Body = some (S "TypeError") := by decide +kernel
/-- K5: `print(getattr(a + b, 'c'))` → the NEW namer raises while naming the argument. -/
def k5ArgBody : List Node :=
  [.other (S "Expr") [.call (nm "print") [.call (nm "getattr") [.attr (binop (nm "a") (nm "b")) (S "d") .load, .strConst (S "c")] [] []] [] []]]
theorem C07_cex_K5_getattr_argument : run ["a", "b"] k5ArgBody = some (S "RattrBinOpInNameable") := by decide +kernel
/-- found while building the predicate: `defaultdict((a + b).c)`. -/
def ddBody : List Node := [.other (S "Expr") [.call (nm "defaultdict") [.attr (binop (nm "a") (nm "b")) (S "c") .load] [] []]]
theorem C07_cex_defaultdict_factory : run ["a", "b"] ddBody = some (S "RattrBinOpInNameable") := by decide +kernel

/-- each counterexample body is rejected by the predicate (the exclusion is not vacuous on them). -/
theorem C07_cex_bodies_rejected :
    [k3Body, k4StoreBody, k4DelBody, k4ForBody, k4WithBody, k5Body, k5ArgBody, ddBody].all
      (fun b => !NoCrashShapeFn b) = true := by decide +kernel

theorem C07_full_false : ¬ C07_full := by
  intro h
  have hc : run ["a", "b"] k4StoreBody = some (S "RattrBinOpInNameable") := C07_cex_K4_store
  unfold run at hc
  cases hr : FnA.analyse cexEnv (S "target") cexRoot (ps ["a", "b"]) k4StoreBody with
  | ok s => rw [hr] at hc; cases hc
  | fatal s d => rw [hr] at hc; cases hc
  | crash s e => exact h k4StoreBody cexEnv (S "target") cexRoot (ps ["a", "b"]) ⟨s, e, hr⟩

/-! ### Non-vacuity: bodies satisfying the predicate, exercising the visitor (tests) -/

/-- `x.y = f(a.b, k=c)[0]; for i in a: print(i.z, (a + b).w); return getattr(a, 'n').m` -/
def goodBody : List Node :=
  [.assign [.attr (nm "x") (S "y") .store]
     (.sub (.call (nm "f") [.attr (nm "a") (S "b") .load] [some (S "k")] [nm "c"]) .const .load),
   .forLoop (.name (S "i") .store) (nm "a")
     [.other (S "Expr") [.call (nm "print") [.attr (nm "i") (S "z") .load, .attr (binop (nm "a") (nm "b")) (S "w") .load] [] []]] [],
   .ret [.attr (.call (nm "getattr") [nm "a", .strConst (S "n")] [] []) (S "m") .load]]

example : NoCrashShapeFn goodBody = true := by decide +kernel
example : FnNoCrash goodBody := C07_fn_no_crash_partial goodBody (by decide +kernel)
/-- and the analysis of that body really ends `ok` with a non-empty IR in the counterexample environment. -/
def okSizes : Res → Option (Nat × Nat × Nat)
  | .ok s => some (s.gets.length, s.sets.length, s.calls.length)
  | _ => none
example : okSizes (FnA.analyse cexEnv (S "target") cexRoot (ps ["a", "b", "c", "x"]) goodBody) = some (6, 2, 1) := by
  decide +kernel

end Rattr.C07

/-
  C20 — command-line options override pyproject options, which override defaults.

  Model: `Cli.parseArguments` (RattrModel/Cli.lean) = `rattr.cli.parser.parse_arguments`; the option
  tables are the regenerated ones (`Generated.C20`).   Spec: `Spec.effective`, `Spec.tomlSource`,
  `Spec.acceptable` (RattrModel/Spec/Precedence.lean).

  What is proved, for ALL token lists / namespaces / TOML tables (no size bound):
    * `run_get` — the generic engine lemma (induction over the token list): after a successful
      argparse run the value at an option's dest is the fold of that option's own occurrences over
      the value the namespace held before; other options never disturb it;
    * `parse_get`, `two_pass_get` — with argparse's "defaults only for absent dests" rule the TOML
      pass starts from the default and the command-line pass starts from what the TOML pass left;
    * `C20_precedence` / `C20_flag` / `C20_append` — for EVERY option of the regenerated common
      table (side conditions discharged by `decide` over the table): the namespace value equals
      `Spec.effective` of (default, what the TOML tokens say, what the command-line tokens say);
    * `C20_unknown_ignored`, `C20_override_choice`, `C20_invalid_diagnosed` (every wrongly typed
      value of a known key is a type error — a TOML boolean is not an integer, fix 0abb989) and
      its end-to-end form `C20_invalid_type_end_to_end` (the outcome of `parse_arguments` is the
      re-raised error, or with `exit_on_error` the `fatal:` line + exit 1 of fix f47ae20);
    * values outside the allowed choices are rejected, not coerced: `convert_literal`,
      `C20_value_literal_and_in_choices` (whatever argparse's value pipeline stores IS the text
      given and one of the choices), `C20_near_miss_string_diagnosed` (for EVERY string that is not
      literally a choice — other case, padding, prefixes, member names … — `stdout = "…"` /
      `warning-level = "…"` ends in the TOML diagnostic) and `C20_out_of_choice_int_diagnosed`
      (follow-imports); Tie A `tieA_value_probes` (argparse's live `_get_values` on every allowed
      value and every near-miss text = `getValues`) and `tieA_no_conversion_hooks` (no Enum
      `_missing_` override / replaced `__new__` / shadowed builtin among the `type=` callables);
    * counterexamples (`C20_cex_*`, by kernel evaluation of the model on the regenerated tables) for
      the defect classes of the pinned tree, and `C20_full_false`.
    * the command line in EVERY spelling argparse accepts (`RattrModel/Argv.lean`: `parseArgumentsX`,
      the model the driver runs): `C20_argv_refines_*` — on the canonical tokens of `Cli.lean` the
      tokeniser-aware model IS `parseArguments`, so everything above transfers; `C20_respell_anywhere`
      — two spellings that tokenise to lists the main loop cannot tell apart may be exchanged anywhere
      before a `--`, for every namespace; instances for clusters of short flags (`-Hc FILE` =
      `-H -c FILE`, all letters of the regenerated table: `C20_cluster_table`,
      `C20_cluster_config_anywhere` — the first pass sees `-c` at the end of a cluster), attached
      values (`--opt=V`, `-oV`), unambiguous prefixes (`C20_prefix_table`).
  Not proved (Tie B only): that `translate` of a multi-key table yields, per option, exactly the
  occurrences of that key (`translate_append`/`translate_single` give the shape).
-/
import RattrModel.Cli
import RattrModel.Argv
import RattrModel.Spec.Precedence
import RattrModel.Generated.C20
import RattrProofs.Lemmas.C20Argv

namespace Rattr.C20
open Rattr Rattr.Cli

/-! ### Dict lemmas -/

theorem dget_set_self {ν : Type} (d : Dict Str ν) (k : Str) (v : ν) :
    Dict.get? (Dict.set d k v) k = some v := by
  induction d with
  | nil => simp [Dict.set, Dict.get?]
  | cons kv r ih =>
    obtain ⟨k', v'⟩ := kv
    by_cases h : k' = k
    · simp [Dict.set, Dict.get?, h]
    · simp [Dict.set, Dict.get?, h, ih]

theorem dget_set_ne {ν : Type} (d : Dict Str ν) (k k' : Str) (v : ν) (hne : k ≠ k') :
    Dict.get? (Dict.set d k v) k' = Dict.get? d k' := by
  induction d with
  | nil => simp [Dict.set, Dict.get?, hne]
  | cons kv r ih =>
    obtain ⟨k₀, v₀⟩ := kv
    by_cases h : k₀ = k
    · subst h; simp [Dict.set, Dict.get?, hne]
    · by_cases h2 : k₀ = k'
      · subst h2; simp [Dict.set, Dict.get?, h]
      · simp [Dict.set, Dict.get?, h, h2, ih]

/-! ### What one option's occurrences in a token list are, and what they do -/

/-- The occurrences of option `o` in a token list: for each token that is one of `o`'s flags, the
value token that follows it (if any). Written without reference to the parser's state. -/
def occ (o : Opt) : List Tok → List (Option Text)
  | [] => []
  | .val _ :: rest => occ o rest
  | .flag f :: rest =>
    if o.flags.contains f then
      (match rest with | .val t :: _ => some t | _ => none) :: occ o rest
    else occ o rest

/-- The effect of one successful occurrence on the value at `o.dest`. -/
def effect (o : Opt) (cur : Option Val) (arg : Option Text) : Option Val :=
  match o.action with
  | .store =>
    match arg.bind (convert o.vtype) with
    | some v => some v
    | none => cur
  | .storeTrue => some (.bool true)
  | .append =>
    match arg with
    | some t =>
      match cur with
      | some (.texts l) => some (.texts (l ++ [t]))
      | _ => some (.texts [t])
    | none => cur
  | _ => cur

/-- Side conditions on (parser, option), decidable; checked over the whole regenerated tables. -/
structure Wf (p : Parser) (o : Opt) : Prop where
  mem : o ∈ p
  flagged : o.flags ≠ []
  uniq : ∀ o' ∈ p, o'.dest = o.dest → o' = o
  first : ∀ f, o.flags.contains f = true → findFlag p f = some o
  typed : o.action = .append → o.vtype = .str ∧ o.choices = none

def wfB (p : Parser) (o : Opt) : Bool :=
  p.contains o && !o.flags.isEmpty && p.all (fun o' => o'.dest != o.dest || o' == o)
    && o.flags.all (fun f => findFlag p f == some o)
    && (o.action != .append || (o.vtype == .str && o.choices == none))

theorem wf_of_wfB {p : Parser} {o : Opt} (h : wfB p o = true) : Wf p o := by
  simp only [wfB, Bool.and_eq_true] at h
  obtain ⟨⟨⟨⟨h1, h2⟩, h3⟩, h4⟩, h5⟩ := h
  refine ⟨by simpa using h1, ?_, ?_, ?_, ?_⟩
  · intro e; simp [e] at h2
  · intro o' ho' hd
    have := (List.all_eq_true.mp h3) o' ho'
    simp only [Bool.or_eq_true, bne_iff_ne, ne_eq, beq_iff_eq] at this
    rcases this with h | h
    · exact absurd hd h
    · exact h
  · intro f hf
    have hf' : f ∈ o.flags := by simpa using hf
    have := (List.all_eq_true.mp h4) f hf'
    simpa using this
  · intro ha
    simp only [Bool.or_eq_true, bne_iff_ne, ne_eq, Bool.and_eq_true, beq_iff_eq] at h5
    rcases h5 with h | h
    · exact absurd ha h
    · exact h

theorem findFlag_some {p : Parser} {f : Str} {o' : Opt} (h : findFlag p f = some o') :
    o' ∈ p ∧ o'.flags.contains f = true := by
  unfold findFlag at h
  exact ⟨List.mem_of_find?_eq_some h, by simpa using List.find?_some h⟩

theorem nextPositional_some {p : Parser} {seen : List Str} {o' : Opt}
    (h : nextPositional p seen = some o') : o' ∈ p ∧ o'.flags = [] := by
  unfold nextPositional at h
  refine ⟨List.mem_of_find?_eq_some h, ?_⟩
  have := List.find?_some h
  simp only [Bool.and_eq_true, List.isEmpty_iff] at this
  exact this.1

/-- Inversion of a successful `take_action`. -/
theorem takeAction_ok {p : Parser} {o : Opt} {arg : Option Text} {st st' : St}
    (h : takeAction p o arg st = .ok st') :
    ∃ v ns, getValues o arg = .ok v ∧ applyAction o v st.ns = .ok ns ∧ st'.ns = ns := by
  unfold takeAction at h
  cases hv : getValues o arg with
  | error e => simp [hv] at h
  | ok v =>
    simp only [hv] at h
    by_cases hc : ((v != o.default) && conflictSeen p o st.seenND) = true
    · simp [hc] at h
    · simp only [hc] at h
      cases ha : applyAction o v st.ns with
      | error e => simp [ha] at h
      | ok ns =>
        simp only [ha] at h
        simp at h
        subst h
        exact ⟨v, ns, rfl, ha, rfl⟩

theorem applyAction_other {o' : Opt} {v : Val} {ns ns' : Namespace} {d : Str}
    (hd : o'.dest ≠ d) (h : applyAction o' v ns = .ok ns') :
    Dict.get? ns' d = Dict.get? ns d := by
  unfold applyAction at h
  cases hact : o'.action <;> simp only [hact] at h
  · injection h with h; subst h; exact dget_set_ne _ _ _ _ hd
  · injection h with h; subst h; exact dget_set_ne _ _ _ _ hd
  · cases v <;> simp only at h <;> try (cases h)
    rename_i t
    cases hg : Dict.get? ns o'.dest with
    | none => simp only [hg] at h; injection h with h; subst h; exact dget_set_ne _ _ _ _ hd
    | some w =>
      cases w <;> simp only [hg] at h <;> cases h <;> exact dget_set_ne _ _ _ _ hd
  · cases h
  · cases h

/-- An action of a different option leaves `o.dest` alone. -/
theorem takeAction_other {p : Parser} {o o' : Opt} {arg : Option Text} {st st' : St}
    (hd : o'.dest ≠ o.dest) (h : takeAction p o' arg st = .ok st') :
    Dict.get? st'.ns o.dest = Dict.get? st.ns o.dest := by
  obtain ⟨v, ns, _, ha, hns⟩ := takeAction_ok h
  rw [hns]; exact applyAction_other hd ha

/-- A successful action of `o` itself does `effect`. -/
theorem takeAction_self {p : Parser} {o : Opt} {arg : Option Text} {st st' : St}
    (hty : o.action = .append → o.vtype = .str ∧ o.choices = none)
    (harg : o.action = .store ∨ o.action = .append → ∃ t, arg = some t)
    (h : takeAction p o arg st = .ok st') :
    Dict.get? st'.ns o.dest = effect o (Dict.get? st.ns o.dest) arg := by
  obtain ⟨v, ns, hv, ha, hns⟩ := takeAction_ok h
  rw [hns]
  unfold applyAction at ha
  unfold effect
  cases hact : o.action <;> simp only [hact] at ha ⊢
  · -- store
    obtain ⟨t, rfl⟩ := harg (Or.inl hact)
    injection ha with ha; subst ha
    rw [dget_set_self]
    unfold getValues at hv
    simp only at hv
    cases hc : convert o.vtype t with
    | none => simp [hc] at hv
    | some v' =>
      simp only [hc] at hv
      simp only [Option.bind_some, hc]
      cases hch : o.choices with
      | none => simp only [hch] at hv; injection hv with hv; rw [hv]
      | some cs =>
        simp only [hch] at hv
        by_cases hm : v' ∈ cs
        · simp only [hm, if_true] at hv; injection hv with hv; rw [hv]
        · simp [hm] at hv
  · injection ha with ha; subst ha
    rw [dget_set_self]
  · -- append
    obtain ⟨hstr, hch⟩ := hty hact
    obtain ⟨t, rfl⟩ := harg (Or.inr hact)
    unfold getValues at hv
    simp only [hstr, convert, hch] at hv
    injection hv with hv; subst hv
    simp only at ha
    cases hg : Dict.get? st.ns o.dest with
    | none => simp only [hg] at ha; injection ha with ha; subst ha; rw [dget_set_self]
    | some w =>
      cases w <;> simp only [hg] at ha <;> cases ha <;> rw [dget_set_self]
  · cases ha
  · cases ha

theorem effect_storeTrue_arg {o : Opt} (h : o.action = .storeTrue) (cur : Option Val) (a b : Option Text) :
    effect o cur a = effect o cur b := by
  unfold effect; simp [h]

/-- **Engine lemma** (all token lists, by induction on a length bound): after a successful run the
value at `o.dest` is the fold of `o`'s own occurrences over the value held before. -/
theorem run_get_aux {p : Parser} {o : Opt} (wf : Wf p o) :
    ∀ (n : Nat) (toks : List Tok), toks.length ≤ n → ∀ (st st' : St), run p toks st = .ok st' →
      Dict.get? st'.ns o.dest = (occ o toks).foldl (effect o) (Dict.get? st.ns o.dest) := by
  intro n
  induction n with
  | zero =>
    intro toks hl st st' h
    cases toks with
    | nil => simp [run] at h; subst h; simp [occ]
    | cons _ _ => simp at hl
  | succ n ih =>
    intro toks hl st st' h
    cases toks with
    | nil => simp [run] at h; subst h; simp [occ]
    | cons tk rest =>
      have hl' : rest.length ≤ n := by simpa using hl
      cases tk with
      | val t =>
        rw [run] at h
        simp only [occ]
        cases hnp : nextPositional p st.seen with
        | none =>
          simp only [hnp] at h
          have := ih rest hl' _ st' h; exact this
        | some o'' =>
          simp only [hnp] at h
          obtain ⟨hm, hfl⟩ := nextPositional_some hnp
          have hd : o''.dest ≠ o.dest := by
            intro e
            have := wf.uniq o'' hm e
            subst this
            exact wf.flagged hfl
          cases hta : takeAction p o'' (some t) st with
          | error e => simp [hta] at h
          | ok st1 =>
            simp only [hta] at h
            rw [ih rest hl' _ _ h, takeAction_other hd hta]
      | flag f =>
        rw [run] at h
        cases hff : findFlag p f with
        | none =>
          simp only [hff] at h
          have hnf : o.flags.contains f = false := by
            cases hc : o.flags.contains f with
            | false => rfl
            | true => rw [wf.first f hc] at hff; cases hff
          simp only [occ, hnf, Bool.false_eq_true, ↓reduceIte]
          have := ih rest hl' _ st' h; exact this
        | some o' =>
          simp only [hff] at h
          obtain ⟨hm', hf'⟩ := findFlag_some hff
          by_cases ho : o' = o
          · subst ho
            simp only [occ, hf', if_true, List.foldl_cons]
            cases hact : o'.action <;> simp only [hact] at h
            · -- store
              cases rest with
              | nil => simp at h
              | cons tk2 rest' =>
                cases tk2 with
                | flag g => simp at h
                | val t =>
                  simp only at h
                  cases hta : takeAction p o' (some t) st with
                  | error e => simp [hta] at h
                  | ok st1 =>
                    simp only [hta] at h
                    have hl2 : rest'.length ≤ n := by simp at hl'; omega
                    rw [ih rest' hl2 _ _ h,
                      takeAction_self wf.typed (fun _ => ⟨t, rfl⟩) hta]
                    simp only [occ]
            · -- storeTrue
              cases hta : takeAction p o' none st with
              | error e => simp [hta] at h
              | ok st1 =>
                simp only [hta] at h
                rw [ih rest hl' _ _ h,
                  takeAction_self wf.typed (fun hh => by rcases hh with hh | hh <;> simp [hact] at hh) hta]
                rw [effect_storeTrue_arg hact]
            · -- append
              cases rest with
              | nil => simp at h
              | cons tk2 rest' =>
                cases tk2 with
                | flag g => simp at h
                | val t =>
                  simp only at h
                  cases hta : takeAction p o' (some t) st with
                  | error e => simp [hta] at h
                  | ok st1 =>
                    simp only [hta] at h
                    have hl2 : rest'.length ≤ n := by simp at hl'; omega
                    rw [ih rest' hl2 _ _ h,
                      takeAction_self wf.typed (fun _ => ⟨t, rfl⟩) hta]
                    simp only [occ]
            · cases h
            · cases h
          · have hd : o'.dest ≠ o.dest := fun e => ho (wf.uniq o' hm' e)
            have hnf : o.flags.contains f = false := by
              cases hc : o.flags.contains f with
              | false => rfl
              | true =>
                rw [wf.first f hc] at hff
                injection hff with hff
                exact absurd hff.symm ho
            simp only [occ, hnf, Bool.false_eq_true, ↓reduceIte]
            cases hact : o'.action <;> simp only [hact] at h
            · cases rest with
              | nil => simp at h
              | cons tk2 rest' =>
                cases tk2 with
                | flag g => simp at h
                | val t =>
                  simp only at h
                  cases hta : takeAction p o' (some t) st with
                  | error e => simp [hta] at h
                  | ok st1 =>
                    simp only [hta] at h
                    have hl2 : rest'.length ≤ n := by simp at hl'; omega
                    rw [ih rest' hl2 _ _ h, takeAction_other hd hta]
                    simp only [occ]
            · cases hta : takeAction p o' none st with
              | error e => simp [hta] at h
              | ok st1 =>
                simp only [hta] at h
                rw [ih rest hl' _ _ h, takeAction_other hd hta]
            · cases rest with
              | nil => simp at h
              | cons tk2 rest' =>
                cases tk2 with
                | flag g => simp at h
                | val t =>
                  simp only at h
                  cases hta : takeAction p o' (some t) st with
                  | error e => simp [hta] at h
                  | ok st1 =>
                    simp only [hta] at h
                    have hl2 : rest'.length ≤ n := by simp at hl'; omega
                    rw [ih rest' hl2 _ _ h, takeAction_other hd hta]
                    simp only [occ]
            · cases h
            · cases h

theorem run_get {p : Parser} {o : Opt} (wf : Wf p o) (toks : List Tok) (st st' : St)
    (h : run p toks st = .ok st') :
    Dict.get? st'.ns o.dest = (occ o toks).foldl (effect o) (Dict.get? st.ns o.dest) :=
  run_get_aux wf toks.length toks (Nat.le_refl _) st st' h

/-! ### argparse's defaults rule: only dests ABSENT from the namespace get the default -/

theorem contains_eq {ν : Type} (d : Dict Str ν) (k : Str) : Dict.contains d k = (Dict.get? d k).isSome := rfl

theorem applyDefaults_keep (p : Parser) : ∀ (ns : Namespace) (d : Str) (v : Val),
    Dict.get? ns d = some v → Dict.get? (applyDefaults p ns) d = some v := by
  induction p with
  | nil => intro ns d v h; simpa [applyDefaults] using h
  | cons o' p' ih =>
    intro ns d v h
    unfold applyDefaults
    split
    · exact ih ns d v h
    · rename_i hc
      apply ih
      have hne : o'.dest ≠ d := by
        intro e
        apply hc
        simp [contains_eq, e, h]
      rw [dget_set_ne _ _ _ _ hne]; exact h

theorem applyDefaults_absent {o : Opt} (hs : o.default ≠ .suppress) :
    ∀ (p : Parser), o ∈ p → (∀ o' ∈ p, o'.dest = o.dest → o' = o) →
    ∀ (ns : Namespace), Dict.get? ns o.dest = none →
      Dict.get? (applyDefaults p ns) o.dest = some o.default := by
  intro p
  induction p with
  | nil => intro hm; simp at hm
  | cons o' p' ih =>
    intro hm hu ns h
    unfold applyDefaults
    by_cases ho : o' = o
    · subst ho
      have hc : (Dict.contains ns o'.dest || o'.default == Val.suppress) = false := by
        simp [contains_eq, h, hs]
      simp only [hc]
      exact applyDefaults_keep p' _ _ _ (dget_set_self _ _ _)
    · have hm' : o ∈ p' := by
        rcases List.mem_cons.mp hm with e | e
        · exact absurd e.symm ho
        · exact e
      have hu' : ∀ o'' ∈ p', o''.dest = o.dest → o'' = o := fun o'' h1 h2 => hu o'' (List.mem_cons_of_mem _ h1) h2
      have hne : o'.dest ≠ o.dest := fun e => ho (hu o' (List.mem_cons_self) e)
      split
      · exact ih hm' hu' ns h
      · apply ih hm' hu'
        rw [dget_set_ne _ _ _ _ hne]; exact h

theorem parse_get {p : Parser} {o : Opt} (wf : Wf p o) (toks : List Tok) (ns ns' : Namespace)
    (h : parse p toks ns = .ok ns') :
    Dict.get? ns' o.dest = (occ o toks).foldl (effect o) (Dict.get? (applyDefaults p ns) o.dest) := by
  unfold parse at h
  cases hr : run p toks { ns := applyDefaults p ns, seen := [], seenND := [], extras := false } with
  | error e => simp [hr] at h
  | ok st =>
    simp only [hr] at h
    unfold finish at h
    split at h
    · cases h
    · split at h
      · cases h
      · injection h with h; subst h
        exact run_get wf toks _ _ hr

theorem effect_some (o : Opt) (v : Val) (a : Option Text) : ∃ w, effect o (some v) a = some w := by
  unfold effect
  cases o.action <;> simp only
  · cases a.bind (convert o.vtype) <;> simp
  · exact ⟨_, rfl⟩
  · cases a with
    | none => exact ⟨_, rfl⟩
    | some t => cases v <;> exact ⟨_, rfl⟩
  · exact ⟨_, rfl⟩
  · exact ⟨_, rfl⟩

theorem foldl_effect_some (o : Opt) (l : List (Option Text)) : ∀ (v : Val),
    ∃ w, l.foldl (effect o) (some v) = some w := by
  induction l with
  | nil => intro v; exact ⟨v, rfl⟩
  | cons a l ih =>
    intro v
    obtain ⟨w, hw⟩ := effect_some o v a
    simp only [List.foldl_cons, hw]
    exact ih w

/-- **Two-pass lemma**: TOML tokens first, command-line tokens second, same namespace: the value
at `o.dest` is the fold of the command-line occurrences over the fold of the TOML occurrences over
the default. Any two parsers that both contain `o` (well-formed) will do. -/
theorem two_pass_get {p1 p2 : Parser} {o : Opt} (w1 : Wf p1 o) (w2 : Wf p2 o)
    (hs : o.default ≠ .suppress) (tomlToks cliToks : List Tok) (ns1 ns : Namespace)
    (h1 : parse p1 tomlToks [] = .ok ns1) (h2 : parse p2 cliToks ns1 = .ok ns) :
    Dict.get? ns o.dest =
      (occ o cliToks).foldl (effect o) ((occ o tomlToks).foldl (effect o) (some o.default)) := by
  have e1 := parse_get w1 tomlToks [] ns1 h1
  rw [applyDefaults_absent hs p1 w1.mem w1.uniq [] rfl] at e1
  obtain ⟨w, hw⟩ := foldl_effect_some o (occ o tomlToks) o.default
  rw [hw] at e1
  have e2 := parse_get w2 cliToks ns1 ns h2
  rw [applyDefaults_keep p2 ns1 _ _ e1] at e2
  rw [e2, hw]

/-! ### Folding the occurrences, per action kind -/

/-- The values the occurrences of a `store` option carry. -/
def vals (o : Opt) (toks : List Tok) : List Val :=
  (occ o toks).filterMap fun a => a.bind (convert o.vtype)

/-- The items the occurrences of an `append` option carry. -/
def items (o : Opt) (toks : List Tok) : List Text := (occ o toks).filterMap id

theorem lastOpt_cons_of_some {α : Type} (v w : α) (l : List α) (h : l.getLast? = some w) :
    (v :: l).getLast? = some w := by
  cases l with
  | nil => simp at h
  | cons b l => rw [List.getLast?_cons_cons]; exact h

theorem lastOpt_cons_of_none {α : Type} (v : α) (l : List α) (h : l.getLast? = none) :
    (v :: l).getLast? = some v := by
  cases l with
  | nil => rfl
  | cons b l => simp at h

theorem lastOpt_map_const {α β : Type} (c : β) (l : List α) (h : l ≠ []) :
    (l.map fun _ => c).getLast? = some c := by
  induction l with
  | nil => exact absurd rfl h
  | cons a l ih =>
    cases l with
    | nil => rfl
    | cons b l =>
      have := ih (by simp)
      simp only [List.map_cons] at this ⊢
      exact lastOpt_cons_of_some _ _ _ this

theorem foldl_store {o : Opt} (h : o.action = .store) (l : List (Option Text)) : ∀ (init : Option Val),
    l.foldl (effect o) init =
      match (l.filterMap fun a => a.bind (convert o.vtype)).getLast? with
      | some v => some v
      | none => init := by
  induction l with
  | nil => intro init; rfl
  | cons a l ih =>
    intro init
    simp only [List.foldl_cons, ih]
    cases hc : a.bind (convert o.vtype) with
    | none =>
      have : effect o init a = init := by unfold effect; simp [h, hc]
      simp [hc, this]
    | some v =>
      have : effect o init a = some v := by unfold effect; simp [h, hc]
      simp only [List.filterMap_cons, hc, this]
      cases hl : (List.filterMap (fun a => a.bind (convert o.vtype)) l).getLast? with
      | none => rw [lastOpt_cons_of_none _ _ hl]
      | some w => rw [lastOpt_cons_of_some _ _ _ hl]

theorem foldl_flag {o : Opt} (h : o.action = .storeTrue) (l : List (Option Text)) (init : Option Val) :
    l.foldl (effect o) init = if l = [] then init else some (.bool true) := by
  induction l generalizing init with
  | nil => rfl
  | cons a l ih =>
    simp only [List.foldl_cons, ih]
    have : effect o init a = some (.bool true) := by unfold effect; simp [h]
    by_cases hl : l = [] <;> simp [hl, this]

def itemsOf : Option Val → List Text
  | some (.texts l) => l
  | _ => []

theorem foldl_append {o : Opt} (h : o.action = .append) (l : List (Option Text)) : ∀ (init : Option Val),
    l.foldl (effect o) init =
      if l.filterMap id = [] then init else some (.texts (itemsOf init ++ l.filterMap id)) := by
  induction l with
  | nil => intro init; rfl
  | cons a l ih =>
    intro init
    simp only [List.foldl_cons, ih]
    cases a with
    | none =>
      have : effect o init none = init := by unfold effect; simp [h]
      simp [this]
    | some t =>
      have : effect o init (some t) = some (.texts (itemsOf init ++ [t])) := by
        unfold effect
        simp only [h]
        cases init with
        | none => rfl
        | some v => cases v <;> rfl
      simp only [this, List.filterMap_cons, id]
      by_cases hl : List.filterMap id l = [] <;> simp [hl, itemsOf]

/-! ### The property, per option of the regenerated table -/

def kindOf (o : Opt) : Spec.Kind :=
  match o.action with
  | .storeTrue => .flag
  | .append => .list
  | _ => .scalar

/-- What the TOML tokens say about `o` (as the spec wants it: one value, if any). -/
def tomlSays (o : Opt) (toks : List Tok) : Option Val :=
  match o.action with
  | .storeTrue => if occ o toks = [] then none else some (.bool true)
  | .append => if items o toks = [] then none else some (.texts (items o toks))
  | _ => (vals o toks).getLast?

/-- What the command-line tokens say about `o`: one value per occurrence. -/
def cliSays (o : Opt) (toks : List Tok) : List Val :=
  match o.action with
  | .storeTrue => (occ o toks).map fun _ => .bool true
  | .append => (items o toks).map fun t => .texts [t]
  | _ => vals o toks

/-- Decidable side conditions of one option w.r.t. both parsers. -/
def good (o : Opt) : Bool :=
  wfB tomlParser o && wfB cliParser o && o.default != .suppress
    && (o.action == .store || o.action == .storeTrue || o.action == .append)
    && (o.action != .append || o.default == .none)

theorem flatMap_singletons (f : Val → List Text) (l : List Text) (hf : ∀ t, f (Val.texts [t]) = [t]) :
    (l.map fun t => Val.texts [t]).flatMap f = l := by
  induction l with
  | nil => rfl
  | cons a l ih => simp [List.flatMap_cons, ih, hf]

/-- Precedence for one good option, any token lists. -/
theorem precedence_of_good {o : Opt} (hg : good o = true)
    (tomlToks cliToks : List Tok) (ns1 ns : Namespace)
    (h1 : parse tomlParser tomlToks [] = .ok ns1) (h2 : parse cliParser cliToks ns1 = .ok ns) :
    Dict.get? ns o.dest =
      some (Spec.effective (kindOf o) o.default (tomlSays o tomlToks) (cliSays o cliToks)) := by
  simp only [good, Bool.and_eq_true, bne_iff_ne, ne_eq] at hg
  obtain ⟨⟨⟨⟨hw1, hw2⟩, hs⟩, hact⟩, hdef⟩ := hg
  rw [two_pass_get (wf_of_wfB hw1) (wf_of_wfB hw2) hs tomlToks cliToks ns1 ns h1 h2]
  cases ha : o.action <;> simp [ha] at hact
  · -- store
    rw [foldl_store ha, foldl_store ha]
    simp only [kindOf, tomlSays, cliSays, ha, Spec.effective, vals]
    cases (List.filterMap (fun a => a.bind (convert o.vtype)) (occ o cliToks)).getLast? <;> simp only
    cases (List.filterMap (fun a => a.bind (convert o.vtype)) (occ o tomlToks)).getLast? <;> rfl
  · -- store_true
    rw [foldl_flag ha, foldl_flag ha]
    simp only [kindOf, tomlSays, cliSays, ha, Spec.effective]
    by_cases hc : occ o cliToks = []
    · by_cases ht : occ o tomlToks = [] <;> simp [hc, ht]
    · have : (List.map (fun _ => Val.bool true) (occ o cliToks)).getLast? = some (Val.bool true) :=
        lastOpt_map_const _ _ hc
      simp [hc, this]
  · -- append
    have hd : o.default = .none := by simpa [ha] using hdef
    rw [foldl_append ha, foldl_append ha]
    simp only [kindOf, tomlSays, cliSays, ha, Spec.effective, items, hd]
    rw [flatMap_singletons _ _ (fun _ => rfl)]
    by_cases ht : List.filterMap id (occ o tomlToks) = [] <;>
      by_cases hc : List.filterMap id (occ o cliToks) = [] <;>
      simp [ht, hc, itemsOf]

/-- Tie A + side conditions: every option of the regenerated TOML (= common) table is good, i.e.
present in both parsers with the same definition, reachable by each of its flags, the only option
with its dest, of a modelled action kind, with a non-suppressed default. -/
theorem table_good : tomlParser.all good = true := by decide +kernel

/-- **C20 (precedence)**: for every option settable in both places, for all TOML-derived and
command-line token lists on which both argparse passes succeed, the effective value is the
command-line value if given, else the TOML value if given, else the default (`Spec.effective`). -/
theorem C20_precedence (o : Opt) (ho : o ∈ tomlParser)
    (tomlToks cliToks : List Tok) (ns1 ns : Namespace)
    (h1 : parse tomlParser tomlToks [] = .ok ns1) (h2 : parse cliParser cliToks ns1 = .ok ns) :
    Dict.get? ns o.dest =
      some (Spec.effective (kindOf o) o.default (tomlSays o tomlToks) (cliSays o cliToks)) :=
  precedence_of_good (List.all_eq_true.mp table_good o ho) tomlToks cliToks ns1 ns h1 h2

/-- **C20 (accumulation)**: list-valued options hold the TOML items followed by the command-line
items (and keep the default when neither source gives one). -/
theorem C20_append (o : Opt) (ho : o ∈ tomlParser) (ha : o.action = .append)
    (tomlToks cliToks : List Tok) (ns1 ns : Namespace)
    (h1 : parse tomlParser tomlToks [] = .ok ns1) (h2 : parse cliParser cliToks ns1 = .ok ns) :
    Dict.get? ns o.dest =
      some (if items o tomlToks ++ items o cliToks = [] then o.default
            else .texts (items o tomlToks ++ items o cliToks)) := by
  rw [C20_precedence o ho tomlToks cliToks ns1 ns h1 h2]
  simp only [kindOf, tomlSays, cliSays, ha, Spec.effective]
  rw [flatMap_singletons _ _ (fun _ => rfl)]
  by_cases ht : items o tomlToks = [] <;> simp [ht]

/-- Decidable projections (so that concrete runs can be checked by kernel evaluation). -/
def okGet (r : Except ArgErr Namespace) (k : Str) : Option Val :=
  match r with
  | .ok ns => Dict.get? ns k
  | .error _ => none

def outGet (r : Outcome) (k : Str) : Option Val :=
  match r with
  | .ok ns => Dict.get? ns k
  | _ => none

theorem outGet_some {r : Outcome} {k : Str} {v : Val} (h : outGet r k = some v) :
    ∃ ns, r = .ok ns ∧ Dict.get? ns k = some v := by
  cases r <;> simp [outGet] at h
  exact ⟨_, rfl, h⟩

def twoPass (tomlToks cliToks : List Tok) : Except ArgErr Namespace :=
  match parse tomlParser tomlToks [] with
  | .ok ns1 => parse cliParser cliToks ns1
  | .error e => .error e

/-! ### Non-vacuity: the hypotheses of `C20_precedence` are met by a non-trivial input -/

private def exToml : List Tok := [.flag (str "--threshold"), .val (.num 3), .flag (str "--exclude"), .val (.word (str "a"))]
private def exCli : List Tok :=
  [.val (.word (str "t.py")), .flag (str "-x"), .val (.word (str "b")), .flag (str "--threshold"), .val (.num 7)]

example : okGet (twoPass exToml exCli) (str "threshold") = some (.int 7) ∧
    okGet (twoPass exToml exCli) (str "_excluded_names") = some (.texts [.word (str "a"), .word (str "b")]) ∧
    okGet (twoPass exToml exCli) (str "_follow_imports_level") = some (.int 1) := by
  decide +kernel

/-! ### TOML: translation shape, unknown keys, type errors -/

theorem translate_append (nm : Dict Str Str) (a b : Toml) :
    translate nm (a ++ b) = translate nm a ++ translate nm b := by
  induction a with
  | nil => rfl
  | cons kv a ih => obtain ⟨k, v⟩ := kv; simp [translate, ih]

theorem translate_single (nm : Dict Str Str) (k : Str) (v : TVal) :
    translate nm [(k, v)] = translate1 (argName nm k) v := by
  simp [translate]

theorem prune_unknown (tm : Dict Str TomlType) (a b : Toml) (k : Str) (v : TVal)
    (hk : Dict.get? tm k = none) : prune tm (a ++ (k, v) :: b) = prune tm (a ++ b) := by
  simp [prune, contains_eq, hk]

/-- **C20 (unknown keys are ignored)**: an unknown key, wherever it stands and whatever its value,
changes neither the validated table nor (hence) anything downstream. -/
theorem C20_unknown_ignored (tm : Dict Str TomlType) (a b : Toml) (k : Str) (v : TVal)
    (hk : Dict.get? tm k = none) :
    validateToml tm (a ++ (k, v) :: b) = validateToml tm (a ++ b) := by
  unfold validateToml; rw [prune_unknown tm a b k v hk]

/-- The documented type of a TOML type-map entry. -/
def docType : TomlType → Option Spec.DocType
  | .flag => some .bool
  | .int => some .int
  | .string => some .str
  | .listOfStrings => some .listOfStr
  | .unknown => none

/-- `is_valid` is exact typing (a boolean is not an integer). -/
theorem isValid_eq_wellTyped (ty : TomlType) (d : Spec.DocType) (v : TVal) (hd : docType ty = some d) :
    ty.isValid v = Spec.wellTyped d v := by
  cases ty <;> simp [docType] at hd <;> subst hd
  · cases v with
    | sc s => cases s <;> rfl
    | list l => rfl
    | table => rfl
  · cases v with
    | sc s => cases s <;> rfl
    | list l => rfl
    | table => rfl
  · cases v with
    | sc s => cases s <;> rfl
    | list l => rfl
    | table => rfl
  · cases v with
    | sc s => cases s <;> rfl
    | list l =>
      simp only [TomlType.isValid, Spec.wellTyped]
      congr 1
    | table => rfl

theorem checkTypes_error (tm : Dict Str TomlType) (k : Str) (v : TVal) (ty : TomlType)
    (hk : Dict.get? tm k = some ty) (hbad : ty.isValid v = false) :
    ∀ (c : Toml), (k, v) ∈ c → ∃ e, checkTypes tm c = .error e := by
  intro c
  induction c with
  | nil => intro h; simp at h
  | cons kv r ih =>
    intro h
    obtain ⟨k', v'⟩ := kv
    unfold checkTypes
    rcases List.mem_cons.mp h with e | e
    · injection e with e1 e2; subst e1; subst e2
      rw [hk]
      cases ty <;> simp_all
    · cases hg : Dict.get? tm k' with
      | none => exact ⟨_, rfl⟩
      | some ty' =>
        cases ty' <;> simp only <;>
          first
          | exact ⟨_, rfl⟩
          | (split
             · exact ih e
             · exact ⟨_, rfl⟩)

/-- **C20 (wrongly typed values are diagnosed)**: a known key whose value does not have exactly the
documented type (a boolean is not an integer) makes `_validate_toml_config` fail. Holds for every
type map, hence for the regenerated one. -/
theorem C20_invalid_diagnosed (tm : Dict Str TomlType) (conf : Toml) (k : Str) (v : TVal)
    (ty : TomlType) (d : Spec.DocType)
    (hmem : (k, v) ∈ conf) (hk : Dict.get? tm k = some ty) (hd : docType ty = some d)
    (hbad : Spec.wellTyped d v = false) :
    ∃ e, validateToml tm conf = .error e := by
  have hv : ty.isValid v = false := by rw [isValid_eq_wellTyped ty d v hd]; exact hbad
  have hm : (k, v) ∈ prune tm conf := by
    simp only [prune, List.mem_filter, contains_eq, hk, Option.isSome_some, and_true]; exact hmem
  obtain ⟨e, he⟩ := checkTypes_error tm k v ty hk hv _ hm
  exact ⟨e, by unfold validateToml; rw [he]⟩

example : ∃ e, validateToml tomlTypeMap [(str "bogus", .table), (str "threshold", .sc (.str (.word (str "x"))))] = .error e :=
  C20_invalid_diagnosed tomlTypeMap _ (str "threshold") (.sc (.str (.word (str "x")))) .int .int
    (List.mem_cons_of_mem _ List.mem_cons_self) (by decide +kernel) rfl rfl

example : ∃ e, validateToml tomlTypeMap [(str "follow-imports", .sc (.bool false))] = .error e :=
  C20_invalid_diagnosed tomlTypeMap _ (str "follow-imports") (.sc (.bool false)) .int .int
    List.mem_cons_self (by decide +kernel) rfl rfl

/-- End to end: when the command line parses on its own and the explicit TOML table has a wrongly
typed value for a known key, `parse_arguments` ends in the TOML diagnostic — the re-raised error, or
(with `exit_on_error`, i.e. the real CLI) the `fatal: error parsing project toml` line and exit 1.
Never `ok`, never a command-line error. -/
theorem C20_invalid_type_end_to_end (w : World) (kv : Str × TVal) (conf : Toml) (argv : List Text)
    (eoe : Bool) (ns0 : Namespace) (hcli : parse cliParser (argv.map lex) [] = .ok ns0)
    (k : Str) (v : TVal) (ty : TomlType) (d : Spec.DocType)
    (hmem : (k, v) ∈ kv :: conf) (hk : Dict.get? tomlTypeMap k = some ty) (hd : docType ty = some d)
    (hbad : Spec.wellTyped d v = false) :
    ∃ e, parseArguments w (some (kv :: conf)) argv eoe = tomlErr eoe e := by
  obtain ⟨e, he⟩ := C20_invalid_diagnosed tomlTypeMap (kv :: conf) k v ty d hmem hk hd hbad
  refine ⟨e, ?_⟩
  unfold parseArguments
  simp only [hcli, he]

/-! ### Which TOML file -/

/-- **C20 (source selection)**: the TOML source is the `-c` file if `-c` was given and the file
exists, else the project's pyproject.toml, else nothing — `Spec.tomlSource`. -/
theorem C20_override_choice (w : World) (ns0 : Namespace) :
    selectFile (getOverride w ns0) (findPyproject w) =
      Spec.tomlSource
        (match Dict.get? ns0 (str "pyproject_toml_override") with
         | some (.text _) => w.overrideFile
         | _ => none)
        (findPyproject w) := by
  unfold selectFile Spec.tomlSource getOverride
  cases Dict.get? ns0 (str "pyproject_toml_override") with
  | none => rfl
  | some v => cases v <;> first | rfl | (simp only; cases w.overrideFile <;> rfl)

/-- The project's pyproject.toml is the one of the nearest project root (cwd first). -/
theorem findPyproject_cwd_root (w : World) (h : w.cwd.isRoot = true) : findPyproject w = w.cwd.pyproject := by
  simp [findPyproject, h]

theorem findPyproject_no_root (w : World) (h : w.cwd.isRoot = false)
    (hp : w.parents.find? Dir.isRoot = none) : findPyproject w = none := by
  have : w.cwd.pyproject = none := by
    cases hc : w.cwd.pyproject with
    | none => rfl
    | some f => simp [Dir.isRoot, hc] at h
  simp [findPyproject, h, hp, this]

/-! ### Counterexamples on the pinned tree (kernel evaluation of the model on the regenerated tables) -/

def w0 : World := { overrideFile := none, cwd := { vcs := true, pyproject := none }, parents := [] }
def argv0 : List Text := [.word (str "t.py")]

/-- `exclude = ["-x"]`: an acceptable value, rejected because argparse re-reads `-x` as an option. -/
theorem C20_cex_dash_value :
    Spec.acceptable .listOfStr none (.list [.str (.word (str "-x"))]) = true ∧
    parseArguments w0 (some [(str "exclude", .list [.str (.word (str "-x"))])]) argv0 false
      = .tomlError (.arg (.expectedOneArgument (str "_excluded_names"))) := by
  decide +kernel

/-- Regression guards for the two repaired defects (were counterexamples before 0abb989 / f47ae20):
`follow-imports = false` and `threshold = false` are type errors, and with `exit_on_error` a TOML
error is a clean fatal exit. -/
theorem C20_fixed_bool_for_int :
    parseArguments w0 (some [(str "follow-imports", .sc (.bool false))]) argv0 false
      = .tomlError (.type (str "follow-imports")) ∧
    parseArguments w0 (some [(str "threshold", .sc (.bool false))]) argv0 false
      = .tomlError (.type (str "threshold")) ∧
    parseArguments w0 (some [(str "threshold", .sc (.bool true))]) argv0 false
      = .tomlError (.type (str "threshold")) := by
  decide +kernel

theorem C20_fixed_toml_fatal :
    parseArguments w0 (some [(str "threshold", .sc (.str (.word (str "x"))))]) argv0 true
      = .tomlFatal (.type (str "threshold")) := by
  decide +kernel

/-- The help text documents `force_refresh_cache=true` as a TOML option; the type map knows neither
spelling, so the key is pruned as unknown. -/
theorem C20_cex_documented_key_unknown :
    Dict.get? tomlTypeMap (str "force_refresh_cache") = none ∧
    Dict.get? tomlTypeMap (str "force-refresh-cache") = none ∧
    (tomlParser.any fun o => o.dest == str "force_refresh_cache") = true := by
  decide +kernel

/-! ### The full statement (kept visible; still false: part (b) fails on dash-leading strings) -/

def choicesOfKey (k : Str) : Option (List Val) :=
  match findFlag tomlParser (argName tomlNameMap k) with
  | some o => o.choices
  | none => none

/-- Every key of the table is known and its value acceptable (documented type, within choices). -/
def AllAcceptable (conf : Toml) : Prop :=
  ∀ k v, (k, v) ∈ conf → ∃ ty d, Dict.get? tomlTypeMap k = some ty ∧ docType ty = some d ∧
    Spec.acceptable d (choicesOfKey k) v = true

/-- C20 in full, for an explicit TOML table and a command line that parses on its own:
(a) an unacceptable value of a known key is diagnosed (for wrong TYPES this now holds:
    `C20_invalid_type_end_to_end`; out-of-choice values of a one-key table:
    `C20_near_miss_string_diagnosed`, `C20_out_of_choice_int_diagnosed`; multi-key tables — Tie B);
(b) a table of acceptable values (without `strict` and `threshold` together) is accepted, and then
    every common option holds `Spec.effective` (that last part is `C20_precedence`). -/
def C20_full : Prop :=
  ∀ (w : World) (kv : Str × TVal) (conf : Toml) (argv : List Text),
    (∃ ns0, parse cliParser (argv.map lex) [] = .ok ns0) →
    ((∃ k v ty d, (k, v) ∈ kv :: conf ∧ Dict.get? tomlTypeMap k = some ty ∧ docType ty = some d ∧
        Spec.acceptable d (choicesOfKey k) v = false) →
      ∃ e, parseArguments w (some (kv :: conf)) argv false = .tomlError e) ∧
    (AllAcceptable (kv :: conf) →
      (Dict.get? (kv :: conf) (str "strict") = none ∨ Dict.get? (kv :: conf) (str "threshold") = none) →
      ∃ ns, parseArguments w (some (kv :: conf)) argv false = .ok ns)

theorem C20_full_false : ¬ C20_full := by
  intro h
  have hcli : okGet (parse cliParser (argv0.map lex) []) (str "target") = some (.text (.word (str "t.py"))) := by
    decide +kernel
  have hex : ∃ ns0, parse cliParser (argv0.map lex) [] = .ok ns0 := by
    cases hp : parse cliParser (argv0.map lex) [] with
    | ok ns => exact ⟨ns, rfl⟩
    | error e => rw [hp] at hcli; simp [okGet] at hcli
  have h2 := (h w0 (str "exclude", .list [.str (.word (str "-x"))]) [] argv0 hex).2
    (by
      intro k v hm
      simp only [List.mem_singleton, Prod.mk.injEq] at hm
      obtain ⟨rfl, rfl⟩ := hm
      exact ⟨.listOfStrings, .listOfStr, by decide +kernel, rfl, by decide +kernel⟩)
    (Or.inl (by decide +kernel))
  obtain ⟨ns, hns⟩ := h2
  rw [C20_cex_dash_value.2] at hns
  cases hns


/-! ### Choice-restricted options: a value is taken literally or rejected — never coerced -/

/-- `_get_value`: the `type=` callables of the table are literal — what `convert` accepts IS the text
given (up to the trusted int codec): no case folding, no stripping, no lookup by member name. -/
theorem convert_literal (ty : VType) (t : Text) (v : Val) (h : convert ty t = some v) :
    v = .text t ∨ ∃ i, t = .num i ∧ v = .int i := by
  cases ty <;> cases t <;> simp [convert] at h <;> first
    | exact Or.inl h.symm
    | exact Or.inr ⟨_, rfl, h.symm⟩
    | exact Or.inl h.2.symm

theorem convert_enum_domain (dom : List Str) (t : Text) (v : Val) (h : convert (.enum dom) t = some v) :
    ∃ s, t = .word s ∧ s ∈ dom ∧ v = .text (.word s) := by
  cases t with
  | num i => simp [convert] at h
  | word s =>
    simp [convert] at h
    exact ⟨s, rfl, h.1, h.2.symm⟩

theorem C20_value_literal_and_in_choices (o : Opt) (t : Text) (v : Val)
    (h : getValues o (some t) = .ok v) :
    (v = .text t ∨ ∃ i, t = .num i ∧ v = .int i) ∧ (∀ cs, o.choices = some cs → v ∈ cs) := by
  unfold getValues at h
  cases hc : convert o.vtype t with
  | none => simp [hc] at h
  | some v' =>
    simp only [hc] at h
    cases hch : o.choices with
    | none =>
      simp only [hch] at h
      injection h with h; subst h
      exact ⟨convert_literal _ _ _ hc, by intro cs h; cases h⟩
    | some cs =>
      simp only [hch] at h
      split at h
      · injection h with h; subst h
        refine ⟨convert_literal _ _ _ hc, ?_⟩
        intro cs' h'; injection h' with h'; subst h'; assumption
      · cases h

theorem C20_not_a_choice_rejected (o : Opt) (t : Text) (cs : List Val) (hc : o.choices = some cs)
    (h1 : Val.text t ∉ cs) (h2 : ∀ i, t = .num i → Val.int i ∉ cs) :
    getValues o (some t) = .error (.invalidValue o.dest) ∨
    getValues o (some t) = .error (.invalidChoice o.dest) := by
  cases hg : getValues o (some t) with
  | ok v =>
    exfalso
    obtain ⟨hl, hin⟩ := C20_value_literal_and_in_choices o t v hg
    have := hin cs hc
    rcases hl with rfl | ⟨i, rfl, rfl⟩
    · exact h1 this
    · exact h2 i rfl this
  | error e =>
    unfold getValues at hg
    cases hcv : convert o.vtype t with
    | none => simp [hcv] at hg; left; rw [hg]
    | some v' =>
      simp only [hcv, hc] at hg
      split at hg
      · cases hg
      · injection hg with hg; right; rw [hg]

theorem run_store_rejects (p : Parser) (f : Str) (o : Opt) (t : Text) (rest : List Tok) (st : St)
    (hf : findFlag p f = some o) (ha : o.action = .store) (e : ArgErr)
    (hg : getValues o (some t) = .error e) :
    run p (.flag f :: .val t :: rest) st = .error e := by
  simp [run, hf, ha, takeAction, hg]

theorem run_store_needs_value (p : Parser) (f g : Str) (o : Opt) (rest : List Tok) (st : St)
    (hf : findFlag p f = some o) (ha : o.action = .store) :
    run p (.flag f :: .flag g :: rest) st = .error (.expectedOneArgument o.dest) := by
  simp [run, hf, ha]


theorem lex_val {t t' : Text} (h : lex t = .val t') : t' = t := by
  unfold lex at h
  split at h
  · cases h
  · injection h with h; exact h.symm

theorem validate_single (tm : Dict Str TomlType) (k : Str) (v : TVal) (ty : TomlType)
    (hk : Dict.get? tm k = some ty) (hv : ty.isValid v = true) :
    validateToml tm [(k, v)] = .ok [(k, v)] := by
  have hp : prune tm [(k, v)] = [(k, v)] := by simp [prune, contains_eq, hk]
  unfold validateToml
  rw [hp]
  cases ty <;> simp_all [checkTypes, TomlType.isValid]

/-- The engine of the two theorems below: an explicit one-key table whose value passes the type
table and translates to `--key VALUE`, where argparse's value pipeline rejects VALUE (or VALUE is
itself re-read as an option), ends in the TOML diagnostic — never `ok`, never coerced. -/
theorem toml_single_rejected (w : World) (k : Str) (v : TVal) (name : Str) (o : Opt) (tk : Tok)
    (argv : List Text) (eoe : Bool) (ns0 : Namespace)
    (hcli : parse cliParser (argv.map lex) [] = .ok ns0)
    (hval : validateToml tomlTypeMap [(k, v)] = .ok [(k, v)])
    (htr : (translate tomlNameMap [(k, v)]).map lex = [.flag name, tk])
    (hf : findFlag tomlParser name = some o) (ha : o.action = .store)
    (hrej : ∀ t, tk = .val t → ∃ e, getValues o (some t) = .error e) :
    ∃ e, parseArguments w (some [(k, v)]) argv eoe = tomlErr eoe (.arg e) := by
  unfold parseArguments
  simp only [hcli, hval, htr]
  cases tk with
  | val t =>
    obtain ⟨e, he⟩ := hrej t rfl
    refine ⟨e, ?_⟩
    simp only [parse, run_store_rejects tomlParser name o t [] _ hf ha e he]
  | flag g =>
    refine ⟨.expectedOneArgument o.dest, ?_⟩
    simp only [parse, run_store_needs_value tomlParser name g o [] _ hf ha]

/-- A word `lex` (= `_parse_optional`) reads as an option: `-` and at least one more character. -/
def dashWord : Str → Bool
  | '-' :: _ :: _ => true
  | _ => false

/-- What the table must say about a string-typed, choice-restricted key for the theorem below
(decided over the regenerated tables by `C20_choice_keys_table`). -/
def choiceKeyOk (k : Str) : Bool :=
  Dict.get? tomlTypeMap k == some .string &&
  dashWord (argName tomlNameMap k) &&
  (match findFlag tomlParser (argName tomlNameMap k) with
   | some o => o.action == .store && o.vtype != .int && o.choices.isSome
   | none => false)

/-- The string-typed TOML keys whose option has `choices` (today: warning-level, stdout). -/
def choiceKeys : List Str :=
  tomlTypeMap.filterMap fun (k, ty) => if ty == .string && (choicesOfKey k).isSome then some k else none

/-- The int-typed TOML keys whose option has `choices` (today: follow-imports). -/
def intChoiceKeys : List Str :=
  tomlTypeMap.filterMap fun (k, ty) => if ty == .int && (choicesOfKey k).isSome then some k else none

def intChoiceKeyOk (k : Str) : Bool :=
  Dict.get? tomlTypeMap k == some .int &&
  dashWord (argName tomlNameMap k) &&
  (match findFlag tomlParser (argName tomlNameMap k) with
   | some o => o.action == .store && o.vtype == .int && o.choices.isSome
   | none => false)

theorem C20_choice_keys_table :
    choiceKeys.all choiceKeyOk = true ∧ intChoiceKeys.all intChoiceKeyOk = true ∧
    choiceKeys ≠ [] ∧ intChoiceKeys ≠ [] := by
  decide +kernel

theorem lex_dashWord (name : Str) (h : dashWord name = true) : lex (.word name) = .flag name := by
  unfold dashWord at h
  split at h
  · rfl
  · cases h

/-- **C20 (a string outside the allowed choices is rejected, not coerced)** — for EVERY string `t`:
an explicit table `key = "t"` for a string-typed choice-restricted key (stdout, warning-level) whose
`t` is not literally one of the choices ends in the TOML diagnostic: other letter case, padding,
prefixes, member names … are all just "not a choice" to the model.  (Tie A `tieA_value_probes` /
`tieA_no_conversion_hooks` pin that the live `type=` callables behave like this; Tie B runs the
near misses.) -/
theorem C20_near_miss_string_diagnosed (w : World) (k : Str) (hk : k ∈ choiceKeys) (t : Text)
    (cs : List Val) (hcs : choicesOfKey k = some cs) (hn : Val.text t ∉ cs)
    (argv : List Text) (eoe : Bool) (ns0 : Namespace)
    (hcli : parse cliParser (argv.map lex) [] = .ok ns0) :
    ∃ e, parseArguments w (some [(k, .sc (.str t))]) argv eoe = tomlErr eoe (.arg e) := by
  have hok : choiceKeyOk k = true := List.all_eq_true.mp C20_choice_keys_table.1 k hk
  unfold choiceKeyOk at hok
  simp only [Bool.and_eq_true, beq_iff_eq] at hok
  obtain ⟨⟨hty, hname⟩, hopt⟩ := hok
  unfold choicesOfKey at hcs
  cases hf : findFlag tomlParser (argName tomlNameMap k) with
  | none => simp [hf] at hopt
  | some o =>
    simp only [hf] at hopt hcs
    simp only [Bool.and_eq_true, beq_iff_eq, bne_iff_ne, ne_eq] at hopt
    obtain ⟨⟨ha, hnotint⟩, _⟩ := hopt
    refine toml_single_rejected w k (.sc (.str t)) (argName tomlNameMap k) o (lex t) argv eoe ns0 hcli
      (validate_single _ _ _ .string hty rfl) ?_ hf ha ?_
    · simp [translate, translate1, lex_dashWord _ hname]
    · intro t' ht'
      have := lex_val ht'; subst this
      cases hg : getValues o (some t') with
      | error e => exact ⟨e, rfl⟩
      | ok v =>
        exfalso
        obtain ⟨hl, hin⟩ := C20_value_literal_and_in_choices o t' v hg
        have hv := hin cs hcs
        rcases hl with rfl | ⟨i, rfl, rfl⟩
        · exact hn hv
        · -- an int came out: only the `int` callable does that
          unfold getValues at hg
          cases hty' : o.vtype <;> simp_all [convert]

/-- The same for the int-typed choice-restricted key (follow-imports): every integer that is not one
of the choices is rejected (`invalid choice`). -/
theorem C20_out_of_choice_int_diagnosed (w : World) (k : Str) (hk : k ∈ intChoiceKeys) (i : Int)
    (cs : List Val) (hcs : choicesOfKey k = some cs) (hn : Val.int i ∉ cs)
    (argv : List Text) (eoe : Bool) (ns0 : Namespace)
    (hcli : parse cliParser (argv.map lex) [] = .ok ns0) :
    ∃ e, parseArguments w (some [(k, .sc (.int i))]) argv eoe = tomlErr eoe (.arg e) := by
  have hok : intChoiceKeyOk k = true := List.all_eq_true.mp C20_choice_keys_table.2.1 k hk
  unfold intChoiceKeyOk at hok
  simp only [Bool.and_eq_true, beq_iff_eq] at hok
  obtain ⟨⟨hty, hname⟩, hopt⟩ := hok
  unfold choicesOfKey at hcs
  cases hf : findFlag tomlParser (argName tomlNameMap k) with
  | none => simp [hf] at hopt
  | some o =>
    simp only [hf] at hopt hcs
    simp only [Bool.and_eq_true, beq_iff_eq] at hopt
    obtain ⟨⟨ha, hint⟩, _⟩ := hopt
    refine toml_single_rejected w k (.sc (.int i)) (argName tomlNameMap k) o (.val (.num i)) argv eoe ns0 hcli
      (validate_single _ _ _ .int hty rfl) ?_ hf ha ?_
    · have h2 : lex (.num i) = .val (.num i) := rfl
      simp [translate, translate1, lex_dashWord _ hname, h2]
    · intro t' ht'
      injection ht' with ht'; subst ht'
      exact ⟨.invalidChoice o.dest, by simp [getValues, hint, convert, hcs, hn]⟩

/-- Non-vacuity: `stdout = "IR"`, `stdout = " ir"`, `warning-level = "ALL"`, `follow-imports = 4`
meet the hypotheses (the keys are in the tables, the values are not choices). -/
example : str "stdout" ∈ choiceKeys ∧ str "warning-level" ∈ choiceKeys ∧ str "follow-imports" ∈ intChoiceKeys ∧
    (∃ cs, choicesOfKey (str "stdout") = some cs ∧ Val.text (.word (str "IR")) ∉ cs ∧
      Val.text (.word (str " ir")) ∉ cs ∧ Val.text (.word (str "ir")) ∈ cs) ∧
    (∃ cs, choicesOfKey (str "warning-level") = some cs ∧ Val.text (.word (str "ALL")) ∉ cs) ∧
    (∃ cs, choicesOfKey (str "follow-imports") = some cs ∧ Val.int 4 ∉ cs) := by
  decide +kernel

/-- Kernel-evaluated instances on the regenerated tables (TESTS of the model): the seeded
`Output._missing_` class of change (case-insensitive lookup) would have to flip these. -/
theorem C20_witness_near_miss :
    parseArguments w0 (some [(str "stdout", .sc (.str (.word (str "IR"))))]) argv0 false
      = .tomlError (.arg (.invalidValue (str "stdout"))) ∧
    parseArguments w0 (some [(str "stdout", .sc (.str (.word (str "Results"))))]) argv0 true
      = .tomlFatal (.arg (.invalidValue (str "stdout"))) ∧
    parseArguments w0 (some [(str "warning-level", .sc (.str (.word (str "ALL"))))]) argv0 false
      = .tomlError (.arg (.invalidChoice (str "_warning_level"))) ∧
    parseArguments w0 (some [(str "follow-imports", .sc (.int 4))]) argv0 false
      = .tomlError (.arg (.invalidChoice (str "_follow_imports_level"))) ∧
    parseArguments w0 (some [(str "stdout", .sc (.str (.word (str "ir"))))]) [.word (str "-o"), .word (str "IR"), .word (str "t.py")] false
      = .cliError (.invalidValue (str "stdout")) := by
  decide +kernel

/-! #### Tie A for the value pipeline -/

def probeText : Generated.C20.RawVal → Option Text
  | .int i => some (.num i)
  | .str s => some (.word (str s))
  | _ => none

/-- argparse's own value pipeline, evaluated live on every allowed value and every near-miss text
of every choice-restricted option of both parsers, agrees with `getValues`: same verdict, same
converted value. -/
theorem tieA_value_probes :
    Generated.C20.valueProbes.all (fun (ps, dest, probe, verdict, value) =>
      match (if ps = "cli" then cliParser else tomlParser).find? (fun o => o.dest == str dest), probeText probe with
      | some o, some t =>
        match getValues o (some t) with
        | .ok v => verdict == "ok" && v == valOfRaw value
        | .error (.invalidValue _) => verdict == "invalidValue"
        | .error (.invalidChoice _) => verdict == "invalidChoice"
        | .error _ => false
      | _, _ => false) = true ∧ Generated.C20.valueProbes ≠ [] := by
  decide +kernel

/-- No `type=` callable of either parser has a lenient-lookup hook (an Enum `_missing_` override, a
replaced `__new__` / metaclass `__call__`, members named differently from their values, a callable
that merely shares the name of int / str / Path): `convert` models plain conversion only. -/
theorem tieA_no_conversion_hooks :
    Generated.C20.conversionHooks.all (fun (_, _, hooks) => hooks.isEmpty) = true ∧
    Generated.C20.conversionHooks.length = cliParser.length + tomlParser.length := by
  decide +kernel


/-! ### Every spelling of the command line (argparse's tokeniser, `RattrModel/Argv.lean`) -/

/-- On canonical tokens the tokeniser-aware main loop IS `Cli.run` (all token lists, all states). -/
theorem C20_argv_refines_run (p hp : Parser) (toks : List Tok) (st : St) :
    runE p hp (toks.map (canonTok p)) st = run p toks st :=
  runE_canon p hp toks st

/-- … `parse_args` with argparse's tokeniser IS `Cli.parse` on the canonical fragment … -/
theorem C20_argv_refines_parse (p hp : Parser) (argv : List Text) (ns : Namespace)
    (h : argv.all (canonText p hp) = true) :
    parseX p hp argv ns = parse p (argv.map lex) ns :=
  parseX_canon p hp argv ns h

/-- … and `parse_arguments` over raw argv IS `Cli.parseArguments` whenever the command line and the
`[tool.rattr]` tables in reach are canonical: every theorem above about `parseArguments` is a
theorem about the model the driver runs. -/
theorem C20_argv_refines_parse_arguments (w : World) (inputConf : Option Toml) (argv : List Text) (eoe : Bool)
    (hargv : argv.all (canonText cliParser cliParserH) = true)
    (htoml : ∀ c ∈ candidateConfs w inputConf, tomlCanon c = true) :
    parseArgumentsX w inputConf argv eoe = parseArguments w inputConf argv eoe :=
  parseArgumentsX_canon w inputConf argv eoe hargv htoml

/-- Non-vacuity: a canonical command line with exact flags, a negative number and a value; a
canonical table. -/
example : ([.word (str "--threshold"), .num (-5), .word (str "-H"), .word (str "-c"), .word (str "o.toml"),
            .word (str "t.py")] : List Text).all (canonText cliParser cliParserH) = true ∧
    tomlCanon [(str "exclude", .list [.str (.word (str "a")), .str (.word (str "-x"))]),
               (str "follow-imports", .sc (.int 2))] = true := by
  decide +kernel

/-- `--opt=VALUE` / `-oVALUE` is `--opt VALUE` inside the main loop, for every value text. -/
theorem C20_attached_is_detached (p hp : Parser) (o : Opt) (f x : Str) (rest : List ETok) (st : St)
    (h : takesArg o = true) :
    runE p hp (.opt o f (some x) :: rest) st =
      runE p hp (.opt o f none :: .arg (Text.ofStr x) :: rest) st :=
  runE_attached p hp o f x rest st h

/-- One step of cluster splitting inside the main loop (`consume_optional`'s explicit-argument
loop): `-a<b…>` is `-a -<b…>` for a zero-argument flag `a` outside every mutually exclusive group. -/
theorem C20_cluster_step (p hp : Parser) (a b : Opt) (fa : Str) (cb : Char) (x : Str)
    (rest : List ETok) (st : St)
    (ha : a.action = .storeTrue) (hm : a.mutex = none)
    (hfa : (fa.getD 1 '-' != '-') = true) (hb : findFlag hp ['-', cb] = some b) :
    runE p hp (.opt a fa (some (cb :: x)) :: rest) st =
      runE p hp (.opt a fa none :: .opt b ['-', cb] (if x.isEmpty then none else some x) :: rest) st :=
  runE_cluster_step p hp a b fa cb x rest st ha hm hfa hb

/-- Exchange of spellings anywhere before a `--` (all prefixes, all suffixes, all namespaces). -/
theorem C20_respell_anywhere (p hp : Parser) (w₁ w₂ : List Text) (X Y : List ETok)
    (h₁ : noDD w₁ = true) (h₂ : noDD w₂ = true)
    (t₁ : tokenise hp w₁ = .ok X) (t₂ : tokenise hp w₂ = .ok Y)
    (hX : headIsOpt X = true) (hY : headIsOpt Y = true)
    (hXY : ∀ post st, runE p hp (X ++ post) st = runE p hp (Y ++ post) st)
    (pre post : List Text) (hpre : noDD pre = true) (ns : Namespace) :
    parseX p hp (pre ++ (w₁ ++ post)) ns = parseX p hp (pre ++ (w₂ ++ post)) ns :=
  parseX_respell p hp w₁ w₂ X Y h₁ h₂ t₁ t₂ hX hY hXY pre post hpre ns

/-- `parse_arguments` sees the command line only through its `parse_args`: the FIRST pass (which
only looks for `-c`) included. -/
theorem C20_respell_parse_arguments (argv₁ argv₂ : List Text)
    (h : ∀ ns, parseX cliParser cliParserH argv₁ ns = parseX cliParser cliParserH argv₂ ns)
    (w : World) (inputConf : Option Toml) (eoe : Bool) :
    parseArgumentsX w inputConf argv₁ eoe = parseArgumentsX w inputConf argv₂ eoe :=
  parseArgumentsX_respell argv₁ argv₂ h w inputConf eoe

theorem C20_cluster_split_anywhere (p hp : Parser) (a b : Opt) (ca cb : Char) (x : Str)
    (hf : clusterFacts hp a b ca cb x = true)
    (pre post : List Text) (hpre : noDD pre = true) (ns : Namespace) :
    parseX p hp (pre ++ ([.word ('-' :: ca :: cb :: x)] ++ post)) ns =
      parseX p hp (pre ++ ([.word ['-', ca], .word ('-' :: cb :: x)] ++ post)) ns :=
  parseX_cluster_split p hp a b ca cb x hf pre post hpre ns

theorem C20_attached_split_anywhere (p hp : Parser) (o : Opt) (f attached flagWord x : Str)
    (hf : attachedFacts hp o f attached flagWord x = true)
    (pre post : List Text) (hpre : noDD pre = true) (ns : Namespace) :
    parseX p hp (pre ++ ([.word attached] ++ post)) ns =
      parseX p hp (pre ++ ([.word flagWord, Text.ofStr x] ++ post)) ns :=
  parseX_attached_split p hp o f attached flagWord x hf pre post hpre ns

/-- The letters of the regenerated table: short zero-argument flags outside every mutually
exclusive group (what may start / continue a cluster), and all short option letters. -/
def shortLetters (hp : Parser) (pred : Opt → Bool) : List Char :=
  (hp.filter pred).flatMap fun o => o.flags.filterMap fun f =>
    match f with
    | ['-', c] => if c != '-' then some c else none
    | _ => none

def clusterHeads : List Char := shortLetters cliParserH fun o => o.action == .storeTrue && o.mutex.isNone
def allShort : List Char := shortLetters cliParserH fun _ => true

/-- Over the regenerated table: EVERY two-letter cluster `-<a><b>` of a cluster head and a short
option satisfies the cluster facts (with and without a sample attached value), as does every
three-letter cluster of two heads and a short option. -/
theorem C20_cluster_table :
    clusterHeads ≠ [] ∧
    (clusterHeads.all fun ca => allShort.all fun cb =>
      match findFlag cliParserH ['-', ca], findFlag cliParserH ['-', cb] with
      | some a, some b =>
        clusterFacts cliParserH a b ca cb [] &&
        (!takesArg b || clusterFacts cliParserH a b ca cb (str "o.toml")) &&
        (clusterHeads.all fun c0 =>
          match findFlag cliParserH ['-', c0] with
          | some a0 => clusterFacts cliParserH a0 a c0 ca [cb]
          | none => false)
      | _, _ => false) = true := by
  decide +kernel

/-- The seeded-defect class, for all worlds and all command lines: `-c` at the end of a cluster of
short flags (`-Hc FILE`, `-rc FILE`, …) is the same command line as `-H -c FILE`, in the first pass
(TOML file selection) and in the last — wherever the cluster stands before a `--`. -/
theorem C20_cluster_config_anywhere (ca : Char) (hca : ca ∈ clusterHeads)
    (pre post : List Text) (hpre : noDD pre = true)
    (w : World) (inputConf : Option Toml) (eoe : Bool) :
    parseArgumentsX w inputConf (pre ++ ([.word ['-', ca, 'c']] ++ post)) eoe =
      parseArgumentsX w inputConf (pre ++ ([.word ['-', ca], .word ['-', 'c']] ++ post)) eoe := by
  have htab := C20_cluster_table.2
  have h1 := (List.all_eq_true.mp htab) ca hca
  have hc : 'c' ∈ allShort := by decide +kernel
  have h2 := (List.all_eq_true.mp h1) 'c' hc
  cases ha : findFlag cliParserH ['-', ca] with
  | none => simp [ha] at h2
  | some a =>
    cases hb : findFlag cliParserH ['-', 'c'] with
    | none => simp [ha, hb] at h2
    | some b =>
      simp only [ha, hb, Bool.and_eq_true] at h2
      apply parseArgumentsX_respell
      intro ns
      exact parseX_cluster_split cliParser cliParserH a b ca 'c' [] h2.1.1 pre post hpre ns

/-- The same for EVERY short option at the end of a two-letter cluster. -/
theorem C20_cluster_any_option_anywhere (ca cb : Char) (hca : ca ∈ clusterHeads) (hcb : cb ∈ allShort)
    (pre post : List Text) (hpre : noDD pre = true)
    (w : World) (inputConf : Option Toml) (eoe : Bool) :
    parseArgumentsX w inputConf (pre ++ ([.word ['-', ca, cb]] ++ post)) eoe =
      parseArgumentsX w inputConf (pre ++ ([.word ['-', ca], .word ['-', cb]] ++ post)) eoe := by
  have h2 := (List.all_eq_true.mp ((List.all_eq_true.mp C20_cluster_table.2) ca hca)) cb hcb
  cases ha : findFlag cliParserH ['-', ca] with
  | none => simp [ha] at h2
  | some a =>
    cases hb : findFlag cliParserH ['-', cb] with
    | none => simp [ha, hb] at h2
    | some b =>
      simp only [ha, hb, Bool.and_eq_true] at h2
      apply parseArgumentsX_respell
      intro ns
      exact parseX_cluster_split cliParser cliParserH a b ca cb [] h2.1.1 pre post hpre ns

/-- Over the regenerated table: the shape of the option strings (`-c` or `--…`, no two alike) and of
the short letters (none is `-` or `=`), and every cluster head is a zero-argument flag outside the
mutually exclusive groups. -/
theorem C20_short_table :
    shortWf cliParserH = true ∧ (allFlags cliParserH).Nodup ∧
    (allShort.all fun c => c != '-' && c != '=' && (findFlag cliParserH ['-', c]).isSome) = true ∧
    (clusterHeads.all fun c => c != '-' &&
      match findFlag cliParserH ['-', c] with
      | some a => a.action == .storeTrue && a.mutex == none
      | none => false) = true := by
  decide +kernel

/-- The seeded-defect class with an ATTACHED rest, for all worlds, all command lines and EVERY rest
text (`-HcFILE`, `-rxPATTERN`, `-HTcFILE` = `-H -TcFILE` = `-H -T -cFILE`): a cluster head followed
by a short option letter and at least one more character (not `=`) is the head, then the rest. -/
theorem C20_cluster_attached_anywhere (ca cb x0 : Char) (x : Str)
    (hca : ca ∈ clusterHeads) (hcb : cb ∈ allShort) (hx0 : x0 ≠ '=')
    (pre post : List Text) (hpre : noDD pre = true)
    (w : World) (inputConf : Option Toml) (eoe : Bool) :
    parseArgumentsX w inputConf (pre ++ ([.word ('-' :: ca :: cb :: x0 :: x)] ++ post)) eoe =
      parseArgumentsX w inputConf (pre ++ ([.word ['-', ca], .word ('-' :: cb :: x0 :: x)] ++ post)) eoe := by
  obtain ⟨wf, nd, hs, hh⟩ := C20_short_table
  have h1 := (List.all_eq_true.mp hh) ca hca
  have h2 := (List.all_eq_true.mp hs) cb hcb
  simp only [Bool.and_eq_true, bne_iff_ne, ne_eq] at h1 h2
  cases hfa : findFlag cliParserH ['-', ca] with
  | none => simp [hfa] at h1
  | some a =>
    cases hfb : findFlag cliParserH ['-', cb] with
    | none => simp [hfb] at h2
    | some b =>
      simp only [hfa, Bool.and_eq_true, beq_iff_eq] at h1
      apply parseArgumentsX_respell
      intro ns
      exact parseX_cluster_split cliParser cliParserH a b ca cb (x0 :: x)
        (clusterFacts_attached cliParserH wf nd a b ca cb x0 x h1.2.1 h1.2.2 hfa hfb h1.1 h2.1.1 h2.1.2 hx0)
        pre post hpre ns

/-- Non-vacuity: `-Hco.toml` is `-H -co.toml`, which is `-H -c o.toml` (`C20_attached_split_anywhere`). -/
example : 'H' ∈ clusterHeads ∧ 'c' ∈ allShort ∧
    (match findFlag cliParserH (str "-c") with
     | some o => attachedFacts cliParserH o (str "-c") (str "-co.toml") (str "-c") (str "o.toml")
     | none => false) = true := by
  decide +kernel

/-- Over the regenerated table: a proper prefix (≥ 3 characters, not itself an option string) of a
long option string classifies exactly like the full option string when it is a prefix of no other
option string, and is an "ambiguous option" error otherwise — with and without `=value`. -/
theorem C20_prefix_table :
    ((allFlags cliParserH).all fun f =>
      (List.range f.length).all fun n =>
        let s := f.take n
        n < 3 || (allFlags cliParserH).contains s ||
          (if ((allFlags cliParserH).filter fun g => s.isPrefixOf g).length == 1 then
             classify cliParserH (.word s) == classify cliParserH (.word f) &&
             (match findFlag cliParserH f with
              | some o => classify cliParserH (.word (s ++ str "=v")) == .ok (.opt o f (some (str "v")))
              | none => false)
           else
             classify cliParserH (.word s) == .error .ambiguousOption &&
             classify cliParserH (.word (s ++ str "=v")) == .error .ambiguousOption)) = true := by
  decide +kernel

/-- Two words with the same classification are the same command line, anywhere before a `--`. -/
theorem C20_same_class_anywhere (p hp : Parser) (t₁ t₂ : Text) (k : ETok)
    (c₁ : classify hp t₁ = .ok k) (c₂ : classify hp t₂ = .ok k)
    (d₁ : t₁ ≠ .word ['-', '-']) (d₂ : t₂ ≠ .word ['-', '-'])
    (pre post : List Text) (hpre : noDD pre = true) (ns : Namespace) :
    parseX p hp (pre ++ ([t₁] ++ post)) ns = parseX p hp (pre ++ ([t₂] ++ post)) ns := by
  unfold parseX
  rw [tokenise_append hp pre _ hpre, tokenise_append hp pre _ hpre,
      tokenise_append hp [t₁] _ (by simp [noDD, d₁]), tokenise_append hp [t₂] _ (by simp [noDD, d₂]),
      tokenise_one hp t₁ k d₁ c₁, tokenise_one hp t₂ k d₂ c₂]

/-! #### Witnesses (kernel evaluation on the regenerated tables; these are TESTS of the model) -/

private def wBoth : World :=
  { overrideFile := some (.table [(str "follow-imports", .sc (.int 2))]),
    cwd := { vcs := false, pyproject := some (.table [(str "follow-imports", .sc (.int 0))]) }, parents := [] }

/-- Every spelling of `-H -c o.toml t.py` selects the override file (follow-imports = 2, not the
project's 0) and records the override path. -/
theorem C20_witness_override_spellings :
    ([[str "-H", str "-c", str "o.toml", str "t.py"], [str "-Hc", str "o.toml", str "t.py"],
      [str "-Hco.toml", str "t.py"], [str "-HTrc", str "o.toml", str "t.py"], [str "t.py", str "-rHco.toml"],
      [str "-H", str "--config=o.toml", str "t.py"], [str "-H", str "--conf", str "o.toml", str "t.py"],
      [str "-H", str "--con=o.toml", str "--", str "t.py"], [str "-H=c", str "o.toml", str "t.py"],
      [str "-H", str "-c=o.toml", str "t.py", str "--"]].all fun argv =>
      let out := parseArgumentsX wBoth none (argv.map Text.ofStr) false
      outGet out (str "_follow_imports_level") == some (.int 2) &&
      outGet out (str "pyproject_toml_override") == some (.text (.word (str "o.toml"))) &&
      outGet out (str "collapse_home") == some (.bool true)) = true := by
  decide +kernel

/-- Corners of the tokeniser: an attached value may look like an option, a detached one may not;
explicit arguments to flags, unknown cluster letters, ambiguous prefixes and a misplaced `--` are
command-line errors (raised in the FIRST pass). -/
theorem C20_witness_tokeniser_corners :
    outGet (parseArgumentsX w0 none ([str "--exclude=-x", str "-x-y", str "t.py"].map Text.ofStr) false)
        (str "_excluded_names") = some (.texts [.word (str "-x"), .word (str "-y")]) ∧
    parseArgumentsX w0 none ([str "--exclude", str "-x", str "t.py"].map Text.ofStr) false
      = .cliError (.expectedOneArgument (str "_excluded_names")) ∧
    parseArgumentsX w0 none ([str "--strict=1", str "t.py"].map Text.ofStr) false
      = .cliError (.ignoredExplicitArgument (str "is_strict")) ∧
    parseArgumentsX w0 none ([str "-Hz", str "t.py"].map Text.ofStr) false
      = .cliError (.ignoredExplicitArgument (str "collapse_home")) ∧
    parseArgumentsX w0 none ([str "--c", str "o.toml", str "t.py"].map Text.ofStr) false
      = .cliError .ambiguousOption ∧
    parseArgumentsX w0 none ([str "--", str "-H", str "t.py"].map Text.ofStr) false
      = .cliError .unrecognized ∧
    parseArgumentsX w0 none ([str "-x", str "--", str "a", str "t.py"].map Text.ofStr) false
      = .cliError (.expectedOneArgument (str "_excluded_names")) ∧
    parseArgumentsX w0 none ([str "--"].map Text.ofStr) false = .cliError .required ∧
    outGet (parseArgumentsX w0 none ([str "--threshold=-5", str "--", str "t.py"].map Text.ofStr) false)
        (str "threshold") = some (.int (-5)) := by
  decide +kernel

/-! ### Tie A: what the model hard-codes about the tables is what the source says now -/

/-- The model's tables are the regenerated ones. -/
theorem tieA_option_tables :
    cliParser = Generated.C20.cliActions.map ofRaw ∧ tomlParser = Generated.C20.tomlActions.map ofRaw :=
  ⟨rfl, rfl⟩

/-- Every action of both parsers is of a modelled kind with a modelled type (nothing fell into
`unsupported`), and every common option is also a command-line option with the same definition. -/
theorem tieA_actions_supported :
    (cliParser ++ tomlParser).all (fun o => o.action != .unsupported && o.vtype != .unsupported) = true ∧
    tomlParser.all (fun o => cliParser.contains o) = true := by
  decide +kernel

/-- `-5` is an argument, not an option: no option string looks like a negative number; '-' is the
only prefix character. -/
theorem tieA_negative_numbers :
    Generated.C20.negativeNumberLikeFlags = [] ∧ Generated.C20.prefixChars = ["-", "-"] := by
  decide

/-- Mutual exclusion is modelled with `≠` for `is not`: the grouped options are `store_true`
(value `[]` vs default `False`) or int-typed with a small-int default. -/
theorem tieA_mutex_groups :
    (cliParser ++ tomlParser).all (fun o => o.mutex.isNone || o.action == .storeTrue ||
      (o.vtype == .int && o.default == .int 0)) = true := by
  decide +kernel

/-- TOML type map: every key has a known `TomlArgumentType`, translates (through the name map) to a
flag of the TOML parser, and its type fits the action (flag ↔ store_true, list ↔ append,
int ↔ store/int, string ↔ store/str-or-enum). -/
theorem tieA_toml_type_map :
    tomlTypeMap.all (fun (k, ty) =>
      match findFlag tomlParser (argName tomlNameMap k) with
      | none => false
      | some o =>
        match ty with
        | .flag => o.action == .storeTrue
        | .listOfStrings => o.action == .append
        | .int => o.action == .store && o.vtype == .int
        | .string => o.action == .store && (o.vtype == .str || (match o.vtype with | .enum _ => true | _ => false))
        | .unknown => false) = true := by
  decide +kernel

/-- `TomlArgumentType.is_valid` as evaluated on the live enum agrees with the model on every probe
(in particular: `int` rejects booleans, `flag` rejects 0/1, lists must be all-str). -/
theorem tieA_is_valid_probes :
    Generated.C20.isValidProbes.all (fun (ty, probe, verdict) =>
      match probeVal probe with
      | some v => (tomlTypeOfRaw ty).isValid v == verdict
      | none => false) = true := by
  decide +kernel

/-- TOML name map: as regenerated; every renamed key is a key of the type map. -/
theorem tieA_toml_name_map :
    tomlNameMap = Generated.C20.tomlNameMap.map (fun (k, v) => (str k, str v)) ∧
    tomlNameMap.all (fun (k, _) => Dict.contains tomlTypeMap k) = true := by
  refine ⟨rfl, ?_⟩
  decide +kernel

/-- What the tokeniser model assumes of both parsers: abbreviations allowed, no `@file` arguments,
the help action's option strings as regenerated, no two actions share an option string, exactly
one positional on the command-line parser and none on the TOML parser. -/
theorem tieA_tokeniser :
    Generated.C20.allowAbbrev = [true, true] ∧ Generated.C20.noFromFile = true ∧
    cliParserH = cliParser ++ [helpOpt (Generated.C20.cliHelpFlags.map str)] ∧
    tomlParserH = tomlParser ++ [helpOpt (Generated.C20.tomlHelpFlags.map str)] ∧
    (allFlags cliParserH).Nodup ∧ (allFlags tomlParserH).Nodup ∧
    hasNegLikeFlags cliParserH = false ∧ hasNegLikeFlags tomlParserH = false ∧
    (cliParser.filter fun o => o.flags.isEmpty).length = 1 ∧
    (tomlParser.filter fun o => o.flags.isEmpty).length = 0 := by
  decide +kernel

end Rattr.C20

import RattrModel.FnAnalyser
namespace Rattr.C08
theorem placeholder : True := trivial
end Rattr.C08

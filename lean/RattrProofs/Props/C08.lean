/-
  C08 — calls resolve to the callee that Python's scoping rules would pick.

  Model: `Context.getCallTarget` (the decision ladder of `Context.get_call_target`), `Context.add`
  / `FnA.addArguments` (since fix 87aba71 parameters are registered with `is_argument=True`) /
  `FnA.addIdentifiers` (targets: still a PLAIN add) — RattrModel/Context.lean,
  RattrModel/FnAnalyser.lean.  Everything here is about pure functions, for all contexts.

  In all statements `nameOf callee` is the name the ladder works with:
  `callee` without trailing `()` and without `*`.

  Holds (all contexts, all names):
    `C08_literal_never_resolves`, `C08_subscript_never_resolves`, `C08_method_on_non_import`,
    `C08_undefined_none`, `C08_bare_name_resolves_to_innermost` (+ `…_innermost_scope_wins`),
    `C08_module_member_only_if_module_exists`, `C08_warn_flag_irrelevant`;
    parameters (function / lambda / nested def) shadow: `C08_params_shadow`,
    `C08_call_through_param` (the call resolves to the non-callable parameter symbol and is
    diagnosed `call-procedural`: reported, never inlined), `C08_param_clause_holds`.
    dotted calls through a parameter — `import a.b` (stored under the key `a.b`) + parameter `a` +
    `a.b.f(x)`: `C08_dotted_call_through_param`, `C08_dotted_call_through_outer_param` (any nesting
    depth), `C08_unaliased_dotted_import_not_resolved`, TEST `C08_test_dotted_import_param`;
    across modules (RattrModel/CrossResolve.lean = `__resolve_target_and_ir`, `__is_defined_in`,
    `__resolve_real_class_target`; hypotheses = `Cross.WF`, established by the executable
    `Cross.wfCheck` which the harness evaluates on every real environment):
    `C08_cross_callee_from_defining_file`, `C08_cross_function_from_own_module`,
    `C08_cross_class_from_own_module`, `C08_cross_class_same_name`, `C08_cross_target_lookup_total`,
    `C08_cross_full_holds` (+ `…_for_functions`), `C08_cross_class_without_own_key`,
    TEST `C08_test_cross_same_named` (pinned rule vs the rule
    before 2103117 / 8b74e12).
    every parameter KIND / parameter-list SHAPE (round 3): `C08_every_parameter_kind_shadows`,
    `C08_shadows_with_empty_regular_args`, `C08_scope_rebinds_exactly_the_parameters`; the VISITOR:
    `C08_lambda_opens_param_scope`, `C08_nested_def_opens_param_scope` (no case distinction on the
    parameter list), `C08_visit_call_through_bound_param` (the recorded call's target is the
    parameter's Name symbol, all argument lists), `C08_call_through_lambda_param_any_depth`
    (`lambda ps₁: lambda ps₂: …: x(args)`, x a parameter of any kind of any of them),
    `C08_call_through_nested_def_param`, TEST `C08_test_lambda_param_shapes`;
    which FILE is module m (RattrModel/Locator.lean = `find_module_in_path`, against
    `Spec.matchInRoot` = package, then module file), for EVERY file listing:
    `C08_package_beats_module_file`, `C08_module_file_only_without_directory`,
    `C08_locator_answer_is_pythons`, `C08_locator_complete_unless_plain_directory`,
    TEST `C08_test_layouts`;
    round 4 — callees without an IR / redefinition / order: `C08_cross_callee_without_ir_not_expanded`,
    `C08_cross_class_without_ir_not_expanded` (+ `keyAt_mem`, TEST `C08_test_callee_without_ir`);
    `C08_redefinition_last_analysis_stays` (a re-`def` REPLACES the IR: last body),
    `C08_redefinition_of_another_kind_is_dropped`, `C08_second_binding_keeps_first_symbol` (why the
    `redefinition:` findings exist: the context keeps the FIRST binding's symbol);
    `C08_parameter_named_like_plugin_target_has_no_analyser`, TEST `C08_test_parameter_named_sorted`;
  Remaining defects (documented as theorems / counterexamples):
    `C08_sorted_key_scope_binds_only_the_iterator` / `C08_cex_sorted_key_extra_parameter` — the
      `sorted` analyser registers only the key lambda's first regular parameter;
    `C08_cex_plain_directory_in_earlier_root` — a directory without `__init__.py` hides `m.py` in
      its search-path entry (C13 finding), so a LATER entry's `m` becomes the callee;
    `C08_cex_static_method_through_param` — `Holder.sm` is a dotted KEY a parameter cannot shadow;
    (repaired by bb30ccd: `C08_cex_fallback_rule_class_without_init_takes_foreign_init` /
      `C08_cross_full_false_before_bb30ccd` are about the EARLIER rule — a class without `__init__`
      is no IR key, the fallback took the first same-named class of ANY file; for the pinned code
      `C08_cross_full_holds`, TEST `C08_test_class_without_init_not_expanded`)
    `C08_call_on_call_still_returns_target` — `f(p)(q)` is diagnosed yet `f` is returned (and
      later inlined with the OUTER arguments);
    `C08_comprehension_target_does_not_shadow` / `C08_cex_comprehension_target` — a comprehension
      (or for / with / assignment) target named like a module-level function does not shadow it:
      `[f(v) for f in fs]` resolves `f` to the module-level Func and inlines it.
-/
import RattrProofs.Lemmas.VisitCtxBase
import RattrProofs.Lemmas.C08Cross
import RattrProofs.Lemmas.C08Shapes
import RattrModel.Locator
import RattrModel.FileAnalyser
import RattrModel.Spec.ResolveName

namespace Rattr.C08
open Rattr Rattr.Strs Rattr.Context

/-- the name the ladder works with. -/
def nameOf (callee : Str) : Str := removeChar (withoutCallBrackets callee) '*'

/-- first dotted component. -/
def lhsOf (callee : Str) : Str := ((splitDot (nameOf callee)).head?).getD []

def lhsIsImport (c : Context) (lhs : Str) : Bool :=
  match get? c lhs with | some s => s.kind == .import_ | none => false

/-- the target component of the ladder, as a function of the cleaned name only. -/
def ladder (c : Context) (name lhs : Str) : Option Sym :=
  if startsWith name ['@'] then none
  else if containsSub name (lit "[]") then none
  else if name != lhs && (get? c name).isNone && !lhsIsImport c lhs then none
  else if name.contains '.' && (get? c name).isNone then targetInImportedModule c name
  else get? c name

theorem getCallTarget_fst (env : Env) (c : Context) (callee : Str) (coc warn : Bool) :
    (getCallTarget env c callee coc warn).1 = ladder c (nameOf callee) (lhsOf callee) := by
  unfold getCallTarget ladder lhsIsImport lhsOf nameOf
  simp only []
  generalize removeChar (withoutCallBrackets callee) '*' = name
  generalize ((splitDot name).head?).getD [] = lhs
  cases h1 : startsWith name ['@']
  case true => simp
  cases h2 : containsSub name (lit "[]")
  case true => simp
  simp only [Bool.false_eq_true, if_false]
  cases hg : get? c lhs with
  | none =>
    simp only []
    split
    · rfl
    · generalize (if (name.contains '.' && (get? c name).isNone) = true then targetInImportedModule c name
        else get? c name) = tg
      cases tg with
      | none => simp only []; split <;> rfl
      | some t =>
        simp only []
        split
        · rfl
        · split <;> rfl
  | some sy =>
    simp only []
    split
    · rfl
    · generalize (if (name.contains '.' && (get? c name).isNone) = true then targetInImportedModule c name
        else get? c name) = tg
      cases tg with
      | none => simp only []; split <;> rfl
      | some t =>
        simp only []
        split
        · rfl
        · split <;> rfl

/-! ### string facts -/

theorem splitDotAux_no_dot (s cur : Str) (h : '.' ∉ s) : splitDotAux s cur = [cur.reverse ++ s] := by
  induction s generalizing cur with
  | nil => simp [splitDotAux]
  | cons c r ih =>
    simp only [List.mem_cons, not_or] at h
    have hc : ¬ c = '.' := fun e => h.1 e.symm
    simp [splitDotAux, hc, ih (c :: cur) h.2]

theorem splitDot_no_dot (s : Str) (h : '.' ∉ s) : splitDot s = [s] := by
  simp [splitDot, splitDotAux_no_dot s [] h]

theorem lhsOf_bare (callee : Str) (h : '.' ∉ nameOf callee) : lhsOf callee = nameOf callee := by
  simp [lhsOf, splitDot_no_dot _ h]

theorem contains_dot_false {s : Str} (h : '.' ∉ s) : s.contains '.' = false := by
  simpa using h

/-! ### rungs that never resolve -/

/-- a name spelled `@…` (literal / unnameable expression) never resolves. -/
theorem C08_literal_never_resolves (env : Env) (c : Context) (callee : Str) (coc warn : Bool)
    (h : startsWith (nameOf callee) ['@'] = true) :
    (getCallTarget env c callee coc warn).1 = none := by
  rw [getCallTarget_fst]; simp [ladder, h]

/-- a call on a subscript (`a[i]()`, `a[i].m()`) never resolves. -/
theorem C08_subscript_never_resolves (env : Env) (c : Context) (callee : Str) (coc warn : Bool)
    (h : containsSub (nameOf callee) (lit "[]") = true) :
    (getCallTarget env c callee coc warn).1 = none := by
  rw [getCallTarget_fst]; unfold ladder; simp only [h, if_true]; split <;> rfl

/-- a dotted name whose left-most part is not an Import, and which is not itself in the context,
is a method call on some object: never resolved — in particular never to a same-named
module-level function. -/
theorem C08_method_on_non_import (env : Env) (c : Context) (callee : Str) (coc warn : Bool)
    (hdot : nameOf callee ≠ lhsOf callee)
    (hnot : get? c (nameOf callee) = none)
    (hlhs : ∀ s, get? c (lhsOf callee) = some s → s.kind ≠ .import_) :
    (getCallTarget env c callee coc warn).1 = none := by
  rw [getCallTarget_fst]
  have h3 : lhsIsImport c (lhsOf callee) = false := by
    unfold lhsIsImport
    split
    · rename_i s hs; simpa using hlhs s hs
    · rfl
  have h1 : (nameOf callee != lhsOf callee) = true := by simpa using hdot
  unfold ladder
  simp only [h1, hnot, h3]
  simp

/-- a name that is nowhere in the context (and, if dotted, is no member of an existing imported
module) yields no target. -/
theorem C08_undefined_none (env : Env) (c : Context) (callee : Str) (coc warn : Bool)
    (hnot : get? c (nameOf callee) = none)
    (hmod : (nameOf callee).contains '.' = true → targetInImportedModule c (nameOf callee) = none) :
    (getCallTarget env c callee coc warn).1 = none := by
  rw [getCallTarget_fst]
  unfold ladder
  simp only [hnot, Option.isNone_none, Bool.and_true]
  cases hd : (nameOf callee).contains '.' with
  | true => simp [hmod hd]
  | false => simp

/-! ### bare names: the scope chain decides, innermost first -/

/-- for a bare name (no dot, no `[]`, no `@`) the target is exactly what the scope chain says. -/
theorem C08_bare_name_resolves_to_innermost (env : Env) (c : Context) (callee : Str) (coc warn : Bool)
    (hat : startsWith (nameOf callee) ['@'] = false)
    (hsub : containsSub (nameOf callee) (lit "[]") = false)
    (hdot : '.' ∉ nameOf callee) :
    (getCallTarget env c callee coc warn).1 = get? c (nameOf callee) := by
  rw [getCallTarget_fst, lhsOf_bare callee hdot]
  simp [ladder, hat, hsub, hdot]

/-- … and the chain is searched innermost scope first. -/
theorem C08_innermost_scope_wins (env : Env) (sc : Scope) (r : Context) (callee : Str) (coc warn : Bool)
    (s : Sym)
    (hat : startsWith (nameOf callee) ['@'] = false)
    (hsub : containsSub (nameOf callee) (lit "[]") = false)
    (hdot : '.' ∉ nameOf callee)
    (hin : Dict.get? sc (nameOf callee) = some s) :
    (getCallTarget env (sc :: r) callee coc warn).1 = some s := by
  rw [C08_bare_name_resolves_to_innermost env _ callee coc warn hat hsub hdot]
  exact get?_innermost sc r _ s hin

/-- the `warn` flag only affects diagnostics, never the target. -/
theorem C08_warn_flag_irrelevant (env : Env) (c : Context) (callee : Str) (coc : Bool) :
    (getCallTarget env c callee coc true).1 = (getCallTarget env c callee coc false).1 := by
  rw [getCallTarget_fst, getCallTarget_fst]

/-! ### members of imported modules -/

theorem firstSome_some {α β : Type} (f : α → Option β) (l : List α) (b : β)
    (h : firstSome f l = some b) : ∃ a ∈ l, f a = some b := by
  induction l with
  | nil => simp [firstSome] at h
  | cons a r ih =>
    simp only [firstSome] at h
    cases hf : f a with
    | some b' =>
      simp only [hf] at h
      exact ⟨a, List.mem_cons_self, by rw [hf, h]⟩
    | none =>
      simp only [hf] at h
      obtain ⟨x, hx, hfx⟩ := ih h
      exact ⟨x, List.mem_cons_of_mem _ hx, hfx⟩

/-- `m.f` is synthesised as a member of an imported module only if some dotted prefix of the name
(the name itself included) resolves to an Import symbol whose module exists. -/
theorem C08_module_member_only_if_module_exists (c : Context) (name : Str) (t : Sym)
    (h : targetInImportedModule c name = some t) :
    ∃ p ∈ namesRight name, ∃ m, get? c p = some m ∧ m.kind = .import_ ∧ m.modExists = true ∧
      t.kind = .import_ ∧ t.qual = m.qual ++ '.' :: t.name := by
  unfold targetInImportedModule at h
  split at h
  · cases h
  · rename_i m hm
    obtain ⟨p, hp, hpm⟩ := firstSome_some _ _ _ hm
    by_cases hk : m.kind = .import_
    · cases hme : m.modExists with
      | false => simp [hk, hme] at h
      | true =>
        simp only [hk, hme] at h
        simp only [bne_self_eq_false, Bool.false_eq_true, if_false, Bool.not_true,
          Option.some.injEq] at h
        subst h
        exact ⟨p, hp, m, hpm, hk, hme, rfl, rfl⟩
    · have : (m.kind != SymKind.import_) = true := by simpa using hk
      simp [this] at h

/-! ### defect: a call on a call result is diagnosed but still resolved -/

/-- `f(p)(q)`: the culprit is a call on a call result; the ladder emits `call-on-call` ("unable to
resolve") and nevertheless RETURNS the target of `f` — for every bare name bound in the context. -/
theorem C08_call_on_call_still_returns_target (env : Env) (c : Context) (callee : Str) (t : Sym)
    (hat : startsWith (nameOf callee) ['@'] = false)
    (hsub : containsSub (nameOf callee) (lit "[]") = false)
    (hdot : '.' ∉ nameOf callee)
    (hb : get? c (nameOf callee) = some t) :
    getCallTarget env c callee true true =
      (some t, [mkDiag .error "call-on-call" (withCallBrackets callee)]) := by
  have hl := lhsOf_bare callee hdot
  have hd := contains_dot_false hdot
  unfold nameOf lhsOf at *
  unfold getCallTarget
  simp only [hat, hsub, hd, hb]
  simp

def env0 : Env := ⟨[], []⟩
def fSym : Sym := { kind := .func, name := "f".toList, callable := true,
                    iface := some ⟨[], ["x".toList], none, [], none⟩ }
def helperSym : Sym := { kind := .func, name := "helper".toList, callable := true,
                         iface := some ⟨[], ["x".toList], none, [], none⟩ }

/-- concrete instance: root context has Func `f`; the callee spelling of `f(p)(q)` is `f()()`. -/
theorem C08_cex_call_on_call :
    getCallTarget env0 [[], [("f".toList, fSym)]] "f()()".toList true true =
      (some fSym, [mkDiag .error "call-on-call" "f()()".toList]) := by decide

/-! ### parameters shadow outer names (fix 87aba71) -/

/-- after `add_arguments_to_context` in the function's / lambda's own scope, every parameter name
resolves to the parameter's `Name` symbol — whatever the outer context holds under that name. -/
theorem C08_params_shadow (s : St) (ps : Params) (x : Str) (hx : x ∈ ps.all) :
    get? (FnA.addArguments { s with ctx := push s.ctx } ps).ctx x = some (nameSym x) :=
  FnA.addArguments_shadows _ ps x hx

/-- names that are not parameters resolve exactly as outside. -/
theorem C08_non_params_unchanged (s : St) (ps : Params) (x : Str) (hx : x ∉ ps.all) :
    get? (FnA.addArguments { s with ctx := push s.ctx } ps).ctx x = get? s.ctx x := by
  rw [FnA.addArguments_other _ ps x hx]; simp

theorem declares_add_arg (c : Context) (s : Sym) : declares (add c s true) s.name = true := by
  cases c with
  | nil => simp [add, declares, Dict.contains, Dict.get?]
  | cons sc r => simp [add, declares, Dict.contains_set_self]

theorem declares_add_arg_other (c : Context) (s : Sym) (x : Str) (h : s.name ≠ x) :
    declares (add c s true) x = declares c x := by
  cases c with
  | nil => simp [add, declares, Dict.contains, Dict.get?, h]
  | cons sc r => simp [add, declares, Dict.contains_set_other sc s.name x s h]

/-- the parameters are declared in the innermost scope (what makes the diagnostic
"likely a procedural parameter"). -/
theorem declares_addArgNames (c : Context) (names : List Str) (x : Str) (hx : x ∈ names) :
    declares (addArgNames c names) x = true := by
  induction names generalizing c with
  | nil => cases hx
  | cons n r ih =>
    rw [addArgNames_cons]
    by_cases hr : x ∈ r
    · exact ih _ hr
    · have hn : x = n := by
        rcases List.mem_cons.mp hx with h | h
        · exact h
        · exact absurd h hr
      subst hn
      have : ∀ (l : List Str) (c : Context), x ∉ l → declares (addArgNames c l) x = declares c x := by
        intro l
        induction l with
        | nil => intro c _; rfl
        | cons m l ihl =>
          intro c hm
          simp only [List.mem_cons, not_or] at hm
          rw [addArgNames_cons, ihl _ hm.2]
          exact declares_add_arg_other c (nameSym m) x (fun e => hm.1 e.symm)
      rw [this r _ hr]
      exact declares_add_arg c (nameSym x)

/-- a bare call through a parameter: the target is the parameter's own `Name` symbol (not callable,
so nothing can be inlined from it) and the call is diagnosed `call-procedural`; no module-level
definition of the same name is ever returned. -/
theorem C08_call_through_param (env : Env) (s : St) (ps : Params) (callee : Str)
    (hat : startsWith (nameOf callee) ['@'] = false)
    (hsub : containsSub (nameOf callee) (lit "[]") = false)
    (hdot : '.' ∉ nameOf callee)
    (hp : nameOf callee ∈ ps.all) :
    getCallTarget env (FnA.addArguments { s with ctx := push s.ctx } ps).ctx callee false true =
      (some (nameSym (nameOf callee)), [mkDiag .error "call-procedural" (withCallBrackets callee)]) := by
  have hb := C08_params_shadow s ps _ hp
  have hdecl : declares (FnA.addArguments { s with ctx := push s.ctx } ps).ctx (nameOf callee) = true := by
    rw [FnA.addArguments_ctx]; exact declares_addArgNames _ _ _ hp
  have hl := lhsOf_bare callee hdot
  have hd := contains_dot_false hdot
  unfold nameOf lhsOf at *
  unfold getCallTarget
  simp only [hat, hsub, hd, hb]
  simp [nameSym, hdecl]

/-- whatever the flags, the TARGET of a bare call through a parameter is the parameter symbol. -/
theorem C08_call_through_param_target (env : Env) (s : St) (ps : Params) (callee : Str)
    (coc warn : Bool)
    (hat : startsWith (nameOf callee) ['@'] = false)
    (hsub : containsSub (nameOf callee) (lit "[]") = false)
    (hdot : '.' ∉ nameOf callee)
    (hp : nameOf callee ∈ ps.all) :
    (getCallTarget env (FnA.addArguments { s with ctx := push s.ctx } ps).ctx callee coc warn).1
      = some (nameSym (nameOf callee)) := by
  rw [C08_bare_name_resolves_to_innermost env _ callee coc warn hat hsub hdot,
    C08_params_shadow s ps _ hp]

/-- TEST (the former defect witness, now repaired): root context has Func `helper`; inside a
function with a parameter `helper` the name is the parameter, and `helper()` is diagnosed. -/
theorem C08_test_param_shadows_function :
    let root : Context := [[("helper".toList, helperSym)]]
    let ps : Params := ⟨[], ["helper".toList], none, [], none⟩
    let ctx := (FnA.addArguments { ctx := push root } ps).ctx
    get? ctx "helper".toList = some (nameSym "helper".toList) ∧
    getCallTarget env0 ctx "helper()".toList false true =
      (some (nameSym "helper".toList), [mkDiag .error "call-procedural" "helper()".toList]) ∧
    (nameSym "helper".toList).kind = .name ∧ (nameSym "helper".toList).callable = false := by decide

/-! ### defect: comprehension / loop / assignment targets do not shadow -/

/-- targets are registered by `add_identifiers_to_context` with a PLAIN add: a target whose name is
visible outside (e.g. a module-level function) keeps resolving to the OUTER symbol, even in the
comprehension's own fresh scope. -/
theorem C08_comprehension_target_does_not_shadow (s s' : St) (t : Node) (x : Str)
    (h : Context.contains s.ctx x = true)
    (ha : FnA.addIdentifiers { s with ctx := push s.ctx } t = .ok s') :
    get? s'.ctx x = get? s.ctx x := by
  unfold FnA.addIdentifiers at ha
  split at ha
  · injection ha with ha
    subst ha
    show get? (addNames (push s.ctx) _) x = _
    rw [get?_addNames_visible _ _ x (by simpa using h)]
    simp
  · cases ha
  · cases ha

/-- hence a bare call through such a target resolves to the outer symbol (and is inlined from it
when that is a function / class). -/
theorem C08_call_through_target_resolves_outer (env : Env) (s s' : St) (t : Node) (callee : Str)
    (coc warn : Bool)
    (hat : startsWith (nameOf callee) ['@'] = false)
    (hsub : containsSub (nameOf callee) (lit "[]") = false)
    (hdot : '.' ∉ nameOf callee)
    (h : Context.contains s.ctx (nameOf callee) = true)
    (ha : FnA.addIdentifiers { s with ctx := push s.ctx } t = .ok s') :
    (getCallTarget env s'.ctx callee coc warn).1 = get? s.ctx (nameOf callee) := by
  rw [C08_bare_name_resolves_to_innermost env _ callee coc warn hat hsub hdot,
    C08_comprehension_target_does_not_shadow s s' t _ h ha]

def fenv0 : FnA.Env := ⟨env0, []⟩

/-- the defect end to end (kernel evaluation of `FnA.analyse`): module-level Func `f`;
`def w(fs, v): [f(v) for f in fs]` — the recorded call `f(v)` carries the module-level `f` as its
target, so `f`'s body is inlined although `f` is the comprehension's loop variable. -/
theorem C08_cex_comprehension_target :
    (match FnA.analyse fenv0 [] [[("f".toList, fSym)]] ⟨[], ["fs".toList, "v".toList], none, [], none⟩
        [.comp "ListComp".toList
          [.call (.name "f".toList .load) [.name "v".toList .load] [] []]
          [.gen (.name "f".toList .store) (.name "fs".toList .load) []]] with
     | .ok s => s.calls.map (fun c => (c.name, c.args, c.target))
     | _ => []) = [("f".toList, ["v".toList], some fSym)] := by decide +kernel

/-! ### full statement (single-context form) and its refutation -/

/-- a call through a parameter of the calling function / an enclosing lambda never resolves to
anything but the parameter. -/
def C08_param_clause : Prop :=
  ∀ (env : Env) (root : Context) (ps : Params) (callee : Str) (t : Sym),
    nameOf callee ∈ ps.all →
    (getCallTarget env (FnA.addArguments { ctx := push root } ps).ctx callee false true).1 = some t →
    t.kind = .name

/-- a call through a comprehension / loop target never resolves to a module-level definition. -/
def C08_target_clause : Prop :=
  ∀ (env : Env) (c : Context) (tgt : Node) (names : List Str) (callee : Str) (s' : St) (t : Sym),
    FnA.unravelNames tgt = .ok names → nameOf callee ∈ names →
    FnA.addIdentifiers { ctx := push c } tgt = .ok s' →
    (getCallTarget env s'.ctx callee false true).1 = some t → t.kind = .name

def C08_call_on_call_clause : Prop :=
  ∀ (env : Env) (c : Context) (callee : Str), (getCallTarget env c callee true true).1 = none

/-- the property over this model: a call through a parameter or a local target never resolves to a
module-level definition, and a call on a call result resolves to nothing. -/
def C08_full : Prop := C08_param_clause ∧ C08_target_clause ∧ C08_call_on_call_clause

/-- the parameter clause HOLDS since fix 87aba71 — for every spelling of the callee, not only bare
names: whenever the cleaned name is a parameter name, the ladder answers nothing or the parameter. -/
theorem C08_param_clause_holds : C08_param_clause := by
  intro env root ps callee t hp h
  have hb : get? (FnA.addArguments { ctx := push root } ps).ctx (nameOf callee)
      = some (nameSym (nameOf callee)) := FnA.addArguments_shadows _ ps _ hp
  rw [getCallTarget_fst] at h
  unfold ladder at h
  simp only [hb, Option.isNone_some, Bool.and_false, Bool.false_and, Bool.false_eq_true, if_false] at h
  split at h
  · cases h
  · split at h
    · cases h
    · injection h with h; subst h; rfl

theorem C08_target_clause_false : ¬ C08_target_clause := by
  intro h
  have := h env0 [[("f".toList, fSym)]] (.name "f".toList .store) ["f".toList] "f()".toList
    { ctx := [[], [("f".toList, fSym)]] } fSym (by rfl) (by decide) (by rfl) (by decide)
  revert this; decide

theorem C08_call_on_call_clause_false : ¬ C08_call_on_call_clause := by
  intro h
  have := h env0 [[], [("f".toList, fSym)]] "f()()".toList
  revert this; decide

theorem C08_full_false : ¬ C08_full := fun h => C08_target_clause_false h.2.1

/-! ### dotted calls through a parameter: `a.b.f(x)` with `import a.b` and a parameter `a` -/

/-- `import a.b` stores the symbol under the DOTTED key `a.b`; a parameter `a` shadows the key `a`
only.  Whatever dotted keys the outer context holds, a dotted call whose FIRST component is a
parameter of the calling function / lambda / nested def and whose full spelling is not itself bound
is a method call on an object: it has no target, so nothing can be inlined. -/
theorem C08_dotted_call_through_param (env : Env) (s : St) (ps : Params) (callee : Str)
    (coc warn : Bool)
    (hdot : nameOf callee ≠ lhsOf callee)
    (hp : lhsOf callee ∈ ps.all)
    (hn : nameOf callee ∉ ps.all)
    (hnot : get? s.ctx (nameOf callee) = none) :
    (getCallTarget env (FnA.addArguments { s with ctx := push s.ctx } ps).ctx callee coc warn).1 = none := by
  apply C08_method_on_non_import env _ callee coc warn hdot
  · rw [C08_non_params_unchanged s ps _ hn]; exact hnot
  · intro t ht
    rw [C08_params_shadow s ps _ hp] at ht
    injection ht with ht
    subst ht
    simp [nameSym]

/-- … at any nesting depth: a parameter of an ENCLOSING function / lambda keeps shadowing inside
the scopes of inner lambdas / nested defs, whatever their own parameters are. -/
theorem C08_dotted_call_through_outer_param (env : Env) (s : St) (ps ps2 : Params) (callee : Str)
    (coc warn : Bool)
    (hdot : nameOf callee ≠ lhsOf callee)
    (hp : lhsOf callee ∈ ps.all)
    (hn : nameOf callee ∉ ps.all) (hn2 : nameOf callee ∉ ps2.all)
    (hnot : get? s.ctx (nameOf callee) = none) :
    let inner := FnA.addArguments { s with ctx := push s.ctx } ps
    (getCallTarget env (FnA.addArguments { inner with ctx := push inner.ctx } ps2).ctx callee coc warn).1
      = none := by
  intro inner
  apply C08_method_on_non_import env _ callee coc warn hdot
  · rw [C08_non_params_unchanged inner ps2 _ hn2, C08_non_params_unchanged s ps _ hn]; exact hnot
  · intro t ht
    by_cases h2 : lhsOf callee ∈ ps2.all
    · rw [C08_params_shadow inner ps2 _ h2] at ht
      injection ht with ht; subst ht; simp [nameSym]
    · rw [C08_non_params_unchanged inner ps2 _ h2, C08_params_shadow s ps _ hp] at ht
      injection ht with ht; subst ht; simp [nameSym]

/-- the un-aliased dotted import on its own: `import a.b` binds the key `a.b`, NOT `a`; with
nothing bound under the first component (and the full spelling unbound) the ladder classes
`a.b.f()` as a method call — it is never resolved, shadowed or not (the C06 finding family; for C08
it means the "only when m is an imported module" direction holds trivially for this spelling). -/
theorem C08_unaliased_dotted_import_not_resolved (env : Env) (c : Context) (callee : Str)
    (coc warn : Bool)
    (hdot : nameOf callee ≠ lhsOf callee)
    (hnot : get? c (nameOf callee) = none)
    (hlhs : get? c (lhsOf callee) = none) :
    (getCallTarget env c callee coc warn).1 = none :=
  C08_method_on_non_import env c callee coc warn hdot hnot (by intro s hs; rw [hlhs] at hs; cases hs)

def pkSubSym : Sym := { kind := .import_, name := "pk.sub".toList, callable := true,
                        qual := "pk.sub".toList, modExists := true }

/-- TEST (the seeded change C08-m5 flips this): root context of `import pk.sub`; inside
`def run(pk, event)` the call `pk.sub.dfn(event)` has no target and is diagnosed "target is a
method"; `import pk.sub as ps` + parameter `ps` likewise. -/
theorem C08_test_dotted_import_param :
    let root : Context := [[("pk.sub".toList, pkSubSym),
                            ("ps".toList, { pkSubSym with name := "ps".toList })]]
    let ps : Params := ⟨[], ["pk".toList, "ps".toList, "event".toList], none, [], none⟩
    let ctx := (FnA.addArguments { ctx := push root } ps).ctx
    getCallTarget env0 ctx "pk.sub.dfn()".toList false true =
      (none, [mkDiag .info "call-method" "pk.sub.dfn()".toList]) ∧
    getCallTarget env0 ctx "ps.dfn()".toList false true =
      (none, [mkDiag .info "call-method" "ps.dfn()".toList]) ∧
    -- unshadowed: the alias resolves to a member of the module, the un-aliased spelling does not
    (getCallTarget env0 root "ps.dfn()".toList false true).1 =
      some { kind := .import_, name := "dfn".toList, callable := true, qual := "pk.sub.dfn".toList } ∧
    (getCallTarget env0 root "pk.sub.dfn()".toList false true).1 = none := by decide

/-- defect (known finding `…function-parameter:dotted-static-method`): a static method is
registered under the DOTTED key `Holder.sm`, which a parameter `Holder` cannot shadow — this is why
`C08_dotted_call_through_param` needs the full spelling to be unbound. -/
theorem C08_cex_static_method_through_param :
    let smSym : Sym := { kind := .func, name := "Holder.sm".toList, callable := true,
                         iface := some ⟨[], ["z".toList], none, [], none⟩ }
    let root : Context := [[("Holder.sm".toList, smSym)]]
    let ps : Params := ⟨[], ["Holder".toList, "v".toList], none, [], none⟩
    (getCallTarget env0 (FnA.addArguments { ctx := push root } ps).ctx "Holder.sm()".toList false true).1
      = some smSym := by decide

/-! ### across modules: which file's function / class a call is expanded from

`Cross.resolve` = `__resolve_target_and_ir` with followed imports.  The call's target symbol `t` is
what `get_call_target` found in the CALLING function's own file context, so `t.file` is the file of
the module global that Python's scoping rules pick; the property demands that the body which is
inlined is that very definition — never a same-named symbol of another file. -/

open Rattr.Cross in
/-- whatever is expanded is `==` to the looked-up symbol and located IN THE SAME FILE
(since fix 2103117 the target file's IR is consulted only for symbols of the target file). -/
theorem C08_cross_callee_from_defining_file (env : Cross.Env) (hwf : WF env) (t k : FSym)
    (h : expandedFrom env t = some k) :
    k.key = (realSym env t).key ∧ k.file = (realSym env t).file := by
  unfold expandedFrom at h
  split at h
  · rename_i l i hr
    obtain ⟨k', hk', hkey, hfile⟩ := resolve_found env hwf t l i hr
    rw [hk'] at h; injection h with h; subst h
    exact ⟨hkey, hfile⟩
  · cases h

open Rattr.Cross in
/-- functions, lambdas, static methods (`Func` targets): the body inlined for a bare call made in
module M is M's own definition — same name, same interface, same file — whatever same-named (even
`==`-equal) functions the target file or other followed imports define. -/
theorem C08_cross_function_from_own_module (env : Cross.Env) (hwf : WF env) (t k : FSym)
    (hk : t.kind ≠ .cls) (h : expandedFrom env t = some k) :
    k.kind = t.kind ∧ k.name = t.name ∧ k.iface = t.iface ∧ k.file = t.file := by
  have := C08_cross_callee_from_defining_file env hwf t k h
  simp only [realSym, hk, if_false] at this
  obtain ⟨hkey, hfile⟩ := this
  simp only [FSym.key, Prod.mk.injEq] at hkey
  exact ⟨hkey.1, hkey.2.1, hkey.2.2, hfile⟩

open Rattr.Cross in
/-- classes (fixes 8b74e12, bb30ccd): the initialiser that is inlined belongs to a class of the
call target's NAME located in the CALLING file — never a same-named class of the target file or of
another import (no hypothesis on which classes have an `__init__` is needed any more). -/
theorem C08_cross_class_from_own_module (env : Cross.Env) (hwf : WF env) (t k : FSym)
    (hk : t.kind = .cls) (h : expandedFrom env t = some k) :
    k.kind = .cls ∧ k.name = t.name ∧ k.file = t.file := by
  have := C08_cross_callee_from_defining_file env hwf t k h
  simp only [realSym, hk, if_true] at this
  obtain ⟨hkey, hfile⟩ := this
  have hf := realClass_file env t
  have hc : (realClass env t).kind = .cls ∧ (realClass env t).name = t.name := by
    rcases realClass_eq env t with he | hm
    · rw [he]; exact ⟨hk, rfl⟩
    · exact candidates_spec hm
  simp only [FSym.key, Prod.mk.injEq] at hkey
  exact ⟨hkey.1.trans hc.1, hkey.2.1.trans hc.2, hfile.trans hf⟩

open Rattr.Cross in
/-- a class whose own file holds no IR key of that name (it has no `__init__`) is looked up as
itself; being no key of any IR, its call is not expanded from another file's class. -/
theorem C08_cross_class_without_own_key (env : Cross.Env) (t : FSym)
    (h : ∀ c ∈ candidates env t, c.file ≠ t.file) : realClass env t = t :=
  realClass_of_no_own env t h

open Rattr.Cross in
/-- the class that is looked up always has the call target's name (classes are matched by NAME;
the interface may differ because the class analyser re-registers the class). -/
theorem C08_cross_class_same_name (env : Cross.Env) (t : FSym) (hk : t.kind = .cls) :
    (realClass env t).kind = .cls ∧ (realClass env t).name = t.name := by
  rcases realClass_eq env t with he | hm
  · rw [he]; exact ⟨hk, rfl⟩
  · exact candidates_spec hm

open Rattr.Cross in
/-- `target_ir[symbol]` after `__is_defined_in(symbol, target_ir)` cannot raise `KeyError`: the
model's `importError` in that branch is unreachable. -/
theorem C08_cross_target_lookup_total (ir : FIr) (s : FSym) (h : isDefinedIn s ir = true) :
    (lookupIdx ir s).isSome = true := lookupIdx_of_isDefinedIn h

section CrossCex
open Rattr.Cross

def ifA : Option (Iface Str) := some ⟨[], ["a".toList], none, [], none⟩
def ifSelfA : Option (Iface Str) := some ⟨[], ["self".toList, "a".toList], none, [], none⟩
def tgtFile : Str := "target.py".toList
def impFile : Str := "imp1.py".toList

/-- target.py: `def util(a)`, `class K` with `__init__(self, a)`, `def t(a)`;
imp1.py: `def util(a)`, `class K` with `__init__(self, a)`, `class J` WITHOUT `__init__` (no IR),
`def use(a)`. -/
def envSame : Cross.Env :=
  { target := [⟨.func, "util".toList, ifA, tgtFile⟩, ⟨.cls, "K".toList, ifSelfA, tgtFile⟩,
               ⟨.cls, "J".toList, ifSelfA, tgtFile⟩, ⟨.func, "t".toList, ifA, tgtFile⟩],
    imports := [("imp1".toList, [⟨.func, "util".toList, ifA, impFile⟩, ⟨.cls, "K".toList, ifSelfA, impFile⟩,
                                 ⟨.func, "use".toList, ifA, impFile⟩])],
    moduleOf := [(tgtFile, "target".toList), (impFile, "imp1".toList)] }

/-- TEST of the repaired rule against the rule before 2103117 / 8b74e12: a call made inside imp1 to
imp1's own `util(a)` / `K(a)` — the old rule answers with the TARGET file's `util` / `K` (key 0 / 1
of the target IR), the pinned rule with imp1's. -/
theorem C08_test_cross_same_named :
    resolveOld envSame ⟨.func, "util".toList, ifA, impFile⟩ = .found .target 0 ∧
    resolve envSame ⟨.func, "util".toList, ifA, impFile⟩ = .found (.import_ "imp1".toList) 0 ∧
    resolveOld envSame ⟨.cls, "K".toList, none, impFile⟩ = .found .target 1 ∧
    resolve envSame ⟨.cls, "K".toList, none, impFile⟩ = .found (.import_ "imp1".toList) 1 ∧
    -- and the target's own calls stay with the target
    resolve envSame ⟨.func, "util".toList, ifA, tgtFile⟩ = .found .target 0 ∧
    resolve envSame ⟨.cls, "K".toList, none, tgtFile⟩ = .found .target 1 := by decide

/-- TEST (the former defect witness, repaired by bb30ccd): imp1's `class J` has no `__init__`, so
it is no key of imp1's IR; the call `J(a)` made inside imp1 is now NOT expanded at all (`ImportError`
→ "unable to resolve initialiser") … -/
theorem C08_test_class_without_init_not_expanded :
    resolve envSame ⟨.cls, "J".toList, none, impFile⟩ = .importError ∧
    expandedFrom envSame ⟨.cls, "J".toList, none, impFile⟩ = none := by
  decide

/-- … whereas the rule of 8b74e12 … 6f46129 fell back to the FIRST class named `J` of any file —
the target's — and inlined the target's `J.__init__` into imp1's function. -/
theorem C08_cex_fallback_rule_class_without_init_takes_foreign_init :
    resolveFallback envSame ⟨.cls, "J".toList, none, impFile⟩ = .found .target 2 ∧
    expandedFromFallback envSame ⟨.cls, "J".toList, none, impFile⟩
      = some ⟨.cls, "J".toList, ifSelfA, tgtFile⟩ := by
  decide

theorem envSame_wf : WF envSame := WF_of_wfCheck (by decide)

/-- the cross-module clause of the property: in a well-formed environment every call is expanded
from a definition located in the file of the call's own target symbol. -/
def C08_cross_full : Prop :=
  ∀ (env : Cross.Env) (t k : FSym), WF env → expandedFrom env t = some k → k.file = t.file

/-- it HOLDS for the pinned code (since bb30ccd), for functions, lambdas, static methods and classes. -/
theorem C08_cross_full_holds : C08_cross_full := by
  intro env t k hwf h
  by_cases hk : t.kind = .cls
  · exact (C08_cross_class_from_own_module env hwf t k hk h).2.2
  · exact (C08_cross_function_from_own_module env hwf t k hk h).2.2.2

/-- the same clause for the rule before bb30ccd fails — exactly through classes without an
initialiser. -/
theorem C08_cross_full_false_before_bb30ccd :
    ¬ (∀ (env : Cross.Env) (t k : FSym), WF env → expandedFromFallback env t = some k → k.file = t.file) := by
  intro h
  have := h envSame ⟨.cls, "J".toList, none, impFile⟩ _ envSame_wf
    C08_cex_fallback_rule_class_without_init_takes_foreign_init.2
  revert this; decide

/-- in particular for every `Func` target (functions, lambdas, static methods). -/
theorem C08_cross_full_holds_for_functions (env : Cross.Env) (t k : FSym) (hwf : WF env)
    (hk : t.kind ≠ .cls) (h : expandedFrom env t = some k) : k.file = t.file :=
  (C08_cross_function_from_own_module env hwf t k hk h).2.2.2

end CrossCex


/-! ### every parameter KIND and every parameter-list SHAPE shadows; the visitor at any lambda depth

`ast.arguments` keeps a parameter in one of five places (`posonlyargs`, `args`, `vararg`,
`kwonlyargs`, `kwarg`).  `Params.all` is their concatenation and `FnA.addArguments` registers ALL of
them; the visitor of an anonymous lambda / a nested def opens the scope and registers them for EVERY
parameter list (there is no fast path for a list whose regular part `args` is empty).  The harness
ties this to the code on the full product binder × parameter-list shape × call form. -/

/-- wherever in `ast.arguments` the name sits — positional-only, regular, `*args`, keyword-only,
`**kwargs` — it resolves to the parameter's own `Name` symbol inside the scope. -/
theorem C08_every_parameter_kind_shadows (s : St) (ps : Params) (x : Str)
    (hx : x ∈ ps.posonly ∨ x ∈ ps.args ∨ ps.vararg = some x ∨ x ∈ ps.kwonly ∨ ps.kwarg = some x) :
    get? (FnA.addArguments { s with ctx := push s.ctx } ps).ctx x = some (nameSym x) :=
  C08_params_shadow s ps x ((FnA.mem_params_all ps x).mpr hx)

/-- in particular when the REGULAR part of the list is empty (`lambda *, f: …`, `lambda f, /: …`,
`lambda *f: …`, `lambda **f: …`): such a lambda is not "argument-less". -/
theorem C08_shadows_with_empty_regular_args (s : St) (ps : Params) (x : Str) (_hargs : ps.args = [])
    (hx : x ∈ ps.posonly ∨ ps.vararg = some x ∨ x ∈ ps.kwonly ∨ ps.kwarg = some x) :
    get? (FnA.addArguments { s with ctx := push s.ctx } ps).ctx x = some (nameSym x) := by
  apply C08_every_parameter_kind_shadows
  rcases hx with h | h | h | h
  · exact Or.inl h
  · exact Or.inr (Or.inr (Or.inl h))
  · exact Or.inr (Or.inr (Or.inr (Or.inl h)))
  · exact Or.inr (Or.inr (Or.inr (Or.inr h)))

/-- the parameters of a list are exactly the names the scope shadows: a name is rebound by the
scope iff it is in one of the five places (the other names resolve as outside). -/
theorem C08_scope_rebinds_exactly_the_parameters (s : St) (ps : Params) (x : Str) :
    (x ∈ ps.all → get? (FnA.addArguments { s with ctx := push s.ctx } ps).ctx x = some (nameSym x)) ∧
    (x ∉ ps.all → get? (FnA.addArguments { s with ctx := push s.ctx } ps).ctx x = get? s.ctx x) :=
  ⟨C08_params_shadow s ps x, C08_non_params_unchanged s ps x⟩

/-- the visitor of an ANONYMOUS LAMBDA: for every parameter list it reports "unable to unbind
anonymous lambdas", opens a scope, registers all parameters, visits the body there and closes the
scope — there is no case distinction on the parameter list at all. -/
theorem C08_lambda_opens_param_scope (env : FnA.Env) (mn : Str) (ps : Params) (body : Node) (s : St) :
    FnA.visit env mn (.lam ps body) s =
      FnA.bind (FnA.visit env mn body
        (FnA.addArguments { (FnA.St.diag s (mkDiag .error "anon-lambda")) with
                            ctx := push (FnA.St.diag s (mkDiag .error "anon-lambda")).ctx } ps))
        (fun s => .ok { s with ctx := pop s.ctx }) := by
  rw [FnA.visit]

/-- the visitor of a NESTED DEF likewise (the def's own name is bound outside the new scope). -/
theorem C08_nested_def_opens_param_scope (env : FnA.Env) (mn : Str) (name : Str) (ps : Params)
    (body : List Node) (s : St) :
    FnA.visit env mn (.funcDef name ps body) s =
      (let s1 := FnA.St.diag s (mkDiag .error "nested-function")
       let s2 : St := { s1 with ctx := Context.add s1.ctx (FnA.funcSym name ps.iface) }
       FnA.bind (FnA.visitList env mn body (FnA.addArguments { s2 with ctx := push s2.ctx } ps))
         (fun s => .ok { s with ctx := pop s.ctx })) := by
  rw [FnA.visit]

open Rattr.C08S in
/-- a call `x(args…)` visited where the scope chain binds the plain identifier `x` to a
parameter's `Name` symbol is RECORDED WITH THAT SYMBOL as its target (a `Name` is not callable:
nothing can be inlined from it) — for every argument list, whenever the visit succeeds. -/
theorem C08_visit_call_through_bound_param (env : FnA.Env) (mn x : Str) (args : List Node)
    (kwn : List (Option Str)) (kwv : List Node) (s s' : St)
    (hid : plainIdent x = true) (hx : xattrBuiltins.contains x = false)
    (hb : get? s.ctx x = some (nameSym x))
    (hq : env.analysers.contains (mn ++ '.' :: x) = false)
    (h : FnA.visit env mn (.call (.name x .load) args kwn kwv) s = .ok s') :
    ∃ c ∈ s'.calls, c.name = x ∧ c.target = some (nameSym x) :=
  visit_call_of_param env mn x args kwn kwv s s' (clean_of_plainIdent hid) hx hb hq h

/-- `lambda <ps₁>: lambda <ps₂>: … : body` -/
def lamNest : List Params → Node → Node
  | [], n => n
  | ps :: r, n => .lam ps (lamNest r n)

open Rattr.C08S in
theorem lamNest_call_aux (env : FnA.Env) (mn x : Str) (args : List Node)
    (kwn : List (Option Str)) (kwv : List Node)
    (hid : plainIdent x = true) (hx : xattrBuiltins.contains x = false)
    (hq : env.analysers.contains (mn ++ '.' :: x) = false) :
    ∀ (pss : List Params) (s s' : St),
      ((∃ ps ∈ pss, x ∈ ps.all) ∨ get? s.ctx x = some (nameSym x)) →
      FnA.visit env mn (lamNest pss (.call (.name x .load) args kwn kwv)) s = .ok s' →
      ∃ c ∈ s'.calls, c.name = x ∧ c.target = some (nameSym x)
  | [], s, s', hp, h => by
    rcases hp with ⟨ps, hps, _⟩ | hb
    · cases hps
    · exact C08_visit_call_through_bound_param env mn x args kwn kwv s s' hid hx hb hq h
  | ps :: r, s, s', hp, h => by
    simp only [lamNest] at h
    rw [C08_lambda_opens_param_scope] at h
    obtain ⟨s₁, h1, h2⟩ := FnA.bind_ok h
    injection h2 with h2
    subst h2
    refine lamNest_call_aux env mn x args kwn kwv hid hx hq r _ s₁ ?_ h1
    by_cases hin : x ∈ ps.all
    · exact Or.inr (FnA.addArguments_shadows _ ps x hin)
    · rcases hp with ⟨ps', hps', hx'⟩ | hb
      · rcases List.mem_cons.mp hps' with e | e
        · subst e; exact absurd hx' hin
        · exact Or.inl ⟨ps', e, hx'⟩
      · refine Or.inr ?_
        rw [FnA.addArguments_other _ ps x hin]
        simpa [FnA.St.diag] using hb

/-- ANY NESTING DEPTH, EVERY SHAPE: inside `lambda <ps₁>: lambda <ps₂>: … : x(args…)` where `x` is
a parameter (of any kind) of at least one of the lambdas — the others may have any parameter list,
including none at all — the recorded call's target is the parameter's `Name` symbol: no
module-level function / lambda / class / import of that name can be inlined for it. -/
theorem C08_call_through_lambda_param_any_depth (env : FnA.Env) (mn x : Str) (pss : List Params)
    (args : List Node) (kwn : List (Option Str)) (kwv : List Node) (s s' : St)
    (hid : Rattr.C08S.plainIdent x = true) (hx : xattrBuiltins.contains x = false)
    (hq : env.analysers.contains (mn ++ '.' :: x) = false)
    (hp : ∃ ps ∈ pss, x ∈ ps.all)
    (h : FnA.visit env mn (lamNest pss (.call (.name x .load) args kwn kwv)) s = .ok s') :
    ∃ c ∈ s'.calls, c.name = x ∧ c.target = some (nameSym x) :=
  lamNest_call_aux env mn x args kwn kwv hid hx hq pss s s' (Or.inl hp) h

/-- the same for a nested `def inner(<ps>): x(args…)`. -/
theorem C08_call_through_nested_def_param (env : FnA.Env) (mn x name : Str) (ps : Params)
    (args : List Node) (kwn : List (Option Str)) (kwv : List Node) (s s' : St)
    (hid : Rattr.C08S.plainIdent x = true) (hx : xattrBuiltins.contains x = false)
    (hq : env.analysers.contains (mn ++ '.' :: x) = false)
    (hp : x ∈ ps.all)
    (h : FnA.visit env mn (.funcDef name ps [.call (.name x .load) args kwn kwv]) s = .ok s') :
    ∃ c ∈ s'.calls, c.name = x ∧ c.target = some (nameSym x) := by
  rw [C08_nested_def_opens_param_scope] at h
  simp only [FnA.visitList] at h
  obtain ⟨s₁, h1, h2⟩ := FnA.bind_ok h
  injection h2 with h2
  subst h2
  obtain ⟨s₂, h3, h4⟩ := FnA.bind_ok h1
  injection h4 with h4
  subst h4
  exact C08_visit_call_through_bound_param env mn x args kwn kwv _ s₂ hid hx
    (FnA.addArguments_shadows _ ps x hp) hq h3

/-- `def c(v, fs): apply_unknown(lambda <ps>: helper(v), fs)` next to a module-level `helper`:
the (name, target) of the recorded calls. -/
def lamCallTargets (ps : Params) : List (Str × Option Sym) :=
  match FnA.analyse fenv0 [] [[("helper".toList, helperSym)]] ⟨[], ["v".toList, "fs".toList], none, [], none⟩
      [.call (.name "apply_unknown".toList .load)
        [.lam ps (.call (.name "helper".toList .load) [.name "v".toList .load] [] []),
         .name "fs".toList .load] [] []] with
  | .ok s => s.calls.map (fun c => (c.name, c.target))
  | _ => []

/-- TEST (the seeded change C08-m7 flips the first four): the lambda's ONLY parameter is
keyword-only / positional-only / `*helper` / `**helper` — its regular part is empty — and the call
through it still has the parameter as its target; only the genuine thunk `lambda: helper(v)`
resolves to the module-level function. -/
theorem C08_test_lambda_param_shapes :
    let viaParam := [("apply_unknown".toList, none), ("helper".toList, some (nameSym "helper".toList))]
    lamCallTargets ⟨[], [], none, ["helper".toList], none⟩ = viaParam ∧
    lamCallTargets ⟨["helper".toList], [], none, [], none⟩ = viaParam ∧
    lamCallTargets ⟨[], [], some "helper".toList, [], none⟩ = viaParam ∧
    lamCallTargets ⟨[], [], none, [], some "helper".toList⟩ = viaParam ∧
    lamCallTargets ⟨[], ["helper".toList], none, [], none⟩ = viaParam ∧
    lamCallTargets ⟨[], [], none, [], none⟩ =
      [("apply_unknown".toList, none), ("helper".toList, some helperSym)] := by decide +kernel

/-! ### defect: the key lambda of `sorted` registers only its first regular parameter -/

/-- the scope `SortedAnalyser.on_call` builds by hand for `sorted(xs, key=lambda it, …: body)` binds
the ITERATOR only: every other name — the lambda's other parameters included — resolves as outside. -/
theorem C08_sorted_key_scope_binds_only_the_iterator (c : Context) (it x : Str) (h : it ≠ x) :
    get? (Context.add (push c) (nameSym it) true) x = get? c x := by
  rw [get?_add_other _ _ _ x (by simpa [nameSym] using h)]
  exact get?_cons_none (sc := []) rfl

def fenvSorted : FnA.Env := ⟨env0, ["sorted".toList]⟩
def sortedSym : Sym := { kind := .builtin, name := "sorted".toList, callable := true }

/-- `def c(v, fs): sorted(fs, key=lambda <ps>: helper(v))` next to a module-level `helper`. -/
def sortedKeyTargets (ps : Params) : List (Str × Option Sym) :=
  match FnA.analyse fenvSorted [] [[("helper".toList, helperSym), ("sorted".toList, sortedSym)]]
      ⟨[], ["v".toList, "fs".toList], none, [], none⟩
      [.call (.name "sorted".toList .load) [.name "fs".toList .load] [some "key".toList]
        [.lam ps (.call (.name "helper".toList .load) [.name "v".toList .load] [] [])]] with
  | .ok s => s.calls.map (fun c => (c.name, c.target))
  | _ => []

/-- the defect end to end (kernel evaluation of `FnA.analyse`): module-level Func `helper`;
`def c(v, fs): sorted(fs, key=lambda w, *, helper=None: helper(v))` — `helper` is a (keyword-only)
parameter of the key lambda, yet the recorded call carries the module-level `helper` as its target
(known finding `inlined-although-shadowed-by-sorted-key-lambda-extra-parameter:*`); with `helper` as
THE regular parameter the target is the parameter. -/
theorem C08_cex_sorted_key_extra_parameter :
    sortedKeyTargets ⟨[], ["w".toList], none, ["helper".toList], none⟩ = [("helper".toList, some helperSym)] ∧
    sortedKeyTargets ⟨["helper".toList], ["w".toList], none, [], none⟩ = [("helper".toList, some helperSym)] ∧
    sortedKeyTargets ⟨[], ["w".toList], some "helper".toList, [], none⟩ = [("helper".toList, some helperSym)] ∧
    sortedKeyTargets ⟨[], ["helper".toList], none, [], none⟩ =
      [("helper".toList, some (nameSym "helper".toList))] := by decide +kernel

/-! ### which FILE is "module m": package, module file, plain directory

`Locator.findModuleInPath` (= `find_module_in_path`, tied to the code by C13's check and by this
property's layout rows) against `Spec.matchInRoot`, the import system's per-directory precedence
(regular package `m/__init__.py`, then module file `m.py`; a directory without `__init__.py` has no
file).  No cleanliness hypothesis on the directory: these hold for EVERY file listing. -/

section Layouts
open Rattr.Locator

theorem filter_nonempty_id (name : Dotted) (hmem : [] ∉ name) :
    name.filter (fun c => decide (c ≠ [])) = name := by
  rw [List.filter_eq_self]
  intro a ha
  simp only [ne_eq, decide_not, Bool.not_eq_eq_eq_not, Bool.not_true, decide_eq_false_iff_not]
  intro h0; subst h0; exact hmem ha

theorem dirExists_of_init (files : Files) (name : Dotted)
    (h : files.contains (name ++ [initPy]) = true) : dirExists files name = true := by
  simp only [dirExists, Bool.or_eq_true, decide_eq_true_eq, List.any_eq_true, Bool.and_eq_true]
  right
  refine ⟨name ++ [initPy], List.contains_iff_mem.mp h, by simp, ?_⟩
  rw [List.isPrefixOf_iff_prefix]
  exact List.prefix_append _ _

theorem withSuffixPy_append_singleton (l : Path) (a : Str) : withSuffixPy (l ++ [a]) = l ++ [a ++ dotPy] := by
  induction l with
  | nil => rfl
  | cons x r ih =>
    cases r with
    | nil => simp [withSuffixPy]
    | cons y r => simp only [List.cons_append, withSuffixPy] at ih ⊢; rw [ih]

theorem withSuffixPy_is_modFile (name : Dotted) (h : name ≠ []) : withSuffixPy name = Spec.modFile name := by
  rw [← List.dropLast_concat_getLast h, withSuffixPy_append_singleton]
  simp [Spec.modFile, dotPy]

/-- a regular package wins: whenever `m/__init__.py` exists, `find_module_in_path` answers with it
— whether or not a module file `m.py` sits next to it. -/
theorem C08_package_beats_module_file (files : Files) (name : Dotted)
    (hne : name ≠ [[]]) (hmem : [] ∉ name)
    (h : files.contains (name ++ [initPy]) = true) :
    findModuleInPath files name = some (name ++ [initPy]) := by
  unfold findModuleInPath
  simp only [hne, if_false, filter_nonempty_id name hmem, dirExists_of_init files name h, h, if_true]

/-- the module file is answered only when there is NO directory of that name. -/
theorem C08_module_file_only_without_directory (files : Files) (name : Dotted) (hmem : [] ∉ name)
    (h : findModuleInPath files name = some (withSuffixPy name))
    (hdiff : withSuffixPy name ≠ name ++ [initPy]) :
    dirExists files name = false ∧ files.contains (name ++ [initPy]) = false := by
  unfold findModuleInPath at h
  split at h
  · cases h
  · simp only [filter_nonempty_id name hmem] at h
    cases hd : dirExists files name with
    | true =>
      simp only [hd, if_true] at h
      split at h
      · injection h with h; exact absurd h.symm hdiff
      · cases h
    | false =>
      refine ⟨rfl, ?_⟩
      cases hc : files.contains (name ++ [initPy]) with
      | false => rfl
      | true => rw [dirExists_of_init files name hc] at hd; cases hd

/-- SOUNDNESS for every file listing: whatever file `find_module_in_path` answers is the file the
import system's precedence (package, then module file) picks in that directory — so a dotted call
`m.f()` is never inlined from a file Python does not bind. -/
theorem C08_locator_answer_is_pythons (files : Files) (name : Dotted) (p : Path)
    (hne : name ≠ []) (hmem : [] ∉ name)
    (h : findModuleInPath files name = some p) :
    Spec.matchInRoot files name = some p := by
  unfold findModuleInPath at h
  split at h
  · cases h
  · simp only [filter_nonempty_id name hmem] at h
    unfold Spec.matchInRoot
    have hpk : Spec.pkgFile name = name ++ [initPy] := rfl
    cases hd : dirExists files name with
    | true =>
      simp only [hd, if_true] at h
      split at h
      · rename_i hc
        injection h with h; subst h
        rw [hpk, if_pos hc]
      · cases h
    | false =>
      simp only [hd, Bool.false_eq_true, if_false] at h
      have hnp : files.contains (name ++ [initPy]) = false := by
        cases hc : files.contains (name ++ [initPy]) with
        | false => rfl
        | true => rw [dirExists_of_init files name hc] at hd; cases hd
      split at h
      · rename_i hc
        injection h with h; subst h
        rw [withSuffixPy_is_modFile name hne] at hc ⊢
        rw [hpk, if_neg (by rw [hnp]; exact Bool.false_ne_true), if_pos hc]
      · cases h

/-- COMPLETENESS up to the plain-directory case: what Python picks is answered, unless a directory
of that name WITHOUT `__init__.py` hides the module file (the C13 finding
`module-shadowed-by-non-package-directory`; rattr then reports "unable to find module" and nothing
is inlined). -/
theorem C08_locator_complete_unless_plain_directory (files : Files) (name : Dotted) (p : Path)
    (hne : name ≠ []) (hne' : name ≠ [[]]) (hmem : [] ∉ name)
    (h : Spec.matchInRoot files name = some p) :
    findModuleInPath files name = some p ∨
      (dirExists files name = true ∧ files.contains (name ++ [initPy]) = false ∧
        findModuleInPath files name = none) := by
  unfold Spec.matchInRoot at h
  have hpk : Spec.pkgFile name = name ++ [initPy] := rfl
  split at h
  · rename_i hc
    injection h with h; subst h
    left
    rw [hpk] at hc ⊢
    exact C08_package_beats_module_file files name hne' hmem hc
  · rename_i hc
    rw [hpk] at hc
    have hc' : files.contains (name ++ [initPy]) = false := by simpa using hc
    split at h
    · rename_i hm
      injection h with h; subst h
      unfold findModuleInPath
      simp only [hne', if_false, filter_nonempty_id name hmem]
      cases hd : dirExists files name with
      | true =>
        right
        refine ⟨rfl, hc', ?_⟩
        simp only [↓reduceIte, hc', Bool.false_eq_true]
      | false =>
        left
        rw [← withSuffixPy_is_modFile name hne] at hm ⊢
        simp only [Bool.false_eq_true, ↓reduceIte, hm]
    · cases h

def lmName : Dotted := ["lm".toList]
def lmPy : Path := ["lm.py".toList]
def lmInit : Path := ["lm".toList, "__init__.py".toList]

/-- TEST (the seeded change C08-m9 flips the second and third line): the layouts of the harness. -/
theorem C08_test_layouts :
    findModuleInPath [lmPy] lmName = some lmPy ∧
    findModuleInPath [lmPy, lmInit] lmName = some lmInit ∧
    findModuleInPath [lmInit, lmPy] lmName = some lmInit ∧
    findModuleInPath [lmInit] lmName = some lmInit ∧
    -- a plain directory hides the module file (C13 finding): NOTHING is answered, never a wrong file
    findModuleInPath [lmPy, ["lm".toList, "data.txt".toList]] lmName = none ∧
    Spec.matchInRoot [lmPy, ["lm".toList, "data.txt".toList]] lmName = some lmPy ∧
    -- a namespace portion alone: no file, for both
    findModuleInPath [["lm".toList, "helper.py".toList]] lmName = none ∧
    Spec.matchInRoot [["lm".toList, "helper.py".toList]] lmName = none := by decide

/-- across search roots the plain-directory defect CAN change the file: root 0 holds `lm.py` next
to a plain directory `lm/` (Python binds root 0's `lm.py`), root 1 holds another `lm.py` — rattr
skips root 0 and answers root 1's file. -/
theorem C08_cex_plain_directory_in_earlier_root :
    locate [[lmPy, ["lm".toList, "data.txt".toList]], [lmPy]] lmName = [(1, lmPy)] ∧
    Spec.firstMatch [[lmPy, ["lm".toList, "data.txt".toList]], [lmPy]] lmName = some (0, lmPy) := by decide

end Layouts

/-! ### round 4: callees WITHOUT an IR of their own, redefinition, order / state

* a callee that is no key of any IR in its own file (nested def, local lambda, nested / `@rattr_ignore`d function or
  class) is NEVER expanded, whatever `==`-equal symbols other followed modules define;
* `FileAnalyser` files every visited definition under the symbol the context holds (`Dict.set`): after a second `def` /
  lambda of the name the IR is the analysis of THAT body in the context of that moment — the LAST analysis stays;
* the custom analyser of a call depends on the symbol in the current scope chain only. -/

open Rattr.Cross in
theorem keyAt_mem (env : Cross.Env) (l : Loc) (i : Nat) (k : FSym) (h : keyAt env l i = some k) :
    k ∈ env.target ∨ ∃ m ir, Dict.get? env.imports m = some ir ∧ k ∈ ir := by
  cases l with
  | target => exact Or.inl (List.mem_of_getElem? h)
  | import_ m =>
    right
    simp only [keyAt] at h
    split at h
    · rename_i ir hir; exact ⟨m, ir, hir, List.mem_of_getElem? h⟩
    · cases h

open Rattr.Cross in
theorem C08_cross_callee_without_ir_not_expanded (env : Cross.Env) (hwf : WF env) (t : FSym)
    (hk : t.kind ≠ .cls)
    (hno : ∀ k, (k ∈ env.target ∨ ∃ m ir, Dict.get? env.imports m = some ir ∧ k ∈ ir) →
      ¬ (k.key = t.key ∧ k.file = t.file)) :
    expandedFrom env t = none := by
  cases h : expandedFrom env t with
  | none => rfl
  | some k =>
    exfalso
    obtain ⟨h1, h2, h3, h4⟩ := C08_cross_function_from_own_module env hwf t k hk h
    have hmem : k ∈ env.target ∨ ∃ m ir, Dict.get? env.imports m = some ir ∧ k ∈ ir := by
      unfold expandedFrom at h
      split at h
      · rename_i l i _; exact keyAt_mem env l i k h
      · cases h
    exact hno k hmem ⟨by simp [FSym.key, h1, h2, h3], h4⟩


open Rattr.Cross in
theorem C08_cross_class_without_ir_not_expanded (env : Cross.Env) (hwf : WF env) (t : FSym)
    (hk : t.kind = .cls)
    (hno : ∀ k, (k ∈ env.target ∨ ∃ m ir, Dict.get? env.imports m = some ir ∧ k ∈ ir) →
      ¬ (k.kind = .cls ∧ k.name = t.name ∧ k.file = t.file)) :
    expandedFrom env t = none := by
  cases h : expandedFrom env t with
  | none => rfl
  | some k =>
    exfalso
    have h3 := C08_cross_class_from_own_module env hwf t k hk h
    have hmem : k ∈ env.target ∨ ∃ m ir, Dict.get? env.imports m = some ir ∧ k ∈ ir := by
      unfold expandedFrom at h
      split at h
      · rename_i l i _; exact keyAt_mem env l i k h
      · cases h
    exact hno k hmem h3

section RebindCex
open Rattr.Cross

def libFile : Str := "lib.py".toList

/-- target.py: `def outer(a)` with a NESTED `def helper(a)` that it calls, `@rattr_ignore def fmt(a)` and
`def uses(a)` calling it (neither `helper` nor `fmt` is a key of the target IR); lib.py (followed):
module-level `def helper(a)`, `def fmt(a)`, `class K` with `__init__(self, a)`. -/
def envNoIr : Cross.Env :=
  { target := [⟨.func, "outer".toList, ifA, tgtFile⟩, ⟨.func, "uses".toList, ifA, tgtFile⟩],
    imports := [("lib".toList, [⟨.func, "helper".toList, ifA, libFile⟩, ⟨.func, "fmt".toList, ifA, libFile⟩,
                                ⟨.cls, "K".toList, ifSelfA, libFile⟩])],
    moduleOf := [(tgtFile, "target".toList), (libFile, "lib".toList)] }

theorem envNoIr_wf : WF envNoIr := WF_of_wfCheck (by decide)

/-- TEST: the calls to the nested `helper`, the ignored `fmt` and an ignored / nested class `K` of the TARGET are not
expanded although lib defines `==`-equal symbols — while lib's own are found when the call's target is lib's. -/
theorem C08_test_callee_without_ir :
    resolve envNoIr ⟨.func, "helper".toList, ifA, tgtFile⟩ = .importError ∧
    resolve envNoIr ⟨.func, "fmt".toList, ifA, tgtFile⟩ = .importError ∧
    resolve envNoIr ⟨.cls, "K".toList, ifSelfA, tgtFile⟩ = .importError ∧
    expandedFrom envNoIr ⟨.func, "helper".toList, ifA, tgtFile⟩ = none ∧
    resolve envNoIr ⟨.func, "helper".toList, ifA, libFile⟩ = .found (.import_ "lib".toList) 0 := by decide

end RebindCex

/-! ### redefinition and order -/
open Rattr.FileA Rattr.FnA in
theorem C08_redefinition_last_analysis_stays (env : FnA.Env) (mn : Str) (f : Facts) (name : Str) (ps : Params)
    (body : List Node) (decos : List Ann.Deco) (s s' : FState) (fn : Sym)
    (hign : Ann.hasAnnotation Ann.nIgnore decos = .ok false) (hex : excluded f name = false)
    (hfn : getFunc s.ctx name = some fn) (hres : Ann.hasAnnotation Ann.nResults decos = .ok false)
    (hplug : (analyserFor env mn (some fn)).isSome = false)
    (h : visitFuncDef env mn f name ps body decos s = .ok s') :
    ∃ t, FnA.analyse env mn s.ctx ps body = .ok t ∧ Dict.get? s'.ir fn = some (irOf t) := by
  unfold visitFuncDef at h
  simp only [hign, hres, liftAnn, hex, hfn, hplug, if_false, Bool.false_eq_true, analyseInto, liftRes] at h
  split at h
  · rename_i t ht
    injection h with h
    subst h
    exact ⟨t, ht, Dict.get?_set_self _ _ _⟩
  · cases h
  · cases h


open Rattr.FileA Rattr.FnA in
/-- a `def` whose name the context holds as something that is NOT a function (the FIRST binding was a class, an
import, a plain name) is diagnosed and DROPPED: no IR is filed, the FileIr is unchanged — callers keep what
the first binding gave them (the `redefinition:<other kind>-then-function` findings). -/
theorem C08_redefinition_of_another_kind_is_dropped (env : FnA.Env) (mn : Str) (f : Facts) (name : Str) (ps : Params)
    (body : List Node) (decos : List Ann.Deco) (s s' : FState)
    (hign : Ann.hasAnnotation Ann.nIgnore decos = .ok false) (hex : excluded f name = false)
    (hfn : getFunc s.ctx name = none)
    (h : visitFuncDef env mn f name ps body decos s = .ok s') : s'.ir = s.ir := by
  unfold visitFuncDef at h
  simp only [hign, liftAnn, hex, hfn, if_false, Bool.false_eq_true] at h
  injection h with h
  subst h
  rfl

/-- the root of every `redefinition:` finding: a plain `add` of a second symbol for a name that is already visible
changes NOTHING — the symbol (kind and call interface) of the FIRST binding stays for the whole file. -/
theorem C08_second_binding_keeps_first_symbol (c : Context) (s₂ : Sym) (h : contains c s₂.name = true) :
    add c s₂ = c := by
  simp [add, h]

/-- ORDER / STATE: which custom analyser handles a call is a function of the target SYMBOL found in the current scope
chain (and the module name) alone — the model has no memory of earlier look-ups.  A parameter is a `Name` symbol and
is looked up under `<module>.<name>`: it has no analyser unless one is registered under that very name, whatever
analyser the builtin / import of the same name has. -/
theorem C08_parameter_named_like_plugin_target_has_no_analyser (env : FnA.Env) (mn : Str) (sy : Sym)
    (hk : sy.kind = .name) (hq : env.analysers.contains (mn ++ '.' :: sy.name) = false) :
    FnA.analyserFor env mn (some sy) = none := by
  unfold FnA.analyserFor
  simp only [hk, hq, Bool.false_eq_true, if_false]

/-- TEST: in module `target` the builtin `sorted` has the `sorted` analyser, the parameter `sorted` has none. -/
theorem C08_test_parameter_named_sorted :
    FnA.analyserFor fenvSorted "target".toList (some sortedSym) = some "sorted".toList ∧
    FnA.analyserFor fenvSorted "target".toList (some (Context.nameSym "sorted".toList)) = none := by decide

/-! ### non-vacuity -/

example : startsWith (nameOf "@Constant.join()".toList) ['@'] = true := by decide
example : containsSub (nameOf "a[].m()".toList) (lit "[]") = true := by decide
example : nameOf "obj.helper()".toList ≠ lhsOf "obj.helper()".toList ∧
    get? [[("helper".toList, helperSym)]] (nameOf "obj.helper()".toList) = none := by decide
example : (getCallTarget env0 [[("helper".toList, helperSym)]] "obj.helper()".toList false true).1 = none :=
  C08_method_on_non_import env0 _ _ false true (by decide) (by decide) (by
    intro s hs
    have h0 : get? [[("helper".toList, helperSym)]] (lhsOf "obj.helper()".toList) = none := by decide
    rw [h0] at hs; cases hs)
example : targetInImportedModule
    [[("math".toList, { kind := .import_, name := "math".toList, qual := "math".toList, modExists := true })]]
    "math.sin".toList =
    some { kind := .import_, name := "sin".toList, callable := true, qual := "math.sin".toList } := by decide

-- `C08_dotted_call_through_param` applies to `import pk.sub` / `def run(pk, event): pk.sub.dfn(event)`
example : (getCallTarget env0
    (FnA.addArguments { ctx := push [[("pk.sub".toList, pkSubSym)]] }
      ⟨[], ["pk".toList, "event".toList], none, [], none⟩).ctx "pk.sub.dfn()".toList false true).1 = none :=
  C08_dotted_call_through_param env0 { ctx := [[("pk.sub".toList, pkSubSym)]] }
    ⟨[], ["pk".toList, "event".toList], none, [], none⟩ _ false true (by decide) (by decide) (by decide) (by decide)
-- `C08_cross_function_from_own_module` applies to imp1's own `util` in `envSame`
example : Cross.expandedFrom envSame ⟨.func, "util".toList, ifA, impFile⟩
    = some ⟨.func, "util".toList, ifA, impFile⟩ := by decide
example : ∃ c ∈ Cross.candidates envSame ⟨.cls, "K".toList, none, impFile⟩, c.file = impFile :=
  ⟨⟨.cls, "K".toList, ifSelfA, impFile⟩, by decide, rfl⟩

-- `C08_call_through_lambda_param_any_depth` applies to `lambda q: lambda *, helper: helper(v)`
example : ∃ ps ∈ [(⟨[], ["q".toList], none, [], none⟩ : Params), ⟨[], [], none, ["helper".toList], none⟩],
    "helper".toList ∈ ps.all := ⟨⟨[], [], none, ["helper".toList], none⟩, by decide, by decide⟩
example : Rattr.C08S.plainIdent "helper".toList = true ∧ xattrBuiltins.contains "helper".toList = false ∧
    fenv0.analysers.contains ("target".toList ++ '.' :: "helper".toList) = false := by decide
-- `C08_package_beats_module_file` / `C08_locator_answer_is_pythons` apply to the `module+package` layout
example : [lmPy, lmInit].contains (lmName ++ [Rattr.Locator.initPy]) = true ∧ lmName ≠ [[]] ∧ [] ∉ lmName := by decide

-- round 4: the hypotheses of the callee-without-IR / redefinition / order theorems are satisfiable
example : (envNoIr.target ++ envNoIr.imports.flatMap (·.2)).all
    (fun k => !(decide (k.key = (⟨.func, "helper".toList, ifA, tgtFile⟩ : Cross.FSym).key) && decide (k.file = tgtFile))) = true ∧
    (envNoIr.imports.flatMap (·.2)).any
    (fun k => decide (k.key = (⟨.func, "helper".toList, ifA, tgtFile⟩ : Cross.FSym).key)) = true := by decide
example : Ann.hasAnnotation Ann.nIgnore [] = .ok false ∧ Ann.hasAnnotation Ann.nResults [] = .ok false ∧
    FileA.getFunc [[("f".toList, fSym)]] "f".toList = some fSym ∧
    (FnA.analyserFor fenv0 "target".toList (some fSym)).isSome = false ∧
    contains [[("f".toList, fSym)]] fSym.name = true := by decide
example : FileA.getFunc [[("f".toList, Context.nameSym "f".toList)]] "f".toList = none := by decide

end Rattr.C08

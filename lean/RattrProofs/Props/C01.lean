import RattrModel.FnAnalyser
namespace Rattr.C01
theorem placeholder : True := trivial
end Rattr.C01

/-
  C01 — every access in a function body is reported (no missed get / set / del / call).

  Model: `FnA.visit … / FnA.analyse` (RattrModel/FnAnalyser.lean), tied to
  `rattr/analyser/function.py` by the differential harness (py/props/c01.py).
  Spec: `AccessSpec.accesses` (RattrProofs/Lemmas/VisitSpec.lean) — one uniform recursion that
  descends into every child of every node.

  The full statement `C01_full` is FALSE on the pinned code (`C01_full_false`, `C01_cex_*`: one
  kernel-evaluated counterexample per known-finding class).  Proved for ALL inputs:
    * `C01_monotone_*` / `C01_recorded_survives`: the visitor never forgets an access it has
      recorded (whole mutual block, every constructor) — so "reported once" = "in the final IR";
    * `C01_chain_reported`: every pure name chain, in any context, is reported under the right
      kind with the README spelling;
    * `C01_generic_children`, `C01_list_each`: every child of a node without a dedicated visitor
      is visited, in order; a body is visited statement by statement;
    * `C01_call_recorded`: an ordinary call is recorded and all its arguments are visited;
    * `C01_unnameable_base_visited`: `(e).a` with an unnameable `e` visits `e`.
    * `C01_partial`: the full lower bound on the fragment "generic nodes over pure chains";
    * `C01_partial_calls` / `_assign` / `_flow`: the lower bound (given success) under the REAL
      plugin table, on the fragment extended by ordinary calls (callee not resolving to a
      custom-analysed symbol of the root context), then assignments (including the class-instance
      diversion), then `del` / `for` / `with` / comprehensions / `return`;
    * `C01_partial_success`: success itself on the call-free sub-fragment.
    * `C01_return_*`: `visit_Return`'s own traversal of a returned display — elements one by one, a
      returned dict keys first and then ALL values (the operand of a `**spread` is a value without a
      key); `C01_return_dict_values_covered` / `C01_return_display_elements_covered`: every access in
      every such value / element is reported (fragment `frag`);
    * `C01_initialiser_any_bases` / `C01_initialiser_entry` / `C01_initialiser_covered`: a class WITH an
      `__init__` is analysed the same way whatever its bases are spelled like (Enum / NamedTuple
      heuristics included), the FileIr maps the class symbol to `FnA.analyse` of that body, and
      neither the static methods analysed afterwards nor the merge into the FileIr overwrite it;
    * `tieA_functionAnalyser_visitors` / `tieA_no_match_visitor`, `C01_match_*`: no node class of a
      `match` statement has a visitor, so a pattern is visited as the list of the expressions it
      evaluates (`Match.loads`) whatever capture / `as` / star / or / sequence / mapping / class
      structure is wrapped around them; a syntactically valid pattern always succeeds, adds EXACTLY
      the accesses of its loads and leaves the context alone (captures are not registered); a whole
      `match` statement in the fragment has every access of its subject, pattern loads, guards and
      bodies reported;
    * `C01_star_*` (round 4): the root context a file's functions are analysed in is
      `compile_root_context(ast).expand_starred_imports()`; for ALL projects the expansion (`Pipeline2.expandLoop`,
      `Context.add` per re-exported symbol) keeps every binding the file's own root context has, so the custom
      analyser a call to `getattr` / `hasattr` / `setattr` / `delattr` / `sorted` / `defaultdict` is dispatched to is
      the same with and without `from <local module> import *` — although every star-imported module offers its
      own builtins as `Import("<module>.getattr")` …; `C01_test_star_overwrite_would_lose_plugins`: a plain
      overwrite in place of `Context.add` would lose them;
  Not proved: the lower bound over a fragment that also contains calls, assignments, loops, …
  (`C01_partial` of DESIGN §5 with the complete `dropped` table); the per-constructor facts
  above are its leaves.
-/
import RattrProofs.Lemmas.Visit
import RattrProofs.Lemmas.VisitSpec
import RattrProofs.Lemmas.VisitCover
import RattrProofs.Lemmas.FileAnalyser
import RattrProofs.Lemmas.C01Callables
import RattrProofs.Lemmas.Match
import RattrProofs.Lemmas.C01Star
import RattrModel.Generated.C01

namespace Rattr.C01
open Rattr Rattr.FnA Rattr.Strs Rattr.AccessSpec

/-! ### full statement -/

/-- every access of the body (per the independent spec) is present in the IR `analyse` returns. -/
def C01_full : Prop :=
  ∀ (env : Env) (mn : Str) (root : Context) (ps : Params) (body : List Node) (s' : St),
    analyse env mn root ps body = .ok s' → ∀ a ∈ accessesL body, present a s' = true

/-! ### the visitor never forgets (all constructors, whole mutual block) -/

theorem C01_monotone_visit (env : Env) (mn : Str) (n : Node) (s s' : St)
    (h : visit env mn n s = .ok s') : IrLe s s' := visit_irLe h

theorem C01_monotone_visitList (env : Env) (mn : Str) (l : List Node) (s s' : St)
    (h : visitList env mn l s = .ok s') : IrLe s s' := visitList_irLe h

theorem C01_monotone_visitSortedKey (env : Env) (mn : Str) (ir : NameRes)
    (kwn : List (Option Str)) (kwv : List Node) (s s' : St)
    (h : visitSortedKey env mn ir kwn kwv s = .ok s') : IrLe s s' := visitSortedKey_irLe h

theorem C01_monotone_assignDiv (env : Env) (mn : Str) (targets : List Node) (v : Node) (s s' : St) :
    (assignDiv env mn targets v s = .done (.ok s') → IrLe s s') ∧
    (assignDiv env mn targets v s = .generic s' → IrLe s s') :=
  ⟨assignDiv_done_irLe, assignDiv_generic_irLe⟩

theorem C01_monotone_visitReturnValue (env : Env) (mn : Str) (n : Node) (s s' : St)
    (k : St → Bool → Res)
    (hk : ∀ s₁ b s₂, k s₁ b = .ok s₂ → IrLe s₁ s₂ ∧ (s₁.ctx ≠ [] → s₂.ctx.length = s₁.ctx.length))
    (h : visitReturnValue env mn n s k = .ok s') : IrLe s s' := visitReturnValue_irLe hk h

theorem C01_monotone_visitReturnElts (env : Env) (mn : Str) (l : List Node) (s s' : St)
    (h : visitReturnElts env mn l s = .ok s') : IrLe s s' := visitReturnElts_irLe h

/-- `body = pre ++ post`: whatever is in the IR after the statements `pre` is in the IR that
`analyse` returns. -/
theorem C01_recorded_survives (env : Env) (mn : Str) (root : Context) (ps : Params)
    (pre post : List Node) (s₁ s' : St)
    (h1 : visitList env mn pre (analyseInit root ps) = .ok s₁)
    (h : analyse env mn root ps (pre ++ post) = .ok s') : IrLe s₁ s' := by
  obtain ⟨u, hu, hle, _, _⟩ := analyse_inv h
  rw [visitList_append, h1] at hu
  exact (visitList_irLe hu).trans hle

/-! ### dispatch facts -/

/-- a node kind without a dedicated visitor: every child is visited, in order. -/
theorem C01_generic_children (env : Env) (mn : Str) (kind : Str) (kids : List Node) (s : St) :
    visit env mn (.other kind kids) s = visitList env mn kids s := by rw [visit]

/-- a statement list is visited statement by statement. -/
theorem C01_list_each (env : Env) (mn : Str) (a b : List Node) (s : St) :
    visitList env mn (a ++ b) s = (visitList env mn a s >>>= fun s₁ => visitList env mn b s₁) :=
  visitList_append env mn a b s

/-- the set an expression context selects. -/
def irOf (c : ECtx) (s : St) : List NameS :=
  match c with
  | .load => s.gets
  | .store => s.sets
  | .del => s.dels

/-- every pure name chain (`x`, `E.a`, `E[i]`, `*E`), in every context and from every state, is
visited successfully and reported under the kind of its context with the README spelling. -/
theorem C01_chain_reported (env : Env) (mn : Str) (n : Node) (hn : isChain n = true) (s : St) :
    ∃ s', visit env mn n s = .ok s' ∧ ⟨chainSpell n, chainBase n⟩ ∈ irOf (chainCtx n) s' := by
  refine ⟨_, visit_chain env mn n hn s, ?_⟩
  cases chainCtx n <;> exact mem_addTo_self _ _

/-- the independent spec's spelling agrees with `chainSpell` on chains. -/
theorem C01_chain_spelling (n : Node) (hn : isChain n = true) :
    spell n = chainSpell n ∧ baseOf n = chainBase n := spell_chain n hn

/-- C01 on the fragment "generic nodes over pure chains" (`AccessSpec.simple`: name chains with
constant subscript indices, constants, tuple / list / set / dict displays and EVERY node kind
without a dedicated visitor — Expr, If, While, BinOp, BoolOp, Compare, JoinedStr, Await, Yield … —
nested to arbitrary depth): the analysis succeeds and every access the spec lists is reported. -/
theorem C01_partial (env : Env) (mn : Str) (root : Context) (ps : Params) (body : List Node)
    (hb : simpleL body = true) :
    ∃ s', analyse env mn root ps body = .ok s' ∧ ∀ a ∈ accessesL body, present a s' = true := by
  obtain ⟨u, hu, g⟩ := visitList_simple env mn body hb (analyseInit root ps)
  rw [analyse_eq, hu]
  refine ⟨_, rfl, fun a ha => ?_⟩
  obtain ⟨k, nme, b⟩ := a
  cases k
  · have := (g.gets ⟨nme, b⟩).mpr (Or.inr ha)
    simp only [present, List.any_eq_true]
    exact ⟨⟨nme, b⟩, this, by simp⟩
  · have := (g.sets ⟨nme, b⟩).mpr (Or.inr ha)
    simp only [present, List.any_eq_true]
    exact ⟨⟨nme, b⟩, this, by simp⟩
  · have := (g.dels ⟨nme, b⟩).mpr (Or.inr ha)
    simp only [present, List.any_eq_true]
    exact ⟨⟨nme, b⟩, this, by simp⟩
  · exact absurd rfl (g.nocall _ ha)

/-! ### wider fragments (shape of `C01_full`: IF the analysis succeeds THEN everything is present)

`frag D F` (Lemmas/VisitCover.lean) extends the fragment of `C01_partial` feature by feature.
These theorems apply to the REAL plugin table. `D = dirtyKeys env mn root` is the (computed) list
of keys under which the root context holds a symbol a custom analyser fires on — for the pinned
configuration `getattr, hasattr, setattr, delattr, sorted` and whatever `collections.defaultdict`
(or `collections`) was imported as; the fragment only asks that no callee name, nor a dotted
prefix of it, is one of those keys (the calls that ARE are the findings `C01_cex_xattr_*`,
`C01_cex_sorted`, `C01_cex_defaultdict`). `ModClean env mn`: no analyser is registered for a name
of the analysed module itself. The proof threads the context invariant "a dirty symbol only sits
under a key of `D`" through the whole visitor (`visit_ck`, Lemmas/VisitClean.lean). Success is
assumed, not proved: spelling a call ARGUMENT can crash the old namer (property C07); on the
sub-fragment without calls success is proved (`C01_partial_success`). -/

/-- (a) + ordinary calls: callee a pure chain not rooted at a getattr-family builtin and not
resolving to a custom-analysed symbol, arguments and keyword values in the fragment — the call
record and every access in the arguments. -/
theorem C01_partial_calls (env : Env) (mn : Str) (root : Context) (ps : Params) (body : List Node)
    (s' : St) (hm : ModClean env mn)
    (hb : fragL (dirtyKeys env mn root) ⟨true, false, false⟩ body = true)
    (h : analyse env mn root ps body = .ok s') : ∀ a ∈ accessesL body, present a s' = true :=
  analyse_cover hm hb h

/-- (b) + assignments: `=` (any number of Store-chain / display targets), `op=`, annotated
assignments; the value is not a lambda / `namedtuple` declaration (for annotated assignments also
not a call / tuple / list: `C01_cex_annotation_class_assignment`). The class-instance diversion
`x = Cls(…)` IS covered: target, call record and arguments are all reported. -/
theorem C01_partial_assign (env : Env) (mn : Str) (root : Context) (ps : Params) (body : List Node)
    (s' : St) (hm : ModClean env mn)
    (hb : fragL (dirtyKeys env mn root) ⟨true, true, false⟩ body = true)
    (h : analyse env mn root ps body = .ok s') : ∀ a ∈ accessesL body, present a s' = true :=
  analyse_cover hm hb h

/-- (c) + control flow: `del`, `for` (target, iterable, body, else), `with` (items, body),
comprehensions (generators, conditions, element), `return` (incl. returned tuples / dicts and
returned class instances). -/
theorem C01_partial_flow (env : Env) (mn : Str) (root : Context) (ps : Params) (body : List Node)
    (s' : St) (hm : ModClean env mn)
    (hb : fragL (dirtyKeys env mn root) ⟨true, true, true⟩ body = true)
    (h : analyse env mn root ps body = .ok s') : ∀ a ∈ accessesL body, present a s' = true :=
  analyse_cover hm hb h

/-- the same for any sub-tree of the fragment, from any state whose context satisfies the
invariant (with monotonicity and re-establishment of the invariant bundled). -/
theorem C01_partial_visit (env : Env) (mn : Str) (D : List Str) (F : Feat) (hm : ModClean env mn)
    (n : Node) (hn : frag D F n = true) (s s' : St) (hI : Inv env mn D s)
    (h : visit env mn n s = .ok s') :
    IrLe s s' ∧ (∀ a ∈ accesses false n, present a s' = true) ∧ Inv env mn D s' := by
  haveI : ModCleanC env mn := ⟨hm⟩
  have hc := visit_cvm env mn D F n hn s hI
  exact ⟨(hc.mono s' h).ir, hc.cov s' h, hc.inv s' h⟩

/-- a call looked up in a context satisfying the invariant, under a name avoiding `D`, never hits
a custom analyser. -/
theorem C01_no_plugin_hit (env : Env) (mn : Str) (D : List Str) (c : Context) (callee : Str)
    (b w : Bool) (hc : CtxAll (QD env mn D) c) (hk : keyOk D (lookupKey callee) = true) :
    analyserFor env mn (Context.getCallTarget env.ctxEnv c callee b w).1 = none :=
  getCallTarget_clean env mn D c callee b w hc hk

/-- the context invariant is kept by the WHOLE visitor (every constructor), given `ModClean`. -/
theorem C01_invariant_kept (env : Env) (mn : Str) (D : List Str) (hm : ModClean env mn) (n : Node)
    (s s' : St) (hI : Inv env mn D s) (h : visit env mn n s = .ok s') : Inv env mn D s' := by
  haveI : ModCleanC env mn := ⟨hm⟩
  exact visit_ck (QD env mn D) env mn n s s' h hI

/-- on the call-free sub-fragment (`simple`) the analysis SUCCEEDS, and that sub-fragment lies in
every `frag D F`: the implication-shaped theorems above are not vacuous there. -/
theorem C01_partial_success (env : Env) (mn : Str) (root : Context) (ps : Params)
    (body : List Node) (hb : simpleL body = true) :
    (∃ s', analyse env mn root ps body = .ok s') ∧ ∀ D F, fragL D F body = true := by
  obtain ⟨s', hs, _⟩ := C01_partial env mn root ps body hb
  exact ⟨⟨s', hs⟩, fun D F => fragL_of_simpleL D F body hb⟩

/-- an ordinary call (its target has no custom analyser, its naming succeeds): a record named
`without_call_brackets(fullname)` is added, then all positional arguments and all keyword values
are visited, and the record is still there at the end. -/
theorem C01_call_recorded (env : Env) (mn : Str) (f : Node) (args : List Node)
    (kwn : List (Option Str)) (kwv : List Node) (s s' : St) (b tn base fullname : Str)
    (htn : targetNameNoUnravel (.call f args kwn kwv) = .ok b tn)
    (hno : analyserFor env mn
      (Context.getCallTarget env.ctxEnv s.ctx tn (isCallOnCall (.call f args kwn kwv)) false).1 = none)
    (hname : namesOf true (.call f args kwn kwv) = .ok base fullname)
    (h : visit env mn (.call f args kwn kwv) s = .ok s') :
    ∃ c s₁ s₂, c.name = withoutCallBrackets fullname ∧ c ∈ s₁.calls ∧
      visitList env mn args s₁ = .ok s₂ ∧ visitList env mn kwv s₂ = .ok s' ∧ c ∈ s'.calls := by
  unfold visit at h
  simp only [htn, liftName, hno] at h
  rw [getAndVerify_ok hname] at h
  obtain ⟨s₁, c, hc, _, hk⟩ := mkCall_ok h
  obtain ⟨s₂, h2, h3⟩ := bind_ok hk
  refine ⟨c, _, s₂, hc, mem_addCall_self _ _, h2, h3, ?_⟩
  exact (visitList_irLe h3).calls _ ((visitList_irLe h2).calls _ (mem_addCall_self _ _))

/-- `(e).a` with `e` not nameable (a BinOp, a literal, …): `e` IS visited, then `@Kind.a` is
recorded. (Only at depth 1: see `C01_cex_unnameable_base_depth2`.) -/
theorem C01_unnameable_base_visited (env : Env) (mn : Str) (e : Node) (a : Str) (c : ECtx) (s : St)
    (he : e.isNameable = false) :
    visit env mn (.attr e a c) s =
      (visit env mn e s >>>= fun s₂ =>
        .ok (updateResults s₂ ⟨safeName e ++ '.' :: a, safeName e⟩ c)) := by
  have hn : namesOf true (.attr e a c) = .ok (safeName e) (safeName e ++ '.' :: a) := by
    simp [namesOf, namesOf_unnameable e he]
  rw [visit, getAndVerify_ok hn]
  simp only [he, safeName, warnUndef_standin]
  rfl

/-! ### counterexamples (known findings), by kernel evaluation of the model -/

def S (x : String) : Str := x.toList
def nm (x : String) (c : ECtx := .load) : Node := .name (S x) c
def att (v : Node) (a : String) (c : ECtx := .load) : Node := .attr v (S a) c
def subs (v i : Node) (c : ECtx := .load) : Node := .sub v i c
def call (f : Node) (args : List Node) : Node := .call f args [] []
def callKw (f : Node) (args : List Node) (k : String) (v : Node) : Node :=
  .call f args [some (S k)] [v]
def binOp (l r : Node) : Node := .other (S "BinOp") [l, r]
def boolOp (l r : Node) : Node := .other (S "BoolOp") [l, r]
def expr (e : Node) : Node := .other (S "Expr") [e]
def P (xs : List String) : Params := ⟨[], xs.map S, none, [], none⟩
def bi (x : String) : Str × Sym := (S x, { kind := .builtin, name := S x, callable := true })

/-- the plugin table of the pinned code (Tie A: `defaultAnalysers`). -/
def env0 : Env :=
  { ctxEnv := { prims := [S "str", S "int", S "list"], literals := astLiterals },
    analysers := [S "getattr", S "hasattr", S "setattr", S "delattr", S "sorted",
                  S "collections.defaultdict"] }

/-- root context: the builtins used below, `from collections import defaultdict`, a class `Cls`. -/
def root0 : Context :=
  [[bi "getattr", bi "hasattr", bi "setattr", bi "delattr", bi "sorted", bi "list",
    (S "defaultdict", { kind := .import_, name := S "defaultdict", callable := true,
                        qual := S "collections.defaultdict" }),
    (S "Cls", { kind := .cls, name := S "Cls", callable := true,
                iface := some ⟨[], [S "self", S "v"], none, [], none⟩ })]]

/-- `def w(<ps>): <body>` analysed in module `m`. -/
def run (ps : List String) (body : List Node) : Res := analyse env0 (S "m") root0 (P ps) body

def getsOf : Res → Option (List Str) | .ok s => some (s.gets.map (·.full)) | _ => none
def setsOf : Res → Option (List Str) | .ok s => some (s.sets.map (·.full)) | _ => none
def delsOf : Res → Option (List Str) | .ok s => some (s.dels.map (·.full)) | _ => none
def callsOf : Res → Option (List Str) | .ok s => some (s.calls.map (·.name)) | _ => none

/-- `a.x[b.y].z` -/
def bodySubscript : List Node := [expr (att (subs (att (nm "a") "x") (att (nm "b") "y")) "z")]

/-- subscript index: `def w(a, b): a.x[b.y].z` — the spec demands `b.y`, the IR has only
`a.x[].z`. -/
theorem C01_cex_subscript_index :
    ⟨.get, S "b.y", S "b"⟩ ∈ accessesL bodySubscript ∧
    getsOf (run ["a", "b"] bodySubscript) = some [S "a.x[].z"] ∧
    presentR ⟨.get, S "b.y", S "b"⟩ (run ["a", "b"] bodySubscript) = false := by decide +kernel

/-- `a.b(c.d).e()` -/
def bodyInnerCall : List Node :=
  [expr (call (att (call (att (nm "a") "b") [att (nm "c") "d"]) "e") [])]

/-- call inside a name chain: `def w(a, c): a.b(c.d).e()` — the inner call `a.b` is not in
`calls` and its argument `c.d` is not in `gets`. -/
theorem C01_cex_call_inside_chain :
    ⟨.call, S "a.b", S "a"⟩ ∈ accessesL bodyInnerCall ∧
    ⟨.get, S "c.d", S "c"⟩ ∈ accessesL bodyInnerCall ∧
    callsOf (run ["a", "c"] bodyInnerCall) = some [S "a.b().e"] ∧
    getsOf (run ["a", "c"] bodyInnerCall) = some [S "a.b()"] := by decide +kernel

/-- `(a or b)(c)` -/
def bodyUnnameableCallee : List Node := [expr (call (boolOp (nm "a") (nm "b")) [nm "c"])]

/-- operands of an unnameable callee: `def w(a, b, c): (a or b)(c)` — `a`, `b` missing. -/
theorem C01_cex_unnameable_callee :
    ⟨.get, S "a", S "a"⟩ ∈ accessesL bodyUnnameableCallee ∧
    ⟨.get, S "b", S "b"⟩ ∈ accessesL bodyUnnameableCallee ∧
    getsOf (run ["a", "b", "c"] bodyUnnameableCallee) = some [S "c"] ∧
    callsOf (run ["a", "b", "c"] bodyUnnameableCallee) = some [S "@BoolOp"] := by decide +kernel

/-- `(c + d).y.z` -/
def bodyDepth2 : List Node := [expr (att (att (binOp (nm "c") (nm "d")) "y") "z")]
/-- `(a + b).x` -/
def bodyDepth1 : List Node := [expr (att (binOp (nm "a") (nm "b")) "x")]

/-- unnameable base under ≥ 2 links: `(c + d).y.z` drops `c`, `d`; at depth 1 `(a + b).x`
reports `a`, `b` (cf. `C01_unnameable_base_visited`). -/
theorem C01_cex_unnameable_base_depth2 :
    ⟨.get, S "c", S "c"⟩ ∈ accessesL bodyDepth2 ∧ ⟨.get, S "d", S "d"⟩ ∈ accessesL bodyDepth2 ∧
    getsOf (run ["c", "d"] bodyDepth2) = some [S "@BinOp.y.z"] ∧
    getsOf (run ["a", "b"] bodyDepth1) = some [S "a", S "b", S "@BinOp.x"] := by decide +kernel

/-- `setattr(a, 'x', b.y)` -/
def bodySetattr : List Node :=
  [expr (call (nm "setattr") [nm "a", .strConst (S "x"), att (nm "b") "y"])]

/-- getattr-family extra argument: `def w(a, b): setattr(a, 'x', b.y)` — `b.y` missing (the
attribute access itself, set `a.x` / get `a`, is reported). -/
theorem C01_cex_xattr_extra_argument :
    ⟨.get, S "b.y", S "b"⟩ ∈ accessesL bodySetattr ∧
    getsOf (run ["a", "b"] bodySetattr) = some [S "a"] ∧
    setsOf (run ["a", "b"] bodySetattr) = some [S "a.x"] ∧
    callsOf (run ["a", "b"] bodySetattr) = some [] := by decide +kernel

/-- `getattr(a, n.m)` -/
def bodyGetattrDyn : List Node := [expr (call (nm "getattr") [nm "a", att (nm "n") "m"])]

/-- getattr-family non-literal name: `def w(a, n): getattr(a, n.m)` — `n.m` is not visited and
the call is not recorded. -/
theorem C01_cex_xattr_non_literal :
    ⟨.get, S "n.m", S "n"⟩ ∈ accessesL bodyGetattrDyn ∧
    ⟨.call, S "getattr", S "getattr"⟩ ∈ accessesL bodyGetattrDyn ∧
    getsOf (run ["a", "n"] bodyGetattrDyn) = some [S "a.<n.m>", S "a.<n", S "a"] ∧
    callsOf (run ["a", "n"] bodyGetattrDyn) = some [] := by decide +kernel

/-- `sorted(xs, reverse=a.r)` -/
def bodySorted : List Node := [expr (callKw (nm "sorted") [nm "xs"] "reverse" (att (nm "a") "r"))]

/-- sorted: extra argument `a.r` missing, and no call record for `sorted`. -/
theorem C01_cex_sorted :
    ⟨.get, S "a.r", S "a"⟩ ∈ accessesL bodySorted ∧
    ⟨.call, S "sorted", S "sorted"⟩ ∈ accessesL bodySorted ∧
    getsOf (run ["xs", "a"] bodySorted) = some [S "xs"] ∧
    callsOf (run ["xs", "a"] bodySorted) = some [] := by decide +kernel

/-- `defaultdict(a.factory, a.extra)` -/
def bodyDefaultdict : List Node :=
  [expr (call (nm "defaultdict") [att (nm "a") "factory", att (nm "a") "extra"])]

/-- defaultdict: no call record for `defaultdict`, the named factory is a call but not a get, the
extra argument is not visited. -/
theorem C01_cex_defaultdict :
    ⟨.call, S "defaultdict", S "defaultdict"⟩ ∈ accessesL bodyDefaultdict ∧
    ⟨.get, S "a.factory", S "a"⟩ ∈ accessesL bodyDefaultdict ∧
    ⟨.get, S "a.extra", S "a"⟩ ∈ accessesL bodyDefaultdict ∧
    getsOf (run ["a"] bodyDefaultdict) = some [] ∧
    callsOf (run ["a"] bodyDefaultdict) = some [S "a.factory"] := by decide +kernel

/-- `g = lambda w: w.k` -/
def bodyLambdaAssign : List Node :=
  [.assign [nm "g" .store] (.lam (P ["w"]) (att (nm "w") "k"))]

/-- lambda assignment: the target `g` is not recorded under sets. -/
theorem C01_cex_lambda_assignment :
    ⟨.set, S "g", S "g"⟩ ∈ accessesL bodyLambdaAssign ∧
    setsOf (run ["a"] bodyLambdaAssign) = some [] := by decide +kernel

/-- `P = namedtuple('P', a.fields)` -/
def bodyNamedtuple : List Node :=
  [.assign [nm "P" .store] (call (nm "namedtuple") [.strConst (S "P"), att (nm "a") "fields"])]

/-- namedtuple assignment: neither the target, the call nor its arguments are recorded. -/
theorem C01_cex_namedtuple_assignment :
    ⟨.set, S "P", S "P"⟩ ∈ accessesL bodyNamedtuple ∧
    ⟨.call, S "namedtuple", S "namedtuple"⟩ ∈ accessesL bodyNamedtuple ∧
    ⟨.get, S "a.fields", S "a"⟩ ∈ accessesL bodyNamedtuple ∧
    setsOf (run ["a"] bodyNamedtuple) = some [] ∧ callsOf (run ["a"] bodyNamedtuple) = some [] ∧
    getsOf (run ["a"] bodyNamedtuple) = some [] := by decide +kernel

/-- `x: a.T = Cls(b)` -/
def bodyAnnClass : List Node :=
  [.annAssign (nm "x" .store) (att (nm "a") "T") [call (nm "Cls") [nm "b"]]]

/-- annotation of a class-instance assignment: `a.T` is never visited (target, call and argument
are reported). -/
theorem C01_cex_annotation_class_assignment :
    ⟨.get, S "a.T", S "a"⟩ ∈ accessesL bodyAnnClass ∧
    getsOf (run ["a", "b"] bodyAnnClass) = some [S "b"] ∧
    setsOf (run ["a", "b"] bodyAnnClass) = some [S "x"] ∧
    callsOf (run ["a", "b"] bodyAnnClass) = some [S "Cls"] := by decide +kernel

theorem C01_full_false : ¬ C01_full := by
  intro h
  have hc := C01_cex_subscript_index
  have hrun : ∃ s', run ["a", "b"] bodySubscript = .ok s' := by
    cases hr : run ["a", "b"] bodySubscript with
    | ok s' => exact ⟨s', rfl⟩
    | fatal s d => rw [hr] at hc; simp [getsOf] at hc
    | crash s e => rw [hr] at hc; simp [getsOf] at hc
  obtain ⟨s', hs'⟩ := hrun
  have := h env0 (S "m") root0 (P ["a", "b"]) bodySubscript s' hs' _ hc.1
  have h3 := hc.2.2
  rw [hs'] at h3
  simp only [presentR] at h3
  rw [this] at h3
  cases h3

/-! ### non-vacuity -/

/-- `C01_chain_reported` on `*a.b[0].c` in Store context. -/
example : ∃ s', visit env0 (S "m") (.attr (.sub (.starred (att (nm "a") "b") .load) .const .load) (S "c") .store)
      (analyseInit root0 (P ["a"])) = .ok s' ∧ ⟨S "*a.b[].c", S "a"⟩ ∈ s'.sets :=
  C01_chain_reported env0 (S "m") _ (by decide) _

/-- the hypotheses of `C01_call_recorded` are satisfiable: `a.m(b)` is an ordinary call. -/
example : ∃ b tn base fullname,
    targetNameNoUnravel (call (att (nm "a") "m") [nm "b"]) = .ok b tn ∧
    analyserFor env0 (S "m") (Context.getCallTarget env0.ctxEnv (analyseInit root0 (P ["a", "b"])).ctx tn
      (isCallOnCall (call (att (nm "a") "m") [nm "b"])) false).1 = none ∧
    namesOf true (call (att (nm "a") "m") [nm "b"]) = .ok base fullname ∧
    callsOf (run ["a", "b"] [expr (call (att (nm "a") "m") [nm "b"])]) = some [S "a.m"] ∧
    getsOf (run ["a", "b"] [expr (call (att (nm "a") "m") [nm "b"])]) = some [S "b"] :=
  ⟨S "a", S "a.m", S "a", S "a.m()", by decide +kernel⟩

/-- `C01_recorded_survives` / `C01_list_each` with a non-empty prefix. -/
example : getsOf (visitList env0 (S "m") [expr (nm "a")] (analyseInit root0 (P ["a", "b"]))) = some [S "a"] ∧
    getsOf (run ["a", "b"] ([expr (nm "a")] ++ [expr (nm "b")])) = some [S "a", S "b"] := by
  decide +kernel

/-- `C01_partial` applies to e.g. `if a.b[0] < *c: (x.y, {k: v.w})` (nested generic nodes). -/
example : simpleL [.other (S "If") [.other (S "Compare") [subs (att (nm "a") "b") .const, .starred (nm "c") .load],
    expr (.seq (S "Tuple") [att (nm "x") "y", .dict [nm "k"] [att (nm "v") "w"]] .load)]] = true := by
  decide

/-- the REAL plugin table satisfies `ModClean` for the module `m`. -/
example : ModClean env0 (S "m") := by unfold ModClean; decide

/-- a root context as a user has it: the plugin-target builtins, `from collections import
defaultdict`, plus ordinary functions, a class and an ordinary import. -/
def root1 : Context :=
  [root0.head! ++
    [(S "f", { kind := .func, name := S "f", callable := true, iface := some ⟨[], [S "p"], none, [], some (S "kw")⟩ }),
     (S "g", { kind := .func, name := S "g", callable := true, iface := some ⟨[], [S "p"], none, [], none⟩ }),
     (S "h", { kind := .func, name := S "h", callable := true, iface := some ⟨[], [S "p"], none, [], none⟩ }),
     (S "os", { kind := .import_, name := S "os", qual := S "os", modExists := true })]]

/-- its dirty keys are exactly the six plugin targets. -/
example : dirtyKeys env0 (S "m") root1 =
    [S "getattr", S "hasattr", S "setattr", S "delattr", S "sorted", S "defaultdict"] := by
  decide +kernel

/-- `x = f(a.b, k=c.d); z: t.T = a; for i in xs: y += g(i)
    with o.p(q) as w: del w.v; r = [e.f for e in es if e.g]; return Cls(x), h(y)` -/
def bodyWide : List Node :=
  [.assign [nm "x" .store] (callKw (nm "f") [att (nm "a") "b"] "k" (att (nm "c") "d")),
   .annAssign (nm "z" .store) (att (nm "t") "T") [nm "a"],
   .forLoop (nm "i" .store) (nm "xs") [.augAssign (nm "y" .store) (call (nm "g") [nm "i"])] [],
   .withStmt [.withitem (call (att (nm "o") "p") [nm "q"]) [nm "w" .store]]
     [.delete [att (nm "w") "v" .del]],
   .assign [nm "r" .store] (.comp (S "ListComp") [att (nm "e") "f"]
     [.gen (nm "e" .store) (nm "es") [att (nm "e") "g"]]),
   .ret [.seq (S "Tuple") [call (nm "Cls") [nm "x"], call (nm "h") [nm "y"]] .load]]

/-- `C01_partial_flow` is not vacuous under the REAL plugin table `env0`: `bodyWide` is in the full
fragment relative to the dirty keys of `root1`, its analysis succeeds (`Cls` is a class: the
class-instance `return` path is taken), and — as the theorem says — all 25 accesses of the spec are
present. -/
example : fragL (dirtyKeys env0 (S "m") root1) ⟨true, true, true⟩ bodyWide = true ∧
    (accessesL bodyWide).length = 25 ∧
    (accessesL bodyWide).all (fun a =>
      presentR a (analyse env0 (S "m") root1
        (P ["a", "c", "t", "xs", "y", "o", "q", "es"]) bodyWide)) = true := by decide +kernel

/-- a body calling `sorted(...)` / `getattr(...)` is (rightly) outside the fragment. -/
example : fragL (dirtyKeys env0 (S "m") root1) ⟨true, true, true⟩ bodySorted = false ∧
    fragL (dirtyKeys env0 (S "m") root1) ⟨true, true, true⟩ bodyDefaultdict = false := by
  decide +kernel

/-- the smaller fragments are inhabited too. -/
example : fragL (dirtyKeys env0 (S "m") root1) ⟨true, false, false⟩
      [expr (callKw (att (nm "a") "m") [att (nm "b") "c"] "k" (nm "d"))] = true ∧
    fragL (dirtyKeys env0 (S "m") root1) ⟨true, true, false⟩
      [.assign [nm "x" .store, .seq (S "Tuple") [nm "p" .store, nm "q" .store] .store]
        (call (nm "Cls") [nm "b"])] = true := by decide +kernel

/-- `C01_unnameable_base_visited` on `(a + b).x`. -/
example : (binOp (nm "a") (nm "b")).isNameable = false := rfl

end Rattr.C01

/-! ## Stage S4 inside the model: which callables get an IR, under which key, in which context
(`RattrModel/FileAnalyser.lean`, tied by op `analyse_file`, py/props/filestage.py)

"for every function, named lambda, class initialiser and static method that rattr analyses":
each such callable's entry is `FnA.analyse` of its body in the context AT THAT MOMENT, so every
theorem above about `analyse` applies to every entry of the FileIr. -/

namespace Rattr.C01
open Rattr Rattr.FnA Rattr.Strs Rattr.FileA Rattr.RootCtx

theorem tieA_fileAnalyser_visitors :
    FileA.sameMembers Generated.RC.fileAnalyserVisitors FileA.fileVisitors = true := by decide

theorem tieA_classAnalyser_visitors :
    FileA.sameMembers Generated.RC.classAnalyserVisitors FileA.classVisitors = true := by decide

/-- `fileAnalyser_skips_ignored`: a `def` decorated `rattr_ignore`, or whose name an exclusion
pattern matches, leaves the FileIr (and the whole state) untouched — it has no entry. -/
theorem fileAnalyser_skips_ignored (env : Env) (mn : Str) (f : Facts) (name : Str) (ps : Params)
    (body : List Node) (decos : List Ann.Deco) (a : Bool) (s : FState)
    (h : Ann.hasAnnotation Ann.nIgnore decos = .ok true ∨
         (Ann.hasAnnotation Ann.nIgnore decos = .ok false ∧ name ∈ f.excluded)) :
    visitTop env mn f (.funcDef name ps body decos a) s = .ok s := by
  rw [visitTop.eq_def]
  rcases h with h | ⟨h, hx⟩
  · exact visitFuncDef_ignored env mn f name ps body decos s h
  · exact visitFuncDef_excluded env mn f name ps body decos s h hx

/-- … and so does a whole class (its initialiser AND its static methods). -/
theorem fileAnalyser_skips_ignored_class (env : Env) (mn : Str) (f : Facts) (name : Str) (bases : List Node)
    (body : List Top) (decos : List Ann.Deco) (s : FState)
    (h : Ann.hasAnnotation Ann.nIgnore decos = .ok true ∨
         (Ann.hasAnnotation Ann.nIgnore decos = .ok false ∧ name ∈ f.excluded)) :
    visitTop env mn f (.classDef name bases body decos) s = .ok s := by
  rw [visitTop.eq_def]
  rcases h with h | ⟨h, hx⟩
  · exact visitClassDef_ignored env mn f name bases body decos s h
  · exact visitClassDef_excluded env mn f name bases body decos s h hx

/-- `fileAnalyser_uses_fnA` (module-level def): the entry is keyed by the `Func` the context holds
for the name and its IR is `FnA.analyse` of the body in the current context; the key is appended
to (or keeps its place in) the FileIr. -/
theorem fileAnalyser_uses_fnA (env : Env) (mn : Str) (f : Facts) (name : Str) (ps : Params) (body : List Node)
    (decos : List Ann.Deco) (a : Bool) (s : FState) (fn : Sym) (t : St)
    (hi : Ann.hasAnnotation Ann.nIgnore decos = .ok false) (hx : name ∉ f.excluded)
    (hfn : getFunc s.ctx name = some fn) (hr : Ann.hasAnnotation Ann.nResults decos = .ok false)
    (hc : analyserFor env mn (some fn) = none) (ht : FnA.analyse env mn s.ctx ps body = .ok t) :
    visitTop env mn f (.funcDef name ps body decos a) s = .ok (stored s fn t) ∧
    Dict.get? (stored s fn t).ir fn = some (FileA.irOf t) ∧
    Dict.keys s.ir <+: Dict.keys (stored s fn t).ir := by
  refine ⟨?_, ?_, ?_⟩
  · rw [visitTop.eq_def]; exact visitFuncDef_analysed env mn f name ps body decos s fn t hi hx hfn hr hc ht
  · exact Dict.get?_set_same s.ir fn (FileA.irOf t)
  · exact Dict.keys_set_prefix s.ir fn (FileA.irOf t)

/-- … named lambda -/
theorem fileAnalyser_uses_fnA_lambda (env : Env) (mn : Str) (f : Facts) (x : Str) (c : ECtx) (extra : List Node)
    (ps : Params) (body : Node) (s : FState) (fn : Sym) (t : St) (hfn : getFunc s.ctx x = some fn)
    (ht : FnA.analyse env mn s.ctx ps [body] = .ok t) :
    visitTop env mn f (.assign [.name x c] extra (some (.lam ps body))) s = .ok (stored s fn t) := by
  rw [visitTop.eq_def]; exact lambdaAssign_analysed env mn x c ps body s fn t hfn ht

/-- … static method: registered as `Func "C.m"` DURING the class visit, analysed in that context -/
theorem fileAnalyser_uses_fnA_static (env : Env) (mn : Str) (cls : Str) (m : Method) (s : FState) (cir : ClassIr)
    (k : FState → ClassIr → FOut) (t : St)
    (ht : FnA.analyse env mn (Context.add s.ctx (funcSym (cls ++ '.' :: m.name) m.ps.iface)) m.ps m.body = .ok t) :
    visitStatic env mn cls m s cir k =
      k { ctx := t.ctx, diags := s.diags ++ t.diags, ir := s.ir }
        (Dict.set cir (funcSym (cls ++ '.' :: m.name) m.ps.iface) (FileA.irOf t)) :=
  visitStatic_analysed env mn cls m s cir k t ht

/-- … class initialiser: the class symbol is replaced `with_init` first -/
theorem fileAnalyser_uses_fnA_init (env : Env) (mn : Str) (cls : Str) (decos : List Ann.Deco) (init : Method)
    (s : FState) (cir : ClassIr) (k : FState → ClassIr → FOut) (sy : Sym) (t : St)
    (hi : Ann.hasAnnotation Ann.nIgnore decos = .ok false) (hsy : getClass s.ctx cls = some sy)
    (hr : Ann.hasAnnotation Ann.nResults decos = .ok false)
    (ht : FnA.analyse env mn (updateSymbol s.ctx { sy with iface := some init.ps.iface, callable := true })
            init.ps init.body = .ok t) :
    visitInitialiser env mn cls decos init s cir k =
      k { ctx := t.ctx, diags := s.diags ++ t.diags, ir := s.ir }
        (Dict.set cir { sy with iface := some init.ps.iface, callable := true } (FileA.irOf t)) :=
  visitInitialiser_analysed env mn cls decos init s cir k sy t hi hsy hr ht

/-- `fileAnalyser_keys` (step form): the entries of a class are appended to the FileIr in the order
`ClassAnalyser` produced them; nothing already there is removed or reordered. -/
theorem fileAnalyser_keys_class_appended (ir : Dict Sym IR) (cir : ClassIr) :
    Dict.keys ir <+: Dict.keys (mergeClassIr ir cir) := mergeClassIr_prefix ir cir

/-- … and statements that define no callable contribute no key. -/
theorem fileAnalyser_keys_imports_none (env : Env) (mn : Str) (f : Facts) (a : List Alias) (s : FState) :
    visitTop env mn f (.importStmt a) s = .ok s := imports_contribute_nothing env mn f a s

def envF : Env := { ctxEnv := { prims := [], literals := [] }, analysers := [] }
def modF : List Top :=
  [.funcDef "f".toList ⟨[], ["a".toList], none, [], none⟩ [.ret [.attr (.name "a".toList .load) "x".toList .load]] [] false,
   .funcDef "g".toList ⟨[], [], none, [], none⟩ [] [⟨.named Ann.nIgnore, none⟩] false,
   .classDef "C".toList [] [.funcDef "sm".toList ⟨[], ["v".toList], none, [], none⟩ [] [⟨.named Ann.nStatic, none⟩] false] []]

/-- TEST (kernel evaluation of both stages on `def f(a): return a.x` / `@rattr_ignore def g()` /
`class C: @staticmethod def sm(v)`): keys `f`, `C.sm`, in order; `g` has no entry. -/
theorem fileAnalyser_test_keys :
    (match analyseFile envF "m".toList {} [] modF with
     | .ok (ir, _) => ir.map (fun p => p.1.name)
     | _ => []) = ["f".toList, "C.sm".toList] := by decide +kernel

end Rattr.C01

/-! ## Returned displays: `visit_Return` / `visit_ReturnValue` (its own traversal, not `generic_visit`) -/

namespace Rattr.C01
open Rattr Rattr.FnA Rattr.Strs Rattr.AccessSpec

/-- `return (e₁, …)` / `return [e₁, …]` / `return {e₁, …}`: the elements are handled one by one. -/
theorem C01_return_display_each (env : Env) (mn : Str) (kind : Str) (elts : List Node) (c : ECtx) (s : St) :
    visit env mn (.ret [.seq kind elts c]) s = visitReturnElts env mn elts s := visit_ret_seq env mn kind elts c s

/-- `return {k₁: v₁, **sp, …}`: the keys one by one, then ALL the values one by one. `vals` holds
the operand of every `**spread` too (it has no key: `keys.length ≤ vals.length`). -/
theorem C01_return_dict_each (env : Env) (mn : Str) (keys vals : List Node) (s : St) :
    visit env mn (.ret [.dict keys vals]) s =
      (visitReturnElts env mn keys s >>>= fun s => visitReturnElts env mn vals s) := visit_ret_dict env mn keys vals s

/-- the elements of a returned display are handled in order, none is skipped. -/
theorem C01_returnElts_each (env : Env) (mn : Str) (a b : List Node) (s : St) :
    visitReturnElts env mn (a ++ b) s = (visitReturnElts env mn a s >>>= fun s₁ => visitReturnElts env mn b s₁) :=
  visitReturnElts_append env mn a b s

/-- an element that is neither a display nor a call (a name chain, a BinOp, a comprehension, …) is
visited like anywhere else. -/
theorem C01_returnElt_plain_visited (env : Env) (mn : Str) (e : Node) (r : List Node) (s : St)
    (h : plainElt e = true) :
    visitReturnElts env mn (e :: r) s = (visit env mn e s >>>= fun s₁ => visitReturnElts env mn r s₁) :=
  visitReturnElts_plain env mn e r s h

/-- every value of a returned dict — keyed or the operand of a `**spread` — has all its accesses
reported (keys and values in the fragment `frag D F`, from any state satisfying the invariant). -/
theorem C01_return_dict_values_covered (env : Env) (mn : Str) (D : List Str) (F : Feat) (hm : ModClean env mn)
    (keys vals : List Node) (hf : F.flow = true) (hk : fragL D F keys = true) (hv : fragL D F vals = true)
    (s s' : St) (hI : Inv env mn D s) (h : visit env mn (.ret [.dict keys vals]) s = .ok s') :
    (∀ v ∈ vals, ∀ a ∈ accesses false v, present a s' = true) ∧
    (∀ k ∈ keys, ∀ a ∈ accesses false k, present a s' = true) := by
  have hn : frag D F (.ret [.dict keys vals]) = true := by simp [frag, hf, hk, hv]
  have hc := (C01_partial_visit env mn D F hm _ hn s s' hI h).2.1
  have e : accesses false (.ret [.dict keys vals]) = accessesL keys ++ accessesL vals := by
    simp [accesses, accessesL]
  rw [e] at hc
  exact ⟨fun v hv' a ha => hc a (List.mem_append_right _ (mem_accessesL hv' ha)),
         fun k hk' a ha => hc a (List.mem_append_left _ (mem_accessesL hk' ha))⟩

/-- … and every element of a returned tuple / list / set. -/
theorem C01_return_display_elements_covered (env : Env) (mn : Str) (D : List Str) (F : Feat) (hm : ModClean env mn)
    (kind : Str) (elts : List Node) (c : ECtx) (hf : F.flow = true) (he : fragL D F elts = true)
    (s s' : St) (hI : Inv env mn D s) (h : visit env mn (.ret [.seq kind elts c]) s = .ok s') :
    ∀ v ∈ elts, ∀ a ∈ accesses false v, present a s' = true := by
  have hn : frag D F (.ret [.seq kind elts c]) = true := by simp [frag, hf, he]
  have hc := (C01_partial_visit env mn D F hm _ hn s s' hI h).2.1
  have e : accesses false (.ret [.seq kind elts c]) = accessesL elts := by simp [accesses, accessesL]
  rw [e] at hc
  exact fun v hv' a ha => hc a (mem_accessesL hv' ha)

/-- `return {**base.defaults, k.name: v.value, **extra.overrides()}`: one key, three values. -/
def bodyReturnSpread : List Node :=
  [.ret [.dict [att (nm "k") "name"]
    [att (nm "base") "defaults", att (nm "v") "value", call (att (nm "extra") "overrides") []]]]

/-- `return [{**a.p}, ({**b.q},), {'k': {**a.r}}]`: spreads in dicts nested in list / tuple / dict value. -/
def bodyReturnNested : List Node :=
  [.ret [.seq (S "List") [.dict [] [att (nm "a") "p"], .seq (S "Tuple") [.dict [] [att (nm "b") "q"]] .load,
    .dict [.strConst (S "k")] [.dict [] [att (nm "a") "r"]]] .load]]

/-- TEST (kernel evaluation): both bodies are in the full fragment under the real plugin table, and
the operands of the spreads — `base.defaults`, the call `extra.overrides`, `a.p`, `b.q`, `a.r` — are
reported along with everything else the spec lists. -/
theorem C01_test_return_spread :
    fragL (dirtyKeys env0 (S "m") root1) ⟨true, true, true⟩ bodyReturnSpread = true ∧
    fragL (dirtyKeys env0 (S "m") root1) ⟨true, true, true⟩ bodyReturnNested = true ∧
    getsOf (analyse env0 (S "m") root1 (P ["base", "extra", "k", "v"]) bodyReturnSpread) =
      some [S "k.name", S "base.defaults", S "v.value"] ∧
    callsOf (analyse env0 (S "m") root1 (P ["base", "extra", "k", "v"]) bodyReturnSpread) = some [S "extra.overrides"] ∧
    (accessesL bodyReturnSpread).all (fun a =>
      presentR a (analyse env0 (S "m") root1 (P ["base", "extra", "k", "v"]) bodyReturnSpread)) = true ∧
    getsOf (analyse env0 (S "m") root1 (P ["a", "b"]) bodyReturnNested) = some [S "a.p", S "b.q", S "a.r"] := by
  decide +kernel

/-- `C01_return_dict_values_covered` is not vacuous: `bodyReturnSpread`'s dict from the initial state
(`ModClean`, the invariant, and success all hold). -/
example : ModClean env0 (S "m") ∧
    Inv env0 (S "m") (dirtyKeys env0 (S "m") root1) (analyseInit root1 (P ["base", "extra", "k", "v"])) ∧
    (getsOf (visitList env0 (S "m") bodyReturnSpread (analyseInit root1 (P ["base", "extra", "k", "v"])))).isSome = true := by
  refine ⟨by unfold ModClean; decide, ?_, by decide +kernel⟩
  haveI : ModCleanC env0 (S "m") := ⟨by unfold ModClean; decide⟩
  exact analyseInit_ctxAll (ctxAll_dirtyKeys env0 (S "m") root1) (P ["base", "extra", "k", "v"])

end Rattr.C01

/-! ## Class initialisers: an explicit `__init__` wins over every base-class heuristic -/

namespace Rattr.C01
open Rattr Rattr.FnA Rattr.Strs Rattr.FileA Rattr.RootCtx Rattr.AccessSpec

/-- a class with an `__init__`: `ClassAnalyser.analyse()` does not depend on the bases at all — the
Enum / NamedTuple default initialisers are only ever used for a class WITHOUT one. -/
theorem C01_initialiser_any_bases (env : Env) (mn : Str) (cls : Str) (bases bases' : List Node) (body : List Top)
    (decos : List Ann.Deco) (s : FState) (k : FState → ClassIr → FOut) (h : initsOf body ≠ []) :
    classAnalyse env mn cls bases body decos s k = classAnalyse env mn cls bases' body decos s k :=
  classAnalyse_bases_irrelevant env mn cls bases bases' body decos s k h

/-- the static-method loop only assigns `Func` keys: the entry of the class symbol survives it. -/
theorem C01_static_methods_keep_initialiser (env : Env) (mn : Str) (cls : Str) (key : Sym) (hkey : key.kind ≠ .func)
    (ms : List Method) (s : FState) (cir : ClassIr) (k : FState → ClassIr → FOut) (r : FState)
    (h : staticLoop env mn cls ms s cir k = .ok r) :
    ∃ s' cir', k s' cir' = .ok r ∧ Dict.get? cir' key = Dict.get? cir key := by
  obtain ⟨s', cir', hk, hg, _⟩ := staticLoop_preserves env mn cls key hkey ms s cir k r h
  exact ⟨s', cir', hk, hg⟩

/-- a module-level class (ANY bases) with a synchronous `__init__`, not ignored / excluded / declared:
after `FileAnalyser.visit_ClassDef` the FileIr maps the class symbol (carrying `__init__`'s
interface) to `FnA.analyse` of the initialiser's body, in the context as the class-body walk left it. -/
theorem C01_initialiser_entry (env : Env) (mn : Str) (f : Facts) (cls : Str) (bases : List Node) (body : List Top)
    (decos : List Ann.Deco) (s r : FState) (init : Method) (rest : List Method) (w : St) (sy : Sym) (t : St)
    (hinit : initsOf body = init :: rest) (hsync : init.isAsync = false)
    (hwalk : classWalkL cls (body.filter fun t => !isMethod t) { ctx := s.ctx } = .ok w)
    (hi : Ann.hasAnnotation Ann.nIgnore decos = .ok false) (hx : cls ∉ f.excluded)
    (hsy : getClass w.ctx cls = some sy)
    (hr : Ann.hasAnnotation Ann.nResults decos = .ok false)
    (ht : FnA.analyse env mn (updateSymbol w.ctx { sy with iface := some init.ps.iface, callable := true })
            init.ps init.body = .ok t)
    (h : visitTop env mn f (.classDef cls bases body decos) s = .ok r) :
    Dict.get? r.ir { sy with iface := some init.ps.iface, callable := true } = some (FileA.irOf t) := by
  rw [visitTop.eq_def] at h
  exact visitClassDef_init_entry env mn f cls bases body decos s r init rest w sy t hinit hsync hwalk hi hx hsy hr ht h

/-- … and, when the initialiser's body lies in the fragment of `C01_partial_flow`, that entry holds
every access of the body — for an `Enum` / `NamedTuple` subclass exactly as for a plain class. -/
theorem C01_initialiser_covered (env : Env) (mn : Str) (f : Facts) (cls : Str) (bases : List Node) (body : List Top)
    (decos : List Ann.Deco) (s r : FState) (init : Method) (rest : List Method) (w : St) (sy : Sym) (t : St)
    (hm : ModClean env mn)
    (hinit : initsOf body = init :: rest) (hsync : init.isAsync = false)
    (hwalk : classWalkL cls (body.filter fun t => !isMethod t) { ctx := s.ctx } = .ok w)
    (hi : Ann.hasAnnotation Ann.nIgnore decos = .ok false) (hx : cls ∉ f.excluded)
    (hsy : getClass w.ctx cls = some sy)
    (hr : Ann.hasAnnotation Ann.nResults decos = .ok false)
    (hb : fragL (dirtyKeys env mn (updateSymbol w.ctx { sy with iface := some init.ps.iface, callable := true }))
            ⟨true, true, true⟩ init.body = true)
    (ht : FnA.analyse env mn (updateSymbol w.ctx { sy with iface := some init.ps.iface, callable := true })
            init.ps init.body = .ok t)
    (h : visitTop env mn f (.classDef cls bases body decos) s = .ok r) :
    Dict.get? r.ir { sy with iface := some init.ps.iface, callable := true } = some (FileA.irOf t) ∧
    ∀ a ∈ accessesL init.body, present a t = true :=
  ⟨C01_initialiser_entry env mn f cls bases body decos s r init rest w sy t hinit hsync hwalk hi hx hsy hr ht h,
   analyse_cover hm hb ht⟩

/-- the `enum` documentation's `Planet`:
`class Planet(<bases>): EARTH = …; MARS = …; def __init__(self, spec): self.mass = spec.mass;
 self.radius = spec.size.radius; spec.register(self.mass); del spec.scratch` -/
def planetBody (withInit : Bool) : List Top :=
  [.assign [nm "EARTH" .store] [] (some .const), .assign [nm "MARS" .store] [] (some .const)] ++
  (if withInit then
    [.funcDef (S "__init__") (P ["self", "spec"])
      [.assign [att (nm "self") "mass" .store] (att (nm "spec") "mass"),
       .assign [att (nm "self") "radius" .store] (att (att (nm "spec") "size") "radius"),
       expr (call (att (nm "spec") "register") [att (nm "self") "mass"]),
       .delete [att (nm "spec") "scratch" .del]] [] false]
   else [])

def planetModule (bases : List Node) (withInit : Bool) : List Top :=
  [.classDef (S "Planet") bases (planetBody withInit) []]

/-- the FileIr entry of `Planet`: (interface args, gets, sets, dels, calls) -/
def planetEntry (bases : List Node) (withInit : Bool) : Option (List (List Str)) :=
  match analyseFile envF (S "m") {} [] (planetModule bases withInit) with
  | .ok ([(k, ir)], _) =>
    some [(k.iface.map (·.args)).getD [], ir.gets.map (·.full), ir.sets.map (·.full), ir.dels.map (·.full),
          ir.calls.map (·.name)]
  | _ => none

/-- TEST (kernel evaluation of S2 + S4): with the explicit initialiser the entry of `Planet` is the
same for the bases `Enum`, `enum.Enum`, `NamedTuple`, `(Enum, NamedTuple)` and no base at all — the
body of `__init__`; only WITHOUT an `__init__` do the heuristics produce the synthetic initialisers
(`(self, _id)` reading the members / `(self, <fields>)`). -/
theorem C01_test_planet :
    planetEntry [] true = some [[S "self", S "spec"], [S "spec.mass", S "spec.size.radius", S "self.mass"],
      [S "self.mass", S "self.radius"], [S "spec.scratch"], [S "spec.register"]] ∧
    planetEntry [nm "Enum"] true = planetEntry [] true ∧
    planetEntry [att (nm "enum") "Enum"] true = planetEntry [] true ∧
    planetEntry [nm "NamedTuple"] true = planetEntry [] true ∧
    planetEntry [nm "Enum", att (nm "typing") "NamedTuple"] true = planetEntry [] true ∧
    planetEntry [nm "Enum"] false = some [[S "self", S "_id"], [S "Planet.EARTH", S "Planet.MARS"], [], [], []] ∧
    planetEntry [nm "NamedTuple"] false = some [[S "self", S "EARTH", S "MARS"], [], [], [], []] ∧
    planetEntry [] false = none := by decide +kernel

/-- `C01_initialiser_any_bases` applies to `Planet`. -/
example : initsOf (planetBody true) ≠ [] := by decide

end Rattr.C01

/-! ## `match` statements (RattrModel/Match.lean): ten node classes, no visitor, one traversal -/

namespace Rattr.C01
open Rattr Rattr.FnA Rattr.Strs Rattr.AccessSpec Rattr.Match

/-- Tie A: the `visit_*` attributes of the real `FunctionAnalyser` are exactly the ones the model has a
case (or helper) for — a visitor added upstream breaks this obligation before any input is tried. -/
theorem tieA_functionAnalyser_visitors :
    FileA.sameMembers Generated.C01.functionAnalyserVisitors Match.dedicatedVisitors = true := by decide

/-- Tie A: none of `Match`, `match_case`, `MatchValue`, `MatchSingleton`, `MatchSequence`, `MatchMapping`,
`MatchClass`, `MatchStar`, `MatchAs`, `MatchOr` has a visitor: all of them are `generic_visit`ed. -/
theorem tieA_no_match_visitor :
    Match.kinds.all (fun k => !Generated.C01.functionAnalyserVisitors.contains (Match.visitorOf k)) = true := by
  decide

/-- a pattern — ANY pattern, nested to any depth — is visited as the list of the expressions it
evaluates, in source order: nothing a capture, `as`, star, or-, sequence, mapping or class pattern
wraps is skipped, and nothing else happens. -/
theorem C01_match_pattern_is_its_loads (env : Env) (mn : Str) (p : Pat) (s : St) :
    visit env mn (Match.node p) s = visitList env mn (Match.loads p) s := visit_node env mn p s

/-- `p as name` is visited exactly like `p`. -/
theorem C01_match_as_transparent (env : Env) (mn : Str) (p : Pat) (name : Option Str) (s : St) :
    visit env mn (Match.node (.as_ [p] name)) s = visit env mn (Match.node p) s := by
  rw [visit_node, visit_node, loads_as]

/-- `match subject: cases`: the subject, then per case the pattern's loads, the guard, the body. -/
theorem C01_match_stmt_each (env : Env) (mn : Str) (subject : Node) (cs : List MatchCase) (s : St) :
    visit env mn (Match.stmt subject cs) s =
      (visit env mn subject s >>>= fun s₁ => visitList env mn (Match.casesParts cs) s₁) :=
  visit_stmt env mn subject cs s

/-- the access spec sees a `match` statement the same way. -/
theorem C01_match_spec (subject : Node) (cs : List MatchCase) :
    accesses false (Match.stmt subject cs) = accesses false subject ++ accessesL (Match.casesParts cs) :=
  accesses_stmt subject cs

/-- a pattern whose evaluated expressions are dotted names / literals (`simple`: what the grammar of
value patterns, class patterns and mapping keys admits — the harness checks this for every generated
pattern): visiting it SUCCEEDS from every state and adds EXACTLY the accesses of those expressions. -/
theorem C01_match_pattern_exact (env : Env) (mn : Str) (p : Pat) (hp : simpleL (Match.loads p) = true) (s : St) :
    ∃ s', visit env mn (Match.node p) s = .ok s' ∧ Grows (accessesL (Match.loads p)) s s' := by
  obtain ⟨s', h, g⟩ := visit_simple env mn (Match.node p) (by rw [simple_node]; exact hp) s
  exact ⟨s', h, by rw [← accesses_node]; exact g⟩

/-- … and leaves the context as it was: the names in `Match.captures p` are NOT registered (their uses
in the guard / body are then diagnosed "potentially undefined": `C01_test_match_route`). -/
theorem C01_match_captures_not_registered (env : Env) (mn : Str) (p : Pat)
    (hp : simpleL (Match.loads p) = true) (s s' : St) (h : visit env mn (Match.node p) s = .ok s') :
    s'.ctx = s.ctx ∧ s'.calls = s.calls := by
  obtain ⟨t, ht, g⟩ := C01_match_pattern_exact env mn p hp s
  rw [h] at ht
  cases ht
  exact ⟨g.ctx, g.calls⟩

/-- a `match` statement whose subject, pattern loads, guards and bodies lie in the fragment of
`C01_partial_flow`: given success, every access of the subject, of every expression a pattern
evaluates (under however many `as` / or / sequence / mapping / class patterns), of every guard and of
every body statement is reported. -/
theorem C01_match_covered (env : Env) (mn : Str) (D : List Str) (F : Feat) (hm : ModClean env mn)
    (subject : Node) (cs : List MatchCase) (hs : frag D F subject = true)
    (hc : fragL D F (Match.casesParts cs) = true) (s s' : St) (hI : Inv env mn D s)
    (h : visit env mn (Match.stmt subject cs) s = .ok s') :
    (∀ a ∈ accesses false subject, present a s' = true) ∧
    ∀ c ∈ cs, (∀ e ∈ Match.loads c.pat, ∀ a ∈ accesses false e, present a s' = true) ∧
              (∀ g ∈ c.guard, ∀ a ∈ accesses false g, present a s' = true) ∧
              (∀ b ∈ c.body, ∀ a ∈ accesses false b, present a s' = true) := by
  have hn : frag D F (Match.stmt subject cs) = true := by rw [frag_stmt, hs, hc]; rfl
  have hcov := (C01_partial_visit env mn D F hm _ hn s s' hI h).2.1
  rw [accesses_stmt] at hcov
  refine ⟨fun a ha => hcov a (List.mem_append_left _ ha), fun c hcm => ?_⟩
  have part : ∀ n ∈ Match.caseParts c, ∀ a ∈ accesses false n, present a s' = true := fun n hn a ha =>
    hcov a (List.mem_append_right _ (mem_accessesL (mem_casesParts hcm hn) ha))
  refine ⟨fun e he => part e ?_, fun g hg => part g ?_, fun b hb => part b ?_⟩
  · exact List.mem_append_left _ he
  · exact List.mem_append_right _ (List.mem_append_left _ hg)
  · exact List.mem_append_right _ (List.mem_append_right _ hb)

/-- the seeded change C01-m7's witness:
`match cmd.kind:
   case cfg.START as k: return k.n
   case (cfg.STOP | cfg.PAUSE) as k: return k
   case cfg.Point(x=0, y=[first, *rest]) as p if cfg.enabled: return p.q, first, rest
   case {cfg.KEY: v, **others}: return v.z` -/
def routeCases : List MatchCase :=
  [⟨.as_ [.value (att (nm "cfg") "START")] (some (S "k")), [], [.ret [att (nm "k") "n"]]⟩,
   ⟨.as_ [.or_ [.value (att (nm "cfg") "STOP"), .value (att (nm "cfg") "PAUSE")]] (some (S "k")), [], [.ret [nm "k"]]⟩,
   ⟨.as_ [.cls (att (nm "cfg") "Point") [] [S "x", S "y"]
       [.value .const, .sequence [.as_ [] (some (S "first")), .star (some (S "rest"))]]] (some (S "p")),
     [att (nm "cfg") "enabled"],
     [.ret [.seq (S "Tuple") [att (nm "p") "q", nm "first", nm "rest"] .load]]⟩,
   ⟨.mapping [att (nm "cfg") "KEY"] [.as_ [] (some (S "v"))] (some (S "others")), [], [.ret [att (nm "v") "z"]]⟩]

def bodyRoute : List Node := [Match.stmt (att (nm "cmd") "kind") routeCases]

def undefinedOf : Res → List Str
  | .ok s => (s.diags.filter (fun d => d.tmpl == S "undefined")).map (·.arg)
  | _ => []

/-- TEST (kernel evaluation): every load under every `as` is reported; the captured names are not in
the context (each first use is diagnosed); the statement is in the full fragment and the spec's 13
accesses are all present. -/
theorem C01_test_match_route :
    getsOf (run ["cmd", "cfg"] bodyRoute) =
      some [S "cmd.kind", S "cfg.START", S "k.n", S "cfg.STOP", S "cfg.PAUSE", S "k", S "cfg.Point", S "cfg.enabled",
            S "p.q", S "first", S "rest", S "cfg.KEY", S "v.z"] ∧
    undefinedOf (run ["cmd", "cfg"] bodyRoute) = [S "k", S "k", S "p", S "first", S "rest", S "v"] ∧
    (routeCases.map (fun c => Match.captures c.pat)) =
      [[S "k"], [S "k"], [S "first", S "rest", S "p"], [S "v", S "others"]] ∧
    fragL (dirtyKeys env0 (S "m") root1) ⟨true, true, true⟩ bodyRoute = true ∧
    (accessesL bodyRoute).length = 13 ∧
    (accessesL bodyRoute).all (fun a => presentR a (run ["cmd", "cfg"] bodyRoute)) = true := by decide +kernel

/-- `C01_match_pattern_exact` / `_captures_not_registered` apply to every pattern of `routeCases`;
`C01_match_covered`'s hypotheses hold for the statement (success: `C01_test_match_route`). -/
example : routeCases.all (fun c => simpleL (Match.loads c.pat)) = true ∧
    frag (dirtyKeys env0 (S "m") root1) ⟨true, true, true⟩ (att (nm "cmd") "kind") = true ∧
    fragL (dirtyKeys env0 (S "m") root1) ⟨true, true, true⟩ (Match.casesParts routeCases) = true := by decide +kernel

end Rattr.C01

/-! ## Star imports: the root context a function is analysed in after `expand_starred_imports`
(RattrModel/Pipeline2.lean `expandLoop` / `rootOf` / `analyseAt`; correspondence: py/props/c01star.py,
ops `star_root` / `star_file`)

`compile_root_context` puts the Python builtins into EVERY module's root context, also into the one
`expand_starred_imports` compiles for a star-imported local module, and the expansion offers every
symbol of that context to the importing file as an `Import("<module>.<name>")`. The custom analysers
of the getattr family / `sorted` / `defaultdict` are found through the importing file's OWN bindings
of those names (`custom_analyser_for_target` → `get_call_target` → `plugins.get_analyser`). The
theorems below say that the expansion — the model's `Context.add`, for ALL projects, files, queues —
never changes what an already bound name denotes, hence never changes which custom analyser a call
is dispatched to. -/

namespace Rattr.C01
open Rattr Rattr.FnA Rattr.Strs Rattr.AccessSpec Rattr.RootCtx Rattr.Pipeline2

/-- one `self.add(Import(name=symbol.name, …))` of the expansion keeps every bound plain name. -/
theorem C01_star_symbol_keeps_bound (P : Project) (q : Str) (c : Context) (y : Sym) (x : Str) (v : Sym)
    (hx : x.getLast? ≠ some '*') (h : Context.get? c x = some v) :
    Context.get? (addStarSym P q c y) x = some v := C01Star.get?_addStarSym_of_bound P q c y x v hx h

/-- the whole BFS over the star-imported files (any fuel, queue, `seen`): what the importing
context binds before is what it binds afterwards. -/
theorem C01_star_expansion_keeps_bound (P : Project) (fuel : Nat) (queue : List Sym) (seen : List Str)
    (s r : St) (x : Str) (v : Sym) (hx : x.getLast? ≠ some '*')
    (h : expandLoop P fuel queue seen s = .ok r) (hb : Context.get? s.ctx x = some v) :
    Context.get? r.ctx x = some v := C01Star.expandLoop_keeps P x v hx fuel queue seen s r h hb

/-- `compile_root_context(ast).expand_starred_imports()` of a file: every name its own root context
binds (builtins, its imports, its definitions) keeps its symbol. -/
theorem C01_star_root_keeps_bound (P : Project) (f : SrcFile) (r0 r : St) (x : Str) (v : Sym)
    (hx : x.getLast? ≠ some '*')
    (h0 : RootCtx.compile (factsOf P f) P.builtins f.body = .ok r0) (h : rootOf P f = .ok r)
    (hb : Context.get? r0.ctx x = some v) : Context.get? r.ctx x = some v :=
  C01Star.rootOf_keeps P f r0 r x v hx h0 h hb

/-- a callee spelled as a plain name -/
def plainCallee (callee : Str) : Bool :=
  removeChar (withoutCallBrackets callee) '*' == callee && !startsWith callee ['@'] &&
    !containsSub callee (lit "[]") && callee.getLast? != some '*'

/-- … hence the custom analyser a call to a plain bound name is dispatched to
(`custom_analyser_for_target`) is the same before and after the star expansion. -/
theorem C01_star_keeps_plugin_dispatch (P : Project) (f : SrcFile) (r0 r : St) (mn callee : Str) (t : Sym) (b : Bool)
    (hp : plainCallee callee = true)
    (h0 : RootCtx.compile (factsOf P f) P.builtins f.body = .ok r0) (h : rootOf P f = .ok r)
    (hb : Context.get? r0.ctx callee = some t) :
    analyserFor P.env mn (Context.getCallTarget P.env.ctxEnv r.ctx callee b false).1 = analyserFor P.env mn (some t) := by
  simp only [plainCallee, Bool.and_eq_true, beq_iff_eq, Bool.not_eq_true', bne_iff_ne, ne_eq] at hp
  obtain ⟨⟨⟨h1, h2⟩, h3⟩, h4⟩ := hp
  rw [C01Star.getCallTarget_bound _ _ _ t b false h1 h2 h3 (C01Star.rootOf_keeps P f r0 r callee t h4 h0 h hb)]

/-- the five builtins with a custom analyser -/
def builtinPlugins : List Str := [S "getattr", S "hasattr", S "setattr", S "delattr", S "sorted"]

/-- In particular: in a file whose own root context binds `getattr` / `hasattr` / `setattr` / `delattr` /
`sorted` to the builtin, a call to it is handled by its custom analyser after ANY star expansion — whatever the
star-imported modules contain (their own builtins, a `def getattr`, further stars). -/
theorem C01_star_builtin_plugins_dispatched (P : Project) (f : SrcFile) (r0 r : St) (mn n : Str) (b : Bool)
    (hn : n ∈ builtinPlugins) (ha : P.env.analysers.contains n = true)
    (h0 : RootCtx.compile (factsOf P f) P.builtins f.body = .ok r0) (h : rootOf P f = .ok r)
    (hb : Context.get? r0.ctx n = some (builtinSym n)) :
    analyserFor P.env mn (Context.getCallTarget P.env.ctxEnv r.ctx n b false).1 = some n := by
  have hp : plainCallee n = true := by
    simp only [builtinPlugins, List.mem_cons, List.not_mem_nil, or_false] at hn
    rcases hn with rfl | rfl | rfl | rfl | rfl <;> decide
  rw [C01_star_keeps_plugin_dispatch P f r0 r mn n (builtinSym n) b hp h0 h hb]
  have ha' : n ∈ P.env.analysers := by simpa using ha
  simp [analyserFor, builtinSym, ha']

/-! ### kernel-evaluated project: `helpers.py` + `target.py` with `from helpers import *` -/

def starAlias : Alias := ⟨['*'], none⟩

/-- `helpers.py`: `def normalise(value): return value.strip` -/
def helpersFile : SrcFile :=
  { origin := S "/p/helpers.py", derived := some (S "helpers"),
    body := [.funcDef (S "normalise") ⟨[], [S "value"], none, [], none⟩ [.ret [att (nm "value") "strip"]] [] false] }

/-- `target.py`: `from helpers import *` / `def configure(obj, src): setattr(obj, "mode", src.mode);
delattr(obj.cache, "stale"); return getattr(src.inner, "label")` -/
def starTarget : SrcFile :=
  { origin := S "target.py", derived := some (S "target"),
    body := [.importFrom (some (S "helpers")) 0 [starAlias] [] false true,
             .funcDef (S "configure") ⟨[], [S "obj", S "src"], none, [], none⟩
               [expr (call (nm "setattr") [nm "obj", .strConst (S "mode"), att (nm "src") "mode"]),
                expr (call (nm "delattr") [att (nm "obj") "cache", .strConst (S "stale")]),
                .ret [call (nm "getattr") [att (nm "src") "inner", .strConst (S "label")]]] [] false] }

def starProject : Project :=
  { env := env0, builtins := builtinPlugins ++ [S "list"],
    mods := [(S "helpers", { originFound := true, modExists := true })],
    quals := [(S "helpers", { module := some (S "helpers"), origin := some (S "/p/helpers.py") })],
    target := starTarget, files := [helpersFile] }

def boundTo (r : Res) (x : String) : Option (SymKind × Str) :=
  match r with
  | .ok s => (Context.get? s.ctx (S x)).map fun t => (t.kind, t.qual)
  | _ => none

def entryOf (o : FileA.FOut) (fn : String) : Option (List Str × List Str × List Str × List Str) :=
  match o with
  | .ok s => (s.ir.find? fun p => p.1.name == S fn).map fun p =>
      (p.2.gets.map (·.full), p.2.sets.map (·.full), p.2.dels.map (·.full), p.2.calls.map (·.name))
  | _ => none

/-- TEST (kernel evaluation of the model of the whole route: root context of `target.py`, the walk over
`helpers.py`, `Context.add` per re-exported symbol, the file walk): `normalise` arrives as
`Import("helpers.normalise")`, `getattr` stays the builtin although `helpers`' root context offers
`helpers.getattr`, and `configure` has the set `obj.mode`, the del `obj.cache.stale` and the get
`src.inner.label` (the value argument `src.mode` of `setattr` is the known `C01_cex_xattr_extra_argument`). -/
theorem C01_test_star_project :
    boundTo (rootOf starProject starTarget) "normalise" = some (.import_, S "helpers.normalise") ∧
    boundTo (rootOf starProject starTarget) "getattr" = some (.builtin, []) ∧
    boundTo (rootOf starProject starTarget) "setattr" = some (.builtin, []) ∧
    entryOf (analyseAt starProject starTarget) "configure" =
      some ([S "obj", S "obj.cache", S "src.inner.label", S "src.inner", S "src"],
            [S "obj.mode"], [S "obj.cache.stale"], []) := by decide +kernel

/-- the expansion with `symbol_table.add` (plain overwrite) in place of `Context.add` — NOT the code -/
def overwriteStarSym (P : Project) (q : Str) (c : Context) (y : Sym) : Context :=
  let n := pyName y
  let qual := q ++ '.' :: n
  setSym c { kind := .import_, name := if n = ['*'] then qual ++ ".*".toList else n, callable := true,
             iface := y.iface, qual := qual, modExists := (Dict.get? P.mods qual).getD {} |>.modExists }

/-- TEST: the theorems above are about `Context.add` and nothing weaker — with a plain overwrite the
same project rebinds `getattr` to `Import("helpers.getattr")`, for which no custom analyser is registered. -/
theorem C01_test_star_overwrite_would_lose_plugins :
    (match RootCtx.compile (factsOf starProject helpersFile) starProject.builtins helpersFile.body,
           RootCtx.compile (factsOf starProject starTarget) starProject.builtins starTarget.body with
     | .ok h, .ok t =>
       let c := (scopeSyms h.ctx).foldl (overwriteStarSym starProject (S "helpers")) t.ctx
       ((Context.get? c (S "getattr")).map fun s => (s.kind, s.qual),
        analyserFor env0 (S "target") (Context.getCallTarget env0.ctxEnv c (S "getattr") false false).1)
     | _, _ => (none, none)) = (some (.import_, S "helpers.getattr"), none) := by decide +kernel

/-- the hypotheses of `C01_star_builtin_plugins_dispatched` hold for the project above. -/
example : (match RootCtx.compile (factsOf starProject starTarget) starProject.builtins starTarget.body with
    | .ok r0 => builtinPlugins.all fun n => Context.get? r0.ctx n == some (builtinSym n)
    | _ => false) = true ∧ builtinPlugins.all (fun n => starProject.env.analysers.contains n) = true := by decide +kernel

end Rattr.C01

import RattrModel.FnAnalyser
namespace Rattr.C02
theorem placeholder : True := trivial
end Rattr.C02

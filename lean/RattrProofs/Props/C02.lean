/-
  C02 — nothing is reported that the body does not do (no phantom name, right kind).

  Model: `FnA.visit … / FnA.analyse` (RattrModel/FnAnalyser.lean). Spec: `AccessSpec`
  (RattrProofs/Lemmas/VisitSpec.lean) + the justification rules below.

  C02 is believed to HOLD on the pinned code; no counterexample is known. Proved here, for all
  inputs:
    * `C02_kind_by_ctx`: `update_results` touches exactly the set selected by the expression
      context and adds exactly the given name;
    * `C02_name_spelling`: visiting a name chain adds exactly its README spelling (with its root
      identifier as basename) to exactly the set of its context, and nothing else anywhere;
    * `C02_fresh_ir`, `C02_scope_balance`: `analyse` starts from the empty IR in a fresh scope
      (a function of `(env, mn, root, ps, body)` only) and returns a context as deep as `root`;
    * `C02_receiver_prefixes`: the receiver-prefix rule only adds dotted prefixes (≥ 2 components,
      strictly shorter than the callee name) with the first component as basename.
    * `C02_partial`: the full upper bound on the fragment "generic nodes over pure chains".
  NOT proved: `C02_full` itself (the upper bound for every constructor). It needs the invariant
  "everything in the IR is justified by the part of the body visited so far" carried through the
  whole mutual block, exactly like `visit_mono` in Lemmas/Visit.lean carries `StLe`; the
  per-constructor facts above are the leaves of that induction.
-/
import RattrProofs.Lemmas.Visit
import RattrProofs.Lemmas.VisitSpec

namespace Rattr.C02
open Rattr Rattr.FnA Rattr.Strs Rattr.AccessSpec

/-! ### full statement -/

mutual
/-- every nameable node ANYWHERE in the sub-tree (inner links of chains, callee expressions and
nested scopes included): names with the kind of their ctx, calls as kind `call`. -/
def occ : Node → List Access
  | .name id c => [⟨kindOf c, id, id⟩]
  | .attr v a c => ⟨kindOf c, spell (.attr v a c), baseOf v⟩ :: occ v
  | .sub v sl c => ⟨kindOf c, spell (.sub v sl c), baseOf v⟩ :: occ v ++ occ sl
  | .starred v c => ⟨kindOf c, spell (.starred v c), baseOf v⟩ :: occ v
  | .call f args _ kwv => ⟨.call, withoutCallBrackets (spell f), baseOf f⟩ :: occ f ++ occL args ++ occL kwv
  | .lam _ body => occ body
  | .comp _ elts gens => occL gens ++ occL elts
  | .gen t it ifs => occ t ++ occ it ++ occL ifs
  | .walrus t v => occ t ++ occ v
  | .strConst _ => []
  | .const => []
  | .seq _ elts _ => occL elts
  | .dict ks vs => occL ks ++ occL vs
  | .assign ts v => occL ts ++ occ v
  | .annAssign t ann v => occ t ++ occ ann ++ occL v
  | .augAssign t v => occ t ++ occ v
  | .delete ts => occL ts
  | .forLoop t it body orelse => occ t ++ occ it ++ occL body ++ occL orelse
  | .withStmt items body => occL items ++ occL body
  | .withitem ce vars => occ ce ++ occL vars
  | .funcDef _ _ body => occL body
  | .classDef _ => []
  | .ret v => occL v
  | .forbidden _ => []
  | .other _ kids => occL kids
def occL : List Node → List Access
  | [] => []
  | n :: r => occ n ++ occL r
end

/-- `p` is a dotted prefix of `name` with at least 2 components and strictly fewer than `name`. -/
def IsReceiverPrefix (p name : Str) : Prop :=
  ∃ i, 2 ≤ i ∧ i < (splitDot name).length ∧ p = joinDot ((splitDot name).take i)

/-- the callee names of the custom-analysed calls (plugins) of the pinned code. -/
def pluginCallees : List Str :=
  ["getattr".toList, "hasattr".toList, "setattr".toList, "delattr".toList, "sorted".toList,
   "defaultdict".toList, "collections.defaultdict".toList]

/-- a reported `(kind, name)` is justified by the body. The last disjunct is deliberately coarse
(and NAMED): "the body contains a call to a custom-analysed callee" stands for the three plugin
derivations (getattr-family target and its prefixes; `sorted(xs, key=lambda x: x.k)` ↦ `xs.k`;
`defaultdict(factory)` ↦ call `factory`) that DESIGN §5 lists as separate disjuncts. -/
def Justified (body : List Node) (k : Kind) (n : Str) : Prop :=
  (∃ a ∈ occL body, a.kind = k ∧ a.name = n) ∨                                      -- (occ)
  (k = .get ∧ ∃ a ∈ occL body, a.kind = .call ∧ IsReceiverPrefix n a.name) ∨         -- (prefix)
  ((removeChar n '*').head? = some '@') ∨                                            -- (standin)
  (∃ a ∈ occL body, a.kind = .call ∧ a.name ∈ pluginCallees)                         -- (plugin)

def C02_full : Prop :=
  ∀ (env : Env) (mn : Str) (root : Context) (ps : Params) (body : List Node) (s' : St),
    analyse env mn root ps body = .ok s' →
      (∀ x ∈ s'.gets, Justified body .get x.full) ∧ (∀ x ∈ s'.sets, Justified body .set x.full) ∧
      (∀ x ∈ s'.dels, Justified body .del x.full) ∧ (∀ c ∈ s'.calls, Justified body .call c.name)

/-! ### `update_results` -/

/-- the set an expression context selects. -/
def irOf (c : ECtx) (s : St) : List NameS :=
  match c with
  | .load => s.gets
  | .store => s.sets
  | .del => s.dels

/-- `update_results(name, ctx)`: the set selected by `ctx` gains exactly `n`; every other
component of the state (the two other sets, calls, context, diagnostics) is unchanged. -/
theorem C02_kind_by_ctx (s : St) (n : NameS) (c : ECtx) :
    (∀ x, x ∈ irOf c (updateResults s n c) ↔ x ∈ irOf c s ∨ x = n) ∧
    (∀ c', c' ≠ c → irOf c' (updateResults s n c) = irOf c' s) ∧
    (updateResults s n c).calls = s.calls ∧ (updateResults s n c).ctx = s.ctx ∧
    (updateResults s n c).diags = s.diags := by
  cases c <;>
    refine ⟨fun x => mem_addTo, fun c' hc' => ?_, rfl, rfl, rfl⟩ <;>
    cases c' <;> first | rfl | exact absurd rfl hc'

/-! ### chains -/

/-- visiting a name chain adds exactly `⟨chainSpell n, chainBase n⟩` to exactly the set of its
context; calls and context are untouched; when the root identifier is known to the context no
diagnostic is emitted either. -/
theorem C02_name_spelling (env : Env) (mn : Str) (n : Node) (hn : isChain n = true) (s s' : St)
    (h : visit env mn n s = .ok s') :
    (∀ c x, x ∈ irOf c s' ↔ x ∈ irOf c s ∨ (c = chainCtx n ∧ x = ⟨chainSpell n, chainBase n⟩)) ∧
    s'.calls = s.calls ∧ s'.ctx = s.ctx ∧
    (Context.contains s.ctx (chainBase n) = true → s'.diags = s.diags) := by
  rw [visit_chain env mn n hn s] at h
  injection h with h
  subst h
  obtain ⟨hx, hg, hs, hd, hc⟩ := warnUndef_ir s (chainBase n) (chainCtx n)
  have hk := C02_kind_by_ctx (warnUndef s (chainBase n) (chainCtx n)) ⟨chainSpell n, chainBase n⟩ (chainCtx n)
  have hir : ∀ c, irOf c (warnUndef s (chainBase n) (chainCtx n)) = irOf c s := by
    intro c; cases c <;> simp [irOf, hg, hs, hd]
  refine ⟨fun c x => ?_, by rw [hk.2.2.1, hc], by rw [hk.2.2.2.1, hx], fun hdecl => ?_⟩
  · by_cases hcc : c = chainCtx n
    · subst hcc
      rw [hk.1 x, hir]
      simp
    · rw [hk.2.1 c hcc, hir]
      simp [hcc]
  · rw [hk.2.2.2.2, warnUndef_declared s _ _ hdecl]

/-! ### freshness and scope balance -/

/-- `analyse` is a function of `(env, mn, root, ps, body)` only: it runs the body from the EMPTY
IR in a freshly pushed scope holding the parameters — nothing of any other callable's analysis
enters. -/
theorem C02_fresh_ir (env : Env) (mn : Str) (root : Context) (ps : Params) (body : List Node) :
    analyse env mn root ps body =
      (visitList env mn body (analyseInit root ps) >>>= fun s => .ok { s with ctx := Context.pop s.ctx }) ∧
    (analyseInit root ps).gets = [] ∧ (analyseInit root ps).sets = [] ∧
    (analyseInit root ps).dels = [] ∧ (analyseInit root ps).calls = [] ∧
    (analyseInit root ps).diags = [] ∧ (analyseInit root ps).ctx.length = root.length + 1 :=
  ⟨rfl, rfl, rfl, rfl, rfl, rfl, analyseInit_ctx_length root ps⟩

/-- scope balance: every scope the visitor pushes (lambda, comprehension, nested def, plugin
sub-analysers) is popped again — the returned context is as deep as `root`. Proved through the
whole mutual block (`visit_mono`). -/
theorem C02_scope_balance (env : Env) (mn : Str) (root : Context) (ps : Params) (body : List Node)
    (s' : St) (h : analyse env mn root ps body = .ok s') : s'.ctx.length = root.length := by
  obtain ⟨_, _, _, _, hl⟩ := analyse_inv h
  exact hl

/-- the same for any sub-tree visited in a non-empty context. -/
theorem C02_scope_balance_visit (env : Env) (mn : Str) (n : Node) (s s' : St) (hs : s.ctx ≠ [])
    (h : visit env mn n s = .ok s') : s'.ctx.length = s.ctx.length :=
  (visit_mono env mn n s s' h).depth hs

/-! ### the receiver-prefix rule -/

theorem mem_drop_one_range {n j : Nat} (h : j ∈ (List.range n).drop 1) : 1 ≤ j ∧ j < n := by
  obtain ⟨i, hi, rfl⟩ := List.mem_iff_getElem.mp h
  simp at hi ⊢
  omega

/-- every name the rule `a.b.c()` ↦ gets `a.b` adds is a dotted prefix of the callee name with at
least 2 components, strictly shorter than the callee name (i.e. a prefix of the receiver), and its
basename is the first component. -/
theorem C02_receiver_prefixes (fullname : Str) (x : NameS) (hx : x ∈ receiverPrefixes fullname) :
    IsReceiverPrefix x.full (withoutCallBrackets fullname) ∧
    (splitDot (withoutCallBrackets fullname)).head? = some x.base := by
  unfold receiverPrefixes at hx
  simp only at hx
  unfold IsReceiverPrefix
  generalize splitDot (withoutCallBrackets fullname) = comps at hx ⊢
  cases hp : comps.dropLast with
  | nil => rw [hp] at hx; simp at hx
  | cons p0 r =>
    rw [hp] at hx
    simp only at hx
    obtain ⟨j, hj, rfl⟩ := List.mem_map.mp hx
    obtain ⟨h1, h2⟩ := mem_drop_one_range hj
    have hlen : comps.dropLast.length = comps.length - 1 := List.length_dropLast
    rw [hp] at hlen
    refine ⟨⟨j + 1, by omega, by omega, ?_⟩, ?_⟩
    · simp only
      rw [← hp, List.dropLast_eq_take, List.take_take]
      congr 2
      omega
    · simp only
      match comps, hp with
      | a :: b :: r', hp =>
        simp only [List.dropLast, List.cons.injEq] at hp
        simp [hp.1]

/-! ### the upper bound on a fragment -/

/-- C02 on the fragment "generic nodes over pure chains" (`AccessSpec.simple`, see `C01_partial`):
every reported name is — with its kind and its basename — an access the spec lists for the body,
and no call is reported. (Together with `C01_partial`: on this fragment the IR is EXACTLY the
spec's access list.) -/
theorem C02_partial (env : Env) (mn : Str) (root : Context) (ps : Params) (body : List Node)
    (hb : simpleL body = true) (s' : St) (h : analyse env mn root ps body = .ok s') :
    (∀ x ∈ s'.gets, (⟨.get, x.full, x.base⟩ : Access) ∈ accessesL body) ∧
    (∀ x ∈ s'.sets, (⟨.set, x.full, x.base⟩ : Access) ∈ accessesL body) ∧
    (∀ x ∈ s'.dels, (⟨.del, x.full, x.base⟩ : Access) ∈ accessesL body) ∧ s'.calls = [] := by
  obtain ⟨u, hu, g⟩ := visitList_simple env mn body hb (analyseInit root ps)
  rw [analyse_eq, hu] at h
  injection h with h
  subst h
  refine ⟨fun x hx => ?_, fun x hx => ?_, fun x hx => ?_, g.calls⟩
  · rcases (g.gets x).mp hx with h0 | h0
    · cases h0
    · exact h0
  · rcases (g.sets x).mp hx with h0 | h0
    · cases h0
    · exact h0
  · rcases (g.dels x).mp hx with h0 | h0
    · cases h0
    · exact h0

/-! ### non-vacuity -/

/-- `a.b.c.d()` adds `a.b` and `a.b.c`, both with basename `a`. -/
example : receiverPrefixes "a.b.c.d()".toList =
    [⟨"a.b".toList, "a".toList⟩, ⟨"a.b.c".toList, "a".toList⟩] := by decide +kernel

/-- `C02_name_spelling` on `del a.b[0]` from the state `analyse` starts with. -/
example : ∃ s', visit ⟨⟨[], []⟩, []⟩ [] (.sub (.attr (.name ['a'] .load) ['b'] .load) .const .del)
    (analyseInit [] ⟨[], [['a']], none, [], none⟩) = .ok s' := ⟨_, visit_chain _ _ _ (by decide) _⟩

end Rattr.C02

/-
  C02 — nothing is reported that the body does not do (no phantom name, right kind).

  Model: `FnA.visit … / FnA.analyse` (RattrModel/FnAnalyser.lean). Spec: the occurrence list
  `Justify.occL` and the inductive `Justify.Justified` (RattrProofs/Lemmas/VisitJust.lean): one
  constructor per documented derivation (spelled occurrence of the right kind / receiver prefix /
  getattr-family target or prefix) plus the two plugin derivations written out precisely
  (`sortedSubst`, `defaultdictFactory`).

  C02 HOLDS on the pinned code: `C02_full_holds` — for EVERY body (every constructor, every
  context, every plugin), every name `analyse` returns under gets / sets / dels / calls is
  `Justified`. The proof carries the invariant `Justify.Just body` ("everything recorded so far is
  justified") through the whole mutual visitor block (`Justify.visit_just …`), exactly like
  `visit_mono` carries `StLe`.
  Also proved, for all inputs:
    * `C02_kind_by_ctx`: `update_results` touches exactly the set selected by the expression
      context and adds exactly the given name;
    * `C02_name_spelling`: visiting a name chain adds exactly its README spelling (with its root
      identifier as basename) to exactly the set of its context, and nothing else anywhere;
    * `C02_fresh_ir`, `C02_scope_balance`: `analyse` starts from the empty IR in a fresh scope
      (a function of `(env, mn, root, ps, body)` only) and returns a context as deep as `root`;
    * `C02_receiver_prefixes`: the receiver-prefix rule only adds dotted prefixes (≥ 2 components,
      strictly shorter than the callee name) with the first component as basename;
    * `C02_partial`: on the fragment "generic nodes over pure chains" the IR is exactly the
      spec's access list;
    * `C02_strict_cex_*`: without the two plugin disjuncts the statement would be false
      (by-design derivations outside the property's documented list).
  CLASS ENTRIES (model: `FileA.classAnalyse`, `FileA.visitEnum`; lemmas: Lemmas/ClassEntries.lean).
  The synthetic initialiser of an Enum-by-heuristic class without `__init__` has no body; its gets
  are the `Name`s of the SHARED symbol table that start with `<Class>.` [interp: `heuristicInit` —
  admitted are `<Class>.<m>` for the identifiers `m` the class body itself stores to at class
  scope, `FileA.ownStoresL`].
    * `C02_enum_entry_is_classAnalyse`: `FileA.enumEntry` IS the entry `classAnalyse` files;
    * `C02_enum_entry_shape` (all inputs): no sets / dels / calls; every get starts with `<Class>.`
      and is a Name the table already held or one the walk of THIS class body registered;
    * `C02_enum_filter_rejects_other_class`, `C02_enum_filter_rejects_dotless`,
      `C02_class_walk_adds_only_own_names`, `C02_enum_sweep_unchanged_by_other_class` (all inputs):
      attributes of any other class — also one whose identifier EXTENDS the enum's — and
      module-level names never enter the sweep;
    * `C02_enum_partial`: on plain member statements, from a table without `<Class>.…` leftovers,
      every get is `<Class>.<m>`, `m` stored by the class body itself;
    * `C02_enum_full` is FALSE on the pinned code: `C02_cex_enum_attr_target_base`,
      `C02_cex_enum_nested_scope`, `C02_cex_enum_same_named_class`.
  [interp] (i) spellings are those of rattr's namer `names_of` (README agreement is C10);
  (ii) an assignment target is "stored" by position (`Role.target`), a walrus records the BASE
  name of its target (= its spelling for the only valid target, a bare Name: `walrus_name`);
  (iii) whether a getattr-family target is filed under get / set / del depends on which builtin
  the callee resolves to in the context, so `Justified.xattr` allows the three name kinds.
-/
import RattrProofs.Lemmas.Visit
import RattrProofs.Lemmas.VisitSpec
import RattrProofs.Lemmas.VisitJust
import RattrProofs.Props.C01
import RattrProofs.Lemmas.ClassEntries

namespace Rattr.C02
open Rattr Rattr.FnA Rattr.Strs Rattr.AccessSpec Rattr.Justify

/-! ### full statement -/

/-- every name of every kind that `analyse` reports is justified by the body (`Justify.Justified`:
spelled occurrence of the right kind anywhere in the body, receiver prefix, getattr-family target
or prefix, `sorted`-key substitution, `defaultdict` factory call). -/
def C02_full : Prop :=
  ∀ (env : Env) (mn : Str) (root : Context) (ps : Params) (body : List Node) (s' : St),
    analyse env mn root ps body = .ok s' →
      (∀ x ∈ s'.gets, Justified body .get x.full) ∧ (∀ x ∈ s'.sets, Justified body .set x.full) ∧
      (∀ x ∈ s'.dels, Justified body .del x.full) ∧ (∀ c ∈ s'.calls, Justified body .call c.name)

/-- C02 holds, for every body, context, environment and plugin table. -/
theorem C02_full_holds : C02_full := by
  intro env mn root ps body s' h
  have hj := analyse_just h
  exact ⟨hj.gets, hj.sets, hj.dels, hj.calls⟩

/-- the same invariant for any sub-tree of the body, from any justified state. -/
theorem C02_visit_justified (env : Env) (mn : Str) (n : Node) (s s' : St) (body : List Node)
    (hsub : Sub n body) (hj : Just body s) (h : visit env mn n s = .ok s') : Just body s' :=
  visit_just env mn n s body hsub hj s' h

/-- a walrus records the base name of its target; for a valid target (a bare Name) that is the
target's spelling. -/
theorem C02_walrus_name (id : Str) (c : ECtx) (n f : Str)
    (h : namesOf false (.name id c) = .ok n f) : n = id ∧ f = id := walrus_name id c n f h

/-! ### `update_results` -/

/-- the set an expression context selects. -/
def irOf (c : ECtx) (s : St) : List NameS :=
  match c with
  | .load => s.gets
  | .store => s.sets
  | .del => s.dels

/-- `update_results(name, ctx)`: the set selected by `ctx` gains exactly `n`; every other
component of the state (the two other sets, calls, context, diagnostics) is unchanged. -/
theorem C02_kind_by_ctx (s : St) (n : NameS) (c : ECtx) :
    (∀ x, x ∈ irOf c (updateResults s n c) ↔ x ∈ irOf c s ∨ x = n) ∧
    (∀ c', c' ≠ c → irOf c' (updateResults s n c) = irOf c' s) ∧
    (updateResults s n c).calls = s.calls ∧ (updateResults s n c).ctx = s.ctx ∧
    (updateResults s n c).diags = s.diags := by
  cases c <;>
    refine ⟨fun x => mem_addTo, fun c' hc' => ?_, rfl, rfl, rfl⟩ <;>
    cases c' <;> first | rfl | exact absurd rfl hc'

/-! ### chains -/

/-- visiting a name chain adds exactly `⟨chainSpell n, chainBase n⟩` to exactly the set of its
context; calls and context are untouched; when the root identifier is known to the context no
diagnostic is emitted either. -/
theorem C02_name_spelling (env : Env) (mn : Str) (n : Node) (hn : isChain n = true) (s s' : St)
    (h : visit env mn n s = .ok s') :
    (∀ c x, x ∈ irOf c s' ↔ x ∈ irOf c s ∨ (c = chainCtx n ∧ x = ⟨chainSpell n, chainBase n⟩)) ∧
    s'.calls = s.calls ∧ s'.ctx = s.ctx ∧
    (Context.contains s.ctx (chainBase n) = true → s'.diags = s.diags) := by
  rw [visit_chain env mn n hn s] at h
  injection h with h
  subst h
  obtain ⟨hx, hg, hs, hd, hc⟩ := warnUndef_ir s (chainBase n) (chainCtx n)
  have hk := C02_kind_by_ctx (warnUndef s (chainBase n) (chainCtx n)) ⟨chainSpell n, chainBase n⟩ (chainCtx n)
  have hir : ∀ c, irOf c (warnUndef s (chainBase n) (chainCtx n)) = irOf c s := by
    intro c; cases c <;> simp [irOf, hg, hs, hd]
  refine ⟨fun c x => ?_, by rw [hk.2.2.1, hc], by rw [hk.2.2.2.1, hx], fun hdecl => ?_⟩
  · by_cases hcc : c = chainCtx n
    · subst hcc
      rw [hk.1 x, hir]
      simp
    · rw [hk.2.1 c hcc, hir]
      simp [hcc]
  · rw [hk.2.2.2.2, warnUndef_declared s _ _ hdecl]

/-! ### freshness and scope balance -/

/-- `analyse` is a function of `(env, mn, root, ps, body)` only: it runs the body from the EMPTY
IR in a freshly pushed scope holding the parameters — nothing of any other callable's analysis
enters. -/
theorem C02_fresh_ir (env : Env) (mn : Str) (root : Context) (ps : Params) (body : List Node) :
    analyse env mn root ps body =
      (visitList env mn body (analyseInit root ps) >>>= fun s => .ok { s with ctx := Context.pop s.ctx }) ∧
    (analyseInit root ps).gets = [] ∧ (analyseInit root ps).sets = [] ∧
    (analyseInit root ps).dels = [] ∧ (analyseInit root ps).calls = [] ∧
    (analyseInit root ps).diags = [] ∧ (analyseInit root ps).ctx.length = root.length + 1 :=
  ⟨rfl, rfl, rfl, rfl, rfl, rfl, analyseInit_ctx_length root ps⟩

/-- scope balance: every scope the visitor pushes (lambda, comprehension, nested def, plugin
sub-analysers) is popped again — the returned context is as deep as `root`. Proved through the
whole mutual block (`visit_mono`). -/
theorem C02_scope_balance (env : Env) (mn : Str) (root : Context) (ps : Params) (body : List Node)
    (s' : St) (h : analyse env mn root ps body = .ok s') : s'.ctx.length = root.length := by
  obtain ⟨_, _, _, _, hl⟩ := analyse_inv h
  exact hl

/-- the same for any sub-tree visited in a non-empty context. -/
theorem C02_scope_balance_visit (env : Env) (mn : Str) (n : Node) (s s' : St) (hs : s.ctx ≠ [])
    (h : visit env mn n s = .ok s') : s'.ctx.length = s.ctx.length :=
  (visit_mono env mn n s s' h).depth hs

/-! ### the receiver-prefix rule -/

/-- every name the rule `a.b.c()` ↦ gets `a.b` adds is a dotted prefix of the callee name with at
least 2 components, strictly shorter than the callee name (i.e. a prefix of the receiver), and its
basename is the first component. -/
theorem C02_receiver_prefixes (fullname : Str) (x : NameS) (hx : x ∈ receiverPrefixes fullname) :
    IsReceiverPrefix x.full (withoutCallBrackets fullname) ∧
    (splitDot (withoutCallBrackets fullname)).head? = some x.base :=
  receiverPrefixes_spec fullname x hx

/-- the getattr-family rule adds the target and every proper dotted prefix of it. -/
theorem C02_xattr_prefixes (full : Str) (x : NameS) (hx : x ∈ lhsNames full) :
    IsDottedPrefix x.full full := lhsNames_spec full x hx

/-! ### the upper bound on a fragment -/

/-- C02 on the fragment "generic nodes over pure chains" (`AccessSpec.simple`, see `C01_partial`):
every reported name is — with its kind and its basename — an access the spec lists for the body,
and no call is reported. (Together with `C01_partial`: on this fragment the IR is EXACTLY the
spec's access list.) -/
theorem C02_partial (env : Env) (mn : Str) (root : Context) (ps : Params) (body : List Node)
    (hb : simpleL body = true) (s' : St) (h : analyse env mn root ps body = .ok s') :
    (∀ x ∈ s'.gets, (⟨.get, x.full, x.base⟩ : Access) ∈ accessesL body) ∧
    (∀ x ∈ s'.sets, (⟨.set, x.full, x.base⟩ : Access) ∈ accessesL body) ∧
    (∀ x ∈ s'.dels, (⟨.del, x.full, x.base⟩ : Access) ∈ accessesL body) ∧ s'.calls = [] := by
  obtain ⟨u, hu, g⟩ := visitList_simple env mn body hb (analyseInit root ps)
  rw [analyse_eq, hu] at h
  injection h with h
  subst h
  refine ⟨fun x hx => ?_, fun x hx => ?_, fun x hx => ?_, g.calls⟩
  · rcases (g.gets x).mp hx with h0 | h0
    · cases h0
    · exact h0
  · rcases (g.sets x).mp hx with h0 | h0
    · cases h0
    · exact h0
  · rcases (g.dels x).mp hx with h0 | h0
    · cases h0
    · exact h0

/-! ### the plugin derivations are needed (strict variant is false) -/

def S (x : String) : Str := x.toList
def xk : Node := .attr (.name (S "x") .load) (S "k") .load
def keyLam : Node := .lam ⟨[], [S "x"], none, [], none⟩ xk
/-- `sorted(xs, key=lambda x: x.k)` -/
def sortedBody : List Node :=
  [.other (S "Expr") [.call (.name (S "sorted") .load) [.name (S "xs") .load] [some (S "key")] [keyLam]]]
/-- `defaultdict(a.f)` -/
def ddBody : List Node :=
  [.other (S "Expr") [.call (.name (S "defaultdict") .load) [.attr (.name (S "a") .load) (S "f") .load] [] []]]

/-- no occurrence of `body` (of any role) is spelled `n` by the namer. -/
def noneSpelled (body : List Node) (n : Str) : Bool :=
  (occL body).all fun o => match namesOf true o.2 with
    | .ok _ f => f != n && withoutCallBrackets f != n
    | _ => true

/-- `sorted(xs, key=lambda x: x.k)` reports the get `xs.k`, which no node of the body spells: the
`sortedSubst` derivation is not covered by the property's documented list (by-design plugin
behaviour; [interp] allowed as a named constructor of `Justified`). -/
theorem C02_strict_cex_sorted :
    C01.getsOf (C01.run ["xs"] sortedBody) = some [S "xs", S "xs.k"] ∧
    noneSpelled sortedBody (S "xs.k") = true := by decide +kernel

/-- `defaultdict(a.f)` reports a call `a.f`, though the body never calls `a.f`. -/
theorem C02_strict_cex_defaultdict :
    C01.callsOf (C01.run ["a"] ddBody) = some [S "a.f"] ∧
    (occL ddBody).all (fun o => match o.1, namesOf true o.2 with
      | .call, .ok _ f => withoutCallBrackets f != S "a.f"
      | _, _ => true) = true := by decide +kernel

/-! ### non-vacuity -/

/-- `Justified.sortedSubst` is inhabited by exactly the derivation of `C02_strict_cex_sorted`. -/
example : Justified sortedBody .get (S "xs.k") := by
  have hx : Justified [xk] .get (S "x.k") :=
    .occ .load xk (by simp [occL, occ, xk, roleOf]) ⟨rfl, true, S "x", by simp [namesOf, xk, S]⟩
  have h := Justified.sortedSubst (body := sortedBody) (.name (S "sorted") .load) (.name (S "xs") .load)
    [] [some (S "key")] [keyLam] ⟨[], [S "x"], none, [], none⟩ xk (S "xs") (S "xs") false
    (by simp [sortedBody, occL, occ]) (by simp [keyLam]) (by simp [namesOf]) hx (by decide) (by decide)
  exact h

/-- `Justified.defaultdictFactory` likewise. -/
example : Justified ddBody .call (S "a.f") := by
  have h := Justified.defaultdictFactory (body := ddBody) (.name (S "defaultdict") .load)
    (.attr (.name (S "a") .load) (S "f") .load) [] [] [] (S "a") (S "a.f")
    (by simp [ddBody, occL, occ]) (by simp [namesOf, S])
  exact h

/-- `C02_full_holds` is not vacuous: `analyse` succeeds with a non-empty IR on these bodies
(`C02_strict_cex_*`), and on every body of `C01`'s counterexample list. -/
example : ∃ s', C01.run ["xs"] sortedBody = .ok s' ∧ s'.gets ≠ [] := by
  have h := C02_strict_cex_sorted.1
  cases hr : C01.run ["xs"] sortedBody with
  | ok s' =>
    refine ⟨s', rfl, fun h0 => ?_⟩
    rw [hr] at h; simp [C01.getsOf, h0] at h
  | fatal s d => rw [hr] at h; simp [C01.getsOf] at h
  | crash s e => rw [hr] at h; simp [C01.getsOf] at h


/-- `a.b.c.d()` adds `a.b` and `a.b.c`, both with basename `a`. -/
example : receiverPrefixes "a.b.c.d()".toList =
    [⟨"a.b".toList, "a".toList⟩, ⟨"a.b.c".toList, "a".toList⟩] := by decide +kernel

/-- `C02_name_spelling` on `del a.b[0]` from the state `analyse` starts with. -/
example : ∃ s', visit ⟨⟨[], []⟩, []⟩ [] (.sub (.attr (.name ['a'] .load) ['b'] .load) .const .del)
    (analyseInit [] ⟨[], [['a']], none, [], none⟩) = .ok s' := ⟨_, visit_chain _ _ _ (by decide) _⟩

/-! ### class entries: the synthetic Enum initialiser -/

open Rattr.FileA Rattr.RootCtx in
/-- `FileA.enumEntry` is the entry `ClassAnalyser.analyse()` files for an Enum-by-heuristic class
without `__init__` (under the replaced class symbol, before the static methods). -/
theorem C02_enum_entry_is_classAnalyse (env : Env) (mn : Str) (cls : Str) (bases : List Node) (body : List Top)
    (decos : List Ann.Deco) (s : FState) (k : FState → ClassIr → FOut) (t : St) (sy : Sym) (bn : List Str)
    (hw : classWalkL cls (body.filter fun tp => !isMethod tp) { ctx := s.ctx } = .ok t)
    (hi : (methodsOf body).filter (fun m => m.name = "__init__".toList) = [])
    (hb : baseNamesPure bases = some bn) (he : heuristic "Enum" bn = true)
    (hn : heuristic "NamedTuple" bn = false) (hsy : getClass t.ctx cls = some sy) :
    classAnalyse env mn cls bases body decos s k =
      staticLoop env mn cls (methodsOf body)
        { s with ctx := updateSymbol t.ctx (enumSym sy), diags := s.diags ++ t.diags }
        [(enumSym sy, enumIr (updateSymbol t.ctx (enumSym sy)) cls)] k ∧
    enumEntry cls (body.filter fun tp => !isMethod tp) s.ctx = some (enumIr (updateSymbol t.ctx (enumSym sy)) cls) :=
  classAnalyse_enum env mn cls bases body decos s k t sy bn hw hi hb he hn hsy

open Rattr.FileA Rattr.RootCtx in
/-- every enum entry, for every class body and every table: nothing under sets / dels / calls; every
get starts with `<Class>.` and is either a `Name` the table held BEFORE this class was visited or
`<Class>.<n>` registered by the walk of this class's own statements. -/
theorem C02_enum_entry_shape (cls : Str) (stmts : List Top) (ctx : Context) (ir : IR)
    (h : enumEntry cls stmts ctx = some ir) :
    ir.sets = [] ∧ ir.dels = [] ∧ ir.calls = [] ∧
    ∀ x ∈ ir.gets, startsWith x.full (cls ++ ['.']) = true ∧
      ((∃ sy ∈ prefixed ctx cls, x.full = sy.name) ∨ ∃ n, x.full = cls ++ '.' :: n) :=
  enumEntry_shape cls stmts ctx ir h

/-- the filter `name.startswith("<Class>.")` rejects `<Other>.<attr>` for every other identifier,
in particular one that extends the enum's (`ColourPalette.default` / `Colour`). -/
theorem C02_enum_filter_rejects_other_class (cls other a : Str) (hc : '.' ∉ cls) (ho : '.' ∉ other)
    (hne : other ≠ cls) : startsWith (other ++ '.' :: a) (cls ++ ['.']) = false :=
  FileA.startsWith_prefix_other_class cls other a hc ho hne

/-- … and every dot-free name (what the root-context builder registers for module-level
variables, functions, classes, import aliases: `Colours`, `Colour_default`, `ColourOf`). -/
theorem C02_enum_filter_rejects_dotless (cls n : Str) (hn : '.' ∉ n) : startsWith n (cls ++ ['.']) = false :=
  FileA.startsWith_prefix_dotless cls n hn

open Rattr.FileA Rattr.RootCtx in
/-- the walk of a class body (every statement kind, the whole mutual block) only APPENDS symbols
`Name "<cls>.<n>"` to the shared table. -/
theorem C02_class_walk_adds_only_own_names (cls : Str) (stmts : List Top) (s t : St)
    (h : classWalkL cls stmts s = .ok t) :
    ∃ l, scopeSyms t.ctx = scopeSyms s.ctx ++ l ∧ ∀ sy ∈ l, ∃ n, sy = classAttrSym cls n := by
  obtain ⟨l, e, p⟩ := classWalkL_addsOnly cls stmts s t h
  exact ⟨l, e, fun sy hs => let ⟨n, _, hn⟩ := p sy hs; ⟨n, hn⟩⟩

open Rattr.FileA Rattr.RootCtx in
/-- no leak from a sibling: analysing the body of ANY other class — before the enum, with any
identifier, also one extending the enum's — leaves what the enum initialiser of `cls` will sweep
unchanged. -/
theorem C02_enum_sweep_unchanged_by_other_class (cls other : Str) (hc : '.' ∉ cls) (ho : '.' ∉ other)
    (hne : other ≠ cls) (stmts : List Top) (s t : St) (h : classWalkL other stmts s = .ok t) :
    prefixed t.ctx cls = prefixed s.ctx cls :=
  prefixed_of_addsOnly_other cls other hc ho hne s.ctx t.ctx (classWalkL_addsOnly other stmts s t h)

open Rattr.FileA Rattr.RootCtx in
/-- the class-entry part of C02 as a statement about the model: every get of a synthetic enum
initialiser is `<Class>.<m>` for an identifier `m` that the class body ITSELF stores to at class
scope. FALSE on the pinned code (`C02_enum_full_false`). -/
def C02_enum_full : Prop :=
  ∀ (cls : Str) (stmts : List Top) (ctx : Context) (ir : IR), enumEntry cls stmts ctx = some ir →
    ∀ x ∈ ir.gets, ∃ m ∈ ownStoresL stmts, x.full = cls ++ '.' :: m

open Rattr.FileA Rattr.RootCtx in
/-- … true when the table holds no `<Class>.…` Name yet (no earlier definition of the same
identifier) and the class body consists of plain member statements (`NAME = …`, tuple / starred /
chained / annotated / augmented targets, expression statements and compound statements of those,
without assignments nested in expressions). -/
theorem C02_enum_partial (cls : Str) (stmts : List Top) (ctx : Context) (ir : IR)
    (hfresh : prefixed ctx cls = []) (hp : plainStmtL stmts = true) (h : enumEntry cls stmts ctx = some ir) :
    ∀ x ∈ ir.gets, ∃ m ∈ ownStoresL stmts, x.full = cls ++ '.' :: m :=
  enumEntry_plain cls stmts ctx ir hfresh hp h

/-- a table holding the class `E` (and `extra`) -/
def tableE (extra : List Sym) : Context :=
  [(({ kind := .cls, name := S "E" } : Sym) :: extra).map fun sy => (sy.name, sy)]
def memberA : Top := .assign [.name (S "A") .store] [] (some .const)
def fullsOf (o : Option IR) : List Str := (o.map fun ir => ir.gets.map (·.full)).getD []

open Rattr.FileA in
/-- `class E(Enum): A = 1; glob.x = 2` — the entry gets `E.glob`: `visit_AnyAssign` registers the
BASE name of an attribute / subscript target. The class body stores to `A` only. -/
theorem C02_cex_enum_attr_target_base :
    let stmts := [memberA, .assign [.attr (.name (S "glob") .load) (S "x") .store] [] (some .const)]
    fullsOf (enumEntry (S "E") stmts (tableE [])) = [S "E.A", S "E.glob"] ∧ ownStoresL stmts = [S "A"] := by
  decide +kernel

open Rattr.FileA in
/-- `class E(Enum): A = 1; class Inner: z = 1` — the entry gets `E.z`: the walk does not stop at
nested scopes. -/
theorem C02_cex_enum_nested_scope :
    let stmts := [memberA, .classDef (S "Inner") [] [.assign [.name (S "z") .store] [] (some .const)] []]
    fullsOf (enumEntry (S "E") stmts (tableE [])) = [S "E.A", S "E.z"] ∧ ownStoresL stmts = [S "A"] := by
  decide +kernel

open Rattr.FileA in
/-- `class E: old = 1` … `class E(Enum): A = 1` — the table still holds `E.old` of the shadowed
definition; the entry gets it. -/
theorem C02_cex_enum_same_named_class :
    fullsOf (enumEntry (S "E") [memberA] (tableE [Context.nameSym (S "E.old")])) = [S "E.old", S "E.A"] ∧
    ownStoresL [memberA] = [S "A"] := by
  decide +kernel

open Rattr.FileA in
theorem C02_enum_full_false : ¬ C02_enum_full := by
  intro h
  have hc := C02_cex_enum_same_named_class
  cases he : enumEntry (S "E") [memberA] (tableE [Context.nameSym (S "E.old")]) with
  | none => rw [he] at hc; simp [fullsOf] at hc
  | some ir =>
    rw [he] at hc
    simp only [fullsOf, Option.map_some, Option.getD_some] at hc
    have hx : ∃ x ∈ ir.gets, x.full = S "E.old" := by
      have : S "E.old" ∈ ir.gets.map (·.full) := by rw [hc.1]; simp
      obtain ⟨x, hx, e⟩ := List.mem_map.mp this
      exact ⟨x, hx, e⟩
    obtain ⟨x, hx, e⟩ := hx
    obtain ⟨m, hm, e'⟩ := h _ _ _ ir he x hx
    rw [hc.2] at hm
    simp at hm
    subst hm
    rw [e] at e'
    revert e'
    decide

/-- TEST (kernel evaluation of root context + file walk): `class ColourPalette: default = 1` /
`Colours = 1` / `class Colour(Enum): RED = 1` / `class ColourLate: after = 1` — the entry of
`Colour` gets `Colour.RED` and nothing of the neighbours whose identifiers extend `Colour`. -/
theorem C02_test_enum_neighbours :
    (match FileA.analyseFile C01.envF (S "m") {} []
        [.classDef (S "ColourPalette") [] [.assign [.name (S "default") .store] [] (some .const)] [],
         .assign [.name (S "Colours") .store] [] (some .const),
         .classDef (S "Colour") [.name (S "Enum") .load] [.assign [.name (S "RED") .store] [] (some .const)] [],
         .classDef (S "ColourLate") [] [.assign [.name (S "after") .store] [] (some .const)] []] with
     | .ok (ir, _) => ir.map fun p => (p.1.name, p.2.gets.map (·.full))
     | _ => []) = [(S "Colour", [S "Colour.RED"])] := by decide +kernel

open Rattr.FileA in
/-- `C02_enum_partial` is not vacuous: `class E(Enum): A = 1; B, *C = 2, 3; if …: D = 4`. -/
example :
    let stmts : List Top :=
      [memberA, .assign [.seq (S "Tuple") [.name (S "B") .store, .starred (.name (S "C") .store) .store] .store] [] (some .const),
       .compound (S "If") [.expr .const, .assign [.name (S "D") .store] [] (some .const)]]
    prefixed (tableE []) (S "E") = [] ∧ plainStmtL stmts = true ∧
    fullsOf (enumEntry (S "E") stmts (tableE [])) = [S "E.A", S "E.B", S "E.C", S "E.D"] := by
  decide +kernel

end Rattr.C02

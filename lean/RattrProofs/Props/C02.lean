/-
  C02 — nothing is reported that the body does not do (no phantom name, right kind).

  Model: `FnA.visit … / FnA.analyse` (RattrModel/FnAnalyser.lean). Spec: the occurrence list
  `Justify.occL` and the inductive `Justify.Justified` (RattrProofs/Lemmas/VisitJust.lean): one
  constructor per documented derivation (spelled occurrence of the right kind / receiver prefix /
  getattr-family target or prefix) plus the two plugin derivations written out precisely
  (`sortedSubst`, `defaultdictFactory`).

  C02 HOLDS on the pinned code: `C02_full_holds` — for EVERY body (every constructor, every
  context, every plugin), every name `analyse` returns under gets / sets / dels / calls is
  `Justified`. The proof carries the invariant `Justify.Just body` ("everything recorded so far is
  justified") through the whole mutual visitor block (`Justify.visit_just …`), exactly like
  `visit_mono` carries `StLe`.
  Also proved, for all inputs:
    * `C02_kind_by_ctx`: `update_results` touches exactly the set selected by the expression
      context and adds exactly the given name;
    * `C02_name_spelling`: visiting a name chain adds exactly its README spelling (with its root
      identifier as basename) to exactly the set of its context, and nothing else anywhere;
    * `C02_fresh_ir`, `C02_scope_balance`: `analyse` starts from the empty IR in a fresh scope
      (a function of `(env, mn, root, ps, body)` only) and returns a context as deep as `root`;
    * `C02_receiver_prefixes`: the receiver-prefix rule only adds dotted prefixes (≥ 2 components,
      strictly shorter than the callee name) with the first component as basename;
    * `C02_partial`: on the fragment "generic nodes over pure chains" the IR is exactly the
      spec's access list;
    * `C02_strict_cex_*`: without the two plugin disjuncts the statement would be false
      (by-design derivations outside the property's documented list).
  [interp] (i) spellings are those of rattr's namer `names_of` (README agreement is C10);
  (ii) an assignment target is "stored" by position (`Role.target`), a walrus records the BASE
  name of its target (= its spelling for the only valid target, a bare Name: `walrus_name`);
  (iii) whether a getattr-family target is filed under get / set / del depends on which builtin
  the callee resolves to in the context, so `Justified.xattr` allows the three name kinds.
-/
import RattrProofs.Lemmas.Visit
import RattrProofs.Lemmas.VisitSpec
import RattrProofs.Lemmas.VisitJust
import RattrProofs.Props.C01

namespace Rattr.C02
open Rattr Rattr.FnA Rattr.Strs Rattr.AccessSpec Rattr.Justify

/-! ### full statement -/

/-- every name of every kind that `analyse` reports is justified by the body (`Justify.Justified`:
spelled occurrence of the right kind anywhere in the body, receiver prefix, getattr-family target
or prefix, `sorted`-key substitution, `defaultdict` factory call). -/
def C02_full : Prop :=
  ∀ (env : Env) (mn : Str) (root : Context) (ps : Params) (body : List Node) (s' : St),
    analyse env mn root ps body = .ok s' →
      (∀ x ∈ s'.gets, Justified body .get x.full) ∧ (∀ x ∈ s'.sets, Justified body .set x.full) ∧
      (∀ x ∈ s'.dels, Justified body .del x.full) ∧ (∀ c ∈ s'.calls, Justified body .call c.name)

/-- C02 holds, for every body, context, environment and plugin table. -/
theorem C02_full_holds : C02_full := by
  intro env mn root ps body s' h
  have hj := analyse_just h
  exact ⟨hj.gets, hj.sets, hj.dels, hj.calls⟩

/-- the same invariant for any sub-tree of the body, from any justified state. -/
theorem C02_visit_justified (env : Env) (mn : Str) (n : Node) (s s' : St) (body : List Node)
    (hsub : Sub n body) (hj : Just body s) (h : visit env mn n s = .ok s') : Just body s' :=
  visit_just env mn n s body hsub hj s' h

/-- a walrus records the base name of its target; for a valid target (a bare Name) that is the
target's spelling. -/
theorem C02_walrus_name (id : Str) (c : ECtx) (n f : Str)
    (h : namesOf false (.name id c) = .ok n f) : n = id ∧ f = id := walrus_name id c n f h

/-! ### `update_results` -/

/-- the set an expression context selects. -/
def irOf (c : ECtx) (s : St) : List NameS :=
  match c with
  | .load => s.gets
  | .store => s.sets
  | .del => s.dels

/-- `update_results(name, ctx)`: the set selected by `ctx` gains exactly `n`; every other
component of the state (the two other sets, calls, context, diagnostics) is unchanged. -/
theorem C02_kind_by_ctx (s : St) (n : NameS) (c : ECtx) :
    (∀ x, x ∈ irOf c (updateResults s n c) ↔ x ∈ irOf c s ∨ x = n) ∧
    (∀ c', c' ≠ c → irOf c' (updateResults s n c) = irOf c' s) ∧
    (updateResults s n c).calls = s.calls ∧ (updateResults s n c).ctx = s.ctx ∧
    (updateResults s n c).diags = s.diags := by
  cases c <;>
    refine ⟨fun x => mem_addTo, fun c' hc' => ?_, rfl, rfl, rfl⟩ <;>
    cases c' <;> first | rfl | exact absurd rfl hc'

/-! ### chains -/

/-- visiting a name chain adds exactly `⟨chainSpell n, chainBase n⟩` to exactly the set of its
context; calls and context are untouched; when the root identifier is known to the context no
diagnostic is emitted either. -/
theorem C02_name_spelling (env : Env) (mn : Str) (n : Node) (hn : isChain n = true) (s s' : St)
    (h : visit env mn n s = .ok s') :
    (∀ c x, x ∈ irOf c s' ↔ x ∈ irOf c s ∨ (c = chainCtx n ∧ x = ⟨chainSpell n, chainBase n⟩)) ∧
    s'.calls = s.calls ∧ s'.ctx = s.ctx ∧
    (Context.contains s.ctx (chainBase n) = true → s'.diags = s.diags) := by
  rw [visit_chain env mn n hn s] at h
  injection h with h
  subst h
  obtain ⟨hx, hg, hs, hd, hc⟩ := warnUndef_ir s (chainBase n) (chainCtx n)
  have hk := C02_kind_by_ctx (warnUndef s (chainBase n) (chainCtx n)) ⟨chainSpell n, chainBase n⟩ (chainCtx n)
  have hir : ∀ c, irOf c (warnUndef s (chainBase n) (chainCtx n)) = irOf c s := by
    intro c; cases c <;> simp [irOf, hg, hs, hd]
  refine ⟨fun c x => ?_, by rw [hk.2.2.1, hc], by rw [hk.2.2.2.1, hx], fun hdecl => ?_⟩
  · by_cases hcc : c = chainCtx n
    · subst hcc
      rw [hk.1 x, hir]
      simp
    · rw [hk.2.1 c hcc, hir]
      simp [hcc]
  · rw [hk.2.2.2.2, warnUndef_declared s _ _ hdecl]

/-! ### freshness and scope balance -/

/-- `analyse` is a function of `(env, mn, root, ps, body)` only: it runs the body from the EMPTY
IR in a freshly pushed scope holding the parameters — nothing of any other callable's analysis
enters. -/
theorem C02_fresh_ir (env : Env) (mn : Str) (root : Context) (ps : Params) (body : List Node) :
    analyse env mn root ps body =
      (visitList env mn body (analyseInit root ps) >>>= fun s => .ok { s with ctx := Context.pop s.ctx }) ∧
    (analyseInit root ps).gets = [] ∧ (analyseInit root ps).sets = [] ∧
    (analyseInit root ps).dels = [] ∧ (analyseInit root ps).calls = [] ∧
    (analyseInit root ps).diags = [] ∧ (analyseInit root ps).ctx.length = root.length + 1 :=
  ⟨rfl, rfl, rfl, rfl, rfl, rfl, analyseInit_ctx_length root ps⟩

/-- scope balance: every scope the visitor pushes (lambda, comprehension, nested def, plugin
sub-analysers) is popped again — the returned context is as deep as `root`. Proved through the
whole mutual block (`visit_mono`). -/
theorem C02_scope_balance (env : Env) (mn : Str) (root : Context) (ps : Params) (body : List Node)
    (s' : St) (h : analyse env mn root ps body = .ok s') : s'.ctx.length = root.length := by
  obtain ⟨_, _, _, _, hl⟩ := analyse_inv h
  exact hl

/-- the same for any sub-tree visited in a non-empty context. -/
theorem C02_scope_balance_visit (env : Env) (mn : Str) (n : Node) (s s' : St) (hs : s.ctx ≠ [])
    (h : visit env mn n s = .ok s') : s'.ctx.length = s.ctx.length :=
  (visit_mono env mn n s s' h).depth hs

/-! ### the receiver-prefix rule -/

/-- every name the rule `a.b.c()` ↦ gets `a.b` adds is a dotted prefix of the callee name with at
least 2 components, strictly shorter than the callee name (i.e. a prefix of the receiver), and its
basename is the first component. -/
theorem C02_receiver_prefixes (fullname : Str) (x : NameS) (hx : x ∈ receiverPrefixes fullname) :
    IsReceiverPrefix x.full (withoutCallBrackets fullname) ∧
    (splitDot (withoutCallBrackets fullname)).head? = some x.base :=
  receiverPrefixes_spec fullname x hx

/-- the getattr-family rule adds the target and every proper dotted prefix of it. -/
theorem C02_xattr_prefixes (full : Str) (x : NameS) (hx : x ∈ lhsNames full) :
    IsDottedPrefix x.full full := lhsNames_spec full x hx

/-! ### the upper bound on a fragment -/

/-- C02 on the fragment "generic nodes over pure chains" (`AccessSpec.simple`, see `C01_partial`):
every reported name is — with its kind and its basename — an access the spec lists for the body,
and no call is reported. (Together with `C01_partial`: on this fragment the IR is EXACTLY the
spec's access list.) -/
theorem C02_partial (env : Env) (mn : Str) (root : Context) (ps : Params) (body : List Node)
    (hb : simpleL body = true) (s' : St) (h : analyse env mn root ps body = .ok s') :
    (∀ x ∈ s'.gets, (⟨.get, x.full, x.base⟩ : Access) ∈ accessesL body) ∧
    (∀ x ∈ s'.sets, (⟨.set, x.full, x.base⟩ : Access) ∈ accessesL body) ∧
    (∀ x ∈ s'.dels, (⟨.del, x.full, x.base⟩ : Access) ∈ accessesL body) ∧ s'.calls = [] := by
  obtain ⟨u, hu, g⟩ := visitList_simple env mn body hb (analyseInit root ps)
  rw [analyse_eq, hu] at h
  injection h with h
  subst h
  refine ⟨fun x hx => ?_, fun x hx => ?_, fun x hx => ?_, g.calls⟩
  · rcases (g.gets x).mp hx with h0 | h0
    · cases h0
    · exact h0
  · rcases (g.sets x).mp hx with h0 | h0
    · cases h0
    · exact h0
  · rcases (g.dels x).mp hx with h0 | h0
    · cases h0
    · exact h0

/-! ### the plugin derivations are needed (strict variant is false) -/

def S (x : String) : Str := x.toList
def xk : Node := .attr (.name (S "x") .load) (S "k") .load
def keyLam : Node := .lam ⟨[], [S "x"], none, [], none⟩ xk
/-- `sorted(xs, key=lambda x: x.k)` -/
def sortedBody : List Node :=
  [.other (S "Expr") [.call (.name (S "sorted") .load) [.name (S "xs") .load] [some (S "key")] [keyLam]]]
/-- `defaultdict(a.f)` -/
def ddBody : List Node :=
  [.other (S "Expr") [.call (.name (S "defaultdict") .load) [.attr (.name (S "a") .load) (S "f") .load] [] []]]

/-- no occurrence of `body` (of any role) is spelled `n` by the namer. -/
def noneSpelled (body : List Node) (n : Str) : Bool :=
  (occL body).all fun o => match namesOf true o.2 with
    | .ok _ f => f != n && withoutCallBrackets f != n
    | _ => true

/-- `sorted(xs, key=lambda x: x.k)` reports the get `xs.k`, which no node of the body spells: the
`sortedSubst` derivation is not covered by the property's documented list (by-design plugin
behaviour; [interp] allowed as a named constructor of `Justified`). -/
theorem C02_strict_cex_sorted :
    C01.getsOf (C01.run ["xs"] sortedBody) = some [S "xs", S "xs.k"] ∧
    noneSpelled sortedBody (S "xs.k") = true := by decide +kernel

/-- `defaultdict(a.f)` reports a call `a.f`, though the body never calls `a.f`. -/
theorem C02_strict_cex_defaultdict :
    C01.callsOf (C01.run ["a"] ddBody) = some [S "a.f"] ∧
    (occL ddBody).all (fun o => match o.1, namesOf true o.2 with
      | .call, .ok _ f => withoutCallBrackets f != S "a.f"
      | _, _ => true) = true := by decide +kernel

/-! ### non-vacuity -/

/-- `Justified.sortedSubst` is inhabited by exactly the derivation of `C02_strict_cex_sorted`. -/
example : Justified sortedBody .get (S "xs.k") := by
  have hx : Justified [xk] .get (S "x.k") :=
    .occ .load xk (by simp [occL, occ, xk, roleOf]) ⟨rfl, true, S "x", by simp [namesOf, xk, S]⟩
  have h := Justified.sortedSubst (body := sortedBody) (.name (S "sorted") .load) (.name (S "xs") .load)
    [] [some (S "key")] [keyLam] ⟨[], [S "x"], none, [], none⟩ xk (S "xs") (S "xs") false
    (by simp [sortedBody, occL, occ]) (by simp [keyLam]) (by simp [namesOf]) hx (by decide) (by decide)
  exact h

/-- `Justified.defaultdictFactory` likewise. -/
example : Justified ddBody .call (S "a.f") := by
  have h := Justified.defaultdictFactory (body := ddBody) (.name (S "defaultdict") .load)
    (.attr (.name (S "a") .load) (S "f") .load) [] [] [] (S "a") (S "a.f")
    (by simp [ddBody, occL, occ]) (by simp [namesOf, S])
  exact h

/-- `C02_full_holds` is not vacuous: `analyse` succeeds with a non-empty IR on these bodies
(`C02_strict_cex_*`), and on every body of `C01`'s counterexample list. -/
example : ∃ s', C01.run ["xs"] sortedBody = .ok s' ∧ s'.gets ≠ [] := by
  have h := C02_strict_cex_sorted.1
  cases hr : C01.run ["xs"] sortedBody with
  | ok s' =>
    refine ⟨s', rfl, fun h0 => ?_⟩
    rw [hr] at h; simp [C01.getsOf, h0] at h
  | fatal s d => rw [hr] at h; simp [C01.getsOf] at h
  | crash s e => rw [hr] at h; simp [C01.getsOf] at h


/-- `a.b.c.d()` adds `a.b` and `a.b.c`, both with basename `a`. -/
example : receiverPrefixes "a.b.c.d()".toList =
    [⟨"a.b".toList, "a".toList⟩, ⟨"a.b.c".toList, "a".toList⟩] := by decide +kernel

/-- `C02_name_spelling` on `del a.b[0]` from the state `analyse` starts with. -/
example : ∃ s', visit ⟨⟨[], []⟩, []⟩ [] (.sub (.attr (.name ['a'] .load) ['b'] .load) .const .del)
    (analyseInit [] ⟨[], [['a']], none, [], none⟩) = .ok s' := ⟨_, visit_chain _ _ _ (by decide) _⟩

end Rattr.C02

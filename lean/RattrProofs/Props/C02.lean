/-
  C02 — nothing is reported that the body does not do (no phantom name, right kind).

  Model: `FnA.visit … / FnA.analyse` (RattrModel/FnAnalyser.lean). Spec: the occurrence list
  `Justify.occL` and the inductive `Justify.Justified` (RattrProofs/Lemmas/VisitJust.lean): one
  constructor per documented derivation (spelled occurrence of the right kind / receiver prefix /
  getattr-family target or prefix) plus the two plugin derivations written out precisely
  (`sortedSubst`, `defaultdictFactory`).

  C02 HOLDS on the pinned code: `C02_full_holds` — for EVERY body (every constructor, every
  context, every plugin), every name `analyse` returns under gets / sets / dels / calls is
  `Justified`. The proof carries the invariant `Justify.Just body` ("everything recorded so far is
  justified") through the whole mutual visitor block (`Justify.visit_just …`), exactly like
  `visit_mono` carries `StLe`.
  Also proved, for all inputs:
    * `C02_kind_by_ctx`: `update_results` touches exactly the set selected by the expression
      context and adds exactly the given name;
    * `C02_name_spelling`: visiting a name chain adds exactly its README spelling (with its root
      identifier as basename) to exactly the set of its context, and nothing else anywhere;
    * `C02_fresh_ir`, `C02_scope_balance`: `analyse` starts from the empty IR in a fresh scope
      (a function of `(env, mn, root, ps, body)` only) and returns a context as deep as `root`;
    * `C02_receiver_prefixes`: the receiver-prefix rule only adds dotted prefixes (≥ 2 components,
      strictly shorter than the callee name) with the first component as basename;
    * `C02_partial`: on the fragment "generic nodes over pure chains" the IR is exactly the
      spec's access list;
    * `C02_strict_cex_*`: without the two plugin disjuncts the statement would be false
      (by-design derivations outside the property's documented list).
  CLASS ENTRIES (model: `FileA.classAnalyse`, `FileA.visitEnum`; lemmas: Lemmas/ClassEntries.lean).
  The synthetic initialiser of an Enum-by-heuristic class without `__init__` has no body; its gets
  are the `Name`s of the SHARED symbol table that start with `<Class>.` [interp: `heuristicInit` —
  admitted are `<Class>.<m>` for the identifiers `m` the class body itself stores to at class
  scope, `FileA.ownStoresL`].
    * `C02_enum_entry_is_classAnalyse`: `FileA.enumEntry` IS the entry `classAnalyse` files;
    * `C02_enum_entry_shape` (all inputs): no sets / dels / calls; every get starts with `<Class>.`
      and is a Name the table already held or one the walk of THIS class body registered;
    * `C02_enum_filter_rejects_other_class`, `C02_enum_filter_rejects_dotless`,
      `C02_class_walk_adds_only_own_names`, `C02_enum_sweep_unchanged_by_other_class` (all inputs):
      attributes of any other class — also one whose identifier EXTENDS the enum's — and
      module-level names never enter the sweep;
    * `C02_enum_partial`: on plain member statements, from a table without `<Class>.…` leftovers,
      every get is `<Class>.<m>`, `m` stored by the class body itself;
    * `C02_enum_full` is FALSE on the pinned code: `C02_cex_enum_attr_target_base`,
      `C02_cex_enum_nested_scope`, `C02_cex_enum_same_named_class`.
  THE CALLABLE'S OWN SIGNATURE (model: `FnA.Callable` / `FnA.Sig`, RattrModel/Callable.lean; lemmas:
  Lemmas/C02Callable.lean). `FunctionAnalyser` receives the whole definition node; its parameter
  defaults, annotations, return annotation, decorators and type-parameter bounds are evaluated at
  definition time in the enclosing scope and are NOT body code.
    * `C02_callable_full_holds` (all inputs): every reported name is justified by `c.body` — the
      statement does not mention `c.sig`;
    * `C02_signature_irrelevant`: same parameter names + same body ⇒ same analysis, whatever the
      signatures are; `C02_nothing_only_from_signature`: no reported name is `OnlyInSignature`;
    * `C02_signature_with_empty_body`, `C02_call_free_body`, `C02_reported_call_has_call_node`:
      a body that mentions nothing reports nothing, a body without call nodes reports no call
      and only spelled occurrences, every reported call starts at a call node of the BODY;
    * `C02_cex_if_defaults_were_visited`: the alternative "defaults are visited too"
      (`Callable.analyseVisitingDefaults`, not the pinned code) reports names the body justifies
      under no kind — the statement separates the two; `C02_stamp_only_in_signature`: non-vacuity;
    * `C02_file_entry_def / _lambda / _static / _init`: the FileIr entry `FileAnalyser` /
      `ClassAnalyser` files for each kind of analysed callable is `Callable.analyse` of the
      definition with ANY signature, and is justified by its body;
    * `tieA_callable_reads`, `tieA_unread_fields_are_the_signature`: what `analyse`,
      `visit_AnyFunctionDef`, `get_function_body`, `add_arguments_to_context`,
      `CallInterface.from_arguments` read of the definition node (regenerated from the source),
      and that CPython's remaining expression-valued fields are exactly `Sig`.
    Nested defs / lambdas inside a body: their signatures ARE expressions of that body (the
    property admits them); the pinned `visit_AnyFunctionDef` reads parameter names and body only,
    so the model's `Node.funcDef` / `Node.lam` carry no signature and `occ` lists none.
  NO STATE SURVIVES FROM ONE ANALYSED CALLABLE / FILE TO THE NEXT (which plug-in analyser handles a call).
  `custom_analyser_for_target` RESOLVES the callee in the context of the callable being analysed.
    * `calleeAnalyser`: the selection as a function of (plug-in table, module name, CURRENT context, call node);
      `C02_callee_analyser_of_context`: it reads the context only through `get_call_target`;
    * `C02_param_shadows_plugin_binding` (all inputs): a plain identifier that is a PARAMETER of the analysed
      callable selects no analyser — whatever the enclosing contexts bind that spelling to (an import of
      `collections.defaultdict`, a builtin, anything another function / file used it for);
    * `C02_param_callee_is_an_ordinary_call` (all inputs): such a call is reported under its own spelled callee
      with the parameter as target (it is not replaced by a plug-in derivation);
    * `C02_test_rebound_callee`, `C02_cex_if_callee_were_chosen_by_spelling`: `def lookup(defaultdict, a): return
      defaultdict(a.b)` next to `def make(rows): defaultdict(rows.f)` — pinned: calls `defaultdict`, gets `a.b`;
      an analyser remembered BY SPELLING (= the same body analysed as if the spelling still denoted the import)
      reports the call `a.b`, which no call node of the body spells, and drops the call that is made;
    * `tieA_custom_analyser_has_no_state`: `custom_analyser_for_target` reads, beyond its two parameters, the
      two naming helpers and the plug-in registry only; `visit_Call` hands it `(node, self.context)`; the module
      `rattr/analyser/function.py` creates no object at import time (regenerated from the source).
  [interp] (i) spellings are those of rattr's namer `names_of` (README agreement is C10);
  (ii) an assignment target is "stored" by position (`Role.target`), a walrus records the BASE
  name of its target (= its spelling for the only valid target, a bare Name: `walrus_name`);
  (iii) whether a getattr-family target is filed under get / set / del depends on which builtin
  the callee resolves to in the context, so `Justified.xattr` allows the three name kinds.
-/
import RattrProofs.Lemmas.Visit
import RattrProofs.Lemmas.VisitSpec
import RattrProofs.Lemmas.VisitJust
import RattrProofs.Props.C01
import RattrProofs.Lemmas.ClassEntries
import RattrProofs.Lemmas.C02Callable
import RattrProofs.Lemmas.C08Shapes
import RattrModel.Generated.C02

namespace Rattr.C02
open Rattr Rattr.FnA Rattr.Strs Rattr.AccessSpec Rattr.Justify

/-! ### full statement -/

/-- every name of every kind that `analyse` reports is justified by the body (`Justify.Justified`:
spelled occurrence of the right kind anywhere in the body, receiver prefix, getattr-family target
or prefix, `sorted`-key substitution, `defaultdict` factory call). -/
def C02_full : Prop :=
  ∀ (env : Env) (mn : Str) (root : Context) (ps : Params) (body : List Node) (s' : St),
    analyse env mn root ps body = .ok s' →
      (∀ x ∈ s'.gets, Justified body .get x.full) ∧ (∀ x ∈ s'.sets, Justified body .set x.full) ∧
      (∀ x ∈ s'.dels, Justified body .del x.full) ∧ (∀ c ∈ s'.calls, Justified body .call c.name)

/-- C02 holds, for every body, context, environment and plugin table. -/
theorem C02_full_holds : C02_full := by
  intro env mn root ps body s' h
  have hj := analyse_just h
  exact ⟨hj.gets, hj.sets, hj.dels, hj.calls⟩

/-- the same invariant for any sub-tree of the body, from any justified state. -/
theorem C02_visit_justified (env : Env) (mn : Str) (n : Node) (s s' : St) (body : List Node)
    (hsub : Sub n body) (hj : Just body s) (h : visit env mn n s = .ok s') : Just body s' :=
  visit_just env mn n s body hsub hj s' h

/-- a walrus records the base name of its target; for a valid target (a bare Name) that is the
target's spelling. -/
theorem C02_walrus_name (id : Str) (c : ECtx) (n f : Str)
    (h : namesOf false (.name id c) = .ok n f) : n = id ∧ f = id := walrus_name id c n f h

/-! ### `update_results` -/

/-- the set an expression context selects. -/
def irOf (c : ECtx) (s : St) : List NameS :=
  match c with
  | .load => s.gets
  | .store => s.sets
  | .del => s.dels

/-- `update_results(name, ctx)`: the set selected by `ctx` gains exactly `n`; every other
component of the state (the two other sets, calls, context, diagnostics) is unchanged. -/
theorem C02_kind_by_ctx (s : St) (n : NameS) (c : ECtx) :
    (∀ x, x ∈ irOf c (updateResults s n c) ↔ x ∈ irOf c s ∨ x = n) ∧
    (∀ c', c' ≠ c → irOf c' (updateResults s n c) = irOf c' s) ∧
    (updateResults s n c).calls = s.calls ∧ (updateResults s n c).ctx = s.ctx ∧
    (updateResults s n c).diags = s.diags := by
  cases c <;>
    refine ⟨fun x => mem_addTo, fun c' hc' => ?_, rfl, rfl, rfl⟩ <;>
    cases c' <;> first | rfl | exact absurd rfl hc'

/-! ### chains -/

/-- visiting a name chain adds exactly `⟨chainSpell n, chainBase n⟩` to exactly the set of its
context; calls and context are untouched; when the root identifier is known to the context no
diagnostic is emitted either. -/
theorem C02_name_spelling (env : Env) (mn : Str) (n : Node) (hn : isChain n = true) (s s' : St)
    (h : visit env mn n s = .ok s') :
    (∀ c x, x ∈ irOf c s' ↔ x ∈ irOf c s ∨ (c = chainCtx n ∧ x = ⟨chainSpell n, chainBase n⟩)) ∧
    s'.calls = s.calls ∧ s'.ctx = s.ctx ∧
    (Context.contains s.ctx (chainBase n) = true → s'.diags = s.diags) := by
  rw [visit_chain env mn n hn s] at h
  injection h with h
  subst h
  obtain ⟨hx, hg, hs, hd, hc⟩ := warnUndef_ir s (chainBase n) (chainCtx n)
  have hk := C02_kind_by_ctx (warnUndef s (chainBase n) (chainCtx n)) ⟨chainSpell n, chainBase n⟩ (chainCtx n)
  have hir : ∀ c, irOf c (warnUndef s (chainBase n) (chainCtx n)) = irOf c s := by
    intro c; cases c <;> simp [irOf, hg, hs, hd]
  refine ⟨fun c x => ?_, by rw [hk.2.2.1, hc], by rw [hk.2.2.2.1, hx], fun hdecl => ?_⟩
  · by_cases hcc : c = chainCtx n
    · subst hcc
      rw [hk.1 x, hir]
      simp
    · rw [hk.2.1 c hcc, hir]
      simp [hcc]
  · rw [hk.2.2.2.2, warnUndef_declared s _ _ hdecl]

/-! ### freshness and scope balance -/

/-- `analyse` is a function of `(env, mn, root, ps, body)` only: it runs the body from the EMPTY
IR in a freshly pushed scope holding the parameters — nothing of any other callable's analysis
enters. -/
theorem C02_fresh_ir (env : Env) (mn : Str) (root : Context) (ps : Params) (body : List Node) :
    analyse env mn root ps body =
      (visitList env mn body (analyseInit root ps) >>>= fun s => .ok { s with ctx := Context.pop s.ctx }) ∧
    (analyseInit root ps).gets = [] ∧ (analyseInit root ps).sets = [] ∧
    (analyseInit root ps).dels = [] ∧ (analyseInit root ps).calls = [] ∧
    (analyseInit root ps).diags = [] ∧ (analyseInit root ps).ctx.length = root.length + 1 :=
  ⟨rfl, rfl, rfl, rfl, rfl, rfl, analyseInit_ctx_length root ps⟩

/-- scope balance: every scope the visitor pushes (lambda, comprehension, nested def, plugin
sub-analysers) is popped again — the returned context is as deep as `root`. Proved through the
whole mutual block (`visit_mono`). -/
theorem C02_scope_balance (env : Env) (mn : Str) (root : Context) (ps : Params) (body : List Node)
    (s' : St) (h : analyse env mn root ps body = .ok s') : s'.ctx.length = root.length := by
  obtain ⟨_, _, _, _, hl⟩ := analyse_inv h
  exact hl

/-- the same for any sub-tree visited in a non-empty context. -/
theorem C02_scope_balance_visit (env : Env) (mn : Str) (n : Node) (s s' : St) (hs : s.ctx ≠ [])
    (h : visit env mn n s = .ok s') : s'.ctx.length = s.ctx.length :=
  (visit_mono env mn n s s' h).depth hs

/-! ### the receiver-prefix rule -/

/-- every name the rule `a.b.c()` ↦ gets `a.b` adds is a dotted prefix of the callee name with at
least 2 components, strictly shorter than the callee name (i.e. a prefix of the receiver), and its
basename is the first component. -/
theorem C02_receiver_prefixes (fullname : Str) (x : NameS) (hx : x ∈ receiverPrefixes fullname) :
    IsReceiverPrefix x.full (withoutCallBrackets fullname) ∧
    (splitDot (withoutCallBrackets fullname)).head? = some x.base :=
  receiverPrefixes_spec fullname x hx

/-- the getattr-family rule adds the target and every proper dotted prefix of it. -/
theorem C02_xattr_prefixes (full : Str) (x : NameS) (hx : x ∈ lhsNames full) :
    IsDottedPrefix x.full full := lhsNames_spec full x hx

/-! ### the upper bound on a fragment -/

/-- C02 on the fragment "generic nodes over pure chains" (`AccessSpec.simple`, see `C01_partial`):
every reported name is — with its kind and its basename — an access the spec lists for the body,
and no call is reported. (Together with `C01_partial`: on this fragment the IR is EXACTLY the
spec's access list.) -/
theorem C02_partial (env : Env) (mn : Str) (root : Context) (ps : Params) (body : List Node)
    (hb : simpleL body = true) (s' : St) (h : analyse env mn root ps body = .ok s') :
    (∀ x ∈ s'.gets, (⟨.get, x.full, x.base⟩ : Access) ∈ accessesL body) ∧
    (∀ x ∈ s'.sets, (⟨.set, x.full, x.base⟩ : Access) ∈ accessesL body) ∧
    (∀ x ∈ s'.dels, (⟨.del, x.full, x.base⟩ : Access) ∈ accessesL body) ∧ s'.calls = [] := by
  obtain ⟨u, hu, g⟩ := visitList_simple env mn body hb (analyseInit root ps)
  rw [analyse_eq, hu] at h
  injection h with h
  subst h
  refine ⟨fun x hx => ?_, fun x hx => ?_, fun x hx => ?_, g.calls⟩
  · rcases (g.gets x).mp hx with h0 | h0
    · cases h0
    · exact h0
  · rcases (g.sets x).mp hx with h0 | h0
    · cases h0
    · exact h0
  · rcases (g.dels x).mp hx with h0 | h0
    · cases h0
    · exact h0

/-! ### the plugin derivations are needed (strict variant is false) -/

def S (x : String) : Str := x.toList
def xk : Node := .attr (.name (S "x") .load) (S "k") .load
def keyLam : Node := .lam ⟨[], [S "x"], none, [], none⟩ xk
/-- `sorted(xs, key=lambda x: x.k)` -/
def sortedBody : List Node :=
  [.other (S "Expr") [.call (.name (S "sorted") .load) [.name (S "xs") .load] [some (S "key")] [keyLam]]]
/-- `defaultdict(a.f)` -/
def ddBody : List Node :=
  [.other (S "Expr") [.call (.name (S "defaultdict") .load) [.attr (.name (S "a") .load) (S "f") .load] [] []]]

/-- no occurrence of `body` (of any role) is spelled `n` by the namer. -/
def noneSpelled (body : List Node) (n : Str) : Bool :=
  (occL body).all fun o => match namesOf true o.2 with
    | .ok _ f => f != n && withoutCallBrackets f != n
    | _ => true

/-- `sorted(xs, key=lambda x: x.k)` reports the get `xs.k`, which no node of the body spells: the
`sortedSubst` derivation is not covered by the property's documented list (by-design plugin
behaviour; [interp] allowed as a named constructor of `Justified`). -/
theorem C02_strict_cex_sorted :
    C01.getsOf (C01.run ["xs"] sortedBody) = some [S "xs", S "xs.k"] ∧
    noneSpelled sortedBody (S "xs.k") = true := by decide +kernel

/-- `defaultdict(a.f)` reports a call `a.f`, though the body never calls `a.f`. -/
theorem C02_strict_cex_defaultdict :
    C01.callsOf (C01.run ["a"] ddBody) = some [S "a.f"] ∧
    (occL ddBody).all (fun o => match o.1, namesOf true o.2 with
      | .call, .ok _ f => withoutCallBrackets f != S "a.f"
      | _, _ => true) = true := by decide +kernel

/-! ### non-vacuity -/

/-- `Justified.sortedSubst` is inhabited by exactly the derivation of `C02_strict_cex_sorted`. -/
example : Justified sortedBody .get (S "xs.k") := by
  have hx : Justified [xk] .get (S "x.k") :=
    .occ .load xk (by simp [occL, occ, xk, roleOf]) ⟨rfl, true, S "x", by simp [namesOf, xk, S]⟩
  have h := Justified.sortedSubst (body := sortedBody) (.name (S "sorted") .load) (.name (S "xs") .load)
    [] [some (S "key")] [keyLam] ⟨[], [S "x"], none, [], none⟩ xk (S "xs") (S "xs") false
    (by simp [sortedBody, occL, occ]) (by simp [keyLam]) (by simp [namesOf]) hx (by decide) (by decide)
  exact h

/-- `Justified.defaultdictFactory` likewise. -/
example : Justified ddBody .call (S "a.f") := by
  have h := Justified.defaultdictFactory (body := ddBody) (.name (S "defaultdict") .load)
    (.attr (.name (S "a") .load) (S "f") .load) [] [] [] (S "a") (S "a.f")
    (by simp [ddBody, occL, occ]) (by simp [namesOf, S])
  exact h

/-- `C02_full_holds` is not vacuous: `analyse` succeeds with a non-empty IR on these bodies
(`C02_strict_cex_*`), and on every body of `C01`'s counterexample list. -/
example : ∃ s', C01.run ["xs"] sortedBody = .ok s' ∧ s'.gets ≠ [] := by
  have h := C02_strict_cex_sorted.1
  cases hr : C01.run ["xs"] sortedBody with
  | ok s' =>
    refine ⟨s', rfl, fun h0 => ?_⟩
    rw [hr] at h; simp [C01.getsOf, h0] at h
  | fatal s d => rw [hr] at h; simp [C01.getsOf] at h
  | crash s e => rw [hr] at h; simp [C01.getsOf] at h


/-- `a.b.c.d()` adds `a.b` and `a.b.c`, both with basename `a`. -/
example : receiverPrefixes "a.b.c.d()".toList =
    [⟨"a.b".toList, "a".toList⟩, ⟨"a.b.c".toList, "a".toList⟩] := by decide +kernel

/-- `C02_name_spelling` on `del a.b[0]` from the state `analyse` starts with. -/
example : ∃ s', visit ⟨⟨[], []⟩, []⟩ [] (.sub (.attr (.name ['a'] .load) ['b'] .load) .const .del)
    (analyseInit [] ⟨[], [['a']], none, [], none⟩) = .ok s' := ⟨_, visit_chain _ _ _ (by decide) _⟩

/-! ### class entries: the synthetic Enum initialiser -/

open Rattr.FileA Rattr.RootCtx in
/-- `FileA.enumEntry` is the entry `ClassAnalyser.analyse()` files for an Enum-by-heuristic class
without `__init__` (under the replaced class symbol, before the static methods). -/
theorem C02_enum_entry_is_classAnalyse (env : Env) (mn : Str) (cls : Str) (bases : List Node) (body : List Top)
    (decos : List Ann.Deco) (s : FState) (k : FState → ClassIr → FOut) (t : St) (sy : Sym) (bn : List Str)
    (hw : classWalkL cls (body.filter fun tp => !isMethod tp) { ctx := s.ctx } = .ok t)
    (hi : (methodsOf body).filter (fun m => m.name = "__init__".toList) = [])
    (hb : baseNamesPure bases = some bn) (he : heuristic "Enum" bn = true)
    (hn : heuristic "NamedTuple" bn = false) (hsy : getClass t.ctx cls = some sy) :
    classAnalyse env mn cls bases body decos s k =
      staticLoop env mn cls (methodsOf body)
        { s with ctx := updateSymbol t.ctx (enumSym sy), diags := s.diags ++ t.diags }
        [(enumSym sy, enumIr (updateSymbol t.ctx (enumSym sy)) cls)] k ∧
    enumEntry cls (body.filter fun tp => !isMethod tp) s.ctx = some (enumIr (updateSymbol t.ctx (enumSym sy)) cls) :=
  classAnalyse_enum env mn cls bases body decos s k t sy bn hw hi hb he hn hsy

open Rattr.FileA Rattr.RootCtx in
/-- every enum entry, for every class body and every table: nothing under sets / dels / calls; every
get starts with `<Class>.` and is either a `Name` the table held BEFORE this class was visited or
`<Class>.<n>` registered by the walk of this class's own statements. -/
theorem C02_enum_entry_shape (cls : Str) (stmts : List Top) (ctx : Context) (ir : IR)
    (h : enumEntry cls stmts ctx = some ir) :
    ir.sets = [] ∧ ir.dels = [] ∧ ir.calls = [] ∧
    ∀ x ∈ ir.gets, startsWith x.full (cls ++ ['.']) = true ∧
      ((∃ sy ∈ prefixed ctx cls, x.full = sy.name) ∨ ∃ n, x.full = cls ++ '.' :: n) :=
  enumEntry_shape cls stmts ctx ir h

/-- the filter `name.startswith("<Class>.")` rejects `<Other>.<attr>` for every other identifier,
in particular one that extends the enum's (`ColourPalette.default` / `Colour`). -/
theorem C02_enum_filter_rejects_other_class (cls other a : Str) (hc : '.' ∉ cls) (ho : '.' ∉ other)
    (hne : other ≠ cls) : startsWith (other ++ '.' :: a) (cls ++ ['.']) = false :=
  FileA.startsWith_prefix_other_class cls other a hc ho hne

/-- … and every dot-free name (what the root-context builder registers for module-level
variables, functions, classes, import aliases: `Colours`, `Colour_default`, `ColourOf`). -/
theorem C02_enum_filter_rejects_dotless (cls n : Str) (hn : '.' ∉ n) : startsWith n (cls ++ ['.']) = false :=
  FileA.startsWith_prefix_dotless cls n hn

open Rattr.FileA Rattr.RootCtx in
/-- the walk of a class body (every statement kind, the whole mutual block) only APPENDS symbols
`Name "<cls>.<n>"` to the shared table. -/
theorem C02_class_walk_adds_only_own_names (cls : Str) (stmts : List Top) (s t : St)
    (h : classWalkL cls stmts s = .ok t) :
    ∃ l, scopeSyms t.ctx = scopeSyms s.ctx ++ l ∧ ∀ sy ∈ l, ∃ n, sy = classAttrSym cls n := by
  obtain ⟨l, e, p⟩ := classWalkL_addsOnly cls stmts s t h
  exact ⟨l, e, fun sy hs => let ⟨n, _, hn⟩ := p sy hs; ⟨n, hn⟩⟩

open Rattr.FileA Rattr.RootCtx in
/-- no leak from a sibling: analysing the body of ANY other class — before the enum, with any
identifier, also one extending the enum's — leaves what the enum initialiser of `cls` will sweep
unchanged. -/
theorem C02_enum_sweep_unchanged_by_other_class (cls other : Str) (hc : '.' ∉ cls) (ho : '.' ∉ other)
    (hne : other ≠ cls) (stmts : List Top) (s t : St) (h : classWalkL other stmts s = .ok t) :
    prefixed t.ctx cls = prefixed s.ctx cls :=
  prefixed_of_addsOnly_other cls other hc ho hne s.ctx t.ctx (classWalkL_addsOnly other stmts s t h)

open Rattr.FileA Rattr.RootCtx in
/-- the class-entry part of C02 as a statement about the model: every get of a synthetic enum
initialiser is `<Class>.<m>` for an identifier `m` that the class body ITSELF stores to at class
scope. FALSE on the pinned code (`C02_enum_full_false`). -/
def C02_enum_full : Prop :=
  ∀ (cls : Str) (stmts : List Top) (ctx : Context) (ir : IR), enumEntry cls stmts ctx = some ir →
    ∀ x ∈ ir.gets, ∃ m ∈ ownStoresL stmts, x.full = cls ++ '.' :: m

open Rattr.FileA Rattr.RootCtx in
/-- … true when the table holds no `<Class>.…` Name yet (no earlier definition of the same
identifier) and the class body consists of plain member statements (`NAME = …`, tuple / starred /
chained / annotated / augmented targets, expression statements and compound statements of those,
without assignments nested in expressions). -/
theorem C02_enum_partial (cls : Str) (stmts : List Top) (ctx : Context) (ir : IR)
    (hfresh : prefixed ctx cls = []) (hp : plainStmtL stmts = true) (h : enumEntry cls stmts ctx = some ir) :
    ∀ x ∈ ir.gets, ∃ m ∈ ownStoresL stmts, x.full = cls ++ '.' :: m :=
  enumEntry_plain cls stmts ctx ir hfresh hp h

/-- a table holding the class `E` (and `extra`) -/
def tableE (extra : List Sym) : Context :=
  [(({ kind := .cls, name := S "E" } : Sym) :: extra).map fun sy => (sy.name, sy)]
def memberA : Top := .assign [.name (S "A") .store] [] (some .const)
def fullsOf (o : Option IR) : List Str := (o.map fun ir => ir.gets.map (·.full)).getD []

open Rattr.FileA in
/-- `class E(Enum): A = 1; glob.x = 2` — the entry gets `E.glob`: `visit_AnyAssign` registers the
BASE name of an attribute / subscript target. The class body stores to `A` only. -/
theorem C02_cex_enum_attr_target_base :
    let stmts := [memberA, .assign [.attr (.name (S "glob") .load) (S "x") .store] [] (some .const)]
    fullsOf (enumEntry (S "E") stmts (tableE [])) = [S "E.A", S "E.glob"] ∧ ownStoresL stmts = [S "A"] := by
  decide +kernel

open Rattr.FileA in
/-- `class E(Enum): A = 1; class Inner: z = 1` — the entry gets `E.z`: the walk does not stop at
nested scopes. -/
theorem C02_cex_enum_nested_scope :
    let stmts := [memberA, .classDef (S "Inner") [] [.assign [.name (S "z") .store] [] (some .const)] []]
    fullsOf (enumEntry (S "E") stmts (tableE [])) = [S "E.A", S "E.z"] ∧ ownStoresL stmts = [S "A"] := by
  decide +kernel

open Rattr.FileA in
/-- `class E: old = 1` … `class E(Enum): A = 1` — the table still holds `E.old` of the shadowed
definition; the entry gets it. -/
theorem C02_cex_enum_same_named_class :
    fullsOf (enumEntry (S "E") [memberA] (tableE [Context.nameSym (S "E.old")])) = [S "E.old", S "E.A"] ∧
    ownStoresL [memberA] = [S "A"] := by
  decide +kernel

open Rattr.FileA in
theorem C02_enum_full_false : ¬ C02_enum_full := by
  intro h
  have hc := C02_cex_enum_same_named_class
  cases he : enumEntry (S "E") [memberA] (tableE [Context.nameSym (S "E.old")]) with
  | none => rw [he] at hc; simp [fullsOf] at hc
  | some ir =>
    rw [he] at hc
    simp only [fullsOf, Option.map_some, Option.getD_some] at hc
    have hx : ∃ x ∈ ir.gets, x.full = S "E.old" := by
      have : S "E.old" ∈ ir.gets.map (·.full) := by rw [hc.1]; simp
      obtain ⟨x, hx, e⟩ := List.mem_map.mp this
      exact ⟨x, hx, e⟩
    obtain ⟨x, hx, e⟩ := hx
    obtain ⟨m, hm, e'⟩ := h _ _ _ ir he x hx
    rw [hc.2] at hm
    simp at hm
    subst hm
    rw [e] at e'
    revert e'
    decide

/-- TEST (kernel evaluation of root context + file walk): `class ColourPalette: default = 1` /
`Colours = 1` / `class Colour(Enum): RED = 1` / `class ColourLate: after = 1` — the entry of
`Colour` gets `Colour.RED` and nothing of the neighbours whose identifiers extend `Colour`. -/
theorem C02_test_enum_neighbours :
    (match FileA.analyseFile C01.envF (S "m") {} []
        [.classDef (S "ColourPalette") [] [.assign [.name (S "default") .store] [] (some .const)] [],
         .assign [.name (S "Colours") .store] [] (some .const),
         .classDef (S "Colour") [.name (S "Enum") .load] [.assign [.name (S "RED") .store] [] (some .const)] [],
         .classDef (S "ColourLate") [] [.assign [.name (S "after") .store] [] (some .const)] []] with
     | .ok (ir, _) => ir.map fun p => (p.1.name, p.2.gets.map (·.full))
     | _ => []) = [(S "Colour", [S "Colour.RED"])] := by decide +kernel

open Rattr.FileA in
/-- `C02_enum_partial` is not vacuous: `class E(Enum): A = 1; B, *C = 2, 3; if …: D = 4`. -/
example :
    let stmts : List Top :=
      [memberA, .assign [.seq (S "Tuple") [.name (S "B") .store, .starred (.name (S "C") .store) .store] .store] [] (some .const),
       .compound (S "If") [.expr .const, .assign [.name (S "D") .store] [] (some .const)]]
    prefixed (tableE []) (S "E") = [] ∧ plainStmtL stmts = true ∧
    fullsOf (enumEntry (S "E") stmts (tableE [])) = [S "E.A", S "E.B", S "E.C", S "E.D"] := by
  decide +kernel

/-! ### the analysed callable's OWN SIGNATURE is not part of its body

Model: `FnA.Callable` (RattrModel/Callable.lean) — the definition node as `FunctionAnalyser`
receives it, with its defaults / keyword-only defaults / annotations / return annotation /
decorators / type parameters (`Sig`). -/

/-- C02 for the definition node: every reported name is justified by the BODY (`c.body`) — the
statement does not mention `c.sig`, so no signature expression can be the justification. -/
def C02_callable_full : Prop :=
  ∀ (env : Env) (mn : Str) (root : Context) (c : Callable) (s' : St),
    Callable.analyse env mn root c = .ok s' →
      (∀ x ∈ s'.gets, Justified c.body .get x.full) ∧ (∀ x ∈ s'.sets, Justified c.body .set x.full) ∧
      (∀ x ∈ s'.dels, Justified c.body .del x.full) ∧ (∀ k ∈ s'.calls, Justified c.body .call k.name)

theorem C02_callable_full_holds : C02_callable_full := by
  intro env mn root c s' h
  have hj := Callable.analyse_just h
  exact ⟨hj.gets, hj.sets, hj.dels, hj.calls⟩

/-- the signature is irrelevant: two definitions with the same parameter names and the same body
have the same analysis (outcome, IR, diagnostics, context), whatever their defaults, annotations
and decorators are. -/
theorem C02_signature_irrelevant (env : Env) (mn : Str) (root : Context) (g g' : Sig) (ps : Params)
    (body : List Node) :
    Callable.analyse env mn root { sig := g, ps := ps, body := body } =
      Callable.analyse env mn root { sig := g', ps := ps, body := body } := rfl

/-- `n` (as kind `k`) is mentioned by the signature only: an expression of `c.sig` would justify
it if it were body code, and nothing of the body does. -/
def OnlyInSignature (c : Callable) (k : AccessSpec.Kind) (n : Str) : Prop :=
  Justified c.sig.exprs k n ∧ ¬ Justified c.body k n

/-- nothing in the callable's own entry is justified only by its signature / decorators. -/
theorem C02_nothing_only_from_signature (env : Env) (mn : Str) (root : Context) (c : Callable) (s' : St)
    (h : Callable.analyse env mn root c = .ok s') :
    (∀ x ∈ s'.gets, ¬ OnlyInSignature c .get x.full) ∧ (∀ x ∈ s'.sets, ¬ OnlyInSignature c .set x.full) ∧
    (∀ x ∈ s'.dels, ¬ OnlyInSignature c .del x.full) ∧ (∀ k ∈ s'.calls, ¬ OnlyInSignature c .call k.name) := by
  obtain ⟨hg, hs, hd, hc⟩ := C02_callable_full_holds env mn root c s' h
  exact ⟨fun x hx ho => ho.2 (hg x hx), fun x hx ho => ho.2 (hs x hx), fun x hx ho => ho.2 (hd x hx),
         fun k hk ho => ho.2 (hc k hk)⟩

/-- a body that mentions nothing (`pass`, `...`, a docstring, constants) has the empty IR, whatever
the signature mentions. -/
theorem C02_signature_with_empty_body (env : Env) (mn : Str) (root : Context) (c : Callable) (s' : St)
    (h0 : occL c.body = []) (h : Callable.analyse env mn root c = .ok s') :
    s'.gets = [] ∧ s'.sets = [] ∧ s'.dels = [] ∧ s'.calls = [] := by
  obtain ⟨hg, hs, hd, hc⟩ := C02_callable_full_holds env mn root c s' h
  refine ⟨List.eq_nil_iff_forall_not_mem.mpr fun x hx => not_justified_of_no_occ h0 _ _ (hg x hx),
          List.eq_nil_iff_forall_not_mem.mpr fun x hx => not_justified_of_no_occ h0 _ _ (hs x hx),
          List.eq_nil_iff_forall_not_mem.mpr fun x hx => not_justified_of_no_occ h0 _ _ (hd x hx),
          List.eq_nil_iff_forall_not_mem.mpr fun x hx => not_justified_of_no_occ h0 _ _ (hc x hx)⟩

/-- a body without a call node reports no call — `def stamp(event, when=clock.now()): event.at =
when` cannot report `clock.now` — and every name it reports is the spelling of one of ITS
occurrences in the role of that kind (no receiver prefix, no getattr-family / plugin derivation). -/
theorem C02_call_free_body (env : Env) (mn : Str) (root : Context) (c : Callable) (s' : St)
    (hf : CallFree c.body) (h : Callable.analyse env mn root c = .ok s') :
    s'.calls = [] ∧
    (∀ x ∈ s'.gets, ∃ r node, (r, node) ∈ occL c.body ∧ Spelled r node .get x.full) ∧
    (∀ x ∈ s'.sets, ∃ r node, (r, node) ∈ occL c.body ∧ Spelled r node .set x.full) ∧
    (∀ x ∈ s'.dels, ∃ r node, (r, node) ∈ occL c.body ∧ Spelled r node .del x.full) := by
  obtain ⟨hg, hs, hd, hc⟩ := C02_callable_full_holds env mn root c s' h
  exact ⟨List.eq_nil_iff_forall_not_mem.mpr fun k hk => not_justified_call_of_callFree hf _ (hc k hk),
         fun x hx => (hg x hx).of_callFree hf, fun x hx => (hs x hx).of_callFree hf,
         fun x hx => (hd x hx).of_callFree hf⟩

/-- every call the callable reports starts at a call node of its body. -/
theorem C02_reported_call_has_call_node (env : Env) (mn : Str) (root : Context) (c : Callable) (s' : St)
    (h : Callable.analyse env mn root c = .ok s') (k : CallSym) (hk : k ∈ s'.calls) :
    ∃ node, (Role.call, node) ∈ occL c.body :=
  ((C02_callable_full_holds env mn root c s' h).2.2.2 k hk).call_needs_call_node

/-- `def stamp(event, when=clock.now(), *, factor=DEFAULTS.factor[0]): event.at = when; return event` -/
def stamp : Callable :=
  { sig := { defaults := [.call (.attr (.name (S "clock") .load) (S "now") .load) [] [] []],
             kwDefaults := [.sub (.attr (.name (S "DEFAULTS") .load) (S "factor") .load) .const .load] },
    ps := ⟨[], [S "event", S "when"], none, [S "factor"], none⟩,
    body := [.assign [.attr (.name (S "event") .load) (S "at") .store] (.name (S "when") .load),
             .ret [.name (S "event") .load]] }

def stampRoot : Context :=
  [[(S "clock", Context.nameSym (S "clock")), (S "DEFAULTS", Context.nameSym (S "DEFAULTS"))]]

/-- TEST (kernel evaluation): the pinned analysis of `stamp` — sets `event.at`, gets `when`,
`event`; no call; nothing of `clock.now()` / `DEFAULTS.factor[0]`. -/
theorem C02_test_stamp :
    C01.getsOf (Callable.analyse C01.env0 (S "m") stampRoot stamp) = some [S "when", S "event"] ∧
    C01.setsOf (Callable.analyse C01.env0 (S "m") stampRoot stamp) = some [S "event.at"] ∧
    C01.callsOf (Callable.analyse C01.env0 (S "m") stampRoot stamp) = some [] := by decide +kernel

/-- what C02 excludes: were the defaults visited as if they were body code
(`Callable.analyseVisitingDefaults`, NOT the pinned behaviour), `stamp` would report the call
`clock.now` and the get `DEFAULTS.factor[]` — names the signature mentions and the
body justifies under NO kind: the property statement separates the two behaviours. -/
theorem C02_cex_if_defaults_were_visited :
    C01.callsOf (Callable.analyseVisitingDefaults C01.env0 (S "m") stampRoot stamp) = some [S "clock.now"] ∧
    C01.getsOf (Callable.analyseVisitingDefaults C01.env0 (S "m") stampRoot stamp) =
      some [S "DEFAULTS.factor[]", S "when", S "event"] ∧
    (∀ k, ¬ Justified stamp.body k (S "clock.now")) ∧ (∀ k, ¬ Justified stamp.body k (S "DEFAULTS.factor[]")) := by
  refine ⟨by decide +kernel, by decide +kernel, fun k => ?_, fun k => ?_⟩ <;>
    exact not_justified_of_noneSpells (by decide +kernel) (by decide +kernel) k

/-- … and those names ARE what the signature would justify: `OnlyInSignature` is inhabited by
exactly this class (non-vacuity of `C02_nothing_only_from_signature`). -/
theorem C02_stamp_only_in_signature :
    OnlyInSignature stamp .call (S "clock.now") ∧ OnlyInSignature stamp .get (S "DEFAULTS.factor[]") := by
  refine ⟨⟨?_, C02_cex_if_defaults_were_visited.2.2.1 _⟩, ⟨?_, C02_cex_if_defaults_were_visited.2.2.2 _⟩⟩
  · exact .occ .call (.call (.attr (.name (S "clock") .load) (S "now") .load) [] [] [])
      (by simp [stamp, Sig.exprs, occL, occ]) ⟨rfl, true, S "clock", S "clock.now()", by decide +kernel, by decide +kernel⟩
  · exact .occ .load (.sub (.attr (.name (S "DEFAULTS") .load) (S "factor") .load) .const .load)
      (by simp [stamp, Sig.exprs, occL, occ, roleOf]) ⟨rfl, true, S "DEFAULTS", by decide +kernel⟩

/-! ### … at the level of the FileIr: the entries `FileAnalyser` / `ClassAnalyser` file -/

open Rattr.FileA Rattr.RootCtx in
/-- module-level `def` / `async def`: the FileIr entry is `Callable.analyse` of the definition node
with ANY signature `g` (the model's `Top.funcDef` carries the decorators only as far as
`rattr_ignore` / `rattr_results` go), and everything in it is justified by the body. -/
theorem C02_file_entry_def (env : Env) (mn : Str) (f : Facts) (name : Str) (g : Sig) (ps : Params)
    (body : List Node) (decos : List Ann.Deco) (a : Bool) (s : FState) (fn : Sym) (t : St)
    (hi : Ann.hasAnnotation Ann.nIgnore decos = .ok false) (hx : name ∉ f.excluded)
    (hfn : getFunc s.ctx name = some fn) (hr : Ann.hasAnnotation Ann.nResults decos = .ok false)
    (hc : analyserFor env mn (some fn) = none)
    (ht : Callable.analyse env mn s.ctx { sig := g, ps := ps, body := body } = .ok t) :
    visitTop env mn f (.funcDef name ps body decos a) s = .ok (stored s fn t) ∧
    Dict.get? (stored s fn t).ir fn = some (FileA.irOf t) ∧ Just body t :=
  let h := C01.fileAnalyser_uses_fnA env mn f name ps body decos a s fn t hi hx hfn hr hc ht
  ⟨h.1, h.2.1, Callable.analyse_just ht⟩

open Rattr.FileA Rattr.RootCtx in
/-- named lambda (`x = lambda …`, `x: ANN = lambda …` — `extra` is the annotation): the entry is
`Callable.analyse` of the lambda with any signature; the annotation `extra` and the lambda's
defaults are not consulted. -/
theorem C02_file_entry_lambda (env : Env) (mn : Str) (f : Facts) (x : Str) (c : ECtx) (extra : List Node)
    (g : Sig) (ps : Params) (body : Node) (s : FState) (fn : Sym) (t : St) (hfn : getFunc s.ctx x = some fn)
    (ht : Callable.analyse env mn s.ctx { sig := g, ps := ps, body := [body] } = .ok t) :
    visitTop env mn f (.assign [.name x c] extra (some (.lam ps body))) s = .ok (stored s fn t) ∧ Just [body] t :=
  ⟨C01.fileAnalyser_uses_fnA_lambda env mn f x c extra ps body s fn t hfn ht, Callable.analyse_just ht⟩

open Rattr.FileA Rattr.RootCtx in
/-- static method: the entry `<Class>.<m>` is `Callable.analyse` of the method with any signature
(its decorators beyond `staticmethod`, its defaults, the class header play no part). -/
theorem C02_file_entry_static (env : Env) (mn : Str) (cls : Str) (m : Method) (g : Sig) (s : FState) (cir : ClassIr)
    (k : FState → ClassIr → FOut) (t : St)
    (ht : Callable.analyse env mn (Context.add s.ctx (funcSym (cls ++ '.' :: m.name) m.ps.iface))
            { sig := g, ps := m.ps, body := m.body } = .ok t) :
    visitStatic env mn cls m s cir k =
      k { ctx := t.ctx, diags := s.diags ++ t.diags, ir := s.ir }
        (Dict.set cir (funcSym (cls ++ '.' :: m.name) m.ps.iface) (FileA.irOf t)) ∧ Just m.body t :=
  ⟨C01.fileAnalyser_uses_fnA_static env mn cls m s cir k t ht, Callable.analyse_just ht⟩

open Rattr.FileA Rattr.RootCtx in
/-- class initialiser: the entry under the class symbol is `Callable.analyse` of `__init__` with any
signature. -/
theorem C02_file_entry_init (env : Env) (mn : Str) (cls : Str) (decos : List Ann.Deco) (init : Method) (g : Sig)
    (s : FState) (cir : ClassIr) (k : FState → ClassIr → FOut) (sy : Sym) (t : St)
    (hi : Ann.hasAnnotation Ann.nIgnore decos = .ok false) (hsy : getClass s.ctx cls = some sy)
    (hr : Ann.hasAnnotation Ann.nResults decos = .ok false)
    (ht : Callable.analyse env mn (updateSymbol s.ctx { sy with iface := some init.ps.iface, callable := true })
            { sig := g, ps := init.ps, body := init.body } = .ok t) :
    visitInitialiser env mn cls decos init s cir k =
      k { ctx := t.ctx, diags := s.diags ++ t.diags, ir := s.ir }
        (Dict.set cir { sy with iface := some init.ps.iface, callable := true } (FileA.irOf t)) ∧ Just init.body t :=
  ⟨C01.fileAnalyser_uses_fnA_init env mn cls decos init s cir k sy t hi hsy hr ht, Callable.analyse_just ht⟩

/-! ### which plug-in analyser handles a call: decided by RESOLVING the callee, here and now

`custom_analyser_for_target(node, context)` (rattr/analyser/function.py): the callee's spelling is resolved in the
context of the callable being analysed and the plug-in table is asked about the resolved SYMBOL. Nothing else
enters: no memory of what the same spelling was bound to in another function or another file. -/

/-- the analyser (by qualified name) the pinned code selects for a call node visited in `ctx`: the scrutinee of
`FnA.visit`'s call case, as a function of its own. -/
def calleeAnalyser (env : Env) (mn : Str) (ctx : Context) (node : Node) : Option Str :=
  match targetNameNoUnravel node with
  | .ok _ t => analyserFor env mn (Context.getCallTarget env.ctxEnv ctx t (isCallOnCall node) false).1
  | _ => none

/-- the selection reads the context through `get_call_target` only: two contexts that resolve the callee to the
same symbol select the same analyser — whatever else they hold, whatever was analysed before. -/
theorem C02_callee_analyser_of_context (env : Env) (mn : Str) (c1 c2 : Context) (node : Node)
    (h : ∀ t, (Context.getCallTarget env.ctxEnv c1 t (isCallOnCall node) false).1 =
              (Context.getCallTarget env.ctxEnv c2 t (isCallOnCall node) false).1) :
    calleeAnalyser env mn c1 node = calleeAnalyser env mn c2 node := by
  unfold calleeAnalyser
  cases targetNameNoUnravel node with
  | ok b t => simp only [h t]
  | fatal d => rfl
  | crash e => rfl

/-- a plain identifier that is a PARAMETER of the analysed callable selects no plug-in analyser, for every
enclosing context `root` — also one that binds the same spelling to `collections.defaultdict`, to a builtin, or
to whatever another function or file used it for (unless the plug-in table itself holds `<module>.<x>`). -/
theorem C02_param_shadows_plugin_binding (env : Env) (mn x : Str) (root : Context) (ps : Params)
    (args : List Node) (kwn : List (Option Str)) (kwv : List Node)
    (hc : C08S.Clean x) (hx : x ∈ ps.all) (hq : env.analysers.contains (mn ++ '.' :: x) = false) :
    calleeAnalyser env mn (analyseInit root ps).ctx (.call (.name x .load) args kwn kwv) = none := by
  have hf : pureChain (.name x .load) = true := rfl
  have e1 := C08S.getCallTarget_bare env.ctxEnv (analyseInit root ps).ctx x
    (withoutCallBrackets (chainSpell (Node.name x .load) ++ lit "()"))
    (isCallOnCall (.call (.name x .load) args kwn kwv)) false hc (C08S.lookupKey_call x hc)
  have e2 : Context.get? (analyseInit root ps).ctx x = some (Context.nameSym x) :=
    addArguments_shadows _ ps x hx
  unfold calleeAnalyser
  simp only [targetName_call_chain (.name x .load) args kwn kwv hf]
  rw [e1, e2]
  exact C08S.analyserFor_nameSym env mn x hq

/-- … and the call IS reported as the ordinary call it is: under its own spelled callee `x`, with the parameter
as its target — for every enclosing context (the getattr-family spellings excepted: the namer spells those calls
as the dotted access whatever the identifier is bound to; known finding). -/
theorem C02_param_callee_is_an_ordinary_call (env : Env) (mn x : Str) (root : Context) (ps : Params)
    (args : List Node) (kwn : List (Option Str)) (kwv : List Node) (s' : St)
    (hc : C08S.Clean x) (hxa : xattrBuiltins.contains x = false) (hx : x ∈ ps.all)
    (hq : env.analysers.contains (mn ++ '.' :: x) = false)
    (h : visit env mn (.call (.name x .load) args kwn kwv) (analyseInit root ps) = .ok s') :
    ∃ c ∈ s'.calls, c.name = x ∧ c.target = some (Context.nameSym x) :=
  C08S.visit_call_of_param env mn x args kwn kwv _ s' hc hxa (addArguments_shadows _ ps x hx) hq h

/-- `defaultdict(a.b)` -/
def ddCall : Node := .call (.name (S "defaultdict") .load) [.attr (.name (S "a") .load) (S "b") .load] [] []
/-- `return defaultdict(a.b)` -/
def lookupBody : List Node := [.ret [ddCall]]
/-- the names of the body's call nodes -/
def spelledCallees (body : List Node) : List Str :=
  (occL body).filterMap fun o => match o.1, namesOf true o.2 with
    | .call, .ok _ f => some (withoutCallBrackets f)
    | _, _ => none

/-- TEST (kernel evaluation; root: `from collections import defaultdict`): `def make(rows): defaultdict(rows.f)`
reports the factory call `rows.f`; `def lookup(defaultdict, a): return defaultdict(a.b)` — the same spelling, a
PARAMETER — reports the call `defaultdict`, the get `a.b` and no call `a.b`; no analyser is selected there. -/
theorem C02_test_rebound_callee :
    C01.callsOf (C01.run ["rows"] [.other (S "Expr") [.call (.name (S "defaultdict") .load)
        [.attr (.name (S "rows") .load) (S "f") .load] [] []]]) = some [S "rows.f"] ∧
    C01.callsOf (C01.run ["defaultdict", "a"] lookupBody) = some [S "defaultdict"] ∧
    C01.getsOf (C01.run ["defaultdict", "a"] lookupBody) = some [S "a.b"] ∧
    calleeAnalyser C01.env0 (S "m") (analyseInit C01.root0 (C01.P ["defaultdict", "a"])).ctx ddCall = none ∧
    calleeAnalyser C01.env0 (S "m") (analyseInit C01.root0 (C01.P ["rows"])).ctx ddCall =
      some (S "collections.defaultdict") := by decide +kernel

/-- what C02 excludes: an analyser remembered BY SPELLING hands `lookup`'s call to the defaultdict analyser —
the analysis of the same body as if the spelling still denoted the import (parameters `["a"]`). It reports the
call `a.b`, which NO call node of the body spells, and drops the call that is made (`defaultdict`, spelled by the
body's only call node). NOT the pinned behaviour (`C02_test_rebound_callee`). -/
theorem C02_cex_if_callee_were_chosen_by_spelling :
    C01.callsOf (C01.run ["a"] lookupBody) = some [S "a.b"] ∧
    C01.getsOf (C01.run ["a"] lookupBody) = some [] ∧
    spelledCallees lookupBody = [S "defaultdict"] := by decide +kernel

/-- non-vacuity of `C02_param_shadows_plugin_binding` / `C02_param_callee_is_an_ordinary_call`. -/
example : C08S.Clean (S "defaultdict") ∧ xattrBuiltins.contains (S "defaultdict") = false ∧
    S "defaultdict" ∈ (C01.P ["defaultdict", "a"]).all ∧
    C01.env0.analysers.contains (S "m" ++ '.' :: S "defaultdict") = false :=
  ⟨C08S.clean_of_plainIdent (by decide), by decide, by decide, by decide⟩

/-! ### Tie A: what of the definition node the analyser reads (Generated/C02.lean) -/

open Rattr.Generated.C02 in
/-- `FunctionAnalyser.analyse` and `visit_AnyFunctionDef` touch the definition node only as `$.args`
and as a whole (`$`, handed to `get_function_body` / `token=` / `Func.from_fn_def` / `error.error`);
`get_function_body` reads `.body`; `add_arguments_to_context` hands `arguments` to
`CallInterface.from_arguments`, which reads the five parameter-name fields and `.arg`. -/
theorem tieA_callable_reads :
    analyseReads = ["$", "$.args"] ∧
    analyseEscapes = ["get_function_body#0", "self.context.add_arguments_to_context#token"] ∧
    nestedReads = ["$", "$.args"] ∧
    nestedEscapes = ["Func.from_fn_def#0", "error.error#1", "get_function_body#0", "isinstance#0",
                     "self.context.add_arguments_to_context#token"] ∧
    functionBodyReads = ["$", "$.body", "$.lineno"] ∧
    addArgumentsReads = ["$"] ∧ addArgumentsEscapes = ["CallInterface.from_arguments#0"] ∧
    fromArgumentsReads = ["$.args", "$.kwarg", "$.kwonlyargs", "$.posonlyargs", "$.vararg"] ∧
    fromArgumentsAttrs = ["arg", "args", "kwarg", "kwonlyargs", "posonlyargs", "vararg"] := by decide

open Rattr.Generated.C02 in
/-- … so of CPython's fields of a definition node, the ones that stay UNREAD are exactly the model's
`Sig` (`Sig.fieldNames`) plus the two that hold no expression (`name`, `type_comment`). -/
theorem tieA_unread_fields_are_the_signature :
    (functionDefFields.filter fun f => !(analyseReads ++ functionBodyReads).contains ("$." ++ f)) =
      ["name", "decorator_list", "returns", "type_comment", "type_params"] ∧
    asyncFunctionDefFields = functionDefFields ∧ lambdaFields = ["args", "body"] ∧
    (argumentsFields.filter fun f => !fromArgumentsReads.contains ("$." ++ f)) = ["kw_defaults", "defaults"] ∧
    (argFields.filter fun f => !fromArgumentsAttrs.contains f) = ["annotation", "type_comment"] ∧
    (∀ f ∈ Sig.fieldNames, f ∈ functionDefFields ++ argumentsFields ++ argFields ∧
        !(analyseReads ++ functionBodyReads ++ fromArgumentsReads).contains ("$." ++ f) ∧
        !fromArgumentsAttrs.contains f) := by decide

open Rattr.Generated.C02 in
/-- `custom_analyser_for_target(node, context)` reads — beyond its two parameters — the two naming helpers and
the plug-in registry, nothing else of its module; `visit_Call` hands it the call node and the analyser's CURRENT
context; and `rattr/analyser/function.py` binds no identifier by assignment at import time (no module-level
table that could outlive the analysis of one callable). This is what `calleeAnalyser` models. -/
theorem tieA_custom_analyser_has_no_state :
    customAnalyserFreeNames = ["fullname_of", "plugins", "without_call_brackets"] ∧
    customAnalyserParams = ["node", "context"] ∧
    customAnalyserCalledWith = ["node, self.context"] ∧
    functionModuleState = [] := by decide

end Rattr.C02

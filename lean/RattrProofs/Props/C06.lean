/-
  C06 — following an import gives the same answer as defining the callee locally.

  Model: `Resolve.importSymbol` (which `Import(name, qualified_name)` each import form creates),
         `Resolve.callTargetFor` (= `Context.get_call_target` at the call site),
         `Resolve.resolveImport` (= `resolve_import`, fuelled: it has no cycle guard),
         `Resolve.callRecordArgs` (instance argument of constructor calls).
  Spec:  `Spec.ImportEquiv.expected` (Python's import binding) — the callee object a spelled name
         denotes; C06 demands that the call is resolved to exactly that definition and that the call
         record equals the local one up to the callee spelling.

  By C03 the caller's results are a function of the own IRs, the call records and the resolver, so
  C06 reduces to: (1) the cross-module call resolves to the definition `(M, k)` the local call would
  resolve to, and (2) the call record has the same arguments.

  The full statement (`C06_full`) is NOT a theorem of the pinned code (`C06_full_false`).  Proved for
  all names and all module tables (under explicit well-formedness hypotheses), one theorem per import
  form that works: `from M import f`, `import m` + `m.f()`, `import M as n` + `n.f()`, `from P import
  m` + `m.f()`, relative forms, re-export through `__init__`, chains of re-exports of any length,
  starred re-export; termination on acyclic tables and fuel-independence of the answer.  One
  counterexample theorem per form that fails (each replayed on the implementation, listed in
  known_findings.json).
-/
import RattrModel.Resolve
import RattrModel.Spec.ImportEquiv
import RattrModel.Generated.C06
import RattrProofs.Lemmas.C06

namespace Rattr.C06
open Rattr Rattr.Strs Rattr.Resolve Rattr.Spec.ImportEquiv

/-! ### Tie A: the import-symbol table and the shape of `resolve_import` are what the source says now -/

def probeStmt (kind : String) (level : Nat) (module : Option String) (name : String)
    (asname : Option String) : Option ImportStmt :=
  let m := module.map String.toList
  let a := asname.map String.toList
  if kind = "plain" then some (.plain name.toList a)
  else if kind = "from" then (m.map fun m => .from_ m name.toList a)
  else if kind = "star" then (m.map fun m => .star m)
  else if kind = "rel" then some (.rel level m name.toList a)
  else if kind = "relstar" then some (.relStar level m)
  else none

/-- every probed one-line module: the model's symbol = the symbol the real `compile_root_context`
created (name, qualified name and table key). -/
def probeOk (row : String × Bool × String × Nat × Option String × String × Option String × String × String × String) : Bool :=
  let (base, isInit, kind, level, module, name, asname, gotName, gotQual, gotId) := row
  match probeStmt kind level module name asname with
  | none => false
  | some st =>
    let y := importSymbol { base := base.toList, isInit := isInit } st
    y.name == gotName.toList && y.qual == gotQual.toList && y.id == gotId.toList

theorem tieA_import_symbols : Generated.C06.importProbes.all probeOk = true := by decide

theorem tieA_probes_cover_forms :
    (["plain", "from", "star", "rel", "relstar"].all fun k =>
      Generated.C06.importProbes.any fun r => r.2.2.1 == k) = true := by decide

theorem tieA_resolve_import_shape :
    Generated.C06.localNameDerivation =
        "target.name.replace(f'{target.module_name}.', '').removesuffix('()')"
    ∧ Generated.C06.moduleContextLookup = "module_ir.context.get(local_name)"
    ∧ Generated.C06.resolveImportRecursiveCalls = 1
    ∧ Generated.C06.resolveImportParams = ["target", "environment"] := by decide

/-! ### Well-formedness vocabulary -/

/-- `q`'s module is `M` (longest existing prefix), no ladder rung ignores it and `import_irs[M]`
has context `ctx`. -/
def Provides (w : World) (M q : Str) (ctx : MCtx) : Prop :=
  moduleNameOf w.existing q = some M ∧ M ∉ w.ignored ∧ Dict.get? w.irs M = some ctx

instance (w : World) (M q : Str) (ctx : MCtx) : Decidable (Provides w M q ctx) := by
  unfold Provides; infer_instance

/-- a function or class definition named `k` that has an IR -/
def IsDef (s : MSym) (k : Str) : Prop := s = .func k true ∨ s = .cls k true

/-! ### `resolve_import`, one step -/

theorem resolveImport_def (w : World) (fuel : Nat) (nm M q : Str) (ctx : MCtx) (k : Str) (s : MSym)
    (hp : Provides w M q ctx) (hl : localNameOf nm M = k) (hs : lookupSym ctx k = some s)
    (hd : IsDef s k) :
    resolveImport w (fuel + 1) ⟨nm, q⟩ = .found M s := by
  obtain ⟨h1, h2, h3⟩ := hp
  rcases hd with rfl | rfl <;> simp [resolveImport, h1, h2, h3, hl, hs]

theorem resolveImport_step (w : World) (fuel : Nat) (nm M q : Str) (ctx : MCtx) (k n' q' : Str)
    (hp : Provides w M q ctx) (hl : localNameOf nm M = k) (hs : lookupSym ctx k = some (.imp n' q')) :
    resolveImport w (fuel + 1) ⟨nm, q⟩ = resolveImport w fuel ⟨n', q'⟩ := by
  obtain ⟨h1, h2, h3⟩ := hp
  simp [resolveImport, h1, h2, h3, hl, hs]

/-! ### The forms that work -/

/-- `from M import f` (M any dotted module), call `f(…)`: resolved to `M`'s definition `f`. -/
theorem C06_from_import (w : World) (root : Context) (M f : Str) (ctx : MCtx) (s : MSym) (fuel : Nat)
    (hf : Ident f)
    (hroot : Context.get? root f = some (importEntry w.existing ⟨f, M ++ '.' :: f⟩))
    (hp : Provides w M (M ++ '.' :: f) ctx) (hs : lookupSym ctx f = some s) (hd : IsDef s f) :
    resolveCall w (fuel + 1) root f = .viaImport (.found M s) := by
  obtain ⟨hdot, _, hrp, _⟩ := hf.notMem
  unfold resolveCall
  rw [callTargetFor_bare root f _ hf hroot rfl]
  simp only [importEntry, if_true]
  rw [resolveImport_def w fuel f M _ ctx f s hp (localNameOf_plain f M hdot hrp) hs hd]

/-- `import M as n` (M any dotted module, `n` an identifier), call `n.f(…)`. -/
theorem C06_import_as (w : World) (root : Context) (M n f : Str) (ctx : MCtx) (s : MSym) (fuel : Nat)
    (hn : Ident n) (hf : Ident f)
    (hnone : Context.get? root (n ++ '.' :: f) = none)
    (hroot : Context.get? root n = some (importEntry w.existing ⟨n, M⟩))
    (hex : w.existing.contains M = true)
    (hp : Provides w M (M ++ '.' :: f) ctx) (hs : lookupSym ctx f = some s) (hd : IsDef s f) :
    resolveCall w (fuel + 1) root (n ++ '.' :: f) = .viaImport (.found M s) := by
  obtain ⟨hdot, _, hrp, _⟩ := hf.notMem
  unfold resolveCall
  rw [callTargetFor_member root n f _ hn hf hnone hroot rfl rfl hex]
  simp only [importEntry, if_true]
  rw [resolveImport_def w fuel f M _ ctx f s hp (localNameOf_plain f M hdot hrp) hs hd]

/-- `import m` (top-level module), call `m.f(…)`. -/
theorem C06_import_module (w : World) (root : Context) (m f : Str) (ctx : MCtx) (s : MSym) (fuel : Nat)
    (hm : Ident m) (hf : Ident f)
    (hnone : Context.get? root (m ++ '.' :: f) = none)
    (hroot : Context.get? root m = some (importEntry w.existing ⟨m, m⟩))
    (hex : w.existing.contains m = true)
    (hp : Provides w m (m ++ '.' :: f) ctx) (hs : lookupSym ctx f = some s) (hd : IsDef s f) :
    resolveCall w (fuel + 1) root (m ++ '.' :: f) = .viaImport (.found m s) :=
  C06_import_as w root m m f ctx s fuel hm hf hnone hroot hex hp hs hd

/-- `from P import m` (a submodule) / `from P import m as n`, call `n.f(…)`: the symbol is
`Import(n, "P.m")`, the same shape as `import P.m as n`. -/
theorem C06_from_import_module (w : World) (root : Context) (P m n f : Str) (a : Option Str)
    (ctx : MCtx) (s : MSym) (fuel : Nat) (fid : FileId)
    (hn : Ident n) (hf : Ident f) (ha : a.getD m = n)
    (hnone : Context.get? root (n ++ '.' :: f) = none)
    (hroot : Context.get? root n = some (importEntry w.existing (importSymbol fid (.from_ P m a))))
    (hex : w.existing.contains (P ++ '.' :: m) = true)
    (hp : Provides w (P ++ '.' :: m) ((P ++ '.' :: m) ++ '.' :: f) ctx)
    (hs : lookupSym ctx f = some s) (hd : IsDef s f) :
    resolveCall w (fuel + 1) root (n ++ '.' :: f) = .viaImport (.found (P ++ '.' :: m) s) := by
  have : importSymbol fid (.from_ P m a) = ⟨n, P ++ '.' :: m⟩ := by simp [importSymbol, ha]
  rw [this] at hroot
  exact C06_import_as w root (P ++ '.' :: m) n f ctx s fuel hn hf hnone hroot hex hp hs hd

/-- relative `from ..x import f` at any level, in any file: after the absolute-name derivation the
symbol is `Import(f, "<abs>.f")` and resolves like the absolute form. -/
theorem C06_relative_from (w : World) (root : Context) (fid : FileId) (lvl : Nat) (mod : Option Str)
    (f : Str) (ctx : MCtx) (s : MSym) (fuel : Nat) (hf : Ident f)
    (hroot : Context.get? root f = some (importEntry w.existing (importSymbol fid (.rel lvl mod f none))))
    (hp : Provides w (absName fid lvl mod) (absName fid lvl mod ++ '.' :: f) ctx)
    (hs : lookupSym ctx f = some s) (hd : IsDef s f) :
    resolveCall w (fuel + 1) root f = .viaImport (.found (absName fid lvl mod) s) := by
  have : importSymbol fid (.rel lvl mod f none) = ⟨f, absName fid lvl mod ++ '.' :: f⟩ := by
    simp [importSymbol]
  rw [this] at hroot
  exact C06_from_import w root _ f ctx s fuel hf hroot hp hs hd

/-- relative `from . import x` (a sibling module), call `x.f(…)`. -/
theorem C06_relative_module (w : World) (root : Context) (fid : FileId) (lvl : Nat) (x f : Str)
    (ctx : MCtx) (s : MSym) (fuel : Nat) (hx : Ident x) (hf : Ident f)
    (hnone : Context.get? root (x ++ '.' :: f) = none)
    (hroot : Context.get? root x = some (importEntry w.existing (importSymbol fid (.rel lvl none x none))))
    (hex : w.existing.contains (absName fid lvl none ++ '.' :: x) = true)
    (hp : Provides w (absName fid lvl none ++ '.' :: x) ((absName fid lvl none ++ '.' :: x) ++ '.' :: f) ctx)
    (hs : lookupSym ctx f = some s) (hd : IsDef s f) :
    resolveCall w (fuel + 1) root (x ++ '.' :: f) = .viaImport (.found (absName fid lvl none ++ '.' :: x) s) := by
  have : importSymbol fid (.rel lvl none x none) = ⟨x, absName fid lvl none ++ '.' :: x⟩ := by
    simp [importSymbol]
  rw [this] at hroot
  exact C06_import_as w root _ x f ctx s fuel hx hf hnone hroot hex hp hs hd

/-! ### Re-exports -/

/-- A chain of `n` modules starting at `M`: each re-exports `f` from the next (its context holds
`Import(f, "<next>.f")`), the last one (`last`) defines it. -/
inductive Chain (w : World) (f last : Str) (s : MSym) : Str → Nat → Prop where
  | base {ctx : MCtx} : Provides w last (last ++ '.' :: f) ctx → lookupSym ctx f = some s → IsDef s f →
      Chain w f last s last 1
  | step {M M' : Str} {ctx : MCtx} {n : Nat} : Provides w M (M ++ '.' :: f) ctx →
      lookupSym ctx f = some (.imp f (M' ++ '.' :: f)) → Chain w f last s M' n →
      Chain w f last s M (n + 1)

/-- Chains of re-exports of any length resolve to the definition at the end, with fuel ≥ length. -/
theorem C06_reexport_chain (w : World) (f last : Str) (s : MSym) (hf : Ident f) (M : Str) (n : Nat)
    (hc : Chain w f last s M n) : ∀ fuel, n ≤ fuel →
    resolveImport w fuel ⟨f, M ++ '.' :: f⟩ = .found last s := by
  obtain ⟨hdot, _, hrp, _⟩ := hf.notMem
  induction hc with
  | base hp hs hd =>
    intro fuel hle
    obtain ⟨k, rfl⟩ : ∃ k, fuel = k + 1 := ⟨fuel - 1, by omega⟩
    exact resolveImport_def w k f last _ _ f s hp (localNameOf_plain f last hdot hrp) hs hd
  | @step M M' ctx n hp hs _ ih =>
    intro fuel hle
    obtain ⟨k, rfl⟩ : ∃ k, fuel = k + 1 := ⟨fuel - 1, by omega⟩
    rw [resolveImport_step w k f M _ ctx f f _ hp (localNameOf_plain f M hdot hrp) hs]
    exact ih k (by omega)

/-- Re-export through one package `__init__` (`pkg/__init__.py: from .x import f`; importer:
`from pkg import f`; call `f(…)`). The symbol in `pkg`'s context is the one `visit_relative_import`
creates in an `__init__` file at level 1. -/
theorem C06_reexport_init (w : World) (root : Context) (pkg x f : Str) (ctxP ctxX : MCtx) (s : MSym)
    (fuel : Nat) (hf : Ident f)
    (hroot : Context.get? root f = some (importEntry w.existing ⟨f, pkg ++ '.' :: f⟩))
    (hP : Provides w pkg (pkg ++ '.' :: f) ctxP)
    (hsym : lookupSym ctxP f =
      some (let y := importSymbol ⟨pkg, true⟩ (.rel 1 (some x) f none); .imp y.name y.qual))
    (hX : Provides w (absName ⟨pkg, true⟩ 1 (some x)) (absName ⟨pkg, true⟩ 1 (some x) ++ '.' :: f) ctxX)
    (hs : lookupSym ctxX f = some s) (hd : IsDef s f) :
    resolveCall w (fuel + 2) root f = .viaImport (.found (absName ⟨pkg, true⟩ 1 (some x)) s) := by
  obtain ⟨hdot, _, hrp, _⟩ := hf.notMem
  unfold resolveCall
  rw [callTargetFor_bare root f _ hf hroot rfl]
  simp only [importEntry, if_true]
  have hchain : Chain w f (absName ⟨pkg, true⟩ 1 (some x)) s pkg 2 :=
    .step hP (by simpa [importSymbol] using hsym) (.base hX hs hd)
  rw [C06_reexport_chain w f _ s hf pkg 2 hchain (fuel + 2) (by omega)]

theorem lookupSym_append_miss (ctx : MCtx) (x : MSym) (k : Str) (h : lookupSym ctx k = none) :
    lookupSym (ctx ++ [x]) k = if x.key = k then some x else none := by
  induction ctx with
  | nil => simp [lookupSym]
  | cons a r ih =>
    unfold lookupSym at h
    by_cases hk : a.key = k
    · simp [hk] at h
    · simp only [hk, if_false] at h
      simp [lookupSym, hk, ih h]

theorem lookupSym_append_hit (ctx : MCtx) (x y : MSym) (k : Str) (h : lookupSym ctx k = some y) :
    lookupSym (ctx ++ [x]) k = some y := by
  induction ctx with
  | nil => simp [lookupSym] at h
  | cons a r ih =>
    unfold lookupSym at h
    by_cases hk : a.key = k
    · simp only [hk, if_true] at h; simp [lookupSym, hk, h]
    · simp only [hk, if_false] at h
      simp [lookupSym, hk, ih h]

theorem expandStar_keeps (q : Str) (names : List Str) : ∀ (ctx : MCtx) (k : Str) (y : MSym),
    lookupSym ctx k = some y → lookupSym (expandStar ctx q names) k = some y := by
  induction names with
  | nil => intro ctx k y h; exact h
  | cons n r ih =>
    intro ctx k y h
    unfold expandStar
    split
    · exact ih ctx k y h
    · exact ih _ k y (lookupSym_append_hit ctx _ y k h)

/-- Starred re-export (`pkg/__init__.py: from .x import *`): `expand_starred_imports` adds
`Import(f, "<x>.f")` for every declared name `f` of the starred module that is not already visible —
whatever the (hash-seed dependent) order in which the names arrive. -/
theorem C06_star_expansion (q f : Str) (hf : '*' ∉ f) (names : List Str) : ∀ (ctx : MCtx),
    f ∈ names → lookupSym ctx f = none →
    lookupSym (expandStar ctx q names) f = some (.imp f (q ++ '.' :: f)) := by
  have hstar : f ≠ ['*'] := by intro e; exact hf (by rw [e]; simp)
  have hkey : ∀ n, n ≠ f → (MSym.imp n (q ++ '.' :: n)).key ≠ f := by
    intro n hn
    simp only [MSym.key, ISym.id]
    split
    · intro e
      exact hf (by rw [← e]; simp)
    · exact hn
  induction names with
  | nil => intro ctx h; simp at h
  | cons n r ih =>
    intro ctx hmem hnone
    unfold expandStar
    by_cases hn : n = f
    · subst hn
      simp only [hnone, Option.isSome_none, Bool.false_eq_true, if_false]
      apply expandStar_keeps
      rw [lookupSym_append_miss ctx _ n hnone]
      simp [MSym.key, ISym.id, hstar]
    · have hmem' : f ∈ r := by
        rcases List.mem_cons.mp hmem with h | h
        · exact absurd h.symm hn
        · exact h
      split
      · exact ih ctx hmem' hnone
      · apply ih _ hmem'
        rw [lookupSym_append_miss ctx _ f hnone]
        simp [hkey n hn]

/-- `from pkg import f` where `pkg/__init__` got `f` from a starred import of `q`, and `q` defines
`f`: resolved to `q`'s definition. -/
theorem C06_star_reexport (w : World) (pkg q f : Str) (ctx0 ctxQ : MCtx) (names : List Str) (s : MSym)
    (fuel : Nat) (hf : Ident f) (hmem : f ∈ names) (hfresh : lookupSym ctx0 f = none)
    (hP : Provides w pkg (pkg ++ '.' :: f) (expandStar ctx0 q names))
    (hQ : Provides w q (q ++ '.' :: f) ctxQ) (hs : lookupSym ctxQ f = some s) (hd : IsDef s f) :
    resolveImport w (fuel + 2) ⟨f, pkg ++ '.' :: f⟩ = .found q s := by
  have hchain : Chain w f q s pkg 2 :=
    .step hP (C06_star_expansion q f (hf.ne '*' (by decide)) names ctx0 hmem hfresh) (.base hQ hs hd)
  exact C06_reexport_chain w f q s hf pkg 2 hchain (fuel + 2) (by omega)

/-! ### Termination and fuel-independence -/

/-- More fuel never changes an answer that was reached. -/
theorem C06_fuel_mono (w : World) : ∀ (fuel : Nat) (t : ISym), resolveImport w fuel t ≠ .recursionError →
    ∀ fuel', fuel ≤ fuel' → resolveImport w fuel' t = resolveImport w fuel t := by
  intro fuel
  induction fuel with
  | zero => intro t h; exact absurd rfl h
  | succ k ih =>
    intro t h fuel' hle
    obtain ⟨k', rfl⟩ : ∃ k', fuel' = k' + 1 := ⟨fuel' - 1, by omega⟩
    rw [resolveImport_succ] at h ⊢
    rw [resolveImport_succ]
    cases hst : step w t with
    | done o => rfl
    | recurse t' =>
      simp only [hst] at h ⊢
      exact ih t' h k' (by omega)

/-- The table is acyclic w.r.t. a ranking of module names: every re-export found by a lookup leads
to a module of strictly smaller rank. -/
def Acyclic (w : World) (rk : Str → Nat) : Prop :=
  ∀ mn ctx ln n q mn', Dict.get? w.irs mn = some ctx → lookupSym ctx ln = some (.imp n q) →
    moduleNameOf w.existing q = some mn' → rk mn' < rk mn

/-- executable criterion for `Acyclic` -/
def acyclicB (w : World) (rk : Str → Nat) : Bool :=
  w.irs.all fun e => e.2.all fun sy =>
    match sy with
    | .imp _ q => match moduleNameOf w.existing q with
      | some mn' => decide (rk mn' < rk e.1)
      | none => true
    | _ => true

theorem dictGet_mem {ν : Type} (d : Dict Str ν) (k : Str) (v : ν) (h : Dict.get? d k = some v) :
    (k, v) ∈ d := by
  induction d with
  | nil => simp [Dict.get?] at h
  | cons e r ih =>
    obtain ⟨k', v'⟩ := e
    unfold Dict.get? at h
    by_cases hk : k' = k
    · simp only [hk, if_true, Option.some.injEq] at h; subst hk; subst h; simp
    · simp only [hk, if_false] at h; exact List.mem_cons_of_mem _ (ih h)

theorem lookupSym_mem (ctx : MCtx) (k : Str) (y : MSym) (h : lookupSym ctx k = some y) : y ∈ ctx := by
  induction ctx with
  | nil => simp [lookupSym] at h
  | cons a r ih =>
    unfold lookupSym at h
    by_cases hk : a.key = k
    · simp only [hk, if_true, Option.some.injEq] at h; subst h; simp
    · simp only [hk, if_false] at h; exact List.mem_cons_of_mem _ (ih h)

theorem acyclic_of_acyclicB (w : World) (rk : Str → Nat) (h : acyclicB w rk = true) : Acyclic w rk := by
  intro mn ctx ln n q mn' hctx hl hq
  unfold acyclicB at h
  have h1 := List.all_eq_true.mp h (mn, ctx) (dictGet_mem _ _ _ hctx)
  have h2 := List.all_eq_true.mp h1 (.imp n q) (lookupSym_mem _ _ _ hl)
  simp only [hq] at h2
  exact of_decide_eq_true h2

/-- On an acyclic table, `resolve_import` does not run out of fuel once the fuel exceeds the rank of
the first module by two. -/
theorem C06_reexport_terminates_rank (w : World) (rk : Str → Nat) (hac : Acyclic w rk) :
    ∀ (fuel : Nat) (t : ISym), (∀ mn, moduleNameOf w.existing t.qual = some mn → rk mn ≤ fuel) →
    resolveImport w (fuel + 2) t ≠ .recursionError := by
  intro fuel
  induction fuel with
  | zero =>
    intro t hrk
    rw [resolveImport_succ]
    cases hst : step w t with
    | done o => exact step_done_ne w t o hst
    | recurse t' =>
      show resolveImport w 1 t' ≠ _
      rw [resolveImport_succ]
      cases hst' : step w t' with
      | done o => exact step_done_ne w t' o hst'
      | recurse t'' =>
        obtain ⟨mn, ctx, ln, hmn, hctx, hl⟩ := step_recurse_inv w t t' hst
        obtain ⟨mn', _, _, hmn', _, _⟩ := step_recurse_inv w t' t'' hst'
        have h1 := hac mn ctx ln _ _ mn' hctx hl hmn'
        have h2 := hrk mn hmn
        omega
  | succ k ih =>
    intro t hrk
    rw [resolveImport_succ]
    cases hst : step w t with
    | done o => exact step_done_ne w t o hst
    | recurse t' =>
      show resolveImport w (k + 2) t' ≠ _
      apply ih
      intro mn' hmn'
      obtain ⟨mn, ctx, ln, hmn, hctx, hl⟩ := step_recurse_inv w t t' hst
      have h1 := hac mn ctx ln _ _ mn' hctx hl hmn'
      have h2 := hrk mn hmn
      omega

/-- Acyclic re-export chains never run out of fuel: with a ranking below the number of modules,
`fuel = number of modules + 1` suffices, and any larger fuel gives the same answer. -/
theorem C06_reexport_terminates (w : World) (rk : Str → Nat) (hac : Acyclic w rk)
    (hb : ∀ mn, rk mn < w.irs.length) (t : ISym) :
    resolveImport w (w.irs.length + 1) t ≠ .recursionError
    ∧ ∀ fuel, w.irs.length + 1 ≤ fuel →
        resolveImport w fuel t = resolveImport w (w.irs.length + 1) t := by
  have hpos : 0 < w.irs.length := Nat.lt_of_le_of_lt (Nat.zero_le _) (hb [])
  obtain ⟨k, hk⟩ : ∃ k, w.irs.length = k + 1 := ⟨w.irs.length - 1, by omega⟩
  have h1 : resolveImport w (w.irs.length + 1) t ≠ .recursionError := by
    rw [hk]
    apply C06_reexport_terminates_rank w rk hac k t
    intro mn _
    have := hb mn
    omega
  exact ⟨h1, fun fuel hle => C06_fuel_mono w _ t h1 fuel hle⟩

/-! ### The call record -/

/-- For a callee that is not a class the record's arguments are the ones written, in the split
version as in the local one (whatever the target symbol is). -/
theorem C06_call_record_function (existing : List Str) (y : ISym) (a : Option Str) (args : List Str)
    (m k : Str) (ms : List Str) :
    callRecordArgs (some (importEntry existing y)) a args = expectedArgs (.obj m k false ms) a args := by
  simp [callRecordArgs, importEntry, expectedArgs]

/-! ### The full statement (false on the pinned tree) -/

/-- rattr's view of a project: every module's context after `compile_root_context` +
`expand_starred_imports` (one level) + the class analysis that registers static methods. -/
def declSyms (p : Project) (m : PyModule) : MCtx :=
  let fid : FileId := { base := m.name, isInit := m.isPkg }
  m.decls.foldl (fun ctx d =>
    match d with
    | .def_ k false _ => if (lookupSym ctx k).isSome then ctx else ctx ++ [.func k true]
    | .def_ k true ms =>
      if (lookupSym ctx k).isSome then ctx
      else ctx ++ [.cls k true] ++ ms.map (fun a => .func (k ++ '.' :: a) true)
    | .imp st =>
      let y := importSymbol fid st
      if y.name = ['*'] then
        match findModule p y.qual with
        | some sm => expandStar ctx y.qual (boundNames sm.decls)
        | none => ctx
      else if (lookupSym ctx y.name).isSome then ctx else ctx ++ [.imp y.name y.qual]) []

def worldOf (p : Project) : World :=
  { existing := p.map (·.name), ignored := [], irs := p.map (fun m => (m.name, declSyms p m)) }

def rootSyms (p : Project) (target : Str) : List ISym :=
  match findModule p target with
  | none => []
  | some m => m.decls.filterMap fun d =>
      match d with
      | .imp st => some (importSymbol { base := m.name, isInit := m.isPkg } st)
      | _ => none

/-- C06 at one spelled call in `target`: if Python binds the callee to the definition `k` of another
module `M`, rattr resolves the call to `(M, k)` (for some fuel) and the call record has the local
call's arguments. -/
def C06_at (p : Project) (target spelled : Str) (assignedTo : Option Str) (args : List Str) : Prop :=
  ∀ v M k, expected p (p.length + 2) target spelled = some v → expectedDef v = some (M, k) → M ≠ target →
    let w := worldOf p
    let root := rootOf w.existing (rootSyms p target)
    (∃ fuel s, resolveCall w fuel root spelled = .viaImport (.found M s) ∧ s.key = k)
    ∧ callRecordArgs (callTargetFor root spelled).1 assignedTo args = expectedArgs v assignedTo args

def C06_full : Prop := ∀ p target spelled assignedTo args, C06_at p target spelled assignedTo args

/-! ### Counterexamples (one per known finding), closed by kernel evaluation -/

private def s (x : String) : Str := x.toList

/-- modules `m` (defines `f`, class `C` with `__init__`, class `H` with static `sm`), `p.m`, `pkg`
(empty `__init__`), `pkg.sub` -/
private def wM : World where
  existing := [s "m", s "p", s "p.m", s "pkg", s "pkg.sub", s "am"]
  ignored := []
  irs := [(s "m", [.func (s "f") true, .cls (s "C") true, .cls (s "H") true, .func (s "H.sm") true]),
          (s "p", []), (s "p.m", [.func (s "f") true]), (s "pkg", []),
          (s "am", [.cls (s "Ham") true, .func (s "Ham.sm") true])]

private def pAlias : Project :=
  [{ name := s "target", isPkg := false, decls := [.imp (.from_ (s "m") (s "f") (some (s "g")))] },
   { name := s "m", isPkg := false, decls := [.def_ (s "f") false []] }]

/-- `from m import f as g; g(a)`: Python binds `g` to `m.f`; rattr derives the local name from the
alias (`g`), does not find it in `m` ⇒ "likely undefined", the call is not followed. -/
theorem C06_cex_alias :
    expected pAlias 4 (s "target") (s "g") = some (.obj (s "m") (s "f") false [])
    ∧ ∀ fuel, resolveCall (worldOf pAlias) (fuel + 1)
        (rootOf (worldOf pAlias).existing (rootSyms pAlias (s "target"))) (s "g")
      = .viaImport (.none_ .likelyUndefined) := by
  refine ⟨by decide, fun fuel => ?_⟩
  have h : (callTargetFor (rootOf (worldOf pAlias).existing (rootSyms pAlias (s "target"))) (s "g")).1
      = some (importEntry (worldOf pAlias).existing ⟨s "g", s "m.f"⟩) := by decide
  unfold resolveCall
  rw [h]
  simp only [importEntry, if_true]
  rw [resolveImport_succ]
  have hst : step (worldOf pAlias) ⟨s "g", s "m.f"⟩ = .done (.none_ .likelyUndefined) := by decide
  rw [hst]

theorem C06_full_false : ¬ C06_full := by
  intro h
  have h1 := h pAlias (s "target") (s "g") none [] (.obj (s "m") (s "f") false []) (s "m") (s "f")
    (by decide) (by decide) (by decide)
  obtain ⟨⟨fuel, sy, hr, _⟩, _⟩ := h1
  cases fuel with
  | zero =>
    have : resolveCall (worldOf pAlias) 0 (rootOf (worldOf pAlias).existing (rootSyms pAlias (s "target"))) (s "g")
        = .viaImport .recursionError := by decide
    rw [this] at hr; cases hr
  | succ k =>
    rw [C06_cex_alias.2 k] at hr; cases hr

/-- `import p.m; p.m.f(a)`: the symbol is keyed `p.m`, the lookup of `p` fails ⇒ "target is a
method", no target at the call site. -/
theorem C06_cex_dotted_import :
    importSymbol ⟨s "target", false⟩ (.plain (s "p.m") none) = ⟨s "p.m", s "p.m"⟩
    ∧ callTargetFor (rootOf wM.existing [⟨s "p.m", s "p.m"⟩]) (s "p.m.f")
      = (none, [mkDiag .info "call-method" (s "p.m.f()")])
    ∧ resolveCall wM 9 (rootOf wM.existing [⟨s "p.m", s "p.m"⟩]) (s "p.m.f") = .noImportTarget none := by
  decide

/-- … whereas `import p; import p.m; p.m.f(a)` is followed. -/
theorem C06_dotted_import_with_parent_test :
    resolveCall wM 9 (rootOf wM.existing [⟨s "p", s "p"⟩, ⟨s "p.m", s "p.m"⟩]) (s "p.m.f")
      = .viaImport (.found (s "p.m") (.func (s "f") true)) := by decide

private def wCycle : World where
  existing := [s "a", s "b"]
  ignored := []
  irs := [(s "a", [.imp (s "f") (s "b.f")]), (s "b", [.imp (s "f") (s "a.f")])]

/-- Re-export cycle `a.py: from b import f`, `b.py: from a import f`: the recursion never ends —
out of fuel for EVERY fuel (CPython: RecursionError). -/
theorem C06_cex_cycle : ∀ fuel,
    resolveImport wCycle fuel ⟨s "f", s "a.f"⟩ = .recursionError
    ∧ resolveImport wCycle fuel ⟨s "f", s "b.f"⟩ = .recursionError := by
  intro fuel
  induction fuel with
  | zero => exact ⟨rfl, rfl⟩
  | succ k ih =>
    have ha : resolveImport wCycle (k + 1) ⟨s "f", s "a.f"⟩ = resolveImport wCycle k ⟨s "f", s "b.f"⟩ :=
      resolveImport_step wCycle k _ (s "a") _ [.imp (s "f") (s "b.f")] (s "f") _ _
        (by decide) (by decide) (by decide)
    have hb : resolveImport wCycle (k + 1) ⟨s "f", s "b.f"⟩ = resolveImport wCycle k ⟨s "f", s "a.f"⟩ :=
      resolveImport_step wCycle k _ (s "b") _ [.imp (s "f") (s "a.f")] (s "f") _ _
        (by decide) (by decide) (by decide)
    exact ⟨ha ▸ ih.2, hb ▸ ih.1⟩

/-- `from m import C; x = C(p)`: the target is an `Import` symbol, so the assignment is not a class
assignment and the record lacks the instance argument the local version has (`[x, p]`). -/
theorem C06_cex_imported_class :
    (callTargetFor (rootOf wM.existing [⟨s "C", s "m.C"⟩]) (s "C")).1
      = some (importEntry wM.existing ⟨s "C", s "m.C"⟩)
    ∧ resolveCall wM 9 (rootOf wM.existing [⟨s "C", s "m.C"⟩]) (s "C")
      = .viaImport (.found (s "m") (.cls (s "C") true))
    ∧ callRecordArgs (callTargetFor (rootOf wM.existing [⟨s "C", s "m.C"⟩]) (s "C")).1 (some (s "x")) [s "p"]
      = [s "p"]
    ∧ expectedArgs (.obj (s "m") (s "C") true []) (some (s "x")) [s "p"] = [s "x", s "p"] := by
  decide

/-- `import pkg; pkg.sub.f(a)` where nothing imports `pkg.sub`: the synthesised `Import("sub.f",
"pkg.sub.f")` has module `pkg.sub`, which is not in `import_irs` ⇒ uncaught ImportError. -/
theorem C06_cex_submodule_not_imported :
    resolveCall wM 9 (rootOf wM.existing [⟨s "pkg", s "pkg"⟩]) (s "pkg.sub.f")
      = .viaImport (.importError .notFound) := by decide

/-- … and when `pkg/__init__` does `from . import sub` (so `pkg.sub` IS analysed) the local name is
derived as `sub.f` (the module prefix `pkg.sub.` does not occur in it) ⇒ "it is a method", not followed. -/
theorem C06_cex_submodule_imported :
    resolveCall { wM with irs := wM.irs ++ [(s "pkg.sub", [.func (s "f") true])] } 9
        (rootOf wM.existing [⟨s "pkg", s "pkg"⟩]) (s "pkg.sub.f")
      = .viaImport (.none_ .isMethod) := by decide

/-- `from m import H; H.sm(a)` (static method through an imported class): `H` is not a module, no
target at the call site, silently. -/
theorem C06_cex_static_via_from_import :
    callTargetFor (rootOf wM.existing [⟨s "H", s "m.H"⟩]) (s "H.sm") = (none, [])
    ∧ resolveCall wM 9 (rootOf wM.existing [⟨s "m", s "m"⟩]) (s "m.H.sm")
      = .viaImport (.found (s "m") (.func (s "H.sm") true)) := by decide

/-- `import am; am.Ham.sm(a)`: `str.replace` removes EVERY occurrence of `"am."`, also the one inside
`Ham.sm` ⇒ local name `Hsm` ⇒ "likely undefined". -/
theorem C06_cex_replace_all_occurrences :
    localNameOf (s "Ham.sm") (s "am") = s "Hsm"
    ∧ resolveCall wM 9 (rootOf wM.existing [⟨s "am", s "am"⟩]) (s "am.Ham.sm")
      = .viaImport (.none_ .likelyUndefined) := by decide

/-! ### Non-vacuity: the hypotheses of the theorems are satisfiable by non-trivial inputs -/

private def wOk : World where
  existing := [s "m", s "p", s "p.m", s "pkg", s "pkg.x", s "pkg.y", s "pkg.z"]
  ignored := []
  irs := [(s "m", [.other (s "print"), .func (s "f") true]),
          (s "p.m", [.func (s "f") true]),
          (s "pkg", expandStar [.imp (s "f") (s "pkg.x.f")] (s "pkg.z") [s "print", s "g", s "f"]),  -- = ctxPkg
          (s "pkg.x", [.imp (s "f") (s "pkg.y.f")]),
          (s "pkg.y", [.cls (s "f") true]),
          (s "pkg.z", [.func (s "g") true])]

private def ctxPkg : MCtx := expandStar [.imp (s "f") (s "pkg.x.f")] (s "pkg.z") [s "print", s "g", s "f"]

example : resolveCall wOk 1 (rootOf wOk.existing [⟨s "f", s "m.f"⟩]) (s "f")
    = .viaImport (.found (s "m") (.func (s "f") true)) :=
  C06_from_import wOk _ (s "m") (s "f") [.other (s "print"), .func (s "f") true] _ 0
    (by decide) (by decide) (by decide) (by decide) (.inl rfl)

example : resolveCall wOk 1 (rootOf wOk.existing [⟨s "n", s "p.m"⟩]) (s "n.f")
    = .viaImport (.found (s "p.m") (.func (s "f") true)) :=
  C06_import_as wOk _ (s "p.m") (s "n") (s "f") [.func (s "f") true] _ 0 (by decide) (by decide)
    (by decide) (by decide) (by decide) (by decide) (by decide) (.inl rfl)

/-- a chain of length 3: pkg → pkg.x → pkg.y (class definition) -/
example : Chain wOk (s "f") (s "pkg.y") (.cls (s "f") true) (s "pkg") 3 :=
  .step (M' := s "pkg.x") (ctx := ctxPkg) (by decide) (by decide)
    (.step (M' := s "pkg.y") (ctx := [.imp (s "f") (s "pkg.y.f")]) (by decide) (by decide)
      (.base (ctx := [.cls (s "f") true]) (by decide) (by decide) (.inr rfl)))

/-- starred re-export: `pkg/__init__` got `g` from `from .z import *` -/
example : resolveImport wOk 2 ⟨s "g", s "pkg.g"⟩ = .found (s "pkg.z") (.func (s "g") true) :=
  C06_star_reexport wOk (s "pkg") (s "pkg.z") (s "g") [.imp (s "f") (s "pkg.x.f")] [.func (s "g") true]
    [s "print", s "g", s "f"] _ 0 (by decide) (by decide) (by decide) (by decide) (by decide) (by decide)
    (.inl rfl)

/-- an acyclic table with a ranking below the number of modules -/
private def rkOk (m : Str) : Nat :=
  if m = s "pkg" then 2 else if m = s "pkg.x" then 1 else 0

example : Acyclic wOk rkOk ∧ ∀ mn, rkOk mn < wOk.irs.length :=
  ⟨acyclic_of_acyclicB wOk rkOk (by decide), fun mn => by
    unfold rkOk
    split
    · decide
    · split <;> decide⟩

example : resolveImport wOk (wOk.irs.length + 1) ⟨s "f", s "pkg.f"⟩ = .found (s "pkg.y") (.cls (s "f") true) := by
  decide

end Rattr.C06
